package main

// Rules added after the fourth (unseen) batch of seeded changes: scope extensions of existing rules and
// structural necessary conditions nobody had stated. DESIGN.md §5.3 lists which change motivated which.

import (
	"go/constant"
	"go/token"
	"go/types"
	"sort"
	"strings"

	"golang.org/x/tools/go/ssa"
)

func init() {
	extraRules["C01"] = append(extraRules["C01"], more2StoreThenDelete, more2BackendMaps, more2ChecksumOfWholeObject)
	extraRules["C06"] = append(extraRules["C06"], more2ChecksumOfWholeObject)
	extraRules["C17"] = append(extraRules["C17"], more2CacheWriteBack, more2CallbacksReturnData)
	extraRules["C02"] = append(extraRules["C02"], more2CacheWriteBack, more2QueryRebuild)
	extraRules["C20"] = append(extraRules["C20"], more2CallbacksReturnData, more2NilableDeref, more2LockUpgrade)
	extraRules["C14"] = append(extraRules["C14"], more2EffectTable, more2PolicyDecidesAlone)
	extraRules["C03"] = append(extraRules["C03"], more2EffectTable, more2PolicyDecidesAlone)
	extraRules["C05"] = append(extraRules["C05"], more2NoRemovalBeforeLink, more2ExclusiveCreate)
	extraRules["C11"] = append(extraRules["C11"], more2NoRemovalBeforeLink, more2ExclusiveCreate)
	extraRules["C06"] = append(extraRules["C06"], more2ChecksumTable)
	extraRules["C07"] = append(extraRules["C07"], more2MarkerFilterUnconditional)
	extraRules["C08"] = append(extraRules["C08"], more2MinSizeByPosition)
	extraRules["C09"] = append(extraRules["C09"], more2VersionCopySize)
	extraRules["C10"] = append(extraRules["C10"], more2SkipOnlyNamedCodes)
	extraRules["C13"] = append(extraRules["C13"], more2RangedBodyOwnsFile)
	extraRules["C15"] = append(extraRules["C15"], more2MiddlewareMutations)
	extraRules["C18"] = append(extraRules["C18"], more2NilOnlyWhenEmpty)
	extraRules["C19"] = append(extraRules["C19"], more2EventSwitchTotal)
	extraRules["C16"] = append(extraRules["C16"], more2PageTokenIsLastReturned, more2GrantsKeepMultiplicity)
	extraRules["C18"] = append(extraRules["C18"], more2ProxyClientNoDeadline)
	extraRules["C19"] = append(extraRules["C19"], more2DeliveryConnections)

	extraControls["C01"] = append(extraControls["C01"],
		Control{Name: "self-copy stores the new metadata before deleting the old keys", Rule: "R-C01-6", File: "backend/posix/posix.go",
			Old: "\t\t// Delete the object metadata\n\t\tfor k := range mdmap {\n\t\t\terr := p.meta.DeleteAttribute(dstBucket, dstObject,\n\t\t\t\tfmt.Sprintf(\"%v.%v\", metaHdr, k))\n\t\t\tif err != nil && !errors.Is(err, meta.ErrNoSuchKey) {\n\t\t\t\treturn nil, fmt.Errorf(\"delete user metadata: %w\", err)\n\t\t\t}\n\t\t}\n\t\t// Store the new metadata\n\t\tfor k, v := range input.Metadata {\n\t\t\terr := p.meta.StoreAttribute(nil, dstBucket, dstObject,\n\t\t\t\tfmt.Sprintf(\"%v.%v\", metaHdr, k), []byte(v))\n\t\t\tif err != nil {\n\t\t\t\treturn nil, fmt.Errorf(\"set user attr %q: %w\", k, err)\n\t\t\t}\n\t\t}\n",
			New: "\t\t// Store the new metadata\n\t\tfor k, v := range input.Metadata {\n\t\t\terr := p.meta.StoreAttribute(nil, dstBucket, dstObject,\n\t\t\t\tfmt.Sprintf(\"%v.%v\", metaHdr, k), []byte(v))\n\t\t\tif err != nil {\n\t\t\t\treturn nil, fmt.Errorf(\"set user attr %q: %w\", k, err)\n\t\t\t}\n\t\t}\n\t\t// Delete the object metadata\n\t\tfor k := range mdmap {\n\t\t\terr := p.meta.DeleteAttribute(dstBucket, dstObject,\n\t\t\t\tfmt.Sprintf(\"%v.%v\", metaHdr, k))\n\t\t\tif err != nil && !errors.Is(err, meta.ErrNoSuchKey) {\n\t\t\t\treturn nil, fmt.Errorf(\"delete user metadata: %w\", err)\n\t\t\t}\n\t\t}\n", Expect: "delete-after-store"},
		Control{Name: "posix keeps a per-process cache in a sync.Map field", Rule: "R-C01-1", File: "backend/posix/posix.go",
			Old: "\tforceNoTmpFile bool\n}\n", New: "\tforceNoTmpFile bool\n\tseen           sync.Map\n}\n",
			More: []Edit{{"backend/posix/posix.go", "\t\"strings\"\n\t\"syscall\"\n", "\t\"strings\"\n\t\"sync\"\n\t\"syscall\"\n"},
				{"backend/posix/posix.go", "func (p *Posix) loadObjectMetaData(bucket, object string, fi *os.FileInfo, m map[string]string) objectMetadata {\n", "func (p *Posix) loadObjectMetaData(bucket, object string, fi *os.FileInfo, m map[string]string) objectMetadata {\n\tp.seen.Store(bucket+\"/\"+object, true)\n"}}, Expect: "sync.Map"},
	)
	extraControls["C01"] = append(extraControls["C01"],
		Control{Name: "revert fix b47a675: self-copy checksum taken after Read(nil)", Rule: "R-C01-7", File: "backend/posix/posix.go",
			Old: "\t\t\t\t_, err = io.Copy(io.Discard, hashReader)\n", New: "\t\t\t\t_, err = hashReader.Read(nil)\n", Expect: "CopyObject"},
	)
	extraControls["C17"] = append(extraControls["C17"],
		Control{Name: "cache update modifies a copy and never stores it back", Rule: "R-C17-10", File: "auth/iam_cache.go",
			Old: "\t\titem.exp = time.Now().Add(i.expire)\n\n\t\ti.items[k] = item\n", New: "\t\titem.exp = time.Now().Add(i.expire)\n", Expect: "written-back"},
		Control{Name: "cache update inserts entries that did not exist", Rule: "R-C17-10", File: "auth/iam_cache.go",
			Old: "\titem, found := i.items[k]\n\tif found {\n\t\tupdateAcc(&item.value, props)\n\n\t\t// refresh the expiration date\n\t\titem.exp = time.Now().Add(i.expire)\n\n\t\ti.items[k] = item\n\t}\n", New: "\titem := i.items[k]\n\tupdateAcc(&item.value, props)\n\titem.exp = time.Now().Add(i.expire)\n\ti.items[k] = item\n", Expect: "only-existing"},
		Control{Name: "delete callback returns (nil, nil) for an unknown key", Rule: "R-C17-11", File: "auth/iam_internal.go",
			Old: "\t\tdelete(conf.AccessAccounts, access)\n", New: "\t\tif _, found := conf.AccessAccounts[access]; !found {\n\t\t\treturn nil, nil\n\t\t}\n\t\tdelete(conf.AccessAccounts, access)\n", Expect: "returns-data"},
	)
	extraControls["C02"] = append(extraControls["C02"],
		Control{Name: "presigned request query rebuilt through url.Values.Set", Rule: "R-C02-7", File: "s3api/utils/utils.go",
			Old: "\tisFirst := true\n", New: "\tisFirst := true\n\tcollapsed := url.Values{}\n",
			More: []Edit{{"s3api/utils/utils.go", "\t\t\tescapeValue := url.QueryEscape(string(value))\n", "\t\t\tcollapsed.Set(string(key), string(value))\n\t\t\tescapeValue := url.QueryEscape(collapsed.Get(string(key)))\n"}}, Expect: "no-map"},
	)
	extraControls["C14"] = append(extraControls["C14"],
		Control{Name: "policy effect accepted in any capitalisation", Rule: "R-C14-5", File: "auth/bucket_policy_effect.go",
			Old: "\tswitch bpat {\n\tcase BucketPolicyAccessTypeAllow, BucketPolicyAccessTypeDeny:\n\t\treturn nil\n\t}", New: "\tif strings.EqualFold(string(bpat), string(BucketPolicyAccessTypeAllow)) || strings.EqualFold(string(bpat), string(BucketPolicyAccessTypeDeny)) {\n\t\treturn nil\n\t}",
			More: []Edit{{"auth/bucket_policy_effect.go", "import \"fmt\"\n", "import (\n\t\"fmt\"\n\t\"strings\"\n)\n"}}, Expect: "Validate"},
	)
	extraControls["C03"] = append(extraControls["C03"],
		Control{Name: "a policy denial falls through to the bucket ACL", Rule: "R-C03-7", File: "auth/acl.go",
			Old: "\t} else {\n\t\treturn VerifyBucketPolicy(policy, opts.Acc.Access, opts.Bucket, opts.Object, opts.Action)\n\t}\n", New: "\t} else if VerifyBucketPolicy(policy, opts.Acc.Access, opts.Bucket, opts.Object, opts.Action) == nil {\n\t\treturn nil\n\t}\n", Expect: "policy-decides"},
	)
	extraControls["C05"] = append(extraControls["C05"],
		Control{Name: "PutObject releases the old object before the upload", Rule: "R-C05-5", File: "backend/posix/posix.go",
			Old: "\tf, err := p.openTmpFile(filepath.Join(*po.Bucket, metaTmpDir),\n\t\t*po.Bucket, *po.Key, contentLength, acct, doFalloc, p.forceNoTmpFile)", New: "\tif contentLength > 0 {\n\t\t_ = os.Remove(name)\n\t}\n\tf, err := p.openTmpFile(filepath.Join(*po.Bucket, metaTmpDir),\n\t\t*po.Bucket, *po.Key, contentLength, acct, doFalloc, p.forceNoTmpFile)", Expect: "PutObject"},
		Control{Name: "MoveFile truncates the destination in place", Rule: "R-C05-6", File: "backend/common.go",
			Old: "os.O_CREATE|os.O_EXCL|os.O_WRONLY", New: "os.O_CREATE|os.O_TRUNC|os.O_WRONLY", Expect: "MoveFile"},
	)
	extraControls["C06"] = append(extraControls["C06"],
		Control{Name: "UploadPart's checksum table loses the crc64nvme row", Rule: "R-C06-7", File: "backend/posix/posix.go",
			Old: "\t\t{input.ChecksumCRC64NVME, utils.HashTypeCRC64NVME},\n", New: "", Expect: "UploadPart"},
	)
	extraControls["C07"] = append(extraControls["C07"],
		Control{Name: "delete markers filtered only while versioning is Enabled", Rule: "R-C07-7", File: "backend/posix/posix.go",
			Old: "\t\tisDel, _ := p.isObjDeleteMarker(bucket, path)\n\t\tif isDel {\n\t\t\treturn s3response.Object{}, backend.ErrSkipObj\n\t\t}\n", New: "\t\tif vs, _ := p.getBucketVersioningStatus(context.Background(), bucket); p.isBucketVersioningEnabled(vs) {\n\t\t\tisDel, _ := p.isObjDeleteMarker(bucket, path)\n\t\t\tif isDel {\n\t\t\t\treturn s3response.Object{}, backend.ErrSkipObj\n\t\t\t}\n\t\t}\n", Expect: "fileToObj"},
	)
	extraControls["C08"] = append(extraControls["C08"],
		Control{Name: "minimum part size exemption keyed on the part number", Rule: "R-C08-7", File: "backend/posix/posix.go",
			Old: "\t\tif i < last && fi.Size() < backend.MinPartSize {", New: "\t\tif int(*part.PartNumber) < len(parts) && i <= last && fi.Size() < backend.MinPartSize {", Expect: "by-position"},
	)
	extraControls["C09"] = append(extraControls["C09"],
		Control{Name: "version copy preallocated with the incoming length", Rule: "R-C09-6", File: "backend/posix/posix.go",
			Old: "p.createObjVersion(*po.Bucket, *po.Key, d.Size(), acct)", New: "p.createObjVersion(*po.Bucket, *po.Key, contentLength, acct)", Expect: "size"},
	)
	extraControls["C10"] = append(extraControls["C10"],
		Control{Name: "lock check skips objects on any not-found style error", Rule: "R-C10-9", File: "auth/object_lock.go",
			Old: "\t\tretentionData, err := be.GetObjectRetention(ctx, bucket, key, versionId)\n\t\tif errors.Is(err, s3err.GetAPIError(s3err.ErrNoSuchKey)) {\n\t\t\tcontinue\n\t\t}", New: "\t\tretentionData, err := be.GetObjectRetention(ctx, bucket, key, versionId)\n\t\tif errors.Is(err, s3err.GetAPIError(s3err.ErrNoSuchKey)) || errors.Is(err, s3err.GetAPIError(s3err.ErrInvalidVersionId)) {\n\t\t\tcontinue\n\t\t}", Expect: "skip"},
	)
	extraControls["C13"] = append(extraControls["C13"],
		Control{Name: "ranged body gets a WriteTo that reads the file directly", Rule: "R-C13-7", File: "backend/common.go",
			Old: "func (f *FileSectionReadCloser) Close() error {", New: "func (f *FileSectionReadCloser) WriteTo(w io.Writer) (int64, error) {\n\tif _, err := f.F.Seek(0, io.SeekStart); err != nil {\n\t\treturn 0, err\n\t}\n\treturn io.CopyN(w, f.F, 10)\n}\n\nfunc (f *FileSectionReadCloser) Close() error {", Expect: "WriteTo"},
	)
	extraControls["C15"] = append(extraControls["C15"],
		Control{Name: "AclParser persists the default ACL it substitutes", Rule: "R-C15-6", File: "s3api/middlewares/acl-parser.go",
			Old: "\t\tparsedAcl, err := auth.ParseACL(data)\n", New: "\t\tif len(data) == 0 {\n\t\t\t_ = be.PutBucketAcl(ctx.Context(), bucket, data)\n\t\t}\n\t\tparsedAcl, err := auth.ParseACL(data)\n", Expect: "PutBucketAcl"},
	)
	extraControls["C18"] = append(extraControls["C18"],
		Control{Name: "proxy drops start-after whenever a token is forwarded", Rule: "R-C18-8", File: "backend/s3proxy/s3.go",
			Old: "\tif input.StartAfter != nil && *input.StartAfter == \"\" {\n\t\tinput.StartAfter = nil\n\t}", New: "\tif input.StartAfter != nil && (*input.StartAfter == \"\" || input.ContinuationToken != nil) {\n\t\tinput.StartAfter = nil\n\t}", Expect: "StartAfter"},
	)
	extraControls["C16"] = append(extraControls["C16"],
		Control{Name: "UpdateACL keeps one grant per grantee", Rule: "R-C16-7", File: "auth/acl.go",
			Old: "\t\t\t\taccess := grt.Grantee.ID\n\t\t\t\tdefaultGrantees = append(defaultGrantees, Grantee{", New: "\t\t\t\taccess := grt.Grantee.ID\n\t\t\t\tif cache[access] {\n\t\t\t\t\tcontinue\n\t\t\t\t}\n\t\t\t\tdefaultGrantees = append(defaultGrantees, Grantee{", Expect: "UpdateACL"},
	)
	extraControls["C18"] = append(extraControls["C18"],
		Control{Name: "proxy HTTP client gets a whole-exchange timeout", Rule: "R-C18-9", File: "backend/s3proxy/client.go",
			Old: "\tclient := &http.Client{Transport: tr}", New: "\tclient := &http.Client{Transport: tr, Timeout: 30 * time.Second}",
			More: []Edit{{"backend/s3proxy/client.go", "\t\"net/http\"\n", "\t\"net/http\"\n\t\"time\"\n"}}, Expect: "Timeout"},
	)
	extraControls["C19"] = append(extraControls["C19"],
		Control{Name: "webhook transport capped at two connections while bodies stay open", Rule: "R-C19-8", File: "s3event/webhook.go",
			Old: "\t\tclient: &http.Client{\n\t\t\tTimeout: 3 * time.Second,\n\t\t},", New: "\t\tclient: &http.Client{\n\t\t\tTimeout: 3 * time.Second,\n\t\t\tTransport: &http.Transport{MaxConnsPerHost: 2},\n\t\t},", Expect: "webhook"},
	)
	extraControls["C20"] = append(extraControls["C20"],
		Control{Name: "CompleteMultipartUpload dereferences TrimEtag's result", Rule: "R-C20-8", File: "backend/posix/posix.go",
			Old: "\t\tif parts[i].ETag == nil || etag != *parts[i].ETag {", New: "\t\tif parts[i].ETag == nil || etag != *backend.TrimEtag(parts[i].ETag) {", Expect: "TrimEtag"},
		Control{Name: "cache lookup deletes the entry while holding the read lock", Rule: "R-C20-9", File: "auth/iam_cache.go",
			Old: "\ti.RLock()\n\tv, ok := i.items[k]\n\ti.RUnlock()\n\tif !ok || !v.exp.After(time.Now()) {\n\t\treturn Account{}, false\n\t}", New: "\ti.RLock()\n\tdefer i.RUnlock()\n\tv, ok := i.items[k]\n\tif !ok || !v.exp.After(time.Now()) {\n\t\tif ok {\n\t\t\ti.Delete(k)\n\t\t}\n\t\treturn Account{}, false\n\t}", Expect: "get"},
	)
}

// ---- R-C01-6: no delete-after-store of the same attribute class --------------------------------------------

func more2StoreThenDelete(p *Program, r *Report) {
	rule := "R-C01-6"
	r.Rule(rule, "replacing user metadata in place deletes before it stores: in posix.CopyObject no DeleteAttribute of a user-metadata key can execute after a StoreAttribute of a user-metadata key of the same object (keys present in both the old and the new set would be written and then removed)", 1)
	f := p.Func(posixP + "CopyObject")
	hdr, _ := pkgConstString(p, "backend/posix", "metaHdr")
	isUserMeta := func(mc metaCall) bool {
		args := mc.call.Common().Args
		keyIdx := len(args) - 1
		if mc.method == "StoreAttribute" {
			keyIdx = len(args) - 2
		}
		for _, rt := range Origins(args[keyIdx], nil) {
			if rt.Kind == "const" && hdr != "" && strings.HasPrefix(strings.Trim(rt.Desc, `"`), hdr) {
				return true
			}
		}
		return false
	}
	// the unit: CopyObject and the functions of its package it still calls (a branch split off into a method
	// that defers, say, is not inlined); the order is judged inside each function that does both
	unit := []*ssa.Function{f}
	inUnit := staticCallees(p, f)
	for _, g := range p.FuncsIn("backend/posix") {
		if g != f && g.Parent() == nil && inUnit[fnName(g)] && !isAnchored(g) {
			unit = append(unit, g)
		}
	}
	var stores, deletes []metaCall
	bad := ""
	for _, g := range unit {
		var st, de []metaCall
		for _, mc := range metaCallsIn(g) {
			if !isUserMeta(mc) {
				continue
			}
			switch mc.method {
			case "StoreAttribute":
				if isNilConst(mc.call.Common().Args[0]) { // by path: the published object itself
					st = append(st, mc)
				}
			case "DeleteAttribute":
				de = append(de, mc)
			}
		}
		for _, d := range de {
			for _, s := range st {
				if mayPrecede(s.call, d.call) {
					bad = p.Pos(d.call.Pos())
				}
			}
		}
		stores = append(stores, st...)
		deletes = append(deletes, de...)
	}
	r.Check(len(deletes) > 0 && len(stores) > 0 && bad == "", rule, fnName(f)+"/user-metadata:delete-after-store", p.Pos(f.Pos()), "old keys are deleted before the new ones are stored", "old user-metadata keys are deleted (at "+bad+") after the new ones were stored on the same object: a key present in both sets is lost although the copy is acknowledged")
}

// ---- R-C01-1 extended: maps hanging off the backend struct -------------------------------------------------

func more2BackendMaps(p *Program, r *Report) {
	n := 0
	for _, pk := range []string{"backend/posix", "backend/scoutfs"} {
		if p.SSAPkg[pk] == nil {
			continue
		}
		for _, f := range p.FuncsIn(pk) {
			if fnName(f) == "backend/posix.New" || fnName(f) == "backend/scoutfs.New" {
				continue
			}
			for _, b := range f.Blocks {
				for _, in := range b.Instrs {
					var base ssa.Value
					what := ""
					switch x := in.(type) {
					case *ssa.MapUpdate:
						base, what = x.Map, "map"
					case ssa.CallInstruction:
						cn := calleeName(x)
						if strings.HasPrefix(cn, "(*sync.Map).") && (strings.HasSuffix(cn, ".Store") || strings.HasSuffix(cn, ".LoadOrStore") || strings.HasSuffix(cn, ".Swap") || strings.HasSuffix(cn, ".CompareAndSwap") || strings.HasSuffix(cn, ".Delete") || strings.HasSuffix(cn, ".LoadAndDelete")) {
							base, what = callRecv(x), "sync.Map"
						}
					}
					if base == nil {
						continue
					}
					onBackend := false
					fld := ""
					for _, rt := range Origins(base, nil) {
						if rt.Kind == "field" {
							if fa, ok := rt.Val.(*ssa.FieldAddr); ok {
								t := typeStr(fa.X.Type())
								if t == "*backend/posix.Posix" || t == "*backend/scoutfs.ScoutFS" {
									onBackend, fld = true, rt.Desc
								}
							}
						}
					}
					// also a direct FieldAddr receiver (sync.Map is used by address)
					if fa, ok := base.(*ssa.FieldAddr); ok {
						t := typeStr(fa.X.Type())
						if t == "*backend/posix.Posix" || t == "*backend/scoutfs.ScoutFS" {
							onBackend, fld = true, fieldName(fa.X.Type(), fa.Field)
						}
					}
					if !onBackend {
						continue
					}
					n++
					r.Viol("R-C01-1", fnName(f)+"/"+what+":"+fld, p.Pos(in.Pos()), "a backend method keeps per-process state in a "+what+" hanging off the backend struct ("+fld+"): another gateway process on the same storage (or this one after a restart) answers differently")
				}
			}
		}
	}
	r.Ok("R-C01-1", "backend-maps-scanned", "-", "map / sync.Map mutations rooted at the backend struct: "+itoa(n))
}

// ---- R-C17-10: the cache updates entries by writing them back, and only entries that exist -----------------

func more2CacheWriteBack(p *Program, r *Report) {
	rule := "R-C17-10"
	r.Rule(rule, "a cache update is stored, and only for entries that exist: (*icache).update looks the entry up with the comma-ok form, modifies the copy only on the found edge, and on every path after the modification stores it back into the map (the map holds struct values: modifying the copy alone changes nothing; inserting on a miss creates accounts with empty fields)", 2)
	f := p.Func("(*auth.icache).update")
	var found []edge
	for _, ce := range condEdgesOf(f) {
		if ex, ok := ce.cond.(*ssa.Extract); ok && ex.Index == 1 {
			if lk, ok := ex.Tuple.(*ssa.Lookup); ok && lk.CommaOk {
				found = append(found, ce.holds)
			}
		}
	}
	var ups []ssa.Instruction
	for _, b := range f.Blocks {
		for _, in := range b.Instrs {
			if mu, ok := in.(*ssa.MapUpdate); ok {
				// the cache's map: a map held in a field (of the receiver)
				for _, rt := range Origins(mu.Map, nil) {
					if rt.Kind == "field" {
						ups = append(ups, in)
						break
					}
				}
			}
		}
	}
	mods := callsTo(f, "auth.updateAcc")
	okBack := len(ups) > 0 && len(mods) > 0
	avoid := map[*ssa.BasicBlock]bool{}
	for _, u := range ups {
		avoid[u.Block()] = true
	}
	for _, m := range mods {
		sameBlockLater := false
		for _, u := range ups {
			if u.Block() == m.Block() && instrIndex(u) > instrIndex(m) {
				sameBlockLater = true
			}
		}
		if sameBlockLater {
			continue
		}
		for _, su := range m.Block().Succs {
			reach := reachableAvoiding(f, su, nil, avoid)
			for _, ret := range returnsOf(f) {
				if reach[ret.Block()] {
					okBack = false
				}
			}
		}
	}
	r.Check(okBack, rule, fnName(f)+"/written-back", p.Pos(f.Pos()), "the modified entry is stored back on every path", "the entry is modified as a local copy and (on some path) never stored back into the map: the cache keeps serving the old secret/role until the entry expires")
	okOnly := len(found) > 0
	if okOnly {
		live := reachable(f, nil, found)
		for _, u := range ups {
			if live[u.Block()] {
				okOnly = false
			}
		}
	}
	r.Check(okOnly, rule, fnName(f)+"/only-existing", p.Pos(f.Pos()), "entries are stored only behind the found edge", "update stores an entry without having found one: a miss inserts an account made of the updated fields only (empty secret or role) that is then served for a full TTL")
}

// ---- R-C17-11: update callbacks return data ----------------------------------------------------------------

func more2CallbacksReturnData(p *Program, r *Report) {
	rule := "R-C17-11"
	r.Rule(rule, "an accepted update always carries the new store content: every callback handed to storeIAM returns non-nil data whenever it returns a nil error (storeIAM has already removed the store file and writes whatever it is given: nil becomes an empty store)", 3)
	n := 0
	for _, f := range p.FuncsIn("auth") {
		for _, c := range callsTo(f, "(*auth.IAMServiceInternal).storeIAM") {
			for _, a := range callArgs(c) {
				for {
					if ct, ok := a.(*ssa.ChangeType); ok {
						a = ct.X
						continue
					}
					break
				}
				var cl *ssa.Function
				switch x := a.(type) {
				case *ssa.MakeClosure:
					cl = x.Fn.(*ssa.Function)
				case *ssa.Function:
					cl = x
				default:
					continue
				}
				n++
				bad := ""
				for _, ret := range returnsOf(cl) {
					if len(ret.Results) != 2 || !isNilConst(ret.Results[1]) {
						continue
					}
					if isNilConst(ret.Results[0]) {
						bad = p.Pos(ret.Pos())
					}
				}
				r.Check(bad == "", rule, fnName(f)+"/callback:returns-data", p.Pos(cl.Pos()), "nil error only together with data", "the update callback returns (nil, nil) at "+bad+": storeIAM writes an empty account store (every account is lost, every later request fails to parse it)")
			}
		}
	}
	if n < 1 {
		broken("R-C17-11: only %d storeIAM callbacks found", n)
	}
}

// ---- R-C02-7: the request that is verified is rebuilt from every query argument occurrence -----------------

func more2QueryRebuild(p *Program, r *Report) {
	rule := "R-C02-7"
	r.Rule(rule, "the request whose signature is checked carries every occurrence of every query argument: the functions that rebuild the request for verification do not collect arguments into a map (url.Values.Set/Add, map assignment): a map keeps one value per name while the handlers read the first occurrence", 2)
	n := 0
	for _, name := range []string{utilsPkg + ".createPresignedHttpRequestFromCtx", utilsPkg + ".createHttpRequestFromCtx"} {
		f := p.FuncOpt(name)
		if f == nil {
			r.Viol(rule, name+"/exists", "", "function not found (anchor drift)")
			continue
		}
		fns := append([]*ssa.Function{f}, f.AnonFuncs...)
		bad := ""
		for _, g := range fns {
			for _, b := range g.Blocks {
				for _, in := range b.Instrs {
					switch x := in.(type) {
					case *ssa.MapUpdate:
						if strings.Contains(typeStr(x.Map.Type()), "map[string]") {
							bad = "map assignment at " + p.Pos(x.Pos())
						}
					case ssa.CallInstruction:
						cn := calleeName(x)
						if cn == "(net/url.Values).Set" || cn == "(net/url.Values).Add" || cn == "(net/url.Values).Del" {
							bad = cn + " at " + p.Pos(x.Pos())
						}
					}
				}
			}
		}
		n++
		r.Check(bad == "", rule, name+"/no-map-of-query-args", p.Pos(f.Pos()), "query arguments are copied occurrence by occurrence", "the rebuilt request collects query arguments in a map ("+bad+"): for a repeated argument the signature is checked over one value while the handler acts on another")
	}
	if n < 2 {
		broken("R-C02-7: request rebuild functions not found")
	}
}

// ---- R-C14-5: what Validate accepts is what the evaluator knows ---------------------------------------------

func more2EffectTable(p *Program, r *Report) {
	rule := "R-C14-5"
	r.Rule(rule, "a stored statement's effect is one the evaluator recognises: BucketPolicyAccessType.Validate accepts by equality with exactly the constants isAllowed switches on (no case folding or trimming), so no statement can be stored that evaluation then silently skips", 1)
	vf := p.Func("(auth.BucketPolicyAccessType).Validate")
	af := p.Func("(*auth.BucketPolicy).isAllowed")
	val := constComparisons(vf)
	ev := map[string]bool{}
	for _, ce := range condEdgesOf(af) {
		if ce.isEqNeq && ce.atoms["field:Effect"] {
			for a := range ce.atoms {
				if strings.HasPrefix(a, `const:"`) {
					ev[strings.Trim(strings.TrimPrefix(a, "const:"), `"`)] = true
				}
			}
		}
	}
	folds := ""
	for _, c := range callsIn(vf) {
		cn := calleeName(c)
		if strings.HasPrefix(cn, "strings.") || strings.HasPrefix(cn, "unicode.") || strings.HasPrefix(cn, "regexp.") {
			folds = cn
		}
	}
	same := len(val) > 0 && len(val) == len(ev)
	for k := range val {
		if !ev[k] {
			same = false
		}
	}
	var vs, es []string
	for k := range val {
		vs = append(vs, k)
	}
	for k := range ev {
		es = append(es, k)
	}
	sort.Strings(vs)
	sort.Strings(es)
	r.Check(same && folds == "", rule, fnName(vf)+"/accepts==evaluator-cases", p.Pos(vf.Pos()), "Validate accepts "+strings.Join(vs, ",")+" by equality; isAllowed knows "+strings.Join(es, ","), "Validate accepts effects the evaluator does not recognise (accepted by equality: "+strings.Join(vs, ",")+"; normalising call: "+folds+"; evaluator cases: "+strings.Join(es, ",")+"): a statement stored as \"deny\" is skipped at evaluation and the access it denies is granted")
}

// ---- R-C05-5: nothing of the published object is removed before the new one is linked ----------------------

func more2NoRemovalBeforeLink(p *Program, r *Report) {
	rule := "R-C05-5"
	r.Rule(rule, "an upload leaves the current object alone until it publishes: in every function that opens a temp file and links it, no os.Remove/RemoveAll of a path built from the destination bucket/key and no removal helper of the object's versions (deleteNullVersionIdObject) can execute before link() (an overwrite that fails or is killed mid-body must leave the previous object and its versions)", 1)
	n := 0
	for _, pb := range publishers(p) {
		f := pb.f
		if f.Parent() != nil {
			continue
		}
		if strings.HasSuffix(fnName(f), ".DeleteObject") {
			continue // frozen exemption: removing the addressed version is the operation itself; the link() there promotes the previous version
		}
		// the destination: values the openTmpFile call names as bucket / object
		dest := map[string]bool{}
		for _, o := range pb.opens {
			for _, a := range callArgs(o) {
				if t := typeStr(a.Type()); t != "string" {
					continue
				}
				for _, rt := range terminalRoots(Origins(a, nil)) {
					if rt.Kind == "field" || rt.Kind == "param" {
						dest[rt.Kind+":"+rt.Desc] = true
					}
				}
			}
		}
		delete(dest, "field:Bucket")
		delete(dest, "param:bucket")
		for _, c := range callsIn(f) {
			if _, isCall := c.(*ssa.Call); !isCall {
				continue
			}
			cn := calleeName(c)
			isRm := cn == "os.Remove" || cn == "os.RemoveAll" || strings.HasSuffix(cn, ".deleteNullVersionIdObject")
			if !isRm {
				continue
			}
			onDest := strings.HasSuffix(cn, ".deleteNullVersionIdObject")
			for _, a := range callArgs(c) {
				for _, rt := range terminalRoots(Origins(a, nil)) {
					if dest[rt.Kind+":"+rt.Desc] {
						onDest = true
					}
				}
			}
			if !onDest {
				continue
			}
			before, after := false, false
			for _, l := range pb.links {
				if mayPrecede(c, l) {
					before = true
				}
				if mayPrecede(l, c) {
					after = true
				}
			}
			if !before {
				continue
			}
			// removals that clean up the function's own temp area (multipart parts) after link are not concerned
			_ = after
			// a removal before link is acceptable only after the body was completely received: i.e. after every io.Copy into the temp file
			var copies []ssa.CallInstruction
			for _, cp := range callsTo(f, "io.Copy") {
				for _, rt := range Origins(callArgs(cp)[0], nil) {
					if rt.Kind == "call" && strings.HasSuffix(rt.Desc, ".openTmpFile") {
						copies = append(copies, cp)
					}
				}
			}
			afterCopy := len(copies) > 0
			for _, cp := range copies {
				if !mayPrecede(cp, c) || mayPrecede(c, cp) {
					afterCopy = false
				}
			}
			n++
			short := cn[strings.LastIndex(cn, ".")+1:]
			r.Check(afterCopy, rule, fnName(f)+"/"+short+"#"+itoa(n)+":before-link", p.Pos(c.Pos()), "only after the body was received", short+" removes (a version of) the object being overwritten before the new data was received and linked: a concurrent reader finds the key missing for the whole upload, and a failed or killed upload has destroyed the previous object")
		}
	}
	r.Ok(rule, "publishers-scanned", "-", itoa(n)+" removals before link() examined")
}

// ---- R-C05-6: files are created exclusively, never truncated in place --------------------------------------

func more2ExclusiveCreate(p *Program, r *Report) {
	rule := "R-C05-6"
	r.Rule(rule, "no file of the object namespace is rewritten in place: every os.OpenFile in the backend packages that can create or write (O_CREATE, O_WRONLY, O_RDWR) names O_EXCL and never O_TRUNC, with constant flags (frozen exemptions: sidecar attribute files, the named temp file that openMkTemp reopens)", 1)
	// the flag values of the target the program was loaded for (they differ between linux and darwin)
	flag := func(name string, dflt int64) int64 {
		if op := p.SSA.ImportedPackage("os"); op != nil {
			if c, ok := op.Pkg.Scope().Lookup(name).(*types.Const); ok {
				if v, exact := constant.Int64Val(c.Val()); exact {
					return v
				}
			}
		}
		return dflt
	}
	oWRONLY, oRDWR := flag("O_WRONLY", 0x1), flag("O_RDWR", 0x2)
	oCREAT, oEXCL, oTRUNC := flag("O_CREATE", 0x40), flag("O_EXCL", 0x80), flag("O_TRUNC", 0x200)
	n := 0
	for _, pk := range []string{"backend", "backend/posix", "backend/scoutfs"} {
		if p.SSAPkg[pk] == nil {
			continue
		}
		for _, f := range p.FuncsIn(pk) {
			k := 0
			for _, c := range callsTo(f, "os.OpenFile") {
				k++
				fl, ok := constInt(callArgs(c)[1])
				if ok && fl&(oWRONLY|oRDWR|oCREAT|oTRUNC) == 0 {
					continue // read-only open
				}
				n++
				good := ok && fl&oTRUNC == 0 && (fl&oCREAT == 0 || fl&oEXCL != 0)
				r.Check(good, rule, fnName(f)+"/os.OpenFile#"+itoa(k), p.Pos(c.Pos()), "exclusive create, no truncation", "a file is opened for writing with O_TRUNC or created without O_EXCL: the destination is rewritten in place, a reader holding the old object sees it truncated and two overlapping writers fill the same inode")
			}
		}
	}
	if n < 1 {
		broken("R-C05-6: no writing os.OpenFile found in the backend packages (MoveFile's exclusive create expected)")
	}
}

// ---- R-C06-7: every checksum the API can carry is in the verification table ---------------------------------

func more2ChecksumTable(p *Program, r *Report) {
	rule := "R-C06-7"
	r.Rule(rule, "the checksum tables are complete: in posix PutObject and UploadPart the table of (declared checksum, hash type) pairs has a row for every Checksum<ALG> field of the input struct, paired with the hash type of the same algorithm (a missing row means that header is computed but never compared)", 8)
	for _, name := range []string{"PutObject", "UploadPart"} {
		f := p.Func(posixP + name)
		// the input struct: type of the (pointer) parameter after ctx
		var st *types.Struct
		for _, prm := range f.Params[1:] {
			t := prm.Type()
			if pt, ok := t.Underlying().(*types.Pointer); ok {
				t = pt.Elem()
			}
			if s, ok := t.Underlying().(*types.Struct); ok {
				for i := 0; i < s.NumFields(); i++ {
					if strings.HasPrefix(s.Field(i).Name(), "Checksum") {
						st = s
					}
				}
			}
		}
		if st == nil {
			r.Viol(rule, fnName(f)+"/input-struct", p.Pos(f.Pos()), "cannot find the input struct with Checksum fields")
			continue
		}
		// rows: elements of a struct table one field of which is set from a Checksum<ALG> field of the input and
		// another to a constant string (the hash type); neither the row type nor its field names matter
		rows := map[string]string{}
		for _, b := range f.Blocks {
			for _, in := range b.Instrs {
				fa, ok := in.(*ssa.FieldAddr)
				if !ok {
					continue
				}
				fld := ""
				for _, s := range storesTo(fa) {
					for _, rt := range Origins(s.Val, nil) {
						if rt.Kind == "field" && strings.HasPrefix(rt.Desc, "Checksum") {
							fld = rt.Desc
						}
					}
				}
				if fld == "" {
					continue
				}
				// sibling field of the same element holding a constant string
				ht := ""
				if fa.X.Referrers() != nil {
					for _, ref := range *fa.X.Referrers() {
						if fb, ok := ref.(*ssa.FieldAddr); ok && fb != fa && fb.Field != fa.Field {
							for _, s := range storesTo(fb) {
								if cs, ok := constString(s.Val); ok {
									ht = cs
								}
							}
						}
					}
				}
				if ht != "" || rows[fld] == "" {
					rows[fld] = ht
				}
			}
		}
		for i := 0; i < st.NumFields(); i++ {
			fn := st.Field(i).Name()
			if !strings.HasPrefix(fn, "Checksum") || fn == "ChecksumAlgorithm" || fn == "ChecksumType" || fn == "ChecksumMode" {
				continue
			}
			if _, isPtr := st.Field(i).Type().Underlying().(*types.Pointer); !isPtr {
				continue
			}
			alg := strings.ToLower(strings.TrimPrefix(fn, "Checksum"))
			ht, ok := rows[fn]
			r.Check(ok && strings.ToLower(ht) == alg, rule, fnName(f)+"/row:"+fn, p.Pos(f.Pos()), "row ("+fn+", "+ht+")", "the checksum table of "+name+" has no row pairing "+fn+" with its own hash type (found \""+ht+"\"): an upload whose x-amz-checksum-"+alg+" does not match is committed")
		}
	}
}

// ---- R-C07-7: delete markers are filtered whatever the versioning status ------------------------------------

func more2MarkerFilterUnconditional(p *Program, r *Report) {
	rule := "R-C07-7"
	r.Rule(rule, "a key whose current version is a delete marker is never listed: in the listing callback (the function value posix ListObjects/ListObjectsV2 pass to backend.Walk) the delete-marker test is reachable without passing any edge that depends on the bucket's versioning status (markers made while versioning was Enabled remain after it is Suspended)", 1)
	// the subject is found by role: the function value that posix's ListObjects / ListObjectsV2 hand to backend.Walk
	// as the per-entry callback
	outer := p.Func(posixP + "ListObjects")
	var cbs []*ssa.Function
	for _, ln := range []string{"ListObjects", "ListObjectsV2"} {
		lf := p.Func(posixP + ln)
		for _, c := range callsTo(lf, "backend.Walk") {
			for _, a := range callArgs(c) {
				if _, isSig := a.Type().Underlying().(*types.Signature); !isSig {
					continue
				}
				for _, g := range funcValuesOf(a) {
					dup := false
					for _, h := range cbs {
						dup = dup || h == g
					}
					if !dup {
						cbs = append(cbs, g)
					}
				}
			}
		}
	}
	n := 0
	for _, f := range cbs {
		for _, c := range callsTo(f, posixP+"isObjDeleteMarker") {
			n++
			var cut []edge
			for _, ce := range condEdgesOf(f) {
				dep := false
				for a := range ce.atoms {
					if strings.Contains(a, "VersioningEnabled") || strings.Contains(a, "VersioningStatus") || strings.Contains(a, "versioningEnabled") || a == "const:\"Enabled\"" {
						dep = true
					}
				}
				// a captured flag computed from the status in the outer function
				if u, ok := ce.cond.(*ssa.UnOp); ok {
					if fv, ok := u.X.(*ssa.FreeVar); ok {
						for _, rt := range Origins(fv, nil) {
							if rt.Kind == "call" && (strings.Contains(rt.Desc, "Versioning") || strings.Contains(rt.Desc, "versioning")) {
								dep = true
							}
						}
					}
				}
				if fv, ok := ce.cond.(*ssa.FreeVar); ok {
					for _, rt := range Origins(fv, nil) {
						if rt.Kind == "call" && (strings.Contains(rt.Desc, "Versioning") || strings.Contains(rt.Desc, "versioning")) {
							dep = true
						}
					}
				}
				if dep {
					cut = append(cut, ce.holds, ce.fails)
				}
			}
			r.Check(reachable(f, nil, cut)[c.Block()], rule, fnName(f)+"/isObjDeleteMarker#"+itoa(n), p.Pos(c.Pos()), "tested for every entry", "the delete-marker test depends on the bucket's versioning status: after versioning is suspended, keys whose current version is a delete marker are listed with the deleted data's size and ETag")
		}
	}
	if n == 0 {
		r.Viol(rule, fnName(outer)+"/isObjDeleteMarker", p.Pos(outer.Pos()), "the listing callback no longer filters delete markers")
	}
}

// ---- R-C08-7: the only part exempt from the minimum size is the last listed one ----------------------------

func more2MinSizeByPosition(p *Program, r *Report) {
	rule := "R-C08-7"
	r.Rule(rule, "the minimum part size is waived by list position only: in every CompleteMultipartUpload the test that lets a small part through compares the loop index with len(parts)-1; no operand of that exemption comes from the part number (with sparse numbering part numbers say nothing about being last)", 1)
	completes := []string{posixP + "CompleteMultipartUpload"}
	if p.SSAPkg["backend/scoutfs"] != nil {
		completes = append(completes, "(*backend/scoutfs.ScoutFS).CompleteMultipartUpload")
	}
	for _, name := range completes {
		f := p.Func(name)
		// the min-size comparison
		var minCE *condEdge
		for _, ce := range condEdgesOf(f) {
			if ce.binop == nil {
				continue
			}
			sz, mn := false, false
			for _, side := range []ssa.Value{ce.binop.X, ce.binop.Y} {
				for _, rt := range Origins(side, nil) {
					if rt.Kind == "call" && strings.HasSuffix(rt.Desc, ".Size") {
						sz = true
					}
				}
				if v, ok := constInt(side); ok && v == 5*1024*1024 {
					mn = true
				}
			}
			if sz && mn {
				c := ce
				minCE = &c
			}
		}
		if minCE == nil {
			continue // R-C08-2 reports the missing check
		}
		// exemption tests: ordering comparisons that dominate the min-size test in the same iteration and involve len(parts)
		okPos, bad := false, ""
		for _, ce := range condEdgesOf(f) {
			if ce.binop == nil || ce.isEqNeq {
				continue
			}
			switch ce.binop.Op {
			case token.LSS, token.LEQ, token.GTR, token.GEQ:
			default:
				continue
			}
			if !(ce.atoms["call:len"] || ce.atoms["call:builtin.len"]) {
				continue
			}
			// guards the min-size test?
			if reachable(f, nil, []edge{ce.holds})[minCE.ifi.Block()] && reachable(f, nil, []edge{ce.fails})[minCE.ifi.Block()] {
				continue
			}
			if ce.atoms["field:PartNumber"] {
				bad = p.Pos(ce.pos())
			} else {
				okPos = true
			}
		}
		r.Check(okPos && bad == "", rule, name+"/minsize-exemption:by-position", p.Pos(minCE.pos()), "exemption compares the list index with len(parts)-1", "the exemption from the minimum part size depends on the part number (at "+bad+"): with sparse or shifted numbering an undersized non-final part is accepted and assembled")
	}
}

// ---- R-C09-6: the saved version is preallocated with the size of what is copied -----------------------------

func more2VersionCopySize(p *Program, r *Report) {
	rule := "R-C09-6"
	r.Rule(rule, "a saved version is as long as the object it saves: the size createObjVersion preallocates its copy with is, at every call site, the Size() of the stat of the existing object (not the length of the incoming body), and inside createObjVersion that parameter is what openTmpFile receives", 3)
	cf := p.Func(posixP + "createObjVersion")
	// what sizes the copy: the int64 handed to openTmpFile, traced to a parameter of createObjVersion or to a
	// field of a struct parameter
	paramIdx, field := -1, ""
	pidx := func(v ssa.Value) int {
		for i, prm := range cf.Params {
			if v == ssa.Value(prm) {
				return i
			}
		}
		return -1
	}
	var trace func(v ssa.Value, depth int) bool
	trace = func(v ssa.Value, depth int) bool {
		if depth > 6 {
			return false
		}
		switch x := v.(type) {
		case *ssa.Parameter:
			paramIdx = pidx(x)
			return paramIdx >= 0
		case *ssa.Field:
			if trace(x.X, depth+1) {
				field = fieldName(x.X.Type(), x.Field)
				return true
			}
		case *ssa.UnOp:
			if x.Op != token.MUL {
				return false
			}
			switch ad := x.X.(type) {
			case *ssa.FieldAddr:
				if al, ok := ad.X.(*ssa.Alloc); ok {
					for _, st := range storesTo(al) {
						if trace(st.Val, depth+1) {
							field = fieldName(ad.X.Type(), ad.Field)
							return true
						}
					}
				}
				if trace(ad.X, depth+1) { // pointer to struct parameter
					field = fieldName(ad.X.Type(), ad.Field)
					return true
				}
			case *ssa.Alloc:
				for _, st := range storesTo(ad) {
					if trace(st.Val, depth+1) {
						return true
					}
				}
			}
		case *ssa.ChangeType:
			return trace(x.X, depth+1)
		case *ssa.Convert:
			return trace(x.X, depth+1)
		}
		return false
	}
	okIn := false
	for _, c := range callsIn(cf) {
		if !isOpenTmp(c) {
			continue
		}
		for _, a := range callArgs(c) {
			if typeStr(a.Type()) == "int64" && trace(a, 0) {
				okIn = true
			}
		}
	}
	r.Check(okIn, rule, fnName(cf)+"/size->openTmpFile", p.Pos(cf.Pos()), "a size given by the caller sizes the copy", "createObjVersion does not preallocate its copy with a size it is given by its caller")
	if !okIn {
		return
	}
	n := 0
	for _, f := range p.FuncsIn("backend/posix") {
		k := 0
		for _, c := range callsTo(f, posixP+"createObjVersion") {
			k++
			n++
			args := c.Common().Args
			if paramIdx >= len(args) {
				continue
			}
			vals := []ssa.Value{args[paramIdx]}
			if field != "" {
				fs, _ := litFields(args[paramIdx])
				vals = fs[field]
			}
			fromStat := len(vals) > 0
			other := ""
			for _, a := range vals {
				sawSize := false
				for _, rt := range terminalRoots(Origins(a, nil)) {
					if rt.Kind == "call" && strings.HasSuffix(rt.Desc, ".Size") {
						sawSize = true
					} else if rt.Kind != "const" {
						other = rt.String()
					}
				}
				fromStat = fromStat && sawSize
			}
			r.Check(fromStat && other == "", rule, fnName(f)+"/createObjVersion#"+itoa(k)+":size", p.Pos(c.Pos()), "size of the existing object's stat", "the version copy is preallocated with "+other+" instead of the existing object's size: when the new body is longer, the saved version is zero-padded to the new length (GET ?versionId returns more bytes than the version had)")
		}
	}
	if n < 2 {
		broken("R-C09-6: only %d createObjVersion call sites", n)
	}
}

// ---- R-C10-9: objects are skipped only for the named error codes ---------------------------------------------

func more2SkipOnlyNamedCodes(p *Program, r *Report) {
	rule := "R-C10-9"
	r.Rule(rule, "a lock lookup that fails stops the request unless it says 'no such key' / 'no lock configuration': in auth.CheckObjectAccess, from the non-nil error edge of GetObjectRetention / GetObjectLegalHold the loop can only go on through an errors.Is test against ErrNoSuchKey or ErrNoSuchObjectLockConfiguration (frozen list); any other error code (InvalidVersionId, NoSuchVersion, I/O) fails closed", 2)
	f := p.Func(fnCheckObjAccess)
	allowed := map[string]bool{"ErrNoSuchKey": true, "ErrNoSuchObjectLockConfiguration": true}
	byVal := map[string]string{}
	for nm, v := range pkgConstsOfType(p, "s3err", "ErrorCode") {
		byVal[v] = nm
	}
	n := 0
	for _, c := range callsIn(f) {
		if !isBackendCall(c) {
			continue
		}
		m := c.Common().Method.Name()
		if m != "GetObjectRetention" && m != "GetObjectLegalHold" {
			continue
		}
		n++
		// error-classifying conditions on this call's error: errors.Is(err, GetAPIError(K)) or helper calls taking err
		var errV ssa.Value
		for _, v := range resultValues(c, 1) {
			errV = v
		}
		bad := ""
		for _, ce := range condEdgesOf(f) {
			cc, ok := ce.cond.(*ssa.Call)
			if !ok {
				continue
			}
			usesErr := false
			for _, a := range cc.Call.Args {
				if a == errV {
					usesErr = true
				}
				if ph, ok := a.(*ssa.Phi); ok {
					for _, e := range ph.Edges {
						if e == errV {
							usesErr = true
						}
					}
				}
			}
			if !usesErr {
				continue
			}
			if calleeName(cc) != "errors.Is" {
				bad = "classified by " + calleeName(cc) + " at " + p.Pos(cc.Pos())
				continue
			}
			names, _ := constNamesDeep(p, cc.Call.Args[1])
			for _, nm := range names {
				nm = strings.TrimPrefix(nm, "s3err.")
				if byVal[nm] != "" {
					nm = byVal[nm]
				}
				if !allowed[nm] {
					bad = "errors.Is against " + nm + " at " + p.Pos(cc.Pos())
				}
			}
			if len(names) == 0 {
				bad = "errors.Is against an unresolved error at " + p.Pos(cc.Pos())
			}
		}
		r.Check(bad == "", rule, fnName(f)+"/"+m+":skip-only-named-codes", p.Pos(c.Pos()), "error classified only against ErrNoSuchKey / ErrNoSuchObjectLockConfiguration", "the error of "+m+" is also tolerated when "+bad+": on a gateway without a versioning directory a delete that names any version id gets InvalidVersionId from the lookup, is skipped by the lock check, and removes the locked current object")
	}
	if n < 2 {
		broken("R-C10-9: lock lookups not found in CheckObjectAccess")
	}
}

// constNamesDeep: names of the s3err constants that reach v through GetAPIError(...).
func constNamesDeep(p *Program, v ssa.Value) ([]string, bool) {
	var out []string
	for _, rt := range Origins(v, nil) {
		if rt.Kind == "call" && strings.HasSuffix(rt.Desc, "s3err.GetAPIError") {
			names, _ := constNames(p, callArgs(rt.Call)[0])
			out = append(out, names...)
		}
	}
	if len(out) == 0 {
		return constNames(p, v)
	}
	return out, true
}

// ---- R-C13-7: the file behind a ranged body is read through the section reader only -------------------------

func more2RangedBodyOwnsFile(p *Program, r *Report) {
	rule := "R-C13-7"
	r.Rule(rule, "a ranged body reads the file only through its window: the methods of backend.FileSectionReadCloser touch the underlying *os.File for nothing but Close; every byte goes through the io.SectionReader (an additional Read/Seek/WriteTo path on the file bypasses offset and length, and io.Copy prefers WriteTo)", 2)
	n := 0
	for _, m := range p.Methods("backend", "FileSectionReadCloser") {
		n++
		bad := ""
		for _, c := range callsIn(m) {
			rv := callRecv(c)
			if rv == nil {
				// a function taking the file as argument (io.Copy(w, f.F))
				for _, a := range callArgs(c) {
					for _, rt := range Origins(a, nil) {
						if rt.Kind == "field" && rt.Desc == "F" {
							bad = calleeName(c)
						}
					}
				}
				continue
			}
			onFile := false
			for _, rt := range Origins(rv, nil) {
				if rt.Kind == "field" && rt.Desc == "F" {
					onFile = true
				}
			}
			if onFile && !strings.HasSuffix(calleeName(c), ".Close") {
				bad = calleeName(c)
			}
		}
		short := fnName(m)
		r.Check(bad == "", rule, short+"/file-only-closed", p.Pos(m.Pos()), "the file is only closed here", short[strings.LastIndex(short, ".")+1:]+" uses the file directly ("+bad+"): the bytes sent are not the window [start, start+length) although status, Content-Range and Content-Length describe it")
	}
	if n < 2 {
		broken("R-C13-7: FileSectionReadCloser methods not found")
	}
}

// ---- R-C15-6: middlewares change nothing -------------------------------------------------------------------

func more2MiddlewareMutations(p *Program, r *Report) {
	rule := "R-C15-6"
	r.Rule(rule, "middlewares do not write: no function of s3api/middlewares calls a mutating backend method (T-ACTION 'mutating' rows) or a mutating IAM method; the read-only switch is enforced in the controllers' decisions, which a write made earlier in the chain never reaches (frozen exemption: none)", 1)
	n := 0
	for _, f := range p.FuncsIn(mwPkg) {
		for _, c := range callsIn(f) {
			if !isBackendCall(c) {
				continue
			}
			n++
			m := c.Common().Method.Name()
			row, ok := tAction[m]
			mut := !ok || row.mutating
			r.Check(!mut, rule, fnName(f)+"/"+m, p.Pos(c.Pos()), "read-only backend call", "a middleware calls the mutating backend method "+m+": it runs before (and regardless of) the controllers' read-only decision, so a read-only gateway changes stored state (e.g. persists a default ACL on first contact)")
		}
	}
	if n < 1 {
		broken("R-C15-6: no backend call found in the middlewares (AclParser's GetBucketAcl expected)")
	}
}

// ---- R-C18-8: the proxy drops a forwarded field only when it is empty ---------------------------------------

func more2NilOnlyWhenEmpty(p *Program, r *Report) {
	rule := "R-C18-8"
	r.Rule(rule, "the proxy forwards what it was given: an S3Proxy method sets a field of its input to nil only behind a test of that same field (the empty-string normalisation), never depending on another field", 2)
	n := 0
	for _, m := range p.Methods("backend/s3proxy", "S3Proxy") {
		if len(m.Params) < 3 {
			continue
		}
		in := m.Params[len(m.Params)-1]
		for _, b := range m.Blocks {
			for _, ins := range b.Instrs {
				st, ok := ins.(*ssa.Store)
				if !ok || !isNilConst(st.Val) {
					continue
				}
				fa, ok := st.Addr.(*ssa.FieldAddr)
				if !ok {
					continue
				}
				onInput := false
				for _, rt := range Origins(fa.X, nil) {
					if rt.Kind == "param" && rt.Val == ssa.Value(in) {
						onInput = true
					}
				}
				if !onInput {
					continue
				}
				fld := fieldName(fa.X.Type(), fa.Field)
				n++
				// conditions that decide whether this store executes
				bad := ""
				for _, ce := range condEdgesOf(m) {
					h := reachableFromEdge(m, ce.holds, nil)[b]
					fl := reachableFromEdge(m, ce.fails, nil)[b]
					if h == fl {
						continue // this test cannot prevent (or is not before) the store
					}
					for a := range ce.atoms {
						if strings.HasPrefix(a, "field:") && a != "field:"+fld {
							bad = strings.TrimPrefix(a, "field:")
						}
					}
				}
				r.Check(bad == "", rule, fnName(m)+"/nil:"+fld, p.Pos(st.Pos()), "dropped only when itself empty", fld+" is dropped depending on "+bad+": the proxied endpoint receives a different request than the client sent (e.g. start-after removed whenever a continuation token is present)")
			}
		}
	}
	if n < 2 {
		broken("R-C18-8: only %d nil stores into proxy inputs found", n)
	}
}

// ---- R-C19-7: a switch over event types names them all -------------------------------------------------------

func more2EventSwitchTotal(p *Program, r *Report) {
	rule := "R-C19-7"
	r.Rule(rule, "event types are classified totally: any function of s3event that compares an EventType value against two or more EventType constants (a switch) compares it against every concrete EventType constant of the package; the category of an event is otherwise derived from its name, which cannot miss a member", 1)
	consts := pkgConstsOfType(p, "s3event", "EventType")
	concrete := map[string]bool{}
	for n, v := range consts {
		if !strings.HasSuffix(v, ":*") && v != "" {
			concrete[v] = true
			_ = n
		}
	}
	nSw := 0
	for _, f := range p.FuncsIn("s3event") {
		seen := map[string]bool{}
		for _, ce := range condEdgesOf(f) {
			if !ce.isEqNeq || ce.binop == nil {
				continue
			}
			for _, side := range []ssa.Value{ce.binop.X, ce.binop.Y} {
				if c, ok := side.(*ssa.Const); ok && strings.HasSuffix(typeStr(c.Type()), "s3event.EventType") {
					if s, ok := constString(c); ok && concrete[s] {
						seen[s] = true
					}
				}
			}
		}
		if len(seen) < 2 {
			continue
		}
		nSw++
		var missing []string
		for v := range concrete {
			if !seen[v] {
				missing = append(missing, v)
			}
		}
		sort.Strings(missing)
		r.Check(len(missing) == 0, rule, fnName(f)+"/switch-total", p.Pos(f.Pos()), "all "+itoa(len(concrete))+" event types named", "the switch over event types misses "+strings.Join(missing, ", ")+": a filter that enables the category by wildcard drops the notifications of those events")
	}
	r.Ok(rule, "s3event/switches-scanned", "-", itoa(nSw)+" multi-way comparisons over EventType found; "+itoa(len(concrete))+" concrete event types")
}

// ---- R-C16-6: the continuation token names the last bucket that was returned --------------------------------

func more2PageTokenIsLastReturned(p *Program, r *Report) {
	rule := "R-C16-6"
	r.Rule(rule, "ListBuckets resumes after what it returned: the continuation token of posix.ListBuckets is taken from the result list itself (the last appended entry), not from the directory entry that did not fit (the resume filter skips names <= token, so a token naming an unreturned bucket hides it forever)", 1)
	f := p.Func(posixP + "ListBuckets")
	n := 0
	for _, ret := range returnsOf(f) {
		if len(ret.Results) != 2 || !isNilConst(ret.Results[1]) {
			continue
		}
		fs, al := litFields(ret.Results[0])
		if al == nil {
			continue
		}
		for fld, vs := range fs {
			if fld != "ContinuationToken" {
				continue
			}
			for _, v := range vs {
				if c, ok := v.(*ssa.Const); ok && c.Value != nil {
					continue
				}
				n++
				fromList, fromEntry := false, false
				for _, rt := range deepRoots(v) {
					if rt.Kind == "call" && strings.HasSuffix(rt.Desc, ".Name") {
						fromEntry = true
					}
					if rt.Kind == "field" && rt.Desc == "Name" {
						fromList = true
					}
				}
				r.Check(fromList || !fromEntry, rule, fnName(f)+"/token#"+itoa(n), p.Pos(ret.Pos()), "token read back from the result list", "the continuation token is the name of a directory entry rather than of the last returned bucket: that bucket is never returned on any page")
			}
		}
	}
	if n == 0 {
		r.Ok(rule, fnName(f)+"/token", p.Pos(f.Pos()), "no computed continuation token found")
	}
}

// ---- R-C20-8: results of helpers that can return nil are not dereferenced unchecked --------------------------

func more2NilableDeref(p *Program, r *Report) {
	rule := "R-C20-8"
	r.Rule(rule, "a helper that can return a nil pointer is not dereferenced blindly: for every function of the repository with a single pointer result that returns a literal nil on some path, no call site dereferences the result without a nil test (request-reachable packages)", 1)
	nilable := map[*ssa.Function]bool{}
	for _, pk := range reqPkgs {
		if p.SSAPkg[pk] == nil {
			continue
		}
		for _, f := range p.FuncsIn(pk) {
			if f.Signature.Results().Len() != 1 {
				continue
			}
			if _, ok := f.Signature.Results().At(0).Type().Underlying().(*types.Pointer); !ok {
				continue
			}
			for _, ret := range returnsOf(f) {
				if isNilConst(ret.Results[0]) {
					nilable[f] = true
				}
				if ph, ok := ret.Results[0].(*ssa.Phi); ok {
					for _, e := range ph.Edges {
						if isNilConst(e) {
							nilable[f] = true
						}
					}
				}
			}
		}
	}
	n, sites := 0, 0
	for _, pk := range reqPkgs {
		if p.SSAPkg[pk] == nil {
			continue
		}
		for _, f := range p.FuncsIn(pk) {
			k := 0
			for _, c := range callsIn(f) {
				cal := c.Common().StaticCallee()
				if cal == nil || !nilable[cal] {
					continue
				}
				call, ok := c.(*ssa.Call)
				if !ok || call.Referrers() == nil {
					continue
				}
				sites++
				for _, ref := range *call.Referrers() {
					u, ok := ref.(*ssa.UnOp)
					if !ok || u.Op != token.MUL {
						continue
					}
					k++
					n++
					// guarded by a nil test of this value?
					nonNil := false
					for _, ce := range condEdgesOf(f) {
						if ce.isEqNeq && ce.binop != nil && (ce.binop.X == ssa.Value(call) || ce.binop.Y == ssa.Value(call)) && (isNilConst(ce.binop.X) || isNilConst(ce.binop.Y)) {
							// holds edge = value == nil; the deref must be unreachable once the != nil edge is cut
							if !reachable(f, nil, []edge{ce.fails})[u.Block()] {
								nonNil = true
							}
						}
					}
					short := fnName(cal)
					r.Check(nonNil, rule, fnName(f)+"/*"+short[strings.LastIndex(short, ".")+1:]+"()#"+itoa(k), p.Pos(u.Pos()), "nil-tested before the dereference", "the result of "+short+" is dereferenced without a nil test although that function returns nil on some path (e.g. an empty or quotes-only ETag): the handler panics and, without a recover handler, the process ends")
				}
			}
		}
	}
	r.Ok(rule, "nilable-helpers-scanned", "-", itoa(len(nilable))+" helpers can return nil; "+itoa(sites)+" call sites, "+itoa(n)+" direct dereferences examined")
}

// ---- R-C20-9: no write-lock acquisition while the same mutex is read-held ------------------------------------

func more2LockUpgrade(p *Program, r *Report) {
	rule := "R-C20-9"
	r.Rule(rule, "no goroutine waits for itself: a method that holds the (read or write) lock of its receiver's mutex (Lock/RLock without the matching unlock before the call, or a deferred unlock) does not call a method of the same receiver that acquires that mutex again (sync.Mutex / sync.RWMutex are not re-entrant, and a read lock requested behind a pending writer blocks: the caller waits for itself and every later lock request queues behind it)", 2)
	pkgs := []string{"auth", "backend/posix", "backend/scoutfs", "s3event", "s3log", "metrics", "s3api/utils"}
	isAcquire := func(cn string) bool {
		return cn == "(*sync.RWMutex).Lock" || cn == "(*sync.RWMutex).RLock" || cn == "(*sync.Mutex).Lock"
	}
	isRelease := func(cn string) bool {
		return cn == "(*sync.RWMutex).Unlock" || cn == "(*sync.RWMutex).RUnlock" || cn == "(*sync.Mutex).Unlock"
	}
	// the mutex a lock call operates on, as "field path of the receiver" ("" = the embedded mutex)
	mutexOf := func(c ssa.CallInstruction) string { return descOf(callRecv(c)) }
	acquirers := map[string]map[string]string{} // recv type -> method -> mutex
	for _, pk := range pkgs {
		if p.SSAPkg[pk] == nil {
			continue
		}
		for _, f := range p.FuncsIn(pk) {
			if f.Signature.Recv() == nil {
				continue
			}
			for _, c := range callsIn(f) {
				if isAcquire(calleeName(c)) {
					rt := typeStr(f.Signature.Recv().Type())
					if acquirers[rt] == nil {
						acquirers[rt] = map[string]string{}
					}
					acquirers[rt][fnName(f)] = mutexOf(c)
				}
			}
		}
	}
	n := 0
	for _, pk := range pkgs {
		if p.SSAPkg[pk] == nil {
			continue
		}
		for _, f := range p.FuncsIn(pk) {
			if f.Signature.Recv() == nil {
				continue
			}
			rt := typeStr(f.Signature.Recv().Type())
			var locks, unlocks []ssa.CallInstruction
			deferred := false
			for _, c := range callsIn(f) {
				cn := calleeName(c)
				switch {
				case isAcquire(cn):
					if _, isDefer := c.(*ssa.Defer); !isDefer {
						locks = append(locks, c)
					}
				case isRelease(cn):
					if _, isDefer := c.(*ssa.Defer); isDefer {
						deferred = true
					} else {
						unlocks = append(unlocks, c)
					}
				}
			}
			if len(locks) == 0 {
				continue
			}
			n++
			bad := ""
			for _, c := range callsIn(f) {
				cal := c.Common().StaticCallee()
				if cal == nil {
					continue
				}
				mx, ok := acquirers[rt][fnName(cal)]
				if !ok || cal == f {
					continue
				}
				// same receiver object?
				if rv := callRecv(c); rv == nil || descOf(rv) != descOf(f.Params[0]) {
					continue
				}
				for _, lk := range locks {
					if mutexOf(lk) != mx || !mayPrecede(lk, c) {
						continue
					}
					held := deferred
					if !held {
						avoid := map[*ssa.BasicBlock]bool{}
						for _, ru := range unlocks {
							avoid[ru.Block()] = true
						}
						if lk.Block() == c.Block() {
							held = instrIndex(lk) < instrIndex(c)
							for _, ru := range unlocks {
								if ru.Block() == c.Block() && instrIndex(ru) > instrIndex(lk) && instrIndex(ru) < instrIndex(c) {
									held = false
								}
							}
						} else {
							releasedInLockBlock := false
							for _, ru := range unlocks {
								if ru.Block() == lk.Block() && instrIndex(ru) > instrIndex(lk) {
									releasedInLockBlock = true
								}
							}
							if !releasedInLockBlock {
								for _, su := range lk.Block().Succs {
									if su == c.Block() || reachableAvoiding(f, su, nil, avoid)[c.Block()] {
										// released earlier in the call's own block?
										rel := false
										for _, ru := range unlocks {
											if ru.Block() == c.Block() && instrIndex(ru) < instrIndex(c) {
												rel = true
											}
										}
										if !rel {
											held = true
										}
									}
								}
							}
						}
					}
					if held {
						bad = fnName(cal) + " at " + p.Pos(c.Pos())
					}
				}
			}
			r.Check(bad == "", rule, fnName(f)+"/no-reacquire-under-lock", p.Pos(f.Pos()), "no method that locks the same mutex is called while it is held", "while holding the lock the method calls "+bad+", which acquires the same mutex: the goroutine deadlocks on itself and every later lock request blocks behind it (the gateway stops answering)")
		}
	}
	if n < 2 {
		broken("R-C20-9: only %d locking methods found", n)
	}
}

// ---- R-C03-7: when a policy is set, the policy's verdict is the verdict ------------------------------------

func more2PolicyDecidesAlone(p *Program, r *Report) {
	rule := "R-C03-7"
	r.Rule(rule, "policy when one is set, ACL otherwise: in auth.VerifyAccess, from the edge on which GetBucketPolicy succeeded the ACL check is unreachable and every return hands back VerifyBucketPolicy's result unchanged; the ACL is consulted only through the errors.Is(NoSuchBucketPolicy) edge", 1)
	f := p.Func(fnVerifyAccess)
	var gp ssa.CallInstruction
	for _, c := range callsIn(f) {
		if isBackendCall(c) && c.Common().Method.Name() == "GetBucketPolicy" {
			gp = c
		}
	}
	if gp == nil {
		r.Viol(rule, fnName(f)+"/GetBucketPolicy", p.Pos(f.Pos()), "VerifyAccess no longer reads the bucket policy")
		return
	}
	acl, _ := aclVerdicts(f)
	okEdges, _ := nilTestEdgesCall(gp)
	bad := ""
	if len(okEdges) == 0 || len(acl) == 0 {
		bad = "cannot find the policy-found edge or the ACL check"
	}
	for _, e := range okEdges {
		reach := reachableFromEdge(f, e, nil)
		for _, a := range acl {
			if reach[a.Block()] {
				bad = "the ACL check at " + p.Pos(a.Pos()) + " is reachable although a policy was found"
			}
		}
		for _, s := range errReturnSites(f) {
			if !s.reachedIn(reach) {
				continue
			}
			if s.pred != nil && !reach[s.pred] && s.pred != e.from {
				continue
			}
			fromPolicy := false
			for _, rt := range terminalRoots(Origins(s.val, nil)) {
				if rt.Kind == "call" && rt.Desc == "auth.VerifyBucketPolicy" {
					fromPolicy = true
				}
			}
			if !fromPolicy {
				bad = "the return at " + p.Pos(s.ret.Pos()) + " does not hand back VerifyBucketPolicy's verdict"
			}
		}
	}
	r.Check(bad == "", rule, fnName(f)+"/policy-decides-alone", p.Pos(gp.Pos()), "with a policy present the verdict is the policy's", bad+": a request the policy denies (or does not mention) is granted through an ACL entry, or a policy verdict is overridden")
}

// ---- R-C16-7: an ACL keeps every grant of the request ---------------------------------------------------------

func more2GrantsKeepMultiplicity(p *Program, r *Report) {
	rule := "R-C16-7"
	r.Rule(rule, "a bucket ACL reads back as written: in auth.UpdateACL the append of a grantee to the grant list does not depend on the account de-duplication map (one account may hold several permissions; the map only avoids repeated account lookups)", 1)
	f := p.Func("auth.UpdateACL")
	var cut []edge
	for _, ce := range condEdgesOf(f) {
		dep := false
		var walk func(v ssa.Value, d int)
		walk = func(v ssa.Value, d int) {
			if v == nil || d > 6 {
				return
			}
			switch x := v.(type) {
			case *ssa.Lookup:
				if mt, ok := x.X.Type().Underlying().(*types.Map); ok {
					if b, ok := mt.Elem().Underlying().(*types.Basic); ok && b.Kind() == types.Bool {
						dep = true
					}
				}
			case *ssa.Extract:
				walk(x.Tuple, d+1)
			case *ssa.UnOp:
				walk(x.X, d+1)
			case *ssa.BinOp:
				walk(x.X, d+1)
				walk(x.Y, d+1)
			}
		}
		walk(ce.cond, 0)
		if dep {
			cut = append(cut, ce.holds, ce.fails)
		}
	}
	live := reachable(f, nil, cut)
	n := 0
	for _, c := range callsIn(f) {
		if !isBuiltinCall(c, "append") || !strings.Contains(typeStr(c.Value().Type()), "auth.Grantee") {
			continue
		}
		// only appends of a freshly built grantee (struct literal), not slice merges
		n++
		r.Check(live[c.Block()], rule, fnName(f)+"/append(grantees)#"+itoa(n), p.Pos(c.Pos()), "grant appended whatever the account cache says", "a grant is appended only if its grantee was not seen before: a request that gives one account two permissions (READ and WRITE) is acknowledged but only the first is stored")
	}
	if n == 0 {
		r.Viol(rule, fnName(f)+"/append(grantees)", p.Pos(f.Pos()), "cannot find where grants are collected (anchor drift)")
	}
}

// ---- R-C18-9: the proxy's HTTP client has no whole-exchange deadline ------------------------------------------

func more2ProxyClientNoDeadline(p *Program, r *Report) {
	rule := "R-C18-9"
	r.Rule(rule, "the proxy does not cut long transfers: the http.Client handed to the SDK in backend/s3proxy sets no Timeout (http.Client.Timeout also bounds streaming of request and response bodies, so any transfer longer than it is truncated although the endpoint itself would complete it)", 1)
	n := 0
	for _, f := range p.FuncsIn("backend/s3proxy") {
		fs := clientLiterals(f)
		for i, flds := range fs {
			n++
			_, has := flds["Timeout"]
			r.Check(!has, rule, fnName(f)+"/http.Client#"+itoa(i+1)+":Timeout", p.Pos(f.Pos()), "no whole-exchange timeout", "the SDK's http.Client has a Timeout: a GetObject/PutObject/UploadPart whose body takes longer than that is cut off through the proxy (unexpected EOF) while the same request to the endpoint completes")
		}
	}
	if n == 0 {
		broken("R-C18-9: no http.Client literal found in backend/s3proxy")
	}
}

// clientLiterals: the fields set in each &http.Client{...} literal of f.
func clientLiterals(f *ssa.Function) []map[string][]ssa.Value {
	var out []map[string][]ssa.Value
	for _, b := range f.Blocks {
		for _, in := range b.Instrs {
			al, ok := in.(*ssa.Alloc)
			if !ok || typeStr(al.Type()) != "*net/http.Client" {
				continue
			}
			fs, _ := litFields(al)
			if fs == nil {
				fs = map[string][]ssa.Value{}
			}
			out = append(out, fs)
		}
	}
	return out
}

// ---- R-C19-8: a capped connection pool needs released connections ---------------------------------------------

func more2DeliveryConnections(p *Program, r *Report) {
	rule := "R-C19-8"
	r.Rule(rule, "deliveries do not starve each other: in s3event (and s3log) either the webhook's transport has no per-host connection cap, or every response of client.Do is closed; a capped pool whose connections are only released by the request timeout makes concurrent notifications wait, time out and vanish silently", 1)
	for _, pk := range []string{"s3event", "s3log"} {
		capped := ""
		for _, f := range p.FuncsIn(pk) {
			for _, b := range f.Blocks {
				for _, in := range b.Instrs {
					al, ok := in.(*ssa.Alloc)
					if !ok || typeStr(al.Type()) != "*net/http.Transport" {
						continue
					}
					fs, _ := litFields(al)
					for _, k := range []string{"MaxConnsPerHost"} {
						for _, v := range fs[k] {
							if cv, ok := constInt(v); !ok || cv != 0 {
								capped = p.Pos(al.Pos())
							}
						}
					}
				}
			}
		}
		unclosed := ""
		nDo := 0
		for _, f := range p.FuncsIn(pk) {
			for _, c := range callsIn(f) {
				cn := calleeName(c)
				if cn != "(*net/http.Client).Do" && cn != "(*net/http.Client).Post" && cn != "(*net/http.Client).Get" {
					continue
				}
				nDo++
				closed := false
				for _, v := range resultValues(c, 0) {
					if v.Referrers() == nil {
						continue
					}
					for _, ref := range *v.Referrers() {
						if fa, ok := ref.(*ssa.FieldAddr); ok && fieldName(fa.X.Type(), fa.Field) == "Body" {
							closed = true // Body is touched: closing is checked loosely (any use of Body)
						}
					}
				}
				if !closed {
					unclosed = p.Pos(c.Pos())
				}
			}
		}
		r.Check(capped == "" || unclosed == "", rule, pk+"/webhook-connections", pk, "no connection cap (or bodies closed); "+itoa(nDo)+" deliveries", "the transport at "+capped+" caps connections per host while the response at "+unclosed+" is never closed: each delivery holds its slot until the client timeout, further notifications queue, time out and are dropped without a trace")
	}
}

// ---- R-C01-7: a computed checksum is the checksum of everything that was read -------------------------------

// hashReadersBehind: the utils.NewHashReader calls on the reader chain of v (outermost first).
func hashReadersBehind(v ssa.Value, seen map[ssa.Value]bool, out map[ssa.CallInstruction]bool) {
	if v == nil || seen[v] {
		return
	}
	seen[v] = true
	for _, rt := range Origins(v, &originOpts{extra: map[string][]int{"io.TeeReader": {0}, "io.LimitReader": {0}}}) {
		if rt.Kind == "call" && rt.Call != nil && strings.HasSuffix(rt.Desc, "utils.NewHashReader") {
			out[rt.Call] = true
			hashReadersBehind(callArgs(rt.Call)[0], seen, out)
		}
	}
}

func more2ChecksumOfWholeObject(p *Program, r *Report) {
	rule := "R-C01-7"
	r.Rule(rule, "a checksum the gateway computes covers the whole stream: wherever the posix backend takes Sum() of a utils.HashReader, that reader (or a reader wrapping it) was handed to io.Copy / io.ReadAll before; a single Read call (or none) does not make a checksum of the object", 4)
	n := 0
	for _, f := range p.FuncsIn("backend/posix") {
		k := 0
		for _, s := range callsTo(f, "(*s3api/utils.HashReader).Sum") {
			k++
			n++
			hs := map[ssa.CallInstruction]bool{}
			hashReadersBehind(callRecv(s), map[ssa.Value]bool{}, hs)
			drained := false
			for _, d := range callsTo(f, "io.Copy", "io.ReadAll") {
				src := callArgs(d)[len(callArgs(d))-1]
				ds := map[ssa.CallInstruction]bool{}
				hashReadersBehind(src, map[ssa.Value]bool{}, ds)
				// a reader set later with SetReader: the copy source is the hash reader value itself
				same := descOf(src) == descOf(callRecv(s))
				for h := range hs {
					if ds[h] {
						same = true
					}
				}
				if same && mayPrecede(d, s) {
					drained = true
				}
			}
			r.Check(drained, rule, fnName(f)+"/HashReader.Sum#"+itoa(k), p.Pos(s.Pos()), "the hash reader was copied to its end before Sum()", "Sum() is taken of a hash reader that was never copied to its end (a bare Read, or nothing): the checksum that is stored and reported is that of a prefix or of the empty string, not of the object")
		}
	}
	if n < 4 {
		broken("R-C01-7: only %d HashReader.Sum call sites in backend/posix", n)
	}
}
