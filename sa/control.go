package main

import (
	"fmt"
	"os"
	"path/filepath"
	"runtime/debug"
	"strings"
	"sync"
)

// Control is a negative control: a small edit of the target, applied in memory
// through packages.Config.Overlay, that still type-checks and must make the
// named rule report a violation whose key contains Expect.
type Control struct {
	Name   string
	Rule   string
	File   string // relative to the repo
	Old    string
	New    string
	Expect string
	// More edits in other places of the same or other files (two-site controls).
	More []Edit
}

type Edit struct{ File, Old, New string }

func applyEdits(dir string, c Control) (map[string][]byte, string) {
	ov := map[string][]byte{}
	edits := append([]Edit{{c.File, c.Old, c.New}}, c.More...)
	for _, e := range edits {
		path := filepath.Join(dir, e.File)
		src, ok := ov[path]
		if !ok {
			b, err := os.ReadFile(path)
			if err != nil {
				return nil, "file missing: " + e.File
			}
			src = b
		}
		s := string(src)
		if n := strings.Count(s, e.Old); n != 1 {
			return nil, fmt.Sprintf("old snippet occurs %d times in %s", n, e.File)
		}
		ov[path] = []byte(strings.Replace(s, e.Old, e.New, 1))
	}
	return ov, ""
}

func runControl(id string, c Control, base map[string]bool) (res ControlResult) {
	res = ControlResult{Name: c.Name, Rule: c.Rule, Expected: c.Expect}
	defer func() {
		if e := recover(); e != nil {
			res.Result = "broken"
			res.Detail = fmt.Sprint(e)
		}
	}()
	ov, why := applyEdits(repoDir(), c)
	if ov == nil {
		res.Result, res.Detail = "skipped", why
		return
	}
	p := LoadProgram(repoDir(), ov, "", "")
	defer releaseProgram(p)
	r := NewReport(id, "control")
	r.cur = p.Config
	runProp(id, p, r)
	for _, o := range r.Obligs {
		if o.Status != "ok" && o.Rule == c.Rule && strings.Contains(o.Key, c.Expect) && !base[o.Rule+"\x00"+o.Key+"\x00"+o.Status] {
			res.Result = "fired"
			res.Detail = o.Key + " @ " + o.Pos + ": " + o.Detail
			return
		}
	}
	res.Result = "silent"
	if os.Getenv("VGW_DEBUG") != "" {
		for _, o := range r.Obligs {
			if o.Status != "ok" {
				fmt.Fprintf(os.Stderr, "  [silent control %q] %s %s %s %s\n", c.Name, o.Status, o.Rule, o.Key, o.Detail)
			}
		}
	}
	return
}

func baselineNonOK(id string) map[string]bool {
	p := LoadProgram(repoDir(), nil, "", "")
	defer releaseProgram(p)
	r := NewReport(id, "control")
	r.cur = p.Config
	runProp(id, p, r)
	base := map[string]bool{}
	for _, o := range r.Obligs {
		if o.Status != "ok" {
			base[o.Rule+"\x00"+o.Key+"\x00"+o.Status] = true
		}
	}
	return base
}

func runControls(id string, cs []Control) []ControlResult {
	base := baselineNonOK(id)
	out := make([]ControlResult, len(cs))
	sem := make(chan struct{}, 4)
	var wg sync.WaitGroup
	for i := range cs {
		wg.Add(1)
		go func(i int) {
			defer wg.Done()
			sem <- struct{}{}
			out[i] = runControl(id, cs[i], base)
			<-sem
			debug.FreeOSMemory()
		}(i)
	}
	wg.Wait()
	return out
}

func runSelftest(prop string) int {
	ids := []string{prop}
	if prop == "all" {
		ids = nil
		for id := range registry {
			ids = append(ids, id)
		}
	}
	bad := 0
	for _, id := range ids {
		pc := registry[id]
		if pc == nil || len(controlsOf(id)) == 0 {
			continue
		}
		for _, res := range runControls(id, controlsOf(id)) {
			fmt.Printf("control %s %-8s %s [%s] %s\n", id, res.Result, res.Name, res.Rule, res.Detail)
			if res.Result == "silent" || res.Result == "broken" {
				bad++
			}
		}
	}
	if bad > 0 {
		return 2
	}
	return 0
}
