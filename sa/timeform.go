package main

// E-TIME: direction of comparisons against the clock.
//
// A condition that compares instants or durations is put into the normal form P > 0 where P is a
// signed combination of classes: "now" (values rooted at time.Now / time.Since / time.Until), time
// values named after where they come from (field, parameter, call), and integer operands. After,
// Before, Sub, Unix, Seconds, Add, AddDate and integer +/-/comparison are understood; anything else
// is an opaque class. The rules below only use the *signs* of "now" and of the data instant in P on
// the edge that leads to a verdict, so they are indifferent to how the comparison is written
// (a.After(b), b.Before(a), a.Unix() > b.Unix(), now.Sub(a) > d, a.Add(d).Before(now), ...), but
// report a comparison whose direction is reversed or one side of a two-sided window that is gone.

import (
	"go/token"
	"sort"
	"strings"

	"golang.org/x/tools/go/ssa"
)

type tform map[string]int

func (a tform) add(b tform, sign int) tform {
	r := tform{}
	for k, v := range a {
		r[k] = v
	}
	for k, v := range b {
		r[k] += sign * v
		if r[k] == 0 {
			delete(r, k)
		}
	}
	return r
}

func (a tform) String() string {
	var ks []string
	for k := range a {
		ks = append(ks, k)
	}
	sort.Strings(ks)
	var sb strings.Builder
	for _, k := range ks {
		if a[k] > 0 {
			sb.WriteString("+" + k + " ")
		} else {
			sb.WriteString("-" + k + " ")
		}
	}
	return strings.TrimSpace(sb.String())
}

func isTimeType(v ssa.Value) bool {
	t := typeStr(v.Type())
	return t == "time.Time" || t == "*time.Time"
}

func originClass(prefix string, v ssa.Value) tform {
	out := tform{}
	for _, rt := range terminalRoots(Origins(v, nil)) {
		d := rt.Desc
		switch rt.Kind {
		case "const":
			continue
		case "call":
			if i := strings.LastIndex(d, "."); i >= 0 {
				d = d[i+1:]
			}
		}
		if d == "" {
			d = rt.Kind
		}
		out[prefix+d] = 1
	}
	if len(out) == 0 {
		out[prefix+"const"] = 1
	}
	return out
}

func timeFormOf(v ssa.Value, depth int, seen map[ssa.Value]bool) tform {
	if v == nil || depth > 14 {
		return tform{"?": 1}
	}
	if seen[v] {
		return tform{}
	}
	seen[v] = true
	defer delete(seen, v)
	switch x := v.(type) {
	case *ssa.Const:
		return tform{}
	case *ssa.Call:
		cn := calleeName(x)
		args := x.Call.Args
		switch cn {
		case "time.Now":
			return tform{"now": 1}
		case "time.Since":
			return tform{"now": 1}.add(timeFormOf(args[0], depth+1, seen), -1)
		case "time.Until":
			return timeFormOf(args[0], depth+1, seen).add(tform{"now": 1}, -1)
		case "(time.Time).UTC", "(time.Time).Local", "(time.Time).Round", "(time.Time).Truncate", "(time.Time).In",
			"(time.Time).Unix", "(time.Time).UnixNano", "(time.Time).UnixMilli", "(time.Time).UnixMicro",
			"(time.Duration).Seconds", "(time.Duration).Minutes", "(time.Duration).Hours", "(time.Duration).Milliseconds", "(time.Duration).Nanoseconds":
			return timeFormOf(args[0], depth+1, seen)
		case "(time.Time).Sub":
			return timeFormOf(args[0], depth+1, seen).add(timeFormOf(args[1], depth+1, seen), -1)
		case "(time.Time).Add":
			return timeFormOf(args[0], depth+1, seen).add(timeFormOf(args[1], depth+1, seen), 1)
		case "(time.Time).AddDate":
			f := timeFormOf(args[0], depth+1, seen)
			for _, a := range args[1:] {
				f = f.add(timeFormOf(a, depth+1, seen), 1)
			}
			return f
		}
		if isTimeType(v) {
			return originClass("t:", v)
		}
		return originClass("n:", v)
	case *ssa.BinOp:
		switch x.Op {
		case token.ADD:
			return timeFormOf(x.X, depth+1, seen).add(timeFormOf(x.Y, depth+1, seen), 1)
		case token.SUB:
			return timeFormOf(x.X, depth+1, seen).add(timeFormOf(x.Y, depth+1, seen), -1)
		case token.MUL, token.QUO:
			// scaling by a constant keeps the direction (negative constants do not occur as scale factors here)
			if _, ok := x.Y.(*ssa.Const); ok {
				return timeFormOf(x.X, depth+1, seen)
			}
			if _, ok := x.X.(*ssa.Const); ok {
				return timeFormOf(x.Y, depth+1, seen)
			}
		}
		return originClass("n:", v)
	case *ssa.UnOp:
		if x.Op == token.SUB {
			return tform{}.add(timeFormOf(x.X, depth+1, seen), -1)
		}
		if x.Op == token.MUL { // load
			switch a := x.X.(type) {
			case *ssa.Alloc:
				f := tform{}
				n := 0
				for _, st := range storesTo(a) {
					g := timeFormOf(st.Val, depth+1, seen)
					n++
					for k, c := range g {
						if old, ok := f[k]; ok && (old > 0) != (c > 0) {
							f[k+"(mixed)"] = 1
						} else {
							f[k] = c
						}
					}
				}
				if n > 0 {
					return f
				}
			case *ssa.FieldAddr:
				pre := "n:"
				if isTimeType(v) {
					pre = "t:"
				}
				return tform{pre + fieldName(a.X.Type(), a.Field): 1}
			}
			return timeFormOf(x.X, depth+1, seen)
		}
	case *ssa.Convert:
		return timeFormOf(x.X, depth+1, seen)
	case *ssa.ChangeType:
		return timeFormOf(x.X, depth+1, seen)
	case *ssa.Phi:
		f := tform{}
		for _, e := range x.Edges {
			g := timeFormOf(e, depth+1, seen)
			for k, c := range g {
				if old, ok := f[k]; ok && (old > 0) != (c > 0) {
					f[k+"(mixed)"] = 1
				} else {
					f[k] = c
				}
			}
		}
		return f
	case *ssa.Field:
		pre := "n:"
		if isTimeType(v) {
			pre = "t:"
		}
		return tform{pre + fieldName(x.X.Type(), x.Field): 1}
	case *ssa.FieldAddr:
		return tform{"t:" + fieldName(x.X.Type(), x.Field): 1}
	case *ssa.Parameter:
		pre := "n:"
		if isTimeType(v) {
			pre = "t:"
		}
		return tform{pre + x.Name(): 1}
	case *ssa.Alloc:
		f := tform{}
		for _, st := range storesTo(x) {
			f = f.add(timeFormOf(st.Val, depth+1, seen), 1)
		}
		return f
	}
	if isTimeType(v) {
		return originClass("t:", v)
	}
	return originClass("n:", v)
}

type timeEdge struct {
	e   edge
	P   tform // P > 0 (or >= 0) on this edge
	pos token.Pos
	ifb *ssa.BasicBlock
}

// timeEdgesOf: for every If of f whose condition compares against the clock, the two edges with the
// combination that is positive on each.
func timeEdgesOf(f *ssa.Function) []timeEdge {
	var out []timeEdge
	for _, ce := range condEdgesOf(f) {
		var P tform
		switch c := ce.cond.(type) {
		case *ssa.Call:
			switch calleeName(c) {
			case "(time.Time).After":
				P = timeFormOf(c.Call.Args[0], 0, map[ssa.Value]bool{}).add(timeFormOf(c.Call.Args[1], 0, map[ssa.Value]bool{}), -1)
			case "(time.Time).Before":
				P = timeFormOf(c.Call.Args[1], 0, map[ssa.Value]bool{}).add(timeFormOf(c.Call.Args[0], 0, map[ssa.Value]bool{}), -1)
			}
		case *ssa.BinOp:
			x := timeFormOf(c.X, 0, map[ssa.Value]bool{})
			y := timeFormOf(c.Y, 0, map[ssa.Value]bool{})
			switch c.Op {
			case token.GTR, token.GEQ:
				P = x.add(y, -1)
			case token.LSS, token.LEQ:
				P = y.add(x, -1)
			}
		}
		if P == nil || P["now"] == 0 {
			continue
		}
		out = append(out, timeEdge{e: ce.holds, P: P, pos: ce.pos(), ifb: ce.ifi.Block()})
		out = append(out, timeEdge{e: ce.fails, P: tform{}.add(P, -1), pos: ce.pos(), ifb: ce.ifi.Block()})
	}
	return out
}

// dataSign: the sign with which the (non-clock) instant classes occur in P; 0 if none or mixed.
func (te timeEdge) dataSign() int {
	s := 0
	for k, c := range te.P {
		if !strings.HasPrefix(k, "t:") {
			continue
		}
		cs := 1
		if c < 0 {
			cs = -1
		}
		if s != 0 && s != cs {
			return 0
		}
		s = cs
	}
	return s
}

type timeRule struct {
	prop, rule, key string
	fn              string
	// target: return sites of fn (index sel) chosen by target(); the verdict they carry
	errName string // s3err constant name returned, or "" with okResult
	okTrue  int    // index of a boolean result that must be true (used when errName == "")
	// want: sign of "now" on the edges through which the target may be reached; 0 = two-sided window
	wantNow int
	what    string
}

var timeRules = []timeRule{
	{prop: "C02", fn: "s3api/utils.validateExpiration", errName: "ErrExpiredPresignRequest", wantNow: +1, what: "a presigned URL is refused as expired only when now lies after date+expires"},
	{prop: "C02", fn: "s3api/utils.ValidateDate", errName: "ErrRequestTimeTooSkewed", wantNow: 0, what: "the request date is refused when it is too far in the past and when it is too far in the future"},
	{prop: "C10", fn: "auth.ParseObjectLockRetentionInput", errName: "ErrPastObjectLockRetainDate", wantNow: +1, what: "a retain-until date is refused as past only when now lies after it"},
	{prop: "C10", fn: "s3api/utils.ParsObjectLockHdrs", errName: "ErrPastObjectLockRetainDate", wantNow: +1, what: "a retain-until header is refused as past only when now lies after it"},
	{prop: "C10", fn: "auth.CheckObjectAccess", errName: "ErrObjectLocked", wantNow: -1, what: "retention blocks a deletion while the retain-until date lies after now"},
	{prop: "C17", fn: "(*auth.icache).get", okTrue: 1, wantNow: -1, what: "a cached account is served only while its expiry lies after now"},
}

func runTimeRules(prop, rule string) func(p *Program, r *Report) {
	return func(p *Program, r *Report) {
		r.Rule(rule, "comparisons against the clock point the right way (E-TIME, normal form P>0 over {now, data instant, integers}; indifferent to After/Before/Unix/Sub spelling): the verdict that depends on a date is reachable only through edges on which the clock and the date occur with the required signs; a two-sided window keeps both sides", 1)
		errCodes := pkgConstsOfType(p, "s3err", "ErrorCode")
		n := 0
		for _, tr := range timeRules {
			if tr.prop != prop {
				continue
			}
			f := p.FuncOpt(tr.fn)
			if f == nil {
				r.Viol(rule, tr.fn+"/exists", "", "function "+tr.fn+" not found (anchor drift)")
				continue
			}
			n++
			tes := timeEdgesOf(f)
			// target return sites
			var targets []retSite
			for _, s := range errReturnSites(f) {
				if tr.errName != "" {
					hit := false
					for _, rt := range Origins(s.val, nil) {
						if rt.Kind == "call" && strings.HasSuffix(rt.Desc, "s3err.GetAPIError") {
							if names, _ := constNames(p, callArgs(rt.Call)[0]); len(names) > 0 {
								for _, nm := range names {
									if nm == tr.errName || nm == "s3err."+tr.errName || errCodes[tr.errName] != "" && nm == errCodes[tr.errName] {
										hit = true
									}
								}
							}
						}
					}
					if hit {
						targets = append(targets, s)
					}
				}
			}
			if tr.errName == "" {
				for _, ret := range returnsOf(f) {
					if bv, ok := constBool(ret.Results[tr.okTrue]); ok && bv {
						targets = append(targets, retSite{ret: ret})
					}
				}
			}
			key := tr.fn + "/" + tr.errName
			if tr.errName == "" {
				key = tr.fn + "/found=true"
			}
			if len(targets) == 0 || len(tes) == 0 {
				r.Viol(rule, key+":clock-test", p.Pos(f.Pos()), "no comparison against the clock leads to this verdict any more ("+tr.what+")")
				continue
			}
			isGood := func(te timeEdge) bool {
				nowS := 1
				if te.P["now"] < 0 {
					nowS = -1
				}
				ds := te.dataSign()
				return nowS == tr.wantNow && (ds == 0 || ds == -tr.wantNow)
			}
			if tr.wantNow != 0 {
				// a verdict site is governed by a clock test if cutting one edge of the test makes it unreachable;
				// every edge it needs must have the clock and the date on the required sides
				governed := 0
				wrong, desc := "", ""
				for _, te := range tes {
					for _, t := range targets {
						if siteReachable(f, t, []edge{te.e}) {
							continue
						}
						governed++
						if isGood(te) {
							desc = te.P.String()
						} else {
							wrong = p.Pos(te.pos) + " (" + te.P.String() + " > 0)"
						}
					}
				}
				if governed == 0 {
					r.Viol(rule, key+":governed-by-clock", p.Pos(f.Pos()), "the verdict does not depend on any comparison against the clock ("+tr.what+")")
					continue
				}
				r.Check(wrong == "", rule, key+":direction", p.Pos(f.Pos()), tr.what+" ["+desc+" > 0]", "the verdict needs the edge "+wrong+", i.e. the comparison against the clock is reversed: "+tr.what)
			} else {
				var all []edge
				for _, te := range tes {
					all = append(all, te.e)
				}
				var governed []*ssa.BasicBlock
				for _, t := range targets {
					if !siteReachable(f, t, all) {
						governed = append(governed, t.ret.Block())
					}
				}
				r.Check(len(governed) > 0 && twoSidedDecides(f, tes, governed), rule, key+":both-sides", p.Pos(f.Pos()), tr.what, "only one side of the time window is enforced: "+tr.what)
			}
		}
		if n == 0 {
			broken("%s: no clock rule registered for %s", rule, prop)
		}
	}
}

// twoSidedDecides: there are two distinct clock tests (or one test on an absolute difference) such that
// the verdict is entered directly from an edge with now>0 of one and from an edge with now<0 of another.
func twoSidedDecides(f *ssa.Function, tes []timeEdge, governed []*ssa.BasicBlock) bool {
	direct := func(te timeEdge) bool {
		// the verdict is reachable from this edge without passing another clock test's block
		var cut []edge
		for _, o := range tes {
			if o.ifb != te.ifb {
				cut = append(cut, o.e)
			}
		}
		reach := reachableFromEdge(f, te.e, cut)
		for _, t := range governed {
			if reach[t] {
				return true
			}
		}
		return false
	}
	pos, neg := false, false
	for _, te := range tes {
		if !direct(te) {
			continue
		}
		if te.P["now"] > 0 {
			pos = true
		} else {
			neg = true
		}
	}
	return pos && neg
}
