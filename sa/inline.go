package main

// In-place inlining of "transparent" callees on the go/ssa form.
//
// The rules of this checker are stated on the control-flow graph and value graph of named anchor
// functions. The most common behaviour-preserving edit - extracting a block into a helper function or a
// local closure - moves the constructs a rule looks for out of the anchor. To be indifferent to that, the
// loaded program is normalised before any rule runs: every direct call (not go/defer) to a function of
// the module that no rule names (a "transparent" callee) is replaced by a copy of the callee's body,
// parameters substituted by the arguments, free variables by the closure bindings, returns by jumps to
// the continuation with phis for the results. Functions that any rule mentions by name stay opaque (they
// are anchors: rules analyse them on their own and look for calls to them).
//
// go/ssa offers no transformation API; blocks and instructions carry unexported back pointers. They are
// set through reflect/unsafe here. The rewritten functions are only traversed (never printed,
// re-built or sanity-checked by go/ssa).

import (
	"embed"
	"go/constant"
	"go/scanner"
	"go/token"
	"go/types"
	"os"
	"reflect"
	"regexp"
	"strings"
	"unsafe"

	"golang.org/x/tools/go/ssa"
)

//go:embed *.go
var ownSource embed.FS

// Anchors are taken from this checker's own source: every string literal without blanks is a reference to
// a program entity. A literal that is a lone identifier (possibly with a leading dot), e.g. "verifyACL" or
// ".openTmpFile", anchors every function of that name; a qualified literal, e.g.
// "backend/scoutfs:ScoutFS.loadUserMetaData" or "(*auth.icache).update", anchors the functions whose name
// AND receiver type (or package) it mentions.
var anchorBare, anchorQualified = func() (map[string]bool, map[string][]string) {
	bare := map[string]bool{}
	qual := map[string][]string{} // identifier -> qualified literals mentioning it
	ents, _ := ownSource.ReadDir(".")
	ident := regexp.MustCompile(`[A-Za-z_][A-Za-z0-9_]*`)
	lone := regexp.MustCompile(`^"\.?[A-Za-z_][A-Za-z0-9_]*"$`)
	for _, e := range ents {
		if e.Name() == "inline.go" {
			continue
		}
		b, err := ownSource.ReadFile(e.Name())
		if err != nil {
			continue
		}
		fset := token.NewFileSet()
		file := fset.AddFile(e.Name(), fset.Base(), len(b))
		var sc scanner.Scanner
		sc.Init(file, b, nil, scanner.ScanComments)
		off := false
		prev2, prev1, prevLit := token.ILLEGAL, token.ILLEGAL, ""
		for {
			_, tok, lit := sc.Scan()
			if tok == token.EOF {
				break
			}
			// the fields of a negative control (Name/Expect/Old/New/...) describe edits and report keys, not anchors
			ctl := prev1 == token.COLON && prev2 == token.IDENT && (prevLit == "Expect" || prevLit == "Name" || prevLit == "Old" || prevLit == "New" || prevLit == "Rule" || prevLit == "File")
			if tok == token.IDENT {
				prevLit = lit
			}
			prev2, prev1 = prev1, tok
			if tok == token.COMMENT {
				if strings.HasPrefix(lit, "// anchors:off") {
					off = true
				} else if strings.HasPrefix(lit, "// anchors:on") {
					off = false
				}
				continue
			}
			if tok != token.STRING || ctl || off {
				continue
			}
			if strings.ContainsAny(lit, " \t\n") || len(lit) > 120 {
				continue // prose (messages) and code snippets (controls)
			}
			ids := ident.FindAllString(lit, -1)
			if lone.MatchString(lit) {
				for _, id := range ids {
					bare[id] = true
				}
				continue
			}
			for _, id := range ids {
				qual[id] = append(qual[id], lit)
			}
		}
	}
	return bare, qual
}()

// structuralAnchors: functions that are units of the rules by what they are, whatever they are called.
var structuralAnchors = []func(*ssa.Function) bool{isACLCheckFn, isGlobMatcher}

func isAnchored(g *ssa.Function) bool {
	if _, ok := renamedFns.Load(g); ok {
		return true // stands in for an anchor of the reference tree
	}
	for _, pred := range structuralAnchors {
		if pred(g) {
			return true
		}
	}
	name := g.Name()
	if anchorBare[name] {
		return true
	}
	lits := anchorQualified[name]
	if len(lits) == 0 {
		return false
	}
	owner := ""
	if recv := g.Signature.Recv(); recv != nil {
		t := recv.Type().String()
		t = t[strings.LastIndexAny(t, "./")+1:]
		owner = strings.TrimPrefix(t, "*")
	} else if g.Pkg != nil {
		owner = g.Pkg.Pkg.Name()
	}
	for _, l := range lits {
		if owner == "" || strings.Contains(l, owner) {
			return true
		}
	}
	return false
}

func setUnexported(structPtr any, field string, val any) {
	rv := reflect.ValueOf(structPtr).Elem()
	f := rv.FieldByName(field)
	if !f.IsValid() {
		panic("inline: no field " + field + " in " + rv.Type().String())
	}
	rf := reflect.NewAt(f.Type(), unsafe.Pointer(f.UnsafeAddr())).Elem()
	if val == nil {
		rf.Set(reflect.Zero(f.Type()))
	} else {
		rf.Set(reflect.ValueOf(val))
	}
}

// cloneInstr makes a copy of an instruction whose slices are private and whose referrer list is empty.
func cloneInstr(in ssa.Instruction) ssa.Instruction {
	rv := reflect.ValueOf(in)
	cp := reflect.New(rv.Elem().Type())
	cp.Elem().Set(rv.Elem())
	var fix func(v reflect.Value)
	fix = func(v reflect.Value) {
		for i := 0; i < v.NumField(); i++ {
			f := v.Field(i)
			switch f.Kind() {
			case reflect.Slice:
				if f.IsNil() {
					continue
				}
				w := reflect.NewAt(f.Type(), unsafe.Pointer(f.UnsafeAddr())).Elem()
				if v.Type().Field(i).Name == "referrers" {
					w.Set(reflect.Zero(f.Type()))
					continue
				}
				ns := reflect.MakeSlice(f.Type(), f.Len(), f.Len())
				reflect.Copy(ns, w)
				w.Set(ns)
			case reflect.Struct:
				// embedded register / anInstruction / CallCommon
				fix(f)
			}
		}
	}
	fix(cp.Elem())
	return cp.Interface().(ssa.Instruction)
}

func addReferrer(v ssa.Value, in ssa.Instruction) {
	if v == nil {
		return
	}
	if r := v.Referrers(); r != nil {
		*r = append(*r, in)
	}
}

func removeReferrer(v ssa.Value, in ssa.Instruction) {
	if v == nil {
		return
	}
	if r := v.Referrers(); r != nil {
		out := (*r)[:0:0]
		for _, x := range *r {
			if x != in {
				out = append(out, x)
			}
		}
		*r = out
	}
}

func isTransparent(g *ssa.Function) bool {
	if g == nil || len(g.Blocks) == 0 || g.Synthetic != "" {
		return false
	}
	if g.Pkg == nil || !(g.Pkg.Pkg.Path() == modPath || strings.HasPrefix(g.Pkg.Pkg.Path(), modPath+"/")) {
		return false
	}
	if g.TypeParams().Len() > 0 || len(g.TypeArgs()) > 0 {
		return false
	}
	name := g.Name()
	if g.Parent() != nil {
		// a closure: transparent unless its own (synthetic) name is anchored; closures have names like F$1
		name = ""
	}
	if name != "" && isAnchored(g) {
		return false
	}
	n := 0
	for _, b := range g.Blocks {
		n += len(b.Instrs)
		for _, in := range b.Instrs {
			switch x := in.(type) {
			case *ssa.Select:
				return false
			case *ssa.Call:
				// recover() makes the function's result depend on panics: a unit of its own
				if bi, ok := x.Call.Value.(*ssa.Builtin); ok && bi.Name() == "recover" {
					return false
				}
				// a function that takes a lock is a unit of its own (the lock rules reason about who calls it)
				if cn := calleeName(x); strings.HasPrefix(cn, "(*sync.RWMutex).") || strings.HasPrefix(cn, "(*sync.Mutex).") {
					return false
				}
			}
		}
	}
	return n <= 600
}

type inliner struct {
	inlined map[*ssa.Function]bool
	sites   []inlinedCall
	depth   map[ssa.Instruction]int // provenance depth of cloned call instructions
	stack   map[ssa.Instruction][]*ssa.Function
	count   int
}

const maxInlineDepth = 4

type inlinedCall struct {
	Pos    token.Pos
	Callee *ssa.Function
}

// inlineAll normalises every function of the module packages.
func inlineAll(p *Program) (int, map[*ssa.Function]bool) {
	if os.Getenv("VGW_NOINLINE") != "" {
		return 0, nil
	}
	defer func() {}()
	il := &inliner{depth: map[ssa.Instruction]int{}, stack: map[ssa.Instruction][]*ssa.Function{}, inlined: map[*ssa.Function]bool{}}
	var fns []*ssa.Function
	for _, sp := range p.SSAPkg {
		fns = append(fns, pkgFuncs(p.SSA, sp)...)
	}
	for _, f := range fns {
		if f.Pkg != nil && strings.Contains(f.Pkg.Pkg.Path(), "/tests/") {
			continue // the integration-test driver is not analysed
		}
		il.expand(f)
		for i := 0; i < 50; i++ {
			a := fuseBlocks(f)
			b := threadBoolPhi(f)
			if !a && !b {
				break
			}
		}
	}
	// helpers that were inlined and are referenced nowhere else (no remaining call, not used as a value)
	used := map[*ssa.Function]bool{}
	for _, f := range fns {
		for _, b := range f.Blocks {
			for _, in := range b.Instrs {
				var ops []*ssa.Value
				for _, op := range in.Operands(ops) {
					if g, ok := (*op).(*ssa.Function); ok {
						used[g] = true
					}
					if mc, ok := (*op).(*ssa.MakeClosure); ok {
						if g, ok := mc.Fn.(*ssa.Function); ok {
							used[g] = true
						}
					}
				}
			}
		}
	}
	absorbed := map[*ssa.Function]bool{}
	for g := range il.inlined {
		if !used[g] && g.Parent() == nil {
			absorbed[g] = true
		}
	}
	p.InlinedCalls = il.sites
	return il.count, absorbed
}

func (il *inliner) expand(f *ssa.Function) {
	for budget := 0; budget < 200; budget++ {
		var site *ssa.Call
		total := 0
		for _, b := range f.Blocks {
			total += len(b.Instrs)
		}
		if total > 6000 {
			return
		}
	find:
		for _, b := range f.Blocks {
			for _, in := range b.Instrs {
				c, ok := in.(*ssa.Call)
				if !ok {
					continue
				}
				g, _ := resolveCallee(f, c)
				if g == nil || g == f || !isTransparent(g) {
					continue
				}
				if g.Pkg != f.Pkg {
					continue // package boundaries are API boundaries: helpers born from a refactoring live next to their caller
				}
				if il.depth[c] >= maxInlineDepth {
					continue
				}
				rec := false
				for _, s := range il.stack[c] {
					if s == g {
						rec = true
					}
				}
				if rec {
					continue
				}
				if !il.resultsReplaceable(c, g) {
					continue
				}
				site = c
				break find
			}
		}
		if site == nil {
			return
		}
		il.inlineCall(f, site)
		il.count++
	}
}

// resultsReplaceable: a multi-result call is only used through Extract.
func (il *inliner) resultsReplaceable(c *ssa.Call, g *ssa.Function) bool {
	if g.Signature.Results().Len() <= 1 {
		return true
	}
	if c.Referrers() == nil {
		return true
	}
	for _, r := range *c.Referrers() {
		if _, ok := r.(*ssa.Extract); !ok {
			return false
		}
	}
	return true
}

func (il *inliner) inlineCall(f *ssa.Function, c *ssa.Call) {
	g, bindings := resolveCallee(f, c)
	il.inlined[g] = true
	il.sites = append(il.sites, inlinedCall{c.Pos(), g})
	if os.Getenv("VGW_DEBUG") != "" {
		println("inline:", fnName(g), "into", fnName(f))
	}
	B := c.Block()
	idx := -1
	for i, in := range B.Instrs {
		if in == ssa.Instruction(c) {
			idx = i
		}
	}
	if idx < 0 {
		return
	}
	// value map: params -> args, free vars -> bindings
	vmap := map[ssa.Value]ssa.Value{}
	args := c.Call.Args
	for i, prm := range g.Params {
		if i < len(args) {
			vmap[prm] = args[i]
		}
	}
	for i, fv := range g.FreeVars {
		if i < len(bindings) && bindings[i] != nil {
			vmap[fv] = bindings[i]
		}
	}
	// clone blocks
	bmap := map[*ssa.BasicBlock]*ssa.BasicBlock{}
	var nblocks []*ssa.BasicBlock
	// A callee with deferred calls: its Defer instructions are kept (in the model the deferred calls run when the
	// caller returns, i.e. later than in reality; functions that lock are never inlined, so no lock is believed
	// held longer than it is), its RunDefers and the block entered after a recovered panic are dropped.
	var gblocks []*ssa.BasicBlock
	for _, gb := range g.Blocks {
		if gb == g.Recover {
			continue
		}
		gblocks = append(gblocks, gb)
	}
	for _, gb := range gblocks {
		nb := &ssa.BasicBlock{Comment: "inl:" + g.Name() + ":" + gb.Comment}
		setUnexported(nb, "parent", f)
		bmap[gb] = nb
		nblocks = append(nblocks, nb)
	}
	var clones []ssa.Instruction
	for _, gb := range gblocks {
		nb := bmap[gb]
		for _, in := range gb.Instrs {
			if _, isRD := in.(*ssa.RunDefers); isRD {
				continue
			}
			cl := cloneInstr(in)
			setUnexported(cl, "block", nb)
			if v, ok := in.(ssa.Value); ok {
				vmap[v] = cl.(ssa.Value)
			}
			nb.Instrs = append(nb.Instrs, cl)
			clones = append(clones, cl)
			if cc, ok := in.(*ssa.Call); ok {
				ncl := cl.(*ssa.Call)
				il.depth[ncl] = il.depth[c] + 1
				il.stack[ncl] = append(append([]*ssa.Function{}, il.stack[c]...), g)
				_ = cc
			}
		}
		for _, s := range gb.Succs {
			nb.Succs = append(nb.Succs, bmap[s])
		}
		for _, pr := range gb.Preds {
			nb.Preds = append(nb.Preds, bmap[pr])
		}
	}
	// remap operands of the clones and register them as referrers
	for _, cl := range clones {
		var ops []*ssa.Value
		for _, op := range cl.Operands(ops) {
			if *op == nil {
				continue
			}
			if nv, ok := vmap[*op]; ok {
				*op = nv
			}
			addReferrer(*op, cl)
		}
	}
	// split B: B keeps instrs before the call, B2 gets the rest
	B2 := &ssa.BasicBlock{Comment: "inl.cont:" + g.Name()}
	setUnexported(B2, "parent", f)
	tail := append([]ssa.Instruction{}, B.Instrs[idx+1:]...)
	for _, in := range tail {
		setUnexported(in, "block", B2)
	}
	B2.Instrs = tail
	B2.Succs = B.Succs
	for _, s := range B2.Succs {
		for i, pr := range s.Preds {
			if pr == B {
				s.Preds[i] = B2
			}
		}
	}
	entry := bmap[g.Blocks[0]]
	jmp := &ssa.Jump{}
	setUnexported(jmp, "block", B)
	B.Instrs = append(append([]ssa.Instruction{}, B.Instrs[:idx]...), jmp)
	B.Succs = []*ssa.BasicBlock{entry}
	entry.Preds = []*ssa.BasicBlock{B}
	// the call's operands lose a referrer
	{
		var ops []*ssa.Value
		for _, op := range c.Operands(ops) {
			if *op != nil {
				removeReferrer(*op, c)
			}
		}
	}
	// returns -> jumps to B2, results merged by phis
	nres := g.Signature.Results().Len()
	var retBlocks []*ssa.BasicBlock
	var retVals [][]ssa.Value
	for _, nb := range nblocks {
		if len(nb.Instrs) == 0 {
			continue
		}
		ret, ok := nb.Instrs[len(nb.Instrs)-1].(*ssa.Return)
		if !ok {
			continue
		}
		for _, rv := range ret.Results {
			removeReferrer(rv, ret)
		}
		j := &ssa.Jump{}
		setUnexported(j, "block", nb)
		nb.Instrs[len(nb.Instrs)-1] = j
		nb.Succs = []*ssa.BasicBlock{B2}
		B2.Preds = append(B2.Preds, nb)
		retBlocks = append(retBlocks, nb)
		retVals = append(retVals, ret.Results)
	}
	results := make([]ssa.Value, nres)
	var phis []ssa.Instruction
	for i := 0; i < nres; i++ {
		if len(retBlocks) == 1 {
			results[i] = retVals[0][i]
			continue
		}
		if len(retBlocks) == 0 {
			continue
		}
		phi := &ssa.Phi{Comment: "inl.result"}
		for k := range retBlocks {
			phi.Edges = append(phi.Edges, retVals[k][i])
		}
		setUnexported(phi, "block", B2)
		setUnexported(phi, "typ", g.Signature.Results().At(i).Type())
		setUnexported(phi, "pos", c.Pos())
		for _, e := range phi.Edges {
			addReferrer(e, phi)
		}
		results[i] = phi
		phis = append(phis, phi)
	}
	if len(phis) > 0 {
		B2.Instrs = append(phis, B2.Instrs...)
	}
	// replace the uses of the call's value(s)
	replaceUses := func(old ssa.Value, nv ssa.Value) {
		if old.Referrers() == nil {
			return
		}
		refs := append([]ssa.Instruction{}, *old.Referrers()...)
		for _, r := range refs {
			var ops []*ssa.Value
			for _, op := range r.Operands(ops) {
				if *op == old {
					*op = nv
					addReferrer(nv, r)
				}
			}
		}
		*old.Referrers() = nil
	}
	if nres == 1 && results[0] != nil {
		replaceUses(c, results[0])
	} else if nres > 1 && c.Referrers() != nil {
		for _, r := range append([]ssa.Instruction{}, *c.Referrers()...) {
			ex, ok := r.(*ssa.Extract)
			if !ok {
				continue
			}
			if results[ex.Index] != nil {
				replaceUses(ex, results[ex.Index])
			}
			// drop the Extract from its block
			eb := ex.Block()
			out := eb.Instrs[:0:0]
			for _, in := range eb.Instrs {
				if in != ssa.Instruction(ex) {
					out = append(out, in)
				}
			}
			eb.Instrs = out
		}
	}
	// install the new blocks
	f.Blocks = append(f.Blocks, nblocks...)
	f.Blocks = append(f.Blocks, B2)
	for i, b := range f.Blocks {
		b.Index = i
	}
	_ = token.NoPos
}

// threadBoolPhi rewrites one block of the form [b = phi(bool...); (b' = !b)*; if b'] whose values are used
// nowhere else: every predecessor branches for itself on the value it contributes (a constant contribution
// becomes a jump). This is what `if helper(x)` looks like after the helper `return a || f(y)` was inlined; without
// it the comparison the helper makes is never the condition of a branch. Returns whether something changed.
func threadBoolPhi(f *ssa.Function) bool {
	for _, H := range f.Blocks {
		n := len(H.Instrs)
		if n < 2 || len(H.Succs) != 2 || H.Succs[0] == H.Succs[1] || len(H.Preds) == 0 {
			continue
		}
		ifi, ok := H.Instrs[n-1].(*ssa.If)
		if !ok {
			continue
		}
		phi, ok := H.Instrs[0].(*ssa.Phi)
		if !ok || len(phi.Edges) != len(H.Preds) {
			continue
		}
		if b, isB := phi.Type().Underlying().(*types.Basic); !isB || b.Kind() != types.Bool {
			continue
		}
		// the chain phi -> !phi -> ... -> if
		cur := ssa.Value(phi)
		neg := false
		good := true
		for i := 1; i < n-1; i++ {
			u, isU := H.Instrs[i].(*ssa.UnOp)
			if !isU || u.Op != token.NOT || u.X != cur {
				good = false
				break
			}
			if r := cur.Referrers(); r == nil || len(*r) != 1 {
				good = false
				break
			}
			cur = u
			neg = !neg
		}
		if !good || ifi.Cond != cur {
			continue
		}
		if r := cur.Referrers(); r == nil || len(*r) != 1 {
			continue
		}
		self := false
		for _, p := range H.Preds {
			if p == H {
				self = true
			}
		}
		if self {
			continue
		}
		onTrue, onFalse := H.Succs[0], H.Succs[1]
		if neg {
			onTrue, onFalse = onFalse, onTrue
		}
		// new blocks, one per predecessor edge
		type route struct {
			nb     *ssa.BasicBlock
			toTrue bool
			both   bool
		}
		var routes []route
		for i, P := range H.Preds {
			v := phi.Edges[i]
			nb := &ssa.BasicBlock{Comment: "thread:" + H.Comment}
			setUnexported(nb, "parent", f)
			nb.Preds = []*ssa.BasicBlock{P}
			for k, su := range P.Succs {
				if su == H {
					P.Succs[k] = nb
					break
				}
			}
			removeReferrer(v, phi)
			if c, isC := v.(*ssa.Const); isC && c.Value != nil && c.Value.Kind() == constant.Bool {
				j := &ssa.Jump{}
				setUnexported(j, "block", nb)
				nb.Instrs = []ssa.Instruction{j}
				if constant.BoolVal(c.Value) {
					nb.Succs = []*ssa.BasicBlock{onTrue}
					routes = append(routes, route{nb, true, false})
				} else {
					nb.Succs = []*ssa.BasicBlock{onFalse}
					routes = append(routes, route{nb, false, false})
				}
				continue
			}
			ni := &ssa.If{Cond: v}
			setUnexported(ni, "block", nb)
			addReferrer(v, ni)
			nb.Instrs = []ssa.Instruction{ni}
			nb.Succs = []*ssa.BasicBlock{onTrue, onFalse}
			routes = append(routes, route{nb, true, true})
		}
		// repair the successors' predecessor lists and phis
		for _, S := range []*ssa.BasicBlock{onTrue, onFalse} {
			k := -1
			for i, p := range S.Preds {
				if p == H {
					k = i
				}
			}
			if k < 0 {
				continue
			}
			var add []*ssa.BasicBlock
			for _, rt := range routes {
				if rt.both || (rt.toTrue && S == onTrue) || (!rt.toTrue && S == onFalse) {
					add = append(add, rt.nb)
				}
			}
			np := append([]*ssa.BasicBlock{}, S.Preds[:k]...)
			np = append(np, S.Preds[k+1:]...)
			np = append(np, add...)
			S.Preds = np
			for _, in := range S.Instrs {
				q, isPhi := in.(*ssa.Phi)
				if !isPhi {
					break
				}
				val := q.Edges[k]
				ne := append([]ssa.Value{}, q.Edges[:k]...)
				ne = append(ne, q.Edges[k+1:]...)
				for range add {
					ne = append(ne, val)
				}
				q.Edges = ne
			}
		}
		H.Preds = nil
		H.Succs = nil
		H.Instrs = nil
		// install
		var nbs []*ssa.BasicBlock
		for _, b := range f.Blocks {
			if b != H {
				nbs = append(nbs, b)
			}
		}
		for _, rt := range routes {
			nbs = append(nbs, rt.nb)
		}
		f.Blocks = nbs
		for i, b := range f.Blocks {
			b.Index = i
		}
		return true
	}
	return false
}

// fuseBlocks merges a block that ends in an unconditional jump with its successor when that successor has no
// other predecessor (and no phis): the seams left by inlining disappear. Returns whether something changed.
func fuseBlocks(f *ssa.Function) bool {
	changed := false
	for again := true; again; {
		again = false
		for _, A := range f.Blocks {
			if len(A.Instrs) == 0 || len(A.Succs) != 1 {
				continue
			}
			if _, ok := A.Instrs[len(A.Instrs)-1].(*ssa.Jump); !ok {
				continue
			}
			B := A.Succs[0]
			if B == A || len(B.Preds) != 1 || B.Preds[0] != A || len(B.Instrs) == 0 || B == f.Blocks[0] || B == f.Recover {
				continue
			}
			if _, isPhi := B.Instrs[0].(*ssa.Phi); isPhi {
				continue
			}
			for _, in := range B.Instrs {
				setUnexported(in, "block", A)
			}
			A.Instrs = append(A.Instrs[:len(A.Instrs)-1:len(A.Instrs)-1], B.Instrs...)
			A.Succs = B.Succs
			for _, s := range A.Succs {
				for i, p := range s.Preds {
					if p == B {
						s.Preds[i] = A
					}
				}
			}
			B.Instrs, B.Succs, B.Preds = nil, nil, nil
			var nbs []*ssa.BasicBlock
			for _, b := range f.Blocks {
				if b != B {
					nbs = append(nbs, b)
				}
			}
			f.Blocks = nbs
			for i, b := range f.Blocks {
				b.Index = i
			}
			again, changed = true, true
			break
		}
	}
	return changed
}

// resolveCallee: the function a direct call runs and the values of its free variables at the call: a static
// callee, a function literal called in place, or a function-valued local that is assigned exactly once (also
// when the call sits in another literal that captured that local: `add := func(..){..}; WalkDir(.., func(..){ add(x) })`).
// Free variables of such a callee that the calling literal did not capture itself keep the callee's own FreeVar
// (the rules identify captured variables by name).
func resolveCallee(f *ssa.Function, c *ssa.Call) (*ssa.Function, []ssa.Value) {
	if c.Call.IsInvoke() {
		return nil, nil
	}
	switch v := c.Call.Value.(type) {
	case *ssa.Function:
		return v, nil
	case *ssa.MakeClosure:
		if g, ok := v.Fn.(*ssa.Function); ok {
			return g, v.Bindings
		}
	case *ssa.UnOp:
		if v.Op != token.MUL {
			return nil, nil
		}
		var cell ssa.Value // the cell in the function that owns it
		owner := f
		switch x := v.X.(type) {
		case *ssa.Alloc:
			cell = x
		case *ssa.FreeVar:
			// walk up through the enclosing literals
			cur := f
			var fv ssa.Value = x
			for depth := 0; depth < 4 && cur != nil; depth++ {
				fvar, isFV := fv.(*ssa.FreeVar)
				if !isFV {
					break
				}
				idx := -1
				for i, q := range cur.FreeVars {
					if q == fvar {
						idx = i
					}
				}
				par := cur.Parent()
				if idx < 0 || par == nil {
					return nil, nil
				}
				var bound ssa.Value
				for _, b := range par.Blocks {
					for _, in := range b.Instrs {
						if mc, ok := in.(*ssa.MakeClosure); ok && mc.Fn == cur && idx < len(mc.Bindings) {
							bound = mc.Bindings[idx]
						}
					}
				}
				if bound == nil {
					return nil, nil
				}
				fv = bound
				cur = par
			}
			al, ok := fv.(*ssa.Alloc)
			if !ok {
				return nil, nil
			}
			cell, owner = al, cur
		}
		al, ok := cell.(*ssa.Alloc)
		if !ok || al.Referrers() == nil {
			return nil, nil
		}
		var mc *ssa.MakeClosure
		var fn *ssa.Function
		n := 0
		for _, ref := range *al.Referrers() {
			st, isSt := ref.(*ssa.Store)
			if !isSt || st.Addr != ssa.Value(al) {
				continue
			}
			n++
			val := st.Val
			if ct, isCT := val.(*ssa.ChangeType); isCT {
				val = ct.X
			}
			switch w := val.(type) {
			case *ssa.MakeClosure:
				mc = w
				fn, _ = w.Fn.(*ssa.Function)
			case *ssa.Function:
				fn = w
			}
		}
		if n != 1 || fn == nil {
			return nil, nil
		}
		if mc == nil {
			return fn, nil
		}
		if owner == f {
			return fn, mc.Bindings
		}
		// the callee's bindings live in an enclosing function: use f's own capture of the same variable where it
		// has one, the callee's FreeVar otherwise
		out := make([]ssa.Value, len(mc.Bindings))
		for i, b := range mc.Bindings {
			out[i] = nil
			for k, q := range f.FreeVars {
				if captures(f, k) == b {
					out[i] = q
				}
			}
		}
		return fn, out
	}
	return nil, nil
}

// captures: the value (in the parent) that free variable #k of f is bound to.
func captures(f *ssa.Function, k int) ssa.Value {
	par := f.Parent()
	if par == nil {
		return nil
	}
	for _, b := range par.Blocks {
		for _, in := range b.Instrs {
			if mc, ok := in.(*ssa.MakeClosure); ok && mc.Fn == f && k < len(mc.Bindings) {
				return mc.Bindings[k]
			}
		}
	}
	return nil
}
