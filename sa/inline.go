package main

// In-place inlining of "transparent" callees on the go/ssa form.
//
// The rules of this checker are stated on the control-flow graph and value graph of named anchor
// functions. The most common behaviour-preserving edit - extracting a block into a helper function or a
// local closure - moves the constructs a rule looks for out of the anchor. To be indifferent to that, the
// loaded program is normalised before any rule runs: every direct call (not go/defer) to a function of
// the module that no rule names (a "transparent" callee) is replaced by a copy of the callee's body,
// parameters substituted by the arguments, free variables by the closure bindings, returns by jumps to
// the continuation with phis for the results. Functions that any rule mentions by name stay opaque (they
// are anchors: rules analyse them on their own and look for calls to them).
//
// go/ssa offers no transformation API; blocks and instructions carry unexported back pointers. They are
// set through reflect/unsafe here. The rewritten functions are only traversed (never printed,
// re-built or sanity-checked by go/ssa).

import (
	"embed"
	"go/scanner"
	"go/token"
	"os"
	"reflect"
	"regexp"
	"strings"
	"unsafe"

	"golang.org/x/tools/go/ssa"
)

//go:embed *.go
var ownSource embed.FS

// Anchors are taken from this checker's own source: every string literal without blanks is a reference to
// a program entity. A literal that is a lone identifier (possibly with a leading dot), e.g. "verifyACL" or
// ".openTmpFile", anchors every function of that name; a qualified literal, e.g.
// "backend/scoutfs:ScoutFS.loadUserMetaData" or "(*auth.icache).update", anchors the functions whose name
// AND receiver type (or package) it mentions.
var anchorBare, anchorQualified = func() (map[string]bool, map[string][]string) {
	bare := map[string]bool{}
	qual := map[string][]string{} // identifier -> qualified literals mentioning it
	ents, _ := ownSource.ReadDir(".")
	ident := regexp.MustCompile(`[A-Za-z_][A-Za-z0-9_]*`)
	lone := regexp.MustCompile(`^"\.?[A-Za-z_][A-Za-z0-9_]*"$`)
	for _, e := range ents {
		if e.Name() == "inline.go" {
			continue
		}
		b, err := ownSource.ReadFile(e.Name())
		if err != nil {
			continue
		}
		fset := token.NewFileSet()
		file := fset.AddFile(e.Name(), fset.Base(), len(b))
		var sc scanner.Scanner
		sc.Init(file, b, nil, 0)
		for {
			_, tok, lit := sc.Scan()
			if tok == token.EOF {
				break
			}
			if tok != token.STRING {
				continue
			}
			if strings.ContainsAny(lit, " \t\n") || len(lit) > 120 {
				continue // prose (messages) and code snippets (controls)
			}
			ids := ident.FindAllString(lit, -1)
			if lone.MatchString(lit) {
				for _, id := range ids {
					bare[id] = true
				}
				continue
			}
			for _, id := range ids {
				qual[id] = append(qual[id], lit)
			}
		}
	}
	return bare, qual
}()

func isAnchored(g *ssa.Function) bool {
	name := g.Name()
	if anchorBare[name] {
		return true
	}
	lits := anchorQualified[name]
	if len(lits) == 0 {
		return false
	}
	owner := ""
	if recv := g.Signature.Recv(); recv != nil {
		t := recv.Type().String()
		t = t[strings.LastIndexAny(t, "./")+1:]
		owner = strings.TrimPrefix(t, "*")
	} else if g.Pkg != nil {
		owner = g.Pkg.Pkg.Name()
	}
	for _, l := range lits {
		if owner == "" || strings.Contains(l, owner) {
			return true
		}
	}
	return false
}

func setUnexported(structPtr any, field string, val any) {
	rv := reflect.ValueOf(structPtr).Elem()
	f := rv.FieldByName(field)
	if !f.IsValid() {
		panic("inline: no field " + field + " in " + rv.Type().String())
	}
	rf := reflect.NewAt(f.Type(), unsafe.Pointer(f.UnsafeAddr())).Elem()
	if val == nil {
		rf.Set(reflect.Zero(f.Type()))
	} else {
		rf.Set(reflect.ValueOf(val))
	}
}

// cloneInstr makes a copy of an instruction whose slices are private and whose referrer list is empty.
func cloneInstr(in ssa.Instruction) ssa.Instruction {
	rv := reflect.ValueOf(in)
	cp := reflect.New(rv.Elem().Type())
	cp.Elem().Set(rv.Elem())
	var fix func(v reflect.Value)
	fix = func(v reflect.Value) {
		for i := 0; i < v.NumField(); i++ {
			f := v.Field(i)
			switch f.Kind() {
			case reflect.Slice:
				if f.IsNil() {
					continue
				}
				w := reflect.NewAt(f.Type(), unsafe.Pointer(f.UnsafeAddr())).Elem()
				if v.Type().Field(i).Name == "referrers" {
					w.Set(reflect.Zero(f.Type()))
					continue
				}
				ns := reflect.MakeSlice(f.Type(), f.Len(), f.Len())
				reflect.Copy(ns, w)
				w.Set(ns)
			case reflect.Struct:
				// embedded register / anInstruction / CallCommon
				fix(f)
			}
		}
	}
	fix(cp.Elem())
	return cp.Interface().(ssa.Instruction)
}

func addReferrer(v ssa.Value, in ssa.Instruction) {
	if v == nil {
		return
	}
	if r := v.Referrers(); r != nil {
		*r = append(*r, in)
	}
}

func removeReferrer(v ssa.Value, in ssa.Instruction) {
	if v == nil {
		return
	}
	if r := v.Referrers(); r != nil {
		out := (*r)[:0:0]
		for _, x := range *r {
			if x != in {
				out = append(out, x)
			}
		}
		*r = out
	}
}

func isTransparent(g *ssa.Function) bool {
	if g == nil || len(g.Blocks) == 0 || g.Synthetic != "" || g.Recover != nil {
		return false
	}
	if g.Pkg == nil || !(g.Pkg.Pkg.Path() == modPath || strings.HasPrefix(g.Pkg.Pkg.Path(), modPath+"/")) {
		return false
	}
	if g.TypeParams().Len() > 0 || len(g.TypeArgs()) > 0 {
		return false
	}
	name := g.Name()
	if g.Parent() != nil {
		// a closure: transparent unless its own (synthetic) name is anchored; closures have names like F$1
		name = ""
	}
	if name != "" && isAnchored(g) {
		return false
	}
	n := 0
	for _, b := range g.Blocks {
		n += len(b.Instrs)
		for _, in := range b.Instrs {
			switch in.(type) {
			case *ssa.Defer, *ssa.RunDefers, *ssa.Select:
				return false
			}
		}
	}
	return n <= 600
}

type inliner struct {
	inlined map[*ssa.Function]bool
	sites   []inlinedCall
	depth   map[ssa.Instruction]int // provenance depth of cloned call instructions
	stack   map[ssa.Instruction][]*ssa.Function
	count   int
}

const maxInlineDepth = 4

type inlinedCall struct {
	Pos    token.Pos
	Callee *ssa.Function
}

// inlineAll normalises every function of the module packages.
func inlineAll(p *Program) (int, map[*ssa.Function]bool) {
	if os.Getenv("VGW_NOINLINE") != "" {
		return 0, nil
	}
	defer func() {}()
	il := &inliner{depth: map[ssa.Instruction]int{}, stack: map[ssa.Instruction][]*ssa.Function{}, inlined: map[*ssa.Function]bool{}}
	var fns []*ssa.Function
	for _, sp := range p.SSAPkg {
		fns = append(fns, pkgFuncs(p.SSA, sp)...)
	}
	for _, f := range fns {
		if f.Pkg != nil && strings.Contains(f.Pkg.Pkg.Path(), "/tests/") {
			continue // the integration-test driver is not analysed
		}
		il.expand(f)
	}
	// helpers that were inlined and are referenced nowhere else (no remaining call, not used as a value)
	used := map[*ssa.Function]bool{}
	for _, f := range fns {
		for _, b := range f.Blocks {
			for _, in := range b.Instrs {
				var ops []*ssa.Value
				for _, op := range in.Operands(ops) {
					if g, ok := (*op).(*ssa.Function); ok {
						used[g] = true
					}
					if mc, ok := (*op).(*ssa.MakeClosure); ok {
						if g, ok := mc.Fn.(*ssa.Function); ok {
							used[g] = true
						}
					}
				}
			}
		}
	}
	absorbed := map[*ssa.Function]bool{}
	for g := range il.inlined {
		if !used[g] && g.Parent() == nil {
			absorbed[g] = true
		}
	}
	p.InlinedCalls = il.sites
	return il.count, absorbed
}

func (il *inliner) expand(f *ssa.Function) {
	for budget := 0; budget < 200; budget++ {
		var site *ssa.Call
		total := 0
		for _, b := range f.Blocks {
			total += len(b.Instrs)
		}
		if total > 6000 {
			return
		}
	find:
		for _, b := range f.Blocks {
			for _, in := range b.Instrs {
				c, ok := in.(*ssa.Call)
				if !ok {
					continue
				}
				g := c.Call.StaticCallee()
				if g == nil || g == f || !isTransparent(g) {
					continue
				}
				if il.depth[c] >= maxInlineDepth {
					continue
				}
				rec := false
				for _, s := range il.stack[c] {
					if s == g {
						rec = true
					}
				}
				if rec {
					continue
				}
				if !il.resultsReplaceable(c, g) {
					continue
				}
				site = c
				break find
			}
		}
		if site == nil {
			return
		}
		il.inlineCall(f, site)
		il.count++
	}
}

// resultsReplaceable: a multi-result call is only used through Extract.
func (il *inliner) resultsReplaceable(c *ssa.Call, g *ssa.Function) bool {
	if g.Signature.Results().Len() <= 1 {
		return true
	}
	if c.Referrers() == nil {
		return true
	}
	for _, r := range *c.Referrers() {
		if _, ok := r.(*ssa.Extract); !ok {
			return false
		}
	}
	return true
}

func (il *inliner) inlineCall(f *ssa.Function, c *ssa.Call) {
	g := c.Call.StaticCallee()
	il.inlined[g] = true
	il.sites = append(il.sites, inlinedCall{c.Pos(), g})
	if os.Getenv("VGW_DEBUG") != "" {
		println("inline:", fnName(g), "into", fnName(f))
	}
	B := c.Block()
	idx := -1
	for i, in := range B.Instrs {
		if in == ssa.Instruction(c) {
			idx = i
		}
	}
	if idx < 0 {
		return
	}
	// value map: params -> args, free vars -> bindings
	vmap := map[ssa.Value]ssa.Value{}
	args := c.Call.Args
	for i, prm := range g.Params {
		if i < len(args) {
			vmap[prm] = args[i]
		}
	}
	if mc, ok := c.Call.Value.(*ssa.MakeClosure); ok {
		for i, fv := range g.FreeVars {
			if i < len(mc.Bindings) {
				vmap[fv] = mc.Bindings[i]
			}
		}
	}
	// clone blocks
	bmap := map[*ssa.BasicBlock]*ssa.BasicBlock{}
	var nblocks []*ssa.BasicBlock
	for _, gb := range g.Blocks {
		nb := &ssa.BasicBlock{Comment: "inl:" + g.Name() + ":" + gb.Comment}
		setUnexported(nb, "parent", f)
		bmap[gb] = nb
		nblocks = append(nblocks, nb)
	}
	var clones []ssa.Instruction
	for _, gb := range g.Blocks {
		nb := bmap[gb]
		for _, in := range gb.Instrs {
			cl := cloneInstr(in)
			setUnexported(cl, "block", nb)
			if v, ok := in.(ssa.Value); ok {
				vmap[v] = cl.(ssa.Value)
			}
			nb.Instrs = append(nb.Instrs, cl)
			clones = append(clones, cl)
			if cc, ok := in.(*ssa.Call); ok {
				ncl := cl.(*ssa.Call)
				il.depth[ncl] = il.depth[c] + 1
				il.stack[ncl] = append(append([]*ssa.Function{}, il.stack[c]...), g)
				_ = cc
			}
		}
		for _, s := range gb.Succs {
			nb.Succs = append(nb.Succs, bmap[s])
		}
		for _, pr := range gb.Preds {
			nb.Preds = append(nb.Preds, bmap[pr])
		}
	}
	// remap operands of the clones and register them as referrers
	for _, cl := range clones {
		var ops []*ssa.Value
		for _, op := range cl.Operands(ops) {
			if *op == nil {
				continue
			}
			if nv, ok := vmap[*op]; ok {
				*op = nv
			}
			addReferrer(*op, cl)
		}
	}
	// split B: B keeps instrs before the call, B2 gets the rest
	B2 := &ssa.BasicBlock{Comment: "inl.cont:" + g.Name()}
	setUnexported(B2, "parent", f)
	tail := append([]ssa.Instruction{}, B.Instrs[idx+1:]...)
	for _, in := range tail {
		setUnexported(in, "block", B2)
	}
	B2.Instrs = tail
	B2.Succs = B.Succs
	for _, s := range B2.Succs {
		for i, pr := range s.Preds {
			if pr == B {
				s.Preds[i] = B2
			}
		}
	}
	entry := bmap[g.Blocks[0]]
	jmp := &ssa.Jump{}
	setUnexported(jmp, "block", B)
	B.Instrs = append(append([]ssa.Instruction{}, B.Instrs[:idx]...), jmp)
	B.Succs = []*ssa.BasicBlock{entry}
	entry.Preds = []*ssa.BasicBlock{B}
	// the call's operands lose a referrer
	{
		var ops []*ssa.Value
		for _, op := range c.Operands(ops) {
			if *op != nil {
				removeReferrer(*op, c)
			}
		}
	}
	// returns -> jumps to B2, results merged by phis
	nres := g.Signature.Results().Len()
	var retBlocks []*ssa.BasicBlock
	var retVals [][]ssa.Value
	for _, nb := range nblocks {
		if len(nb.Instrs) == 0 {
			continue
		}
		ret, ok := nb.Instrs[len(nb.Instrs)-1].(*ssa.Return)
		if !ok {
			continue
		}
		for _, rv := range ret.Results {
			removeReferrer(rv, ret)
		}
		j := &ssa.Jump{}
		setUnexported(j, "block", nb)
		nb.Instrs[len(nb.Instrs)-1] = j
		nb.Succs = []*ssa.BasicBlock{B2}
		B2.Preds = append(B2.Preds, nb)
		retBlocks = append(retBlocks, nb)
		retVals = append(retVals, ret.Results)
	}
	results := make([]ssa.Value, nres)
	var phis []ssa.Instruction
	for i := 0; i < nres; i++ {
		if len(retBlocks) == 1 {
			results[i] = retVals[0][i]
			continue
		}
		if len(retBlocks) == 0 {
			continue
		}
		phi := &ssa.Phi{Comment: "inl.result"}
		for k := range retBlocks {
			phi.Edges = append(phi.Edges, retVals[k][i])
		}
		setUnexported(phi, "block", B2)
		setUnexported(phi, "typ", g.Signature.Results().At(i).Type())
		setUnexported(phi, "pos", c.Pos())
		for _, e := range phi.Edges {
			addReferrer(e, phi)
		}
		results[i] = phi
		phis = append(phis, phi)
	}
	if len(phis) > 0 {
		B2.Instrs = append(phis, B2.Instrs...)
	}
	// replace the uses of the call's value(s)
	replaceUses := func(old ssa.Value, nv ssa.Value) {
		if old.Referrers() == nil {
			return
		}
		refs := append([]ssa.Instruction{}, *old.Referrers()...)
		for _, r := range refs {
			var ops []*ssa.Value
			for _, op := range r.Operands(ops) {
				if *op == old {
					*op = nv
					addReferrer(nv, r)
				}
			}
		}
		*old.Referrers() = nil
	}
	if nres == 1 && results[0] != nil {
		replaceUses(c, results[0])
	} else if nres > 1 && c.Referrers() != nil {
		for _, r := range append([]ssa.Instruction{}, *c.Referrers()...) {
			ex, ok := r.(*ssa.Extract)
			if !ok {
				continue
			}
			if results[ex.Index] != nil {
				replaceUses(ex, results[ex.Index])
			}
			// drop the Extract from its block
			eb := ex.Block()
			out := eb.Instrs[:0:0]
			for _, in := range eb.Instrs {
				if in != ssa.Instruction(ex) {
					out = append(out, in)
				}
			}
			eb.Instrs = out
		}
	}
	// install the new blocks
	f.Blocks = append(f.Blocks, nblocks...)
	f.Blocks = append(f.Blocks, B2)
	for i, b := range f.Blocks {
		b.Index = i
	}
	_ = token.NoPos
}
