package main

import (
	"fmt"
	"os"
	"strings"

	"golang.org/x/tools/go/ssa"
)

func init() {
	register(&propCheck{id: "C03", run: runC03, controls: controlsC03})
}

// Frozen exemptions of R-C03-1 (backend calls that are legitimately not behind
// VerifyAccess / VerifyObjectCopyAccess), one reason each.
var c03Exempt = map[string]string{
	"ListBuckets/ListBuckets":       "no bucket to consult; the backend filters by Owner/IsAdmin (R-C03-6)",
	"PutBucketActions/CreateBucket": "no bucket exists yet; gate is the role test MayCreateBucket in AclParser (R-C03-6)",
	"PutActions/GetBucketPolicy":    "inside the governance-bypass test; result only feeds VerifyBucketPolicy and the call is itself behind VerifyAccess",
}

// Auxiliary backend reads that sit behind a stricter decision on the same bucket and
// are not themselves the decided operation (excluded from the T-ACTION pairing).
var c03Aux = map[string]string{
	"PutActions/GetBucketPolicy":                  "governance-bypass test: reads the policy only to evaluate s3:BypassGovernanceRetention, behind the PutObjectRetention decision",
	"PutBucketActions/GetBucketOwnershipControls": "PutBucketAcl branch: reads the bucket's own ownership setting behind the PutBucketAcl (WRITE_ACP) decision",
}

func handlerShort(f *ssa.Function) string {
	for f.Parent() != nil {
		f = f.Parent()
	}
	return f.Name()
}

func runC03(p *Program, r *Report) {
	r.Rule("R-C03-1", "every backend.Backend call in an S3ApiController handler is reachable only through the success edge of auth.VerifyAccess or auth.VerifyObjectCopyAccess (cut-reachability on SSA); frozen exemptions: ListBuckets, CreateBucket", 50)
	r.Rule("R-C03-2", "every AccessOptions literal names this request: Acl<-Locals(parsedAcl), IsRoot<-Locals(isRoot), Acc<-Locals(account), Bucket<-Params(bucket); Object set iff Action is an object action and then shares its origin with the guarded backend call's key; Action admissible for the guarded backend method (T-ACTION); write-class AclPermission iff the method mutates", 45)
	r.Rule("R-C03-3", "batch delete: be.DeleteObjects is preceded by a per-key VerifyAccess over the request's object list", 1)
	r.Rule("R-C03-4", "VerifyObjectCopyAccess returns nil (for non-root/admin) only through the success edges of two VerifyAccess calls: destination opts and source (bucket/object from the copy source, GetObjectAction)", 2)
	r.Rule("R-C03-5", "auth.VerifyAccess has no unconditional allow: every `return nil` is reachable only via IsRoot, RoleAdmin, VerifyBucketPolicy's verdict or verifyACL success", 1)
	r.Rule("R-C03-6", "role gates: admin handlers are registered behind IsAdmin; AclParser's create-bucket Next() is behind MayCreateBucket; posix.ListBuckets appends only behind IsAdmin or owner equality", 3)

	hs := s3Handlers(p)
	ds := decisions(hs)
	bcs := backendCalls(hs)

	// R-C03-1
	for _, bc := range bcs {
		ex := handlerShort(bc.fn) + "/" + bc.method
		var guards []ssa.CallInstruction
		for _, d := range ds {
			if d.fn == bc.fn {
				guards = append(guards, d.call)
			}
		}
		ok := guardedBy(bc.fn, bc.call, guards)
		if !ok {
			if why, exm := c03Exempt[ex]; exm && ex != "PutActions/GetBucketPolicy" {
				r.Ok("R-C03-1", bc.key, p.Pos(bc.call.Pos()), "exempt: "+why)
				continue
			}
			r.Viol("R-C03-1", bc.key, p.Pos(bc.call.Pos()), "backend call reachable without passing the success edge of any access decision in "+fnName(bc.fn))
			continue
		}
		r.Ok("R-C03-1", bc.key, p.Pos(bc.call.Pos()), "behind an access decision")
	}

	c03Literals(p, r, hs, ds, bcs)
	c03Batch(p, r)
	c03Copy(p, r)
	c03Single(p, r)
	c03Roles(p, r)

	if os.Getenv("VGWSA_DUMP") != "" {
		for _, bc := range bcs {
			for _, d := range guardsOf(bc.call, ds) {
				act, _ := constNames(p, first(d.fields["Action"]))
				perm, _ := constNames(p, first(d.fields["AclPermission"]))
				_, hasObj := d.fields["Object"]
				fmt.Printf("DUMP %-18s %-28s act=%v perm=%v obj=%v\n", handlerShort(bc.fn), bc.method, act, perm, hasObj)
			}
		}
	}
}

func first(v []ssa.Value) ssa.Value {
	if len(v) == 0 {
		return nil
	}
	return v[0]
}

func controlsC03() []Control {
	return []Control{
		{Name: "drop error return after VerifyAccess (GetObjectTagging)", Rule: "R-C03-1", File: "s3api/controllers/base.go",
			Old: "\t\t\tAction:        auth.GetObjectTaggingAction,\n\t\t})\n\t\tif err != nil {", New: "\t\t\tAction:        auth.GetObjectTaggingAction,\n\t\t})\n\t\tif err != nil && c.debug {", Expect: "GetObjectTagging"},
	}
}

var _ = strings.Contains
