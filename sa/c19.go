package main

import (
	"go/token"
	"go/types"
	"strings"

	"golang.org/x/tools/go/ssa"
)

func init() {
	register(&propCheck{id: "C19", run: runC19, controls: controlsC19})
}

// T-EVENT: backend method whose success is an object-changing request -> event type.
var tEvent = map[string]struct {
	event   string
	created bool // object-created event: must carry ETag (and size where the backend result has one)
}{
	"PutObject":               {"s3:ObjectCreated:Put", true},
	"CopyObject":              {"s3:ObjectCreated:Copy", true},
	"CompleteMultipartUpload": {"s3:ObjectCreated:CompleteMultipartUpload", true},
	"DeleteObject":            {"s3:ObjectRemoved:Delete", false},
	"DeleteObjects":           {"s3:ObjectRemoved:DeleteObjects", false},
	"PutObjectTagging":        {"s3:ObjectTagging:Put", false},
	"DeleteObjectTagging":     {"s3:ObjectTagging:Delete", false},
	"PutObjectAcl":            {"s3:ObjectAcl:Put", false},
	"RestoreObject":           {"s3:ObjectRestore:Completed", false},
}

const evIface = "s3event.S3EventSender"

func isSendEvent(c ssa.CallInstruction) bool {
	cc := c.Common()
	return cc.IsInvoke() && typeStr(cc.Value.Type()) == evIface && cc.Method.Name() == "SendEvent"
}

func runC19(p *Program, r *Report) {
	r.Rule("R-C19-1", "in SendResponse and SendXMLResponse the S3EventSender.SendEvent call is reachable only through the err == nil edge of the response's own err parameter", 2)
	r.Rule("R-C19-2", "S3EventSender.SendEvent is invoked only from SendResponse and SendXMLResponse (no handler emits events on its own)", 2)
	r.Rule("R-C19-3", "every success response of an object-changing backend call carries EvSender <- c.evSender and the EventName tabled for that operation (T-EVENT); object-created events carry the object's ETag", 9)
	r.Rule("R-C19-4", "SendEvent implementations: per-event data handed to `go send(...)` is built per event: no store into memory reachable from a value already handed to a goroutine may execute after the go statement, and the batch branch sets Key/VersionId from each element of the decoded list", 3)
	r.Rule("R-C19-5", "an event name is attached only to responses of the operation it describes: a response literal with EvSender set names exactly the T-EVENT entry of the backend call whose outcome it reports", 9)

	// R-C19-1
	for _, name := range []string{ctrlPkg + ".SendResponse", ctrlPkg + ".SendXMLResponse"} {
		f := p.Func(name)
		var errParam *ssa.Parameter
		for _, prm := range f.Params {
			if refParamName(prm) == "err" && isErrorType(prm.Type()) {
				errParam = prm
			}
		}
		if errParam == nil {
			r.Viol("R-C19-1", name+"/err-param", p.Pos(f.Pos()), "no err parameter")
			continue
		}
		nilE, _ := nilTestEdges(errParam)
		n := 0
		for _, c := range callsIn(f) {
			if !isSendEvent(c) {
				continue
			}
			n++
			ok := len(nilE) > 0 && !reachable(f, nil, nilE)[c.Block()]
			r.Check(ok, "R-C19-1", name+"/SendEvent#"+itoa(n), p.Pos(c.Pos()), "SendEvent only on err == nil", "an event is emitted on a path where the response error was not tested to be nil: a failed request notifies")
		}
		if n == 0 {
			r.Viol("R-C19-1", name+"/SendEvent", p.Pos(f.Pos()), "no SendEvent call: successful mutations never notify")
		}
	}

	// R-C19-2
	allowed := map[string]bool{ctrlPkg + ".SendResponse": true, ctrlPkg + ".SendXMLResponse": true}
	for _, f := range p.FuncsIn(ctrlPkg, "s3api", "s3api/middlewares", "s3api/utils", "auth", "backend", "backend/posix", "backend/scoutfs", "backend/s3proxy", "backend/azure") {
		for _, c := range callsIn(f) {
			if isSendEvent(c) {
				top := f
				for top.Parent() != nil {
					top = top.Parent()
				}
				r.Check(allowed[fnName(top)], "R-C19-2", fnName(f)+"/SendEvent", p.Pos(c.Pos()), "emitted by a response helper", "SendEvent is invoked outside SendResponse/SendXMLResponse: the event is not tied to the response's success test")
			}
		}
	}

	c19Handlers(p, r)
	c19Senders(p, r)
	c19Alias(p, r)
}

// zero-copy accessors of *fiber.Ctx (fiber v2.52.6 with Immutable=false): the returned
// string aliases a buffer that the next request on the pooled ctx/connection overwrites.
var fiberZeroCopy = []string{"Path", "Get", "Query", "Params", "OriginalURL", "Body", "BodyRaw", "Hostname", "BaseURL"}

// R-C19-6: every string stored into the schema built by createEventSchema is a copy.
func c19Alias(p *Program, r *Report) {
	r.Rule("R-C19-6", "strings kept in the event schema (marshalled later on another goroutine) do not alias fiber's reused request buffers: no origin in a zero-copy ctx accessor without a copying step (strings.Clone, fmt.Sprintf, string conversion)", 4)
	f := p.Func("s3event.createEventSchema")
	opts := &originOpts{stop: map[string]bool{"strings.Clone": true, "fmt.Sprintf": true, "fmt.Sprint": true}}
	n := 0
	for _, b := range f.Blocks {
		for _, in := range b.Instrs {
			st, ok := in.(*ssa.Store)
			if !ok {
				continue
			}
			fa, ok := st.Addr.(*ssa.FieldAddr)
			if !ok {
				continue
			}
			if bt, isB := st.Val.Type().Underlying().(*types.Basic); !isB || bt.Info()&types.IsString == 0 {
				continue
			}
			name := fieldPath(fa)
			n++
			bad := ""
			for _, rt := range Origins(st.Val, opts) {
				if (rt.Kind == "call" || rt.Kind == "via") && strings.HasPrefix(rt.Desc, fiberCtx+".") {
					m := strings.TrimPrefix(rt.Desc, fiberCtx+".")
					if contains(fiberZeroCopy, m) {
						bad = m
					}
				}
			}
			r.Check(bad == "", "R-C19-6", fnName(f)+"/"+name, p.Pos(st.Pos()), "copied or not request-backed", "event field "+name+" aliases the request buffer returned by ctx."+bad+"() and is read later by the sender goroutine")
		}
	}
	if n == 0 {
		broken("R-C19-6: no string field stores found in createEventSchema")
	}
}

func fieldPath(fa *ssa.FieldAddr) string {
	name := fieldName(fa.X.Type(), fa.Field)
	for {
		switch x := fa.X.(type) {
		case *ssa.FieldAddr:
			name = fieldName(x.X.Type(), x.Field) + "." + name
			fa = x
			continue
		}
		break
	}
	return name
}

type respCall struct {
	call   ssa.CallInstruction
	errArg ssa.Value
	fields map[string][]ssa.Value
}

func responseCalls(f *ssa.Function) []respCall {
	var out []respCall
	for _, c := range callsTo(f, ctrlPkg+".SendResponse", ctrlPkg+".SendXMLResponse") {
		args := callArgs(c)
		rc := respCall{call: c}
		if calleeName(c) == ctrlPkg+".SendResponse" {
			rc.errArg = args[1]
		} else {
			rc.errArg = args[2]
		}
		rc.fields, _ = litFields(args[len(args)-1])
		out = append(out, rc)
	}
	return out
}

func c19Handlers(p *Program, r *Report) {
	hs := s3Handlers(p)
	for _, bc := range backendCalls(hs) {
		te, ok := tEvent[bc.method]
		if !ok {
			continue
		}
		f := bc.fn
		errVals := map[ssa.Value]bool{}
		for _, ev := range errValues(bc.call) {
			for _, a := range aliasesOf(ev) {
				errVals[a] = true
			}
		}
		succ := successEdges(bc.call)
		// success responses: (a) err argument is this call's error value (pass-through form), or
		// (b) err argument is the nil constant and the response is reachable from a success edge of this call
		var okBlocks map[*ssa.BasicBlock]bool
		for _, e := range succ {
			for b := range reachableFromEdge(f, e, nil) {
				if okBlocks == nil {
					okBlocks = map[*ssa.BasicBlock]bool{}
				}
				okBlocks[b] = true
			}
		}
		n := 0
		for _, rc := range responseCalls(f) {
			isSuccess := false
			if errVals[rc.errArg] {
				// pass-through of the call's own error: a success response unless it is
				// reachable only through the error's non-nil edge
				_, nonNil := nilTestEdgesCall(bc.call)
				if rc.call.Block() == bc.call.Block() || reachable(f, bc.call.Block(), nonNil)[rc.call.Block()] {
					isSuccess = true
				}
			} else if isNilConst(rc.errArg) && okBlocks[rc.call.Block()] {
				isSuccess = true
			}
			if !isSuccess {
				continue
			}
			n++
			key := bc.key + "=>response#" + itoa(n)
			pos := p.Pos(rc.call.Pos())
			if rc.fields == nil {
				r.Undecided("R-C19-3", key, pos, "MetaOpts is not a literal built in place")
				continue
			}
			ev := rc.fields["EvSender"]
			okSender := false
			if len(ev) == 1 {
				for _, rt := range Origins(ev[0], nil) {
					if rt.Kind == "field" && rt.Desc == "evSender" {
						okSender = true
					}
				}
			}
			r.Check(okSender, "R-C19-3", key+".EvSender", pos, "EvSender <- c.evSender", "success response of "+bc.method+" does not carry the event sender: the change is never notified")
			names, _ := constNames(p, first(rc.fields["EventName"]))
			r.Check(len(names) == 1 && names[0] == te.event, "R-C19-3", key+".EventName", pos, te.event, "success response of "+bc.method+" names event "+strings.Join(names, "|")+" instead of "+te.event)
			if te.created {
				et := rc.fields["ObjectETag"]
				okE := false
				if len(et) == 1 {
					for _, rt := range Origins(et[0], nil) {
						if rt.Kind == "call" && rt.Call == bc.call {
							okE = true
						}
					}
				}
				r.Check(okE, "R-C19-3", key+".ObjectETag", pos, "ETag from the backend result", "object-created event of "+bc.method+" does not carry the ETag returned by the backend call")
				// size: known findings for copy / multipart (no size in the backend result)
				sz := rc.fields["ObjectSize"]
				r.Check(len(sz) == 1, "R-C19-3", key+".ObjectSize", pos, "size set", "object-created event of "+bc.method+" carries no object size (reports 0)")
			}
		}
		if n == 0 {
			r.Viol("R-C19-3", bc.key+"=>response", p.Pos(bc.call.Pos()), "no success response found for "+bc.method)
		}
	}
	// R-C19-5: every response literal that sets EvSender names the event of the backend call it reports
	for _, h := range hs {
		for _, f := range withAnon(h) {
			bcs := backendCalls([]*ssa.Function{f})
			i := 0
			for _, rc := range responseCalls(f) {
				if rc.fields == nil || len(rc.fields["EvSender"]) == 0 {
					continue
				}
				i++
				names, _ := constNames(p, first(rc.fields["EventName"]))
				key := fnName(f) + "/event-response#" + itoa(i)
				// the nearest preceding event-bearing backend call
				want := map[string]bool{}
				for _, bc := range bcs {
					if te, ok := tEvent[bc.method]; ok && bc.fn == f && mayPrecede(bc.call, rc.call) {
						// nearest: no other event-bearing backend call between
						want[te.event] = true
					}
				}
				okN := len(names) == 1 && want[names[0]]
				r.Check(okN, "R-C19-5", key, p.Pos(rc.call.Pos()), strings.Join(names, "|"), "a response carries an event sender with event "+strings.Join(names, "|")+" but no backend call for that operation precedes it")
			}
		}
	}
}

func c19Senders(p *Program, r *Report) {
	n := 0
	for _, f := range p.FuncsIn("s3event") {
		if f.Name() == "SendEvent" && f.Parent() == nil {
			n++
			c19Sender(p, r, f)
		}
	}
	if n < 3 {
		broken("R-C19-4: only %d SendEvent implementations found in s3event (expected 3)", n)
	}
}

func c19Sender(p *Program, r *Report, f *ssa.Function) {
	var gos []*ssa.Go
	for _, b := range f.Blocks {
		for _, in := range b.Instrs {
			if g, ok := in.(*ssa.Go); ok {
				gos = append(gos, g)
			}
		}
	}
	if len(gos) == 0 {
		r.Ok("R-C19-4", fnName(f)+"/no-goroutine", p.Pos(f.Pos()), "sends synchronously")
		return
	}
	// memory bases reachable from a go argument: the Allocs / call results whose contents are passed
	for gi, g := range gos {
		bases := map[ssa.Value]bool{}
		for _, a := range g.Call.Args {
			collectBases(a, bases, 0)
		}
		bad := ""
		for _, b := range f.Blocks {
			for _, in := range b.Instrs {
				st, ok := in.(*ssa.Store)
				if !ok {
					continue
				}
				targets := storeTargets(st.Addr)
				var base ssa.Value
				for t := range targets {
					if bases[t] {
						base = t
					}
				}
				if base == nil {
					continue
				}
				// a store into shared memory that may run after the go statement
				if mayPrecede(g, st) {
					// per-iteration fresh memory: the base is (re)created after the go statement on every path to the store
					if freshBetween(g, st, base) {
						continue
					}
					bad = p.Pos(st.Pos())
				}
			}
		}
		r.Check(bad == "", "R-C19-4", fnName(f)+"/go#"+itoa(gi+1)+":no-write-after-handoff", p.Pos(g.Pos()), "no store into handed-off memory after the go statement",
			"memory reachable from the value handed to the goroutine is written again after the go statement (at "+bad+"): events share state and report the wrong key")
	}
	// batch branch: Key and VersionId stored from the ranged element
	for _, fld := range []string{"Key", "VersionId"} {
		found := false
		inBatch := false
		for _, b := range f.Blocks {
			for _, in := range b.Instrs {
				st, ok := in.(*ssa.Store)
				if !ok {
					continue
				}
				fa, ok := st.Addr.(*ssa.FieldAddr)
				if !ok || fieldName(fa.X.Type(), fa.Field) != fld || !strings.Contains(typeStr(fa.X.Type()), "EventObjectData") {
					continue
				}
				inBatch = true
				for _, rt := range Origins(st.Val, nil) {
					if rt.Kind == "elem" {
						found = true
					}
				}
			}
		}
		r.Check(inBatch && found, "R-C19-4", fnName(f)+"/batch."+fld, p.Pos(f.Pos()), "per-element "+fld, "the batch-delete branch does not set the event's "+fld+" from each element of the decoded object list")
	}
}

// refProducers: the instructions that produce the memory a reference-carrying value
// points into (call results, allocations, make), looking through struct fields, loads
// of local cells, phis and extracts.
func refProducers(v ssa.Value, out map[ssa.Value]bool, d int) {
	if v == nil || d > 10 {
		return
	}
	switch x := v.(type) {
	case *ssa.Call, *ssa.MakeSlice, *ssa.MakeMap:
		out[v] = true
	case *ssa.Alloc:
		// &cell handed over: the cell itself is shared
		out[x] = true
	case *ssa.Extract:
		refProducers(x.Tuple, out, d+1)
	case *ssa.Phi:
		for _, e := range x.Edges {
			refProducers(e, out, d+1)
		}
	case *ssa.Field:
		refProducers(x.X, out, d+1)
	case *ssa.MakeInterface:
		refProducers(x.X, out, d+1)
	case *ssa.ChangeType:
		refProducers(x.X, out, d+1)
	case *ssa.Slice:
		refProducers(x.X, out, d+1)
	case *ssa.UnOp:
		if x.Op != token.MUL {
			return
		}
		// load of a local cell (or a field of it): whatever was stored there
		switch a := x.X.(type) {
		case *ssa.Alloc:
			for _, st := range storesTo(a) {
				refProducers(st.Val, out, d+1)
			}
			for _, r := range *a.Referrers() {
				if fa, ok := r.(*ssa.FieldAddr); ok {
					for _, st := range storesTo(fa) {
						refProducers(st.Val, out, d+1)
					}
				}
			}
		case *ssa.FieldAddr:
			if al, ok := a.X.(*ssa.Alloc); ok {
				for _, st := range storesTo(al) {
					refProducers(st.Val, out, d+1)
				}
				for _, r := range *al.Referrers() {
					if fa, ok := r.(*ssa.FieldAddr); ok && fa.Field == a.Field {
						for _, st := range storesTo(fa) {
							refProducers(st.Val, out, d+1)
						}
					}
				}
			} else {
				refProducers(a.X, out, d+1)
			}
		case *ssa.IndexAddr:
			refProducers(a.X, out, d+1)
		default:
			refProducers(x.X, out, d+1)
		}
	case *ssa.MakeClosure:
		for _, b := range x.Bindings {
			refProducers(b, out, d+1)
		}
	}
}

func collectBases(v ssa.Value, out map[ssa.Value]bool, d int) { refProducers(v, out, d) }

// storeTargets: the producers of the memory a store writes into. A store into a
// local cell (FieldAddr chain ending at an Alloc without passing a load) targets
// only that cell.
func storeTargets(addr ssa.Value) map[ssa.Value]bool {
	out := map[ssa.Value]bool{}
	a := addr
	for i := 0; i < 16; i++ {
		switch x := a.(type) {
		case *ssa.FieldAddr:
			a = x.X
			continue
		case *ssa.IndexAddr:
			// indexing a slice/pointer-to-array value: the memory of that value
			if _, isPtrToArr := x.X.(*ssa.Alloc); isPtrToArr {
				a = x.X
				continue
			}
			refProducers(x.X, out, 0)
			return out
		case *ssa.Alloc:
			out[x] = true
			return out
		default:
			refProducers(a, out, 0)
			return out
		}
	}
	return out
}

// freshBetween: on every path from the go statement to the store the base value is
// (re)defined, i.e. the defining instruction of base lies strictly between them in
// the loop: base's block is reachable from g and reaches st without passing g again.
func freshBetween(g ssa.Instruction, st ssa.Instruction, base ssa.Value) bool {
	def, ok := base.(ssa.Instruction)
	if !ok {
		return false
	}
	// For an Alloc of a local (stack slot reused per iteration) the contents are
	// overwritten by a whole-value store from a fresh call each iteration: look
	// for a Store to the alloc whose value comes from a call that lies between.
	if al, isAl := base.(*ssa.Alloc); isAl {
		for _, s := range storesTo(al) {
			if _, isCall := unwrapLoad(s.Val).(*ssa.Call); isCall || isCallExtract(s.Val) {
				if mayPrecede(g, s) && mayPrecede(s, st) && !passesWithout(g, st, s) {
					return true
				}
			}
		}
		return false
	}
	return mayPrecede(g, def) && mayPrecede(def, st) && !passesWithout(g, st, def)
}

func unwrapLoad(v ssa.Value) ssa.Value { return v }

func isCallExtract(v ssa.Value) bool {
	if e, ok := v.(*ssa.Extract); ok {
		_, isCall := e.Tuple.(*ssa.Call)
		return isCall
	}
	return false
}

// passesWithout: can control go from a to b without executing via (block-level)?
func passesWithout(a, b, via ssa.Instruction) bool {
	f := a.Parent()
	ia, ib, iv := instrIndex(a), instrIndex(b), instrIndex(via)
	if via.Block() == b.Block() && iv < ib {
		// every entry into b's block executes via before b, unless a sits between them
		return a.Block() == b.Block() && ia > iv && ia < ib
	}
	if via.Block() == a.Block() && iv > ia {
		// leaving a's block executes via, unless b sits between them
		return b.Block() == a.Block() && ib > ia && ib < iv
	}
	// remove via's block and test reachability from a's successors to b's block
	var cut []edge
	for _, blk := range f.Blocks {
		for i, s := range blk.Succs {
			if s == via.Block() {
				cut = append(cut, edge{blk, i})
			}
		}
	}
	if via.Block() == a.Block() || via.Block() == b.Block() {
		return true // conservative
	}
	for _, s := range a.Block().Succs {
		if s == via.Block() {
			continue
		}
		if s == b.Block() || reachable(f, s, cut)[b.Block()] {
			return true
		}
	}
	return false
}

func controlsC19() []Control {
	return []Control{
		{Name: "SendResponse: event block moved above the error test", Rule: "R-C19-1", File: "s3api/controllers/base.go",
			Old: "\tif err != nil {\n\t\tvar apierr s3err.APIError\n", New: "\tif l.EvSender != nil && l.EventName != \"\" {\n\t\tl.EvSender.SendEvent(ctx, s3event.EventMeta{EventName: l.EventName, BucketOwner: l.BucketOwner})\n\t}\n\tif err != nil {\n\t\tvar apierr s3err.APIError\n", Expect: "SendEvent"},
		{Name: "DeleteActions emits the event itself", Rule: "R-C19-2", File: "s3api/controllers/base.go",
			Old: "\tutils.SetResponseHeaders(ctx, hdrs)\n\n\treturn SendResponse(ctx, nil,\n\t\t&MetaOpts{\n\t\t\tLogger:      c.logger,\n\t\t\tMetricsMng:  c.mm,\n\t\t\tEvSender:    c.evSender,\n\t\t\tAction:      metrics.ActionDeleteObject,",
			New: "\tutils.SetResponseHeaders(ctx, hdrs)\n\tc.evSender.SendEvent(ctx, s3event.EventMeta{EventName: s3event.EventObjectRemovedDelete})\n\n\treturn SendResponse(ctx, nil,\n\t\t&MetaOpts{\n\t\t\tLogger:      c.logger,\n\t\t\tMetricsMng:  c.mm,\n\t\t\tEvSender:    c.evSender,\n\t\t\tAction:      metrics.ActionDeleteObject,", Expect: "DeleteActions"},
		{Name: "PutObject success response loses the sender", Rule: "R-C19-3", File: "s3api/controllers/base.go",
			Old: "\t\t\tContentLength: contentLength,\n\t\t\tEvSender:      c.evSender,\n\t\t\tAction:        metrics.ActionPutObject,\n\t\t\tBucketOwner:   parsedAcl.Owner,\n\t\t\tObjectETag:    &res.ETag,",
			New: "\t\t\tContentLength: contentLength,\n\t\t\tAction:        metrics.ActionPutObject,\n\t\t\tBucketOwner:   parsedAcl.Owner,\n\t\t\tObjectETag:    &res.ETag,", Expect: "PutObject"},
		{Name: "DeleteObjectTagging reports the Put event", Rule: "R-C19-3", File: "s3api/controllers/base.go",
			Old: "EventName:   s3event.EventObjectTaggingDelete,", New: "EventName:   s3event.EventObjectTaggingPut,", Expect: "DeleteObjectTagging"},
		{Name: "revert fix 9d48fb5: event key aliases ctx.Path()", Rule: "R-C19-6", File: "s3event/event.go",
			Old: "strings.Split(strings.Clone(ctx.Path()), \"/\")", New: "strings.Split(ctx.Path(), \"/\")", Expect: "Key"},
		{Name: "webhook: schema built once for the whole batch", Rule: "R-C19-4", File: "s3event/webhook.go",
			Old: "\t\tfor _, obj := range dObj.Objects {\n\t\t\tkey := *obj.Key\n\t\t\tschema := createEventSchema(ctx, meta, ConfigurationIdWebhook)\n", New: "\t\tschema := createEventSchema(ctx, meta, ConfigurationIdWebhook)\n\t\tfor _, obj := range dObj.Objects {\n\t\t\tkey := *obj.Key\n", Expect: "Webhook"},
	}
}
