package main

import (
	"go/ast"
	"go/token"
	"go/types"
	"strings"

	"golang.org/x/tools/go/types/typeutil"
)

// E-ROUTE: the route/middleware registration table, read from the resolved
// calls on *fiber.App in package s3api.

type regEntry struct {
	Fn       string // registering function ("s3api.New", "(*s3api.S3ApiRouter).Init")
	Kind     string // use | route | init
	Method   string // GET, PUT, ... (route)
	Pattern  string
	Handlers []string // resolved names: "s3api/middlewares.IsAdmin" (factory call), "(s3api/controllers.AdminController).CreateUser" (method value), "<closure>"
	Callee   string   // for init: the router method called
	Pos      token.Pos
	Cond     string      // enclosing if-condition text ("" if unconditional)
	Closures []token.Pos // positions of the function literals among the handlers
}

const fiberApp = "*github.com/gofiber/fiber/v2.App"

var routeMethods = map[string]string{"Get": "GET", "Put": "PUT", "Post": "POST", "Delete": "DELETE", "Head": "HEAD", "Patch": "PATCH", "Options": "OPTIONS", "All": "ALL", "Add": "ADD"}

func routeTable(p *Program) []regEntry {
	pk := p.Pkg("s3api")
	var out []regEntry
	for _, file := range pk.Syntax {
		for _, d := range file.Decls {
			fd, ok := d.(*ast.FuncDecl)
			if !ok || fd.Body == nil {
				continue
			}
			fname := "s3api." + fd.Name.Name
			if obj, ok := pk.TypesInfo.Defs[fd.Name].(*types.Func); ok {
				fname = objName(obj)
			}
			var condStack []string
			var visit func(n ast.Node) bool
			visit = func(n ast.Node) bool {
				switch x := n.(type) {
				case *ast.IfStmt:
					if x.Init != nil {
						ast.Inspect(x.Init, visit)
					}
					condStack = append(condStack, types.ExprString(x.Cond))
					ast.Inspect(x.Body, visit)
					condStack = condStack[:len(condStack)-1]
					if x.Else != nil {
						condStack = append(condStack, "!("+types.ExprString(x.Cond)+")")
						ast.Inspect(x.Else, visit)
						condStack = condStack[:len(condStack)-1]
					}
					return false
				case *ast.FuncLit:
					return false // handlers' own bodies are not registration code
				case *ast.CallExpr:
					callee, _ := typeutil.Callee(pk.TypesInfo, x).(*types.Func)
					if callee == nil {
						return true
					}
					sig := callee.Type().(*types.Signature)
					recv := ""
					if sig.Recv() != nil {
						recv = typeStr(sig.Recv().Type())
					}
					cond := strings.Join(condStack, " && ")
					if recv == fiberApp {
						name := callee.Name()
						if name == "Use" {
							e := regEntry{Fn: fname, Kind: "use", Pos: x.Pos(), Cond: cond}
							for _, a := range x.Args {
								if s, ok := stringLit(pk.TypesInfo, a); ok {
									e.Pattern = s
									continue
								}
								e.Handlers = append(e.Handlers, handlerRef(pk.TypesInfo, a))
							}
							out = append(out, e)
						} else if m, ok := routeMethods[name]; ok && len(x.Args) >= 2 {
							e := regEntry{Fn: fname, Kind: "route", Method: m, Pos: x.Pos(), Cond: cond}
							if s, ok := stringLit(pk.TypesInfo, x.Args[0]); ok {
								e.Pattern = s
							} else {
								e.Pattern = "<" + types.ExprString(x.Args[0]) + ">"
							}
							for _, a := range x.Args[1:] {
								e.Handlers = append(e.Handlers, handlerRef(pk.TypesInfo, a))
								if fl, ok := ast.Unparen(a).(*ast.FuncLit); ok {
									e.Closures = append(e.Closures, fl.Pos())
								}
							}
							out = append(out, e)
						}
						return true
					}
					// a helper of this package that may register on the app it finds in a receiver field
					// (server.useMiddlewares(...)): expanded in place if it turns out to hold registrations
					if callee.Pkg() == pk.Types {
						out = append(out, regEntry{Fn: fname, Kind: "init", Callee: objName(callee), Pos: x.Pos(), Cond: cond})
						return true
					}
					// router.Init(app, ...): a call passing a *fiber.App on
					for _, a := range x.Args {
						if tv, ok := pk.TypesInfo.Types[a]; ok && typeStr(tv.Type) == fiberApp && callee.Pkg() != nil && strings.HasPrefix(callee.Pkg().Path(), modPath) {
							out = append(out, regEntry{Fn: fname, Kind: "init", Callee: objName(callee), Pos: x.Pos(), Cond: cond})
							break
						}
					}
				}
				return true
			}
			ast.Inspect(fd.Body, visit)
		}
	}
	return out
}

func stringLit(info *types.Info, e ast.Expr) (string, bool) {
	if tv, ok := info.Types[e]; ok && tv.Value != nil && tv.Type != nil {
		if b, ok := tv.Type.Underlying().(*types.Basic); ok && b.Info()&types.IsString != 0 {
			return strings.Trim(tv.Value.ExactString(), `"`), true
		}
	}
	return "", false
}

// handlerRef resolves a handler argument to a stable name.
func handlerRef(info *types.Info, e ast.Expr) string {
	switch x := ast.Unparen(e).(type) {
	case *ast.CallExpr:
		if f, ok := typeutil.Callee(info, x).(*types.Func); ok {
			return objName(f)
		}
	case *ast.SelectorExpr:
		if sel, ok := info.Selections[x]; ok {
			if f, ok := sel.Obj().(*types.Func); ok {
				return objName(f)
			}
		}
		if f, ok := info.Uses[x.Sel].(*types.Func); ok {
			return objName(f)
		}
	case *ast.Ident:
		if f, ok := info.Uses[x].(*types.Func); ok {
			return objName(f)
		}
	case *ast.FuncLit:
		return "<closure>"
	}
	return "<" + types.ExprString(e) + ">"
}

// flatten: the effective registration sequence of a server constructor, with
// router Init calls expanded in place.
func flattenRoutes(tab []regEntry, fn string) []regEntry { return flattenRoutesD(tab, fn, 0) }

func flattenRoutesD(tab []regEntry, fn string, depth int) []regEntry {
	var out []regEntry
	if depth > 6 {
		return out
	}
	for _, e := range tab {
		if e.Fn != fn {
			continue
		}
		if e.Kind == "init" {
			sub := flattenRoutesD(tab, e.Callee, depth+1)
			for _, s := range sub {
				if e.Cond != "" {
					if s.Cond != "" {
						s.Cond = e.Cond + " && " + s.Cond
					} else {
						s.Cond = e.Cond
					}
				}
				out = append(out, s)
			}
			continue
		}
		out = append(out, e)
	}
	return out
}
