package main

import (
	"go/token"
	"go/types"
	"strings"

	"golang.org/x/tools/go/ssa"
)

func init() {
	register(&propCheck{id: "C15", run: runC15, controls: controlsC15})
}

var writePerms = []string{"WRITE", "WRITE_ACP"}

func runC15(p *Program, r *Report) {
	r.Rule("R-C15-1", "every AccessOptions literal in the controllers carries the read-only switch: field Readonly is set and originates from the controller's readonly field", 45)
	r.Rule("R-C15-2", "every state-changing backend call (T-MUTATING) in an S3 handler is reachable only through the success edge of a decision whose AclPermission is write-class (WRITE / WRITE_ACP) and which carries the switch; CreateBucket is gated in AclParser (R-C15-4)", 25)
	r.Rule("R-C15-3", "VerifyAccess and VerifyObjectCopyAccess test the switch before any shortcut: every nil return is reachable only through a pass edge of the read-only test, the write-class permissions refused are exactly {WRITE, WRITE_ACP}, and the refusing edge reaches no nil return", 4)
	r.Rule("R-C15-4", "AclParser lets a create-bucket request through only on the !readonly edge", 1)
	r.Rule("R-C15-5", "plumbing: WithReadOnly sets S3ApiServer.readonly=true; New hands that field to AclParser and router.Init; Init hands it to controllers.New; New stores it in S3ApiController.readonly; cmd/versitygw appends WithReadOnly() under the readonly flag", 6)

	hs := s3Handlers(p)
	ds := decisions(hs)
	bcs := backendCalls(hs)

	// R-C15-5 plumbing first: it finds the controller field that holds the switch
	ctrlField := c15Plumbing(p, r)
	if ctrlField == "" {
		ctrlField = "readonly"
	}
	// R-C15-1
	carries := map[string]bool{}
	for _, d := range ds {
		pos := p.Pos(d.call.Pos())
		vs := d.fields["Readonly"]
		if len(vs) != 1 {
			r.Viol("R-C15-1", d.key+".Readonly", pos, "AccessOptions literal does not set Readonly: the decision ignores read-only mode")
			continue
		}
		ok := false
		rs := Origins(vs[0], nil)
		for _, rt := range rs {
			if rt.Kind == "field" && rt.Desc == ctrlField {
				ok = true
			}
		}
		for _, rt := range terminalRoots(rs) {
			if rt.Kind != "param" { // the receiver c
				ok = false
			}
		}
		carries[d.key] = ok
		r.Check(ok, "R-C15-1", d.key+".Readonly", pos, "Readonly <- c.readonly", "Readonly does not originate from the controller's readonly field: "+rootsDesc(rs))
	}

	// R-C15-2
	for _, bc := range bcs {
		row, ok := tAction[bc.method]
		if !ok {
			r.Undecided("R-C15-2", bc.key, p.Pos(bc.call.Pos()), "backend method "+bc.method+" has no T-ACTION row (mutating or not is unknown)")
			continue
		}
		if !row.mutating {
			continue
		}
		if handlerShort(bc.fn)+"/"+bc.method == "PutBucketActions/CreateBucket" {
			r.Ok("R-C15-2", bc.key, p.Pos(bc.call.Pos()), "exempt: bucket creation is refused in AclParser (R-C15-4)")
			continue
		}
		var good []ssa.CallInstruction
		for _, d := range ds {
			if d.fn != bc.fn || !carries[d.key] {
				continue
			}
			perms, pok := constNames(p, first(d.fields["AclPermission"]))
			if !pok || len(perms) == 0 {
				continue
			}
			all := true
			for _, pm := range perms {
				if !contains(writePerms, pm) {
					all = false
				}
			}
			if all {
				good = append(good, d.call)
			}
		}
		r.Check(guardedBy(bc.fn, bc.call, good), "R-C15-2", bc.key, p.Pos(bc.call.Pos()), "behind a write-class decision carrying the switch",
			"mutating backend call "+bc.method+" is reachable without passing a write-class (WRITE/WRITE_ACP) access decision that carries the read-only switch")
	}

	// R-C15-3
	for _, name := range []string{fnVerifyAccess, fnVerifyCopyAccess} {
		f := p.Func(name)
		var pass []edge
		var roConds, permConds []condEdge
		for _, ce := range condEdgesOf(f) {
			if ce.atoms["field:Readonly"] && !ce.atoms["field:IsRoot"] && !ce.atoms["field:Role"] {
				roConds = append(roConds, ce)
				pass = append(pass, ce.fails)
			}
		}
		if len(roConds) == 0 {
			r.Viol("R-C15-3", name+"/readonly-test", p.Pos(f.Pos()), "no test of opts.Readonly in "+name)
			continue
		}
		// permission tests inside the read-only region
		var region map[*ssa.BasicBlock]bool
		for _, rc := range roConds {
			for b := range reachableFromEdge(f, rc.holds, nil) {
				if region == nil {
					region = map[*ssa.BasicBlock]bool{}
				}
				region[b] = true
			}
		}
		refused := map[string]bool{}
		for _, ce := range condEdgesOf(f) {
			// the same test written as membership in a constant table: slices.Contains(writePermissions, perm)
			if names, _, subj, isT := tableMembershipTest(p, ce.cond); isT && subj != nil && atomsOf(subj)["field:AclPermission"] && region[ce.ifi.Block()] {
				var cutRO []edge
				for _, rc := range roConds {
					cutRO = append(cutRO, rc.holds)
				}
				if !reachable(f, nil, cutRO)[ce.ifi.Block()] {
					permConds = append(permConds, ce)
					pass = append(pass, ce.fails)
					for _, nm := range names {
						refused[nm] = true
					}
				}
				continue
			}
			if ce.atoms["field:AclPermission"] && ce.isEqNeq && region[ce.ifi.Block()] {
				// only the tests that are dominated by the readonly true edge: not reachable when that edge is cut
				var cutRO []edge
				for _, rc := range roConds {
					cutRO = append(cutRO, rc.holds)
				}
				if reachable(f, nil, cutRO)[ce.ifi.Block()] {
					continue
				}
				permConds = append(permConds, ce)
				pass = append(pass, ce.fails)
				for a := range ce.atoms {
					if strings.HasPrefix(a, "const:\"") {
						refused[strings.Trim(strings.TrimPrefix(a, "const:"), `"`)] = true
					}
				}
			}
		}
		n := 0
		for _, s := range errReturnSites(f) {
			if !isNilConst(s.val) {
				// the verdict of another decision handed back as it is (the policy's, the ACL's) allows when it
				// is nil: it counts as an allowing return unless it is known non-nil where it is returned
				if _, isCall := s.val.(*ssa.Call); !isCall || !isErrorType(s.val.Type()) {
					continue
				}
				if truthiness(s.val, s.ret.Block()) > 0 || (s.pred != nil && truthOnEdge(s.val, s.pred, s.phiB) > 0) {
					continue
				}
			}
			n++
			r.Check(!siteReachable(f, s, pass), "R-C15-3", name+"/nil-return#"+itoa(n), p.Pos(s.ret.Pos()), "nil return only after the read-only test passed",
				name+" can return nil (allow) on a path that does not pass the read-only test (shortcut before the switch)")
		}
		if name == fnVerifyAccess {
			for _, w := range writePerms {
				r.Check(refused[w], "R-C15-3", name+"/refuses:"+w, p.Pos(f.Pos()), "permission refused in read-only mode", "read-only mode does not refuse AclPermission "+w)
			}
			// the refusing edges reach only non-nil returns
			for i, pc := range permConds {
				bad := false
				reach := reachableFromEdge(f, pc.holds, nil)
				for _, s := range errReturnSites(f) {
					if isNilConst(s.val) && s.reachedIn(reach) {
						bad = true
					}
				}
				r.Check(!bad, "R-C15-3", name+"/refusal#"+itoa(i+1), p.Pos(pc.pos()), "refusal edge reaches no nil return", "a write-class permission in read-only mode can still reach a nil (allow) return")
			}
		} else {
			// copy: the Readonly true edge must reach no nil return
			for i, rc := range roConds {
				bad := false
				reach := reachableFromEdge(f, rc.holds, nil)
				for _, s := range errReturnSites(f) {
					if isNilConst(s.val) && s.reachedIn(reach) {
						bad = true
					}
				}
				r.Check(!bad, "R-C15-3", name+"/refusal#"+itoa(i+1), p.Pos(rc.pos()), "read-only edge reaches no nil return", "a copy in read-only mode can still reach a nil (allow) return")
			}
		}
	}

	// R-C15-4
	acl := p.Func("s3api/middlewares.AclParser$1")
	{
		var gba []ssa.CallInstruction
		for _, c := range callsIn(acl) {
			if isBackendCall(c) && c.Common().Method.Name() == "GetBucketAcl" {
				gba = append(gba, c)
			}
		}
		var pass, ro []edge
		for _, ce := range condEdgesOf(acl) {
			if ce.atoms["call:"+fiberCtx+".Method"] && (ce.atoms[`const:"PATCH"`] || ce.atoms[`const:"GET"`]) && ce.isEqNeq {
				pass = append(pass, ce.holds)
			}
			if ce.atoms["param:readonly"] {
				ro = append(ro, ce.fails)
			}
		}
		nx := callsTo(acl, fiberCtx+".Next")
		keys := siteKeys(acl, nx)
		n := 0
		for _, c := range nx {
			cutA := append([]edge{}, pass...)
			for _, g := range gba {
				cutA = append(cutA, successEdges(g)...)
			}
			if !reachable(acl, nil, cutA)[c.Block()] {
				continue // ACL-loaded or pass-through path: handlers decide with the switch (R-C15-1/2)
			}
			n++
			cut := append(append([]edge{}, pass...), ro...)
			r.Check(len(ro) > 0 && !reachable(acl, nil, cut)[c.Block()], "R-C15-4", keys[c], p.Pos(c.Pos()), "create-bucket Next() only on !readonly", "AclParser lets a create-bucket request reach the handler without testing the read-only switch")
		}
		if n == 0 {
			r.Viol("R-C15-4", fnName(acl)+"/create-branch", p.Pos(acl.Pos()), "no create-bucket Next() found in AclParser (anchor drift)")
		}
	}

	// R-C15-5 plumbing
}

func fieldStoreOrigin(f *ssa.Function, field string) ([]ssa.Value, token.Pos) {
	var out []ssa.Value
	var pos token.Pos
	for _, b := range f.Blocks {
		for _, in := range b.Instrs {
			st, ok := in.(*ssa.Store)
			if !ok {
				continue
			}
			if fa, ok := st.Addr.(*ssa.FieldAddr); ok && fieldName(fa.X.Type(), fa.Field) == field {
				out = append(out, st.Val)
				pos = st.Pos()
			}
		}
	}
	return out, pos
}

// c15Chain: the read-only switch followed from the option to the controller, every link found by what flows
// where (no field or parameter is named): WithReadOnly's closure stores true into a server field F1; New hands
// an argument read from F1 to AclParser (its bool parameter) and to the router's Init (parameter P); Init hands
// P to controllers.New (parameter Q); controllers.New stores Q into a controller field F2. Returns F2.
func c15Plumbing(p *Program, r *Report) string {
	rule := "R-C15-5"
	// 1. the field the option sets
	f1 := ""
	wf := p.Func("s3api.WithReadOnly")
	var pos1 token.Pos = wf.Pos()
	for _, ret := range returnsOf(wf) {
		for _, g := range funcValuesOf(ret.Results[0]) {
			for _, b := range g.Blocks {
				for _, in := range b.Instrs {
					st, ok := in.(*ssa.Store)
					if !ok {
						continue
					}
					fa, ok := st.Addr.(*ssa.FieldAddr)
					if !ok {
						continue
					}
					if bv, isB := constBool(st.Val); isB && bv {
						f1 = fieldName(fa.X.Type(), fa.Field)
						pos1 = st.Pos()
					}
				}
			}
		}
	}
	r.Check(f1 != "", rule, "s3api.WithReadOnly/readonly=true", p.Pos(pos1), "stores true into a server field", "WithReadOnly does not store the constant true into a field of S3ApiServer")
	if f1 == "" {
		return ""
	}
	fromField := func(v ssa.Value, field string) bool {
		for _, rt := range Origins(v, nil) {
			if rt.Kind == "field" && rt.Desc == field {
				return true
			}
		}
		return false
	}
	onlyParam := func(v ssa.Value, prm *ssa.Parameter) bool {
		rs := terminalRoots(Origins(v, nil))
		if len(rs) == 0 {
			return false
		}
		for _, rt := range rs {
			if rt.Kind != "param" || rt.Desc != refParamName(prm) {
				return false
			}
		}
		return true
	}
	// 2. New -> AclParser / Init: the argument read from F1
	nf := p.Func("s3api.New")
	var initParam *ssa.Parameter
	inf := p.Func("(*s3api.S3ApiRouter).Init")
	for _, tgt := range []string{"s3api/middlewares.AclParser", "(*s3api.S3ApiRouter).Init"} {
		cs := callsTo(nf, tgt)
		if len(cs) != 1 {
			r.Viol(rule, "s3api.New->"+tgt, p.Pos(nf.Pos()), "expected exactly one call")
			continue
		}
		args := cs[0].Common().Args // with the receiver, as Params
		g := cs[0].Common().StaticCallee()
		idx := -1
		for i, a := range args {
			if bt, ok := a.Type().Underlying().(*types.Basic); ok && bt.Kind() == types.Bool && fromField(a, f1) {
				idx = i
			}
		}
		ok := idx >= 0 && g != nil && idx < len(g.Params)
		if ok && tgt == "s3api/middlewares.AclParser" {
			// it must arrive in the parameter whose test R-C15-4 requires on the create-bucket path
			ok = refParamName(g.Params[idx]) == "readonly"
		}
		if ok && tgt != "s3api/middlewares.AclParser" {
			initParam = g.Params[idx]
		}
		r.Check(ok, rule, "s3api.New->"+tgt+".readonly", p.Pos(cs[0].Pos()), "a bool argument <- server."+f1, "no bool argument of the call is read from the server field "+f1+" that WithReadOnly sets")
	}
	// 3. Init -> controllers.New
	var ctrlParam *ssa.Parameter
	cn := p.Func(ctrlPkg + ".New")
	if cs := callsTo(inf, ctrlPkg+".New"); len(cs) == 1 && initParam != nil {
		args := cs[0].Common().Args
		for i, a := range args {
			if onlyParam(a, initParam) && i < len(cn.Params) {
				ctrlParam = cn.Params[i]
			}
		}
		r.Check(ctrlParam != nil, rule, "S3ApiRouter.Init->controllers.New.readonly", p.Pos(cs[0].Pos()), "an argument <- Init's parameter "+initParam.Name(), "controllers.New does not receive Init's read-only parameter ("+initParam.Name()+")")
	} else if initParam != nil {
		r.Viol(rule, "S3ApiRouter.Init->controllers.New.readonly", p.Pos(inf.Pos()), "expected exactly one controllers.New call")
	}
	// 4. controllers.New stores it in a controller field
	f2 := ""
	if ctrlParam != nil {
		var pos token.Pos = cn.Pos()
		for _, b := range cn.Blocks {
			for _, in := range b.Instrs {
				st, ok := in.(*ssa.Store)
				if !ok {
					continue
				}
				if fa, ok := st.Addr.(*ssa.FieldAddr); ok && onlyParam(st.Val, ctrlParam) {
					f2 = fieldName(fa.X.Type(), fa.Field)
					pos = st.Pos()
				}
			}
		}
		r.Check(f2 != "", rule, "controllers.New/readonly<-param", p.Pos(pos), "a controller field <- parameter "+ctrlParam.Name(), "controllers.New does not keep its read-only parameter ("+ctrlParam.Name()+") in the controller")
	}
	// cmd: WithReadOnly appended under the package variable the --readonly flag is bound to
	flagGlobal := c15FlagGlobal(p)
	found := false
	for _, f := range p.FuncsIn("cmd/versitygw") {
		for _, c := range callsTo(f, "s3api.WithReadOnly") {
			found = true
			var cut []edge
			for _, ce := range condEdgesOf(f) {
				if flagGlobal != "" && ce.atoms["global:"+flagGlobal] {
					cut = append(cut, ce.holds)
				}
			}
			// the option must be unconditional given the flag: reachable from the flag's true edge on every path? (existence + guard)
			guarded := len(cut) > 0 && !reachable(f, nil, cut)[c.Block()]
			r.Check(guarded, "R-C15-5", fnName(f)+"/WithReadOnly", p.Pos(c.Pos()), "appended under the readonly flag", "WithReadOnly() is not tied to the readonly flag")
			// and its result reaches the options passed to s3api.New
			okFlow := false
			for _, nc := range callsTo(f, "s3api.New") {
				for _, rt := range argRoots(nc) {
					if rt.Kind == "call" && rt.Call == c {
						okFlow = true
					}
				}
			}
			r.Check(okFlow, "R-C15-5", fnName(f)+"/WithReadOnly->New", p.Pos(c.Pos()), "option reaches s3api.New", "the WithReadOnly() option does not reach the options passed to s3api.New")
		}
	}
	if !found {
		r.Viol("R-C15-5", "cmd/versitygw/WithReadOnly", "-", "cmd/versitygw never calls s3api.WithReadOnly: the --readonly flag has no effect")
	}
	return f2
}

// c15FlagGlobal: the package variable of cmd/versitygw whose address is the Destination of the cli flag named
// "readonly" (the flag's name is the user interface; the variable's name is not).
func c15FlagGlobal(p *Program) string {
	for _, f := range p.FuncsIn("cmd/versitygw") {
		for _, b := range f.Blocks {
			for _, in := range b.Instrs {
				st, ok := in.(*ssa.Store)
				if !ok {
					continue
				}
				fa, ok := st.Addr.(*ssa.FieldAddr)
				if !ok || fieldName(fa.X.Type(), fa.Field) != "Name" {
					continue
				}
				if sv, isS := constString(st.Val); !isS || sv != "readonly" {
					continue
				}
				// the Destination store of the same literal
				for _, in2 := range b.Instrs {
					st2, ok := in2.(*ssa.Store)
					if !ok {
						continue
					}
					fa2, ok := st2.Addr.(*ssa.FieldAddr)
					if !ok || fa2.X != fa.X || fieldName(fa2.X.Type(), fa2.Field) != "Destination" {
						continue
					}
					if g, isG := st2.Val.(*ssa.Global); isG {
						return g.Name()
					}
				}
			}
		}
	}
	return ""
}

func controlsC15() []Control {
	return []Control{
		{Name: "DeleteBucket handler: omit Readonly in one literal", Rule: "R-C15-1", File: "s3api/controllers/base.go",
			Old: "\t\t\tReadonly:      c.readonly,\n\t\t\tAcl:           parsedAcl,\n\t\t\tAclPermission: auth.PermissionWrite,\n\t\t\tIsRoot:        isRoot,\n\t\t\tAcc:           acct,\n\t\t\tBucket:        bucket,\n\t\t\tAction:        auth.DeleteBucketAction,",
			New: "\t\t\tAcl:           parsedAcl,\n\t\t\tAclPermission: auth.PermissionWrite,\n\t\t\tIsRoot:        isRoot,\n\t\t\tAcc:           acct,\n\t\t\tBucket:        bucket,\n\t\t\tAction:        auth.DeleteBucketAction,", Expect: "DeleteBucket"},
		{Name: "VerifyAccess: read-only test moved below the root shortcut", Rule: "R-C15-3", File: "auth/acl.go",
			Old: "\tif opts.Readonly {\n\t\tif opts.AclPermission == PermissionWrite || opts.AclPermission == PermissionWriteAcp {\n\t\t\treturn s3err.GetAPIError(s3err.ErrAccessDenied)\n\t\t}\n\t}\n\tif opts.IsRoot {\n\t\treturn nil\n\t}\n",
			New: "\tif opts.IsRoot {\n\t\treturn nil\n\t}\n\tif opts.Readonly {\n\t\tif opts.AclPermission == PermissionWrite || opts.AclPermission == PermissionWriteAcp {\n\t\t\treturn s3err.GetAPIError(s3err.ErrAccessDenied)\n\t\t}\n\t}\n", Expect: "nil-return"},
		{Name: "revert fix 42420d4: VerifyObjectCopyAccess without the read-only refusal", Rule: "R-C15-3", File: "auth/acl.go",
			Old: "\tif opts.Readonly {\n\t\treturn s3err.GetAPIError(s3err.ErrAccessDenied)\n\t}\n", New: "", Expect: "VerifyObjectCopyAccess"},
		{Name: "VerifyAccess: WRITE_ACP no longer refused", Rule: "R-C15-3", File: "auth/acl.go",
			Old: "if opts.AclPermission == PermissionWrite || opts.AclPermission == PermissionWriteAcp {", New: "if opts.AclPermission == PermissionWrite {", Expect: "refuses:WRITE_ACP"},
		{Name: "router passes false to controllers.New", Rule: "R-C15-5", File: "s3api/router.go",
			Old: "controllers.New(be, iam, logger, evs, mm, debug, readonly)", New: "controllers.New(be, iam, logger, evs, mm, debug, false)", Expect: "controllers.New"},
		{Name: "PutObjectLegalHold decided with READ permission", Rule: "R-C15-2", File: "s3api/controllers/base.go",
			Old: "\t\t\tAclPermission: auth.PermissionWrite,\n\t\t\tIsRoot:        isRoot,\n\t\t\tAcc:           acct,\n\t\t\tBucket:        bucket,\n\t\t\tObject:        keyStart,\n\t\t\tAction:        auth.PutObjectLegalHoldAction,",
			New: "\t\t\tAclPermission: auth.PermissionRead,\n\t\t\tIsRoot:        isRoot,\n\t\t\tAcc:           acct,\n\t\t\tBucket:        bucket,\n\t\t\tObject:        keyStart,\n\t\t\tAction:        auth.PutObjectLegalHoldAction,", Expect: "PutObjectLegalHold"},
		{Name: "AclParser: read-only test dropped from the create branch", Rule: "R-C15-4", File: "s3api/middlewares/acl-parser.go",
			Old: "\t\t\tif readonly {", New: "\t\t\tif readonly && ctx.Method() == http.MethodDelete {", Expect: "Next"},
	}
}
