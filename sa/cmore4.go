package main

// Rules added after the sixth (unseen) batch of seeded changes (DESIGN.md §5.6): structural necessary conditions
// nobody had stated, each restated by role so that it survives the refactorings under /verif/benign.

import (
	"fmt"
	"go/constant"
	"go/token"
	"go/types"
	"os"
	"strings"

	"golang.org/x/tools/go/ssa"
)

func init() {
	extraRules["C17"] = append(extraRules["C17"], more4SignerPerRequest, more4UpdateWrittenBack)
	extraRules["C02"] = append(extraRules["C02"], more4SignerPerRequest)
	extraRules["C03"] = append(extraRules["C03"], more4VersionAction)
	extraRules["C07"] = append(extraRules["C07"], more4PageSizeIsTheRequests)
	extraRules["C09"] = append(extraRules["C09"], more4BothVersionLists)
	extraRules["C18"] = append(extraRules["C18"], more4TagCodecAgrees)
	extraRules["C19"] = append(extraRules["C19"], more4EventSizeIsStoredSize)
	extraRules["C13"] = append(extraRules["C13"], more4RangeRefusedByParserOnly)
	extraRules["C12"] = append(extraRules["C12"], more4NoStaleTail)
	extraControls["C12"] = append(extraControls["C12"],
		Control{Name: "revert fix c4f3cd0: CRLF shifted out of the header buffer before it is stashed", Rule: "R-C12-8", File: "s3api/utils/signed-chunk-reader.go",
			Old: "\tif !cr.isFirstHeader {\n\t\terr := readAndSkip(rdr, '\\r', '\\n')\n\t\tif err != nil {\n\t\t\treturn cr.handleRdrErr(err, header)\n\t\t}\n\t}\n",
			New: "\tif !cr.isFirstHeader && stashLen == 0 {\n\t\terr := readAndSkip(rdr, '\\r', '\\n')\n\t\tif err != nil {\n\t\t\treturn cr.handleRdrErr(err, header)\n\t\t}\n\n\t\tcopy(header, header[2:])\n\t\t*l = *l - 2\n\t}\n",
			More: []Edit{
				{"s3api/utils/signed-chunk-reader.go", "cr.parseChunkHeaderBytes(p[:n])", "cr.parseChunkHeaderBytes(p[:n], &n)"},
				{"s3api/utils/signed-chunk-reader.go", "func (cr *ChunkReader) parseChunkHeaderBytes(header []byte) (int64, string, int, error) {", "func (cr *ChunkReader) parseChunkHeaderBytes(header []byte, l *int) (int64, string, int, error) {"},
				{"s3api/utils/signed-chunk-reader.go", "\thdrLen := len(header) - src.Len() - rdr.Buffered()\n", "\thdrLen := bytes.Index(header, []byte{'\\r', '\\n'}) + len(chunkHdrDelim)\n"},
			}, Expect: "shift"},
	)

	extraControls["C17"] = append(extraControls["C17"],
		Control{Name: "request signatures verified with one shared signer", Rule: "R-C17-14", File: "s3api/utils/auth-reader.go",
			Old: "\tsigner := v4.NewSigner()\n", New: "\tsigner := reqSigner\n",
			More: []Edit{{"s3api/utils/auth-reader.go", "// CheckValidSignature validates", "var reqSigner = v4.NewSigner()\n\n// CheckValidSignature validates"}}, Expect: "signer"},
		Control{Name: "account update modifies a copy that is never stored", Rule: "R-C17-15", File: "auth/iam_internal.go",
			Old: "\t\tupdateAcc(&acc, props)\n\t\tconf.AccessAccounts[access] = acc\n", New: "\t\tupdateAcc(&acc, props)\n", Expect: "UpdateUserAccount"},
	)
	extraControls["C03"] = append(extraControls["C03"],
		Control{Name: "GET ?versionId=null authorised as a plain GetObject", Rule: "R-C03-8", File: "s3api/controllers/base.go",
			Old: "\tif versionId != \"\" {\n\t\taction = auth.GetObjectVersionAction\n", New: "\tif versionId != \"\" && versionId != \"null\" {\n\t\taction = auth.GetObjectVersionAction\n", Expect: "GetActions"},
	)
	extraControls["C07"] = append(extraControls["C07"],
		Control{Name: "max-keys=0 replaced by the default page size", Rule: "R-C07-9", File: "backend/posix/posix.go",
			Old: "\tmaxkeys := int32(0)\n\tif input.MaxKeys != nil {\n\t\tmaxkeys = *input.MaxKeys\n\t}\n\tvar fetchOwner bool",
			New: "\tmaxkeys := int32(1000)\n\tif input.MaxKeys != nil && *input.MaxKeys > 0 {\n\t\tmaxkeys = *input.MaxKeys\n\t}\n\tvar fetchOwner bool", Expect: "ListObjectsV2"},
	)
	extraControls["C09"] = append(extraControls["C09"],
		Control{Name: "WalkVersions drops the delete markers of individually listed keys", Rule: "R-C09-7", File: "backend/walk.go",
			Old: "\t\t\tobjects = append(objects, res.ObjectVersions...)\n\t\t\tdelMarkers = append(delMarkers, res.DelMarkers...)\n\n\t\t\tif res.Truncated {\n\t\t\t\ttruncated = true\n\t\t\t\tnextMarker = path\n\t\t\t\tnextVersionIdMarker = res.NextVersionIdMarker\n\t\t\t\treturn fs.SkipAll\n\t\t\t}\n\t\t\treturn nil\n\t\t}\n\n\t\t// Common prefixes are a set",
			New: "\t\t\tobjects = append(objects, res.ObjectVersions...)\n\n\t\t\tif res.Truncated {\n\t\t\t\ttruncated = true\n\t\t\t\tnextMarker = path\n\t\t\t\tnextVersionIdMarker = res.NextVersionIdMarker\n\t\t\t\treturn fs.SkipAll\n\t\t\t}\n\t\t\treturn nil\n\t\t}\n\n\t\t// Common prefixes are a set", Expect: "DelMarkers"},
	)
	extraControls["C18"] = append(extraControls["C18"],
		Control{Name: "ACL tag written URL-safe, read with the standard alphabet", Rule: "R-C18-11", File: "backend/s3proxy/s3.go",
			Old: "\treturn base64.StdEncoding.EncodeToString(input)\n", New: "\treturn base64.URLEncoding.EncodeToString(input)\n", Expect: "base64"},
	)
	extraControls["C19"] = append(extraControls["C19"],
		Control{Name: "PutObject event carries the length on the wire", Rule: "R-C19-11", File: "s3api/controllers/base.go",
			Old: "\t\t\tObjectETag:    &res.ETag,\n\t\t\tObjectSize:    contentLength,\n\t\t\tEventName:     s3event.EventObjectCreatedPut,\n",
			New: "\t\t\tObjectETag:    &res.ETag,\n\t\t\tObjectSize:    int64(ctx.Request().Header.ContentLength()),\n\t\t\tEventName:     s3event.EventObjectCreatedPut,\n", Expect: "ObjectSize"},
	)
	extraControls["C13"] = append(extraControls["C13"],
		Control{Name: "controller refuses Range forms it does not know", Rule: "R-C13-8", File: "s3api/controllers/base.go",
			Old: "\taction := auth.GetObjectAction\n\tif versionId != \"\" {",
			New: "\tif acceptRange != \"\" && !strings.HasPrefix(acceptRange, \"bytes=\") {\n\t\treturn SendResponse(ctx, s3err.GetAPIError(s3err.ErrInvalidRange), &MetaOpts{Logger: c.logger, MetricsMng: c.mm, Action: metrics.ActionGetObject, BucketOwner: parsedAcl.Owner})\n\t}\n\taction := auth.GetObjectAction\n\tif versionId != \"\" {", Expect: "InvalidRange"},
	)
}

// stripConv: v without integer / type conversions.
func stripConv(v ssa.Value) ssa.Value {
	for {
		switch x := v.(type) {
		case *ssa.Convert:
			v = x.X
		case *ssa.ChangeType:
			v = x.X
		default:
			return v
		}
	}
}

// ---- R-C17-14 / R-C02-9: the verifying signer is made per request --------------------------------------------------

// The SigV4 signer keeps the last derived signing key per region/service and reuses it when the access key id and
// the day match; the secret is not part of that comparison. A signer that outlives one verification therefore
// keeps accepting the old secret of an account (and refuses the new one) after the secret was changed.
func more4SignerPerRequest(p *Program, r *Report) {
	rule := "R-C17-14"
	if r.Prop == "C02" {
		rule = "R-C02-9"
	}
	r.Rule(rule, "a changed secret takes effect at once: every signer that recomputes a request signature (SignHTTP / PresignHTTP in s3api) is created by v4.NewSigner in the verifying function itself, or the signer's derived-key cache compares the secret; a signer shared between requests keeps verifying with the key derived from the previous secret", 2)
	// (b) the cache compares the secret
	cacheComparesSecret := false
	if g := p.Func("(*aws/signer/internal/v4.derivedKeyCache).get"); g != nil {
		for _, ce := range condEdgesOf(g) {
			if ce.isEqNeq && (ce.atoms["field:SecretAccessKey"] || ce.atoms["field:Credential"] && ce.atoms["field:SecretAccessKey"]) {
				cacheComparesSecret = true
			}
		}
	}
	n := 0
	for _, f := range p.FuncsIn(utilsPkg, mwPkg, ctrlPkg) {
		var cs []ssa.CallInstruction
		for _, c := range callsIn(f) {
			if cn := calleeName(c); strings.HasSuffix(cn, "signer/v4.Signer).SignHTTP") || strings.HasSuffix(cn, "signer/v4.Signer).PresignHTTP") {
				cs = append(cs, c)
			}
		}
		keys := siteKeys(f, cs)
		for _, c := range cs {
			n++
			local := true
			what := ""
			rs := Origins(c.Common().Args[0], nil)
			if len(rs) == 0 {
				local = false
				what = "unknown origin"
			}
			for _, rt := range rs {
				if rt.Kind == "call" && strings.HasSuffix(rt.Desc, "signer/v4.NewSigner") && rt.Call != nil && rt.Call.Parent() == f {
					continue
				}
				local = false
				what = rt.String()
			}
			own := strings.HasPrefix(calleeName(c), "(aws/") || strings.HasPrefix(calleeName(c), "(*aws/") // the gateway's own copy of the signer
			r.Check(local || (own && cacheComparesSecret), rule, keys[c]+"/signer-per-request", p.Pos(c.Pos()), "signer created in the verifying function",
				"the signature is recomputed with a signer that outlives the request ("+what+"): its derived-key cache matches on access key id and day only, so after an account's secret is changed the old secret keeps authenticating and the new one is refused")
		}
	}
	if n < 2 {
		broken("%s: only %d signature recomputation sites found in s3api (expected 2)", rule, n)
	}
}

// ---- R-C17-15: an account modified through updateAcc is stored ------------------------------------------------------

func more4UpdateWrittenBack(p *Program, r *Report) {
	r.Rule("R-C17-15", "an acknowledged account update is stored: the struct handed to updateAcc is a local copy which, after the call, is written into the accounts map or handed to the storing call on every path to the function's success return", 3)
	n := 0
	for _, f := range p.FuncsIn("auth") {
		cs := callsTo(f, "auth.updateAcc")
		keys := siteKeys(f, cs)
		for _, c := range cs {
			n++
			key := keys[c] + "/written-back"
			pos := p.Pos(c.Pos())
			ptr := callArgs(c)[0]
			for {
				if fa, ok := ptr.(*ssa.FieldAddr); ok {
					ptr = fa.X
					continue
				}
				break
			}
			al, ok := ptr.(*ssa.Alloc)
			if !ok || al.Parent() != f {
				r.Viol("R-C17-15", key, pos, "updateAcc modifies a struct this function does not own ("+ptr.Name()+"): the modified account is not seen to be stored (a pointer to a copy made elsewhere is lost when the function returns)")
				continue
			}
			// consumers: the copy, loaded after the call, becomes a map element or a call argument
			avoid := map[*ssa.BasicBlock]bool{}
			for _, ref := range *al.Referrers() {
				ld, isLd := ref.(*ssa.UnOp)
				if !isLd || ld.Op != token.MUL || !mayPrecede(c, ld) {
					continue
				}
				for _, u := range *ld.Referrers() {
					switch x := u.(type) {
					case *ssa.MapUpdate:
						if x.Value == ssa.Value(ld) {
							avoid[x.Block()] = true
						}
					case ssa.CallInstruction:
						if g := x.Common().StaticCallee(); g != nil && g.Pkg != nil && strings.HasPrefix(g.Pkg.Pkg.Path(), modPath) {
							avoid[x.Block()] = true
						}
					case *ssa.Store:
						// stored into a longer-lived structure (a field or an element)
						if _, isAl := x.Addr.(*ssa.Alloc); !isAl && x.Val == ssa.Value(ld) {
							avoid[x.Block()] = true
						}
					}
				}
			}
			if avoid[c.Block()] {
				// the consumer follows in the same block
				r.Ok("R-C17-15", key, pos, "modified copy stored right after the update")
				continue
			}
			reach := reachableAvoiding(f, c.Block(), nil, avoid)
			bad := ""
			for _, s := range errReturnSites(f) {
				if !isNilConst(s.val) {
					continue
				}
				if s.reachedIn(reach) {
					bad = p.Pos(s.ret.Pos())
				}
			}
			if errorResultIdx(f.Signature) < 0 {
				for _, rt := range returnsOf(f) {
					if reach[rt.Block()] {
						bad = p.Pos(rt.Pos())
					}
				}
			}
			r.Check(len(avoid) > 0 && bad == "", "R-C17-15", key, pos, "modified copy stored before every success return",
				"the account modified by updateAcc is a local copy that is not written back (map element / storing call) before the success return at "+bad+": the update is acknowledged and lost")
		}
	}
	if n < 3 {
		broken("R-C17-15: only %d updateAcc call sites found in auth (expected at least 3)", n)
	}
}

// ---- R-C03-8: a version-qualified read is authorised as a version read ----------------------------------------------

func more4VersionAction(p *Program, r *Report) {
	r.Rule("R-C03-8", "version-qualified requests are decided with the version action: where an access decision chooses between an action and its ...Version sibling, the plain action is chosen only on the edge on which the request's versionId is the empty string", 1)
	n := 0
	for _, d := range decisions(s3Handlers(p)) {
		av := first(d.fields["Action"])
		if av == nil {
			continue
		}
		lvs := valueLeaves(av, d.call.Block())
		if len(lvs) < 2 {
			continue
		}
		byName := map[string]valueLeaf{}
		for _, lf := range lvs {
			if s, ok := constString(lf.val); ok {
				byName[s] = lf
			}
		}
		for name, lf := range byName {
			if _, has := byName[name+"Version"]; !has {
				continue
			}
			n++
			var cut []edge
			for _, ce := range condEdgesOf(d.fn) {
				if !ce.isEqNeq || ce.binop == nil || ce.viaPhi {
					continue
				}
				var other ssa.Value
				if s, ok := constString(ce.binop.Y); ok && s == "" {
					other = ce.binop.X
				} else if s, ok := constString(ce.binop.X); ok && s == "" {
					other = ce.binop.Y
				}
				if other == nil {
					continue
				}
				if hasCallRoot(Origins(other, nil), fiberCtx+".Query", "versionId") {
					cut = append(cut, ce.holds)
				}
			}
			ok := len(cut) > 0 && leafOnlyBehind(d.fn, lf, cut)
			r.Check(ok, "R-C03-8", d.key+".Action/"+name, p.Pos(d.call.Pos()), "plain action only for versionId == \"\"",
				"the decision uses "+name+" although the request names a version (versionId not empty on that path): an account that may read objects but not their versions (or is denied "+name+"Version) reads a non-current version")
		}
	}
	if n < 1 {
		broken("R-C03-8: no decision choosing between an action and its Version sibling found (GetObject expected)")
	}
}

// ---- R-C07-9: the page size handed to the walk is the request's ------------------------------------------------------

// derefOfField: v is (a conversion of) *x.<field> for a pointer field of that name.
func derefOfField(v ssa.Value, field string) bool {
	u, ok := stripConv(v).(*ssa.UnOp)
	if !ok || u.Op != token.MUL {
		return false
	}
	switch x := u.X.(type) {
	case *ssa.UnOp:
		if fa, isFA := x.X.(*ssa.FieldAddr); isFA && x.Op == token.MUL {
			return fieldName(fa.X.Type(), fa.Field) == field
		}
	case *ssa.Field:
		return fieldName(x.X.Type(), x.Field) == field
	}
	return false
}

func more4PageSizeIsTheRequests(p *Program, r *Report) {
	r.Rule("R-C07-9", "at most max-keys entries: in every backend listing that walks the tree, once the request's MaxKeys is known to be set every path to backend.Walk / WalkVersions passes the assignment of *MaxKeys to the page size (no value of max-keys, 0 included, is replaced by a default)", 4)
	n := 0
	for _, f := range p.FuncsIn("backend/posix", "backend/scoutfs") {
		ws := callsTo(f, "backend.Walk", "backend.WalkVersions")
		if len(ws) == 0 {
			continue
		}
		keys := siteKeys(f, ws)
		for _, w := range ws {
			g := w.Common().StaticCallee()
			idx := -1
			for i, prm := range g.Params {
				if refParamName(prm) == "max" {
					idx = i
				}
			}
			if idx < 0 {
				r.Viol("R-C07-9", keys[w], p.Pos(w.Pos()), "the walk has no parameter named max (anchor drift)")
				continue
			}
			n++
			arg := stripConv(callArgs(w)[idx])
			// where the request's value is assigned
			assign := map[*ssa.BasicBlock]bool{}
			if ld, ok := arg.(*ssa.UnOp); ok && ld.Op == token.MUL {
				if al, isAl := ld.X.(*ssa.Alloc); isAl {
					for _, ref := range *al.Referrers() {
						if st, isSt := ref.(*ssa.Store); isSt && st.Addr == ssa.Value(al) && derefOfField(st.Val, "MaxKeys") {
							assign[st.Block()] = true
						}
					}
				}
			}
			for _, lf := range valueLeaves(arg, w.Block()) {
				if derefOfField(lf.val, "MaxKeys") && lf.from != nil {
					assign[lf.from] = true
				}
			}
			var set []edge
			for _, ce := range condEdgesOf(f) {
				if isNilTestOfField(ce, "MaxKeys") && (!ce.viaPhi || ce.exact == ce.fails.succ) {
					set = append(set, ce.fails)
				}
			}
			if len(assign) == 0 || len(set) == 0 {
				// another shape (a nil-tolerant getter): the value must still come from the request's field
				from := false
				for _, rt := range Origins(arg, nil) {
					if rt.Kind == "field" && rt.Desc == "MaxKeys" {
						from = true
					}
				}
				r.Check(from, "R-C07-9", keys[w], p.Pos(w.Pos()), "page size read from MaxKeys", "the page size handed to the walk does not come from the request's MaxKeys")
				continue
			}
			ok := true
			if os.Getenv("VGW_DEBUG") != "" {
				fmt.Fprintf(os.Stderr, "R-C07-9 %s: assign=%d set=%d arg=%T\n", keys[w], len(assign), len(set), arg)
			}
			for _, e := range set {
				from := e.from.Succs[e.succ]
				if assign[from] {
					continue
				}
				if reachableAvoiding(f, from, nil, assign)[w.Block()] {
					ok = false
				}
			}
			r.Check(ok, "R-C07-9", keys[w], p.Pos(w.Pos()), "page size <- *MaxKeys whenever it is set",
				"a request whose max-keys is set can reach the walk without its value being taken (it is replaced by a default for some values): a max-keys=0 request returns entries, i.e. more than max-keys per page")
		}
	}
	if n < 4 {
		broken("R-C07-9: only %d walk calls found in the posix/scoutfs listings (expected at least 4)", n)
	}
}

// ---- R-C09-7: both lists of every per-key version result are consumed -------------------------------------------------

// sliceFieldsOf: the names of the slice-typed fields of the struct t (or *t) names.
func sliceFieldsOf(t types.Type) []string {
	if pt, ok := t.Underlying().(*types.Pointer); ok {
		t = pt.Elem()
	}
	st, ok := t.Underlying().(*types.Struct)
	if !ok {
		return nil
	}
	var out []string
	for i := 0; i < st.NumFields(); i++ {
		if _, isSl := st.Field(i).Type().Underlying().(*types.Slice); isSl {
			out = append(out, fieldName(t, i))
		}
	}
	return out
}

func more4BothVersionLists(p *Program, r *Report) {
	r.Rule("R-C09-7", "every version and every delete marker the per-key callback reports is listed: after each call of the callback in WalkVersions every list (slice field: ObjectVersions, DelMarkers) of its result is read", 3)
	f := p.Func("backend.WalkVersions")
	n := 0
	for _, fn := range withAnon(f) {
		var cs []ssa.CallInstruction
		for _, c := range callsIn(fn) {
			if c.Common().IsInvoke() || c.Common().StaticCallee() != nil {
				continue
			}
			res := c.Common().Signature().Results()
			if res.Len() != 2 || len(sliceFieldsOf(res.At(0).Type())) < 2 {
				continue
			}
			cs = append(cs, c)
		}
		for i, c := range cs {
			n++
			read := map[string]bool{}
			var walk func(v ssa.Value, depth int)
			walk = func(v ssa.Value, depth int) {
				if v == nil || depth > 6 || v.Referrers() == nil {
					return
				}
				for _, u := range *v.Referrers() {
					switch x := u.(type) {
					case *ssa.Extract:
						if x.Index == 0 {
							walk(x, depth+1)
						}
					case *ssa.Field:
						read[fieldName(x.X.Type(), x.Field)] = true
					case *ssa.FieldAddr:
						read[fieldName(x.X.Type(), x.Field)] = true
					case *ssa.Store:
						if x.Val == v {
							if al, ok := x.Addr.(*ssa.Alloc); ok {
								walk(al, depth+1)
							}
						}
					case *ssa.Phi:
						walk(x, depth+1)
					case *ssa.UnOp:
						if x.Op == token.MUL {
							walk(x, depth+1)
						}
					}
				}
			}
			walk(c.Value(), 0)
			key := fnName(fn) + "/callback#" + itoa(i+1)
			for _, fld := range sliceFieldsOf(c.Common().Signature().Results().At(0).Type()) {
				r.Check(read[fld], "R-C09-7", key+"."+fld, p.Pos(c.Pos()), fld+" read", "the "+fld+" of the callback's result are dropped at this call: ListObjectVersions omits them for the keys listed here")
			}
		}
	}
	if n < 3 {
		broken("R-C09-7: only %d calls of the per-key callback found in WalkVersions (expected 3)", n)
	}
}

// ---- R-C18-11: the ACL tag is decoded with the alphabet it was encoded with ---------------------------------------------

func more4TagCodecAgrees(p *Program, r *Report) {
	r.Rule("R-C18-11", "what the proxy stores it can read back: the base64 alphabet used to encode the ACL bucket tag is the one used to decode it", 1)
	encs := map[string]string{} // direction -> encoding global
	pos := ""
	for _, f := range p.FuncsIn("backend/s3proxy") {
		for _, c := range callsIn(f) {
			dir := ""
			switch calleeName(c) {
			case "(*encoding/base64.Encoding).EncodeToString", "(*encoding/base64.Encoding).Encode", "(*encoding/base64.Encoding).AppendEncode":
				dir = "encode"
			case "(*encoding/base64.Encoding).DecodeString", "(*encoding/base64.Encoding).Decode", "(*encoding/base64.Encoding).AppendDecode":
				dir = "decode"
			default:
				continue
			}
			pos = p.Pos(c.Pos())
			name := "?"
			if ld, ok := c.Common().Args[0].(*ssa.UnOp); ok && ld.Op == token.MUL {
				if g, isG := ld.X.(*ssa.Global); isG {
					name = g.Pkg.Pkg.Path() + "." + g.Name()
				}
			}
			if old, ok := encs[dir]; ok && old != name {
				name = old + "|" + name
			}
			encs[dir] = name
		}
	}
	if encs["encode"] == "" || encs["decode"] == "" {
		broken("R-C18-11: the s3proxy backend no longer base64-encodes and -decodes (the ACL tag codec moved: anchor drift)")
	}
	r.Check(encs["encode"] == encs["decode"] && !strings.Contains(encs["encode"], "?") && !strings.Contains(encs["encode"], "|"), "R-C18-11", "s3proxy/base64", pos,
		"encode and decode with "+encs["encode"], "the ACL tag is encoded with "+encs["encode"]+" and decoded with "+encs["decode"]+": an ACL whose encoding contains one of the two differing characters cannot be read back and every later request on the bucket fails through the proxy")
}

// ---- R-C19-11: the size an object-created event reports is the size handed to the backend --------------------------------

func more4EventSizeIsStoredSize(p *Program, r *Report) {
	r.Rule("R-C19-11", "the notification describes the stored object: the ObjectSize of PutObject's success response is the very length (ContentLength) handed to the backend, not another length of the request", 1)
	n := 0
	for _, bc := range backendCalls(s3Handlers(p)) {
		if bc.method != "PutObject" {
			continue
		}
		args := callArgs(bc.call)
		var in map[string][]ssa.Value
		for _, a := range args {
			if m, _ := litFieldsAt(a, bc.call); m != nil && len(m["ContentLength"]) > 0 {
				in = m
			}
		}
		if in == nil {
			r.Undecided("R-C19-11", bc.key, p.Pos(bc.call.Pos()), "the PutObject input is not a literal built in place")
			continue
		}
		lenv := in["ContentLength"][0]
		for _, rc := range responseCalls(bc.fn) {
			if rc.fields == nil || len(rc.fields["ObjectSize"]) == 0 || !isNilConst(rc.errArg) || !mayPrecede(bc.call, rc.call) {
				continue
			}
			n++
			sz := stripConv(rc.fields["ObjectSize"][0])
			ok := false
			if al, isAl := lenv.(*ssa.Alloc); isAl {
				if ld, isLd := sz.(*ssa.UnOp); isLd && ld.Op == token.MUL && ld.X == ssa.Value(al) {
					ok = true
				}
			} else if sz == stripConv(lenv) {
				ok = true
			}
			r.Check(ok, "R-C19-11", bc.key+"=>ObjectSize", p.Pos(rc.call.Pos()), "ObjectSize is the length handed to the backend",
				"the s3:ObjectCreated:Put event reports a size that is not the length handed to the backend (e.g. the length on the wire of an aws-chunked upload): the notification does not describe the stored object")
		}
	}
	if n < 1 {
		broken("R-C19-11: no PutObject success response with an ObjectSize found")
	}
}

// ---- R-C13-8: only the range parser refuses a range -----------------------------------------------------------------------

func pkgConstInt(p *Program, pkg, name string) (int64, bool) {
	for _, sp := range p.SSAPkg {
		if sp.Pkg.Path() != modPath+"/"+pkg {
			continue
		}
		if c, ok := sp.Pkg.Scope().Lookup(name).(*types.Const); ok && c.Val().Kind() == constant.Int {
			v, exact := constant.Int64Val(c.Val())
			return v, exact
		}
	}
	return 0, false
}

func more4RangeRefusedByParserOnly(p *Program, r *Report) {
	r.Rule("R-C13-8", "an unsupported or malformed Range is ignored, not refused: the front end (controllers, middlewares, utils) never produces InvalidRange itself; 416 comes from the range parser only", 1)
	code, ok := pkgConstInt(p, "s3err", "ErrInvalidRange")
	if !ok {
		broken("R-C13-8: s3err.ErrInvalidRange not found")
	}
	n, bad := 0, 0
	for _, f := range p.FuncsIn(ctrlPkg, mwPkg, utilsPkg, "s3api") {
		for _, c := range callsTo(f, "s3err.GetAPIError") {
			n++
			if k, isC := constInt(callArgs(c)[0]); isC && k == code {
				bad++
				r.Viol("R-C13-8", fnName(f)+"/InvalidRange", p.Pos(c.Pos()), "the front end answers InvalidRange (416) itself: a Range header in a form the gateway does not support must be ignored (200, whole object), only a parsed range that cannot be satisfied is refused by the range parser")
			}
		}
	}
	if n < 50 {
		broken("R-C13-8: only %d GetAPIError calls found in the front end", n)
	}
	if bad == 0 {
		r.Ok("R-C13-8", "front-end/InvalidRange", "s3api", itoa(n)+" API errors produced in the front end, none is InvalidRange")
	}
}

// ---- R-C12-8: a buffer shifted in place is not used at its old length --------------------------------------------------

// After copy(x, x[k:]) the last k bytes of x are stale copies. The signed chunk reader once removed the CRLF in
// front of a chunk header that way and then stashed the buffer at its old length when the header turned out to be
// incomplete: the retry parsed two stale bytes and refused a valid stream (fix c4f3cd0).
func more4NoStaleTail(p *Program, r *Report) {
	r.Rule("R-C12-8", "a parse buffer shifted left in place is not used at its old length: after copy(x, x[k:]) in a chunk reader no call (stash, copy, search) receives x itself; every later use re-slices it (the stash must hold exactly the bytes received, or a chunk header split across two reads cannot be resumed)", 1)
	n := 0
	for _, f := range p.FuncsIn(utilsPkg) {
		if f.Signature.Recv() == nil || !strings.Contains(typeStr(f.Signature.Recv().Type()), "ChunkReader") {
			continue
		}
		k := 0
		for _, c := range callsIn(f) {
			bi, isB := c.Common().Value.(*ssa.Builtin)
			if !isB || bi.Name() != "copy" || len(c.Common().Args) != 2 {
				continue
			}
			dst := c.Common().Args[0]
			sl, ok := c.Common().Args[1].(*ssa.Slice)
			if !ok || sl.Low == nil || !sameSliceValue(sl.X, dst) {
				continue
			}
			if lo, isC := constInt(sl.Low); isC && lo == 0 {
				continue
			}
			n++
			k++
			key := fnName(f) + "/shift#" + itoa(k)
			bad := ""
			for _, b := range f.Blocks {
				for _, in := range b.Instrs {
					u, isCall := in.(ssa.CallInstruction)
					if !isCall || u == c || !mayPrecede(c, in) {
						continue
					}
					if ub, isUB := u.Common().Value.(*ssa.Builtin); isUB && (ub.Name() == "len" || ub.Name() == "cap") {
						continue
					}
					for _, a := range u.Common().Args {
						if a == dst {
							bad = calleeName(u) + " at " + p.Pos(in.Pos())
						}
					}
				}
			}
			r.Check(bad == "", "R-C12-8", key, p.Pos(c.Pos()), "every use after the shift re-slices the buffer",
				"the buffer is shifted left in place and then handed on at its old length ("+bad+"): its tail holds stale bytes; stashed with an incomplete chunk header they are parsed on the next read and a valid stream whose header straddles two reads is refused")
		}
	}
	if n < 1 {
		broken("R-C12-8: no in-place shift found in the chunk readers (the signed reader removes parsed headers from the caller's buffer that way)")
	}
}
