package main

// Rules added after the sixth (unseen) batch of seeded changes (DESIGN.md §5.6): structural necessary conditions
// nobody had stated, each restated by role so that it survives the refactorings under /verif/benign.

import (
	"fmt"
	"go/constant"
	"go/token"
	"go/types"
	"os"
	"strings"

	"golang.org/x/tools/go/ssa"
)

func init() {
	extraRules["C17"] = append(extraRules["C17"], more4SignerPerRequest, more4UpdateWrittenBack)
	extraRules["C02"] = append(extraRules["C02"], more4SignerPerRequest)
	extraRules["C03"] = append(extraRules["C03"], more4VersionAction)
	extraRules["C07"] = append(extraRules["C07"], more4PageSizeIsTheRequests)
	extraRules["C09"] = append(extraRules["C09"], more4BothVersionLists)
	extraRules["C18"] = append(extraRules["C18"], more4TagCodecAgrees)
	extraRules["C19"] = append(extraRules["C19"], more4EventSizeIsStoredSize)
	extraRules["C13"] = append(extraRules["C13"], more4RangeRefusedByParserOnly)
	extraRules["C12"] = append(extraRules["C12"], more4NoStaleTail)
	extraRules["C05"] = append(extraRules["C05"], more4BodyOpenedBeforeReturn)
	extraControls["C05"] = append(extraControls["C05"],
		Control{Name: "GetObject hands out a body that opens the path on first read", Rule: "R-C05-7", File: "backend/posix/posix.go",
			Old: "\t\tBody:               body,\n\t\tChecksumCRC32:      checksums.CRC32,", New: "\t\tBody:               lazyBody{path: objPath},\n\t\tChecksumCRC32:      checksums.CRC32,",
			More: []Edit{{"backend/posix/posix.go", "func (p *Posix) HeadObject(ctx context.Context, input *s3.HeadObjectInput) (*s3.HeadObjectOutput, error) {\n", "type lazyBody struct{ path string }\n\nfunc (l lazyBody) Read(b []byte) (int, error) {\n\tf, err := os.Open(l.path)\n\tif err != nil {\n\t\treturn 0, err\n\t}\n\tdefer f.Close()\n\treturn f.Read(b)\n}\nfunc (l lazyBody) Close() error { return nil }\n\nfunc (p *Posix) HeadObject(ctx context.Context, input *s3.HeadObjectInput) (*s3.HeadObjectOutput, error) {\n"},
				{"backend/posix/posix.go", "\tvar body io.ReadCloser = f\n", "\tvar body io.ReadCloser = f\n\t_ = body\n"}}, Expect: "body"},
	)
	extraRules["C11"] = append(extraRules["C11"], more4DeleteBucketClearsTmp)
	extraRules["C04"] = append(extraRules["C04"], more4PruneProbesWhatItRemoves)
	extraRules["C10"] = append(extraRules["C10"], more4LegalHoldOnEveryPath)
	extraRules["C14"] = append(extraRules["C14"], more4EveryPatternTried)
	extraRules["C18"] = append(extraRules["C18"], more4ProxyKeepsLists)
	extraControls["C11"] = append(extraControls["C11"],
		Control{Name: "DeleteBucket removes only the multipart area recursively", Rule: "R-C11-8", File: "backend/posix/posix.go",
			Old: "\terr = os.RemoveAll(bucket)\n\tif err != nil {\n\t\treturn fmt.Errorf(\"remove bucket: %w\", err)\n\t}\n",
			New: "\terr = os.RemoveAll(filepath.Join(bucket, metaTmpMultipartDir))\n\tif err != nil {\n\t\treturn fmt.Errorf(\"remove bucket: %w\", err)\n\t}\n\tos.Remove(filepath.Join(bucket, metaTmpDir))\n\tif err = os.Remove(bucket); err != nil {\n\t\treturn s3err.GetAPIError(s3err.ErrBucketNotEmpty)\n\t}\n", Expect: "removes-tmp-dir"},
		Control{Name: "delete marker path truncates the live object", Rule: "R-C11-1", File: "backend/posix/posix.go",
			Old: "\terr = os.RemoveAll(bucket)\n\tif err != nil {\n\t\treturn fmt.Errorf(\"remove bucket: %w\", err)\n\t}\n",
			New: "\tos.Truncate(bucket, 0)\n\terr = os.RemoveAll(bucket)\n\tif err != nil {\n\t\treturn fmt.Errorf(\"remove bucket: %w\", err)\n\t}\n", Expect: "os.Truncate"},
	)
	extraControls["C04"] = append(extraControls["C04"],
		Control{Name: "removeParents looks up the marker of the entry just removed", Rule: "R-C04-7", File: "backend/posix/posix.go",
			Old: "\t\t_, err := p.meta.RetrieveAttribute(nil, bucket, parent, etagkey)\n", New: "\t\t_, err := p.meta.RetrieveAttribute(nil, bucket, objPath, etagkey)\n", Expect: "removeParents"},
	)
	extraControls["C10"] = append(extraControls["C10"],
		Control{Name: "accepted governance bypass skips the legal hold", Rule: "R-C10-11", File: "auth/object_lock.go",
			Old: "\t\t\t\t\t\t\terr = VerifyBucketPolicy(policy, userAccess, bucket, key, BypassGovernanceRetentionAction)\n\t\t\t\t\t\t\tif err != nil {\n\t\t\t\t\t\t\t\treturn s3err.GetAPIError(s3err.ErrObjectLocked)\n\t\t\t\t\t\t\t}\n\t\t\t\t\t\t}\n\t\t\t\t\tcase types.ObjectLockRetentionModeCompliance:",
			New: "\t\t\t\t\t\t\terr = VerifyBucketPolicy(policy, userAccess, bucket, key, BypassGovernanceRetentionAction)\n\t\t\t\t\t\t\tif err != nil {\n\t\t\t\t\t\t\t\treturn s3err.GetAPIError(s3err.ErrObjectLocked)\n\t\t\t\t\t\t\t}\n\t\t\t\t\t\t\tcontinue\n\t\t\t\t\t\t}\n\t\t\t\t\tcase types.ObjectLockRetentionModeCompliance:", Expect: "legal-hold"},
		Control{Name: "DeleteObjects lock-checks a de-duplicated copy of the list", Rule: "R-C10-12", File: "s3api/controllers/base.go",
			Old: "\terr = auth.CheckObjectAccess(ctx.Context(), bucket, acct.Access, dObj.Objects, bypass, c.be)\n",
			New: "\tuniq := dObj.Objects[:0:0]\n\tfor i, o := range dObj.Objects {\n\t\tif i == 0 || *o.Key != *dObj.Objects[i-1].Key {\n\t\t\tuniq = append(uniq, o)\n\t\t}\n\t}\n\terr = auth.CheckObjectAccess(ctx.Context(), bucket, acct.Access, uniq, bypass, c.be)\n", Expect: "lock-check-list"},
	)
	extraControls["C14"] = append(extraControls["C14"],
		Control{Name: "FindMatch hands only patterns containing '*' to the matcher", Rule: "R-C14-7", File: "auth/bucket_policy_resources.go",
			Old: "\tfor res := range r {\n\t\tif r.Match(res, resource) {", New: "\tfor res := range r {\n\t\tif res != resource && !strings.Contains(res, \"*\") {\n\t\t\tcontinue\n\t\t}\n\t\tif r.Match(res, resource) {", Expect: "every-pattern"},
	)
	extraControls["C18"] = append(extraControls["C18"],
		Control{Name: "proxy sorts the client's part list before forwarding", Rule: "R-C18-12", File: "backend/s3proxy/s3.go",
			Old: "func (s *S3Proxy) CompleteMultipartUpload(ctx context.Context, input *s3.CompleteMultipartUploadInput) (*s3.CompleteMultipartUploadOutput, error) {\n",
			New: "func (s *S3Proxy) CompleteMultipartUpload(ctx context.Context, input *s3.CompleteMultipartUploadInput) (*s3.CompleteMultipartUploadOutput, error) {\n\tif input.MultipartUpload != nil {\n\t\tps := input.MultipartUpload.Parts\n\t\tfor i := 1; i < len(ps); i++ {\n\t\t\tif *ps[i].PartNumber < *ps[i-1].PartNumber {\n\t\t\t\tps[i], ps[i-1] = ps[i-1], ps[i]\n\t\t\t}\n\t\t}\n\t}\n", Expect: "input-lists"},
	)
	extraRules["C20"] = append(extraRules["C20"], more4RetryLoopsSeeErrors)
	extraControls["C20"] = append(extraControls["C20"],
		Control{Name: "link(): EEXIST retry ignores why the name could not be cleared", Rule: "R-C20-13", File: "backend/posix/with_otmpfile.go",
			Old: "\t\t\terr := os.Remove(objPath)\n\t\t\tif err != nil && !errors.Is(err, fs.ErrNotExist) {\n\t\t\t\treturn fmt.Errorf(\"remove stale path: %w\", err)\n\t\t\t}\n\t\t\tcontinue\n",
			New: "\t\t\tos.Remove(objPath)\n\t\t\tcontinue\n", Expect: "retry"},
	)
	extraRules["C08"] = append(extraRules["C08"], moreETagProvenance)
	extraRules["C01"] = append(extraRules["C01"], func(p *Program, r *Report) {
		r.Rule("R-C01-9", "the ETag of a completed multipart object is the S3 multipart ETag: its suffix is the number of listed parts (shared with R-C08-2)", 1)
		multipartETagSuffix(p, r, "R-C01-9")
	})
	extraControls["C08"] = append(extraControls["C08"],
		Control{Name: "UploadPartCopy takes the source object's ETag for a whole-object copy", Rule: "R-C08-9", File: "backend/posix/posix.go",
			Old: "\tdataSum := hash.Sum(nil)\n\tetag := hex.EncodeToString(dataSum)\n\terr = p.meta.StoreAttribute(f.File(), *upi.Bucket, partPath, etagkey, []byte(etag))",
			New: "\tdataSum := hash.Sum(nil)\n\tetag := hex.EncodeToString(dataSum)\n\tif b, rerr := p.meta.RetrieveAttribute(nil, srcBucket, srcObject, etagkey); rerr == nil && length == fi.Size() {\n\t\tetag = string(b)\n\t}\n\terr = p.meta.StoreAttribute(f.File(), *upi.Bucket, partPath, etagkey, []byte(etag))", Expect: "only-from-hash-sum"},
	)
	extraControls["C01"] = append(extraControls["C01"],
		Control{Name: "multipart ETag suffix taken from the last part's number", Rule: "R-C01-9", File: "backend/common.go",
			Old: "len(parts))", New: "int(*parts[len(parts)-1].PartNumber))", Expect: "suffix"},
	)
	extraControls["C12"] = append(extraControls["C12"],
		Control{Name: "revert fix c4f3cd0: CRLF shifted out of the header buffer before it is stashed", Rule: "R-C12-8", File: "s3api/utils/signed-chunk-reader.go",
			Old: "\tif !cr.isFirstHeader {\n\t\terr := readAndSkip(rdr, '\\r', '\\n')\n\t\tif err != nil {\n\t\t\treturn cr.handleRdrErr(err, header)\n\t\t}\n\t}\n",
			New: "\tif !cr.isFirstHeader && stashLen == 0 {\n\t\terr := readAndSkip(rdr, '\\r', '\\n')\n\t\tif err != nil {\n\t\t\treturn cr.handleRdrErr(err, header)\n\t\t}\n\n\t\tcopy(header, header[2:])\n\t\t*l = *l - 2\n\t}\n",
			More: []Edit{
				{"s3api/utils/signed-chunk-reader.go", "cr.parseChunkHeaderBytes(p[:n])", "cr.parseChunkHeaderBytes(p[:n], &n)"},
				{"s3api/utils/signed-chunk-reader.go", "func (cr *ChunkReader) parseChunkHeaderBytes(header []byte) (int64, string, int, error) {", "func (cr *ChunkReader) parseChunkHeaderBytes(header []byte, l *int) (int64, string, int, error) {"},
				{"s3api/utils/signed-chunk-reader.go", "\thdrLen := len(header) - src.Len() - rdr.Buffered()\n", "\thdrLen := bytes.Index(header, []byte{'\\r', '\\n'}) + len(chunkHdrDelim)\n"},
			}, Expect: "shift"},
	)

	extraControls["C17"] = append(extraControls["C17"],
		Control{Name: "request signatures verified with one shared signer", Rule: "R-C17-14", File: "s3api/utils/auth-reader.go",
			Old: "\tsigner := v4.NewSigner()\n", New: "\tsigner := reqSigner\n",
			More: []Edit{{"s3api/utils/auth-reader.go", "// CheckValidSignature validates", "var reqSigner = v4.NewSigner()\n\n// CheckValidSignature validates"}}, Expect: "signer"},
		Control{Name: "account update modifies a copy that is never stored", Rule: "R-C17-15", File: "auth/iam_internal.go",
			Old: "\t\tupdateAcc(&acc, props)\n\t\tconf.AccessAccounts[access] = acc\n", New: "\t\tupdateAcc(&acc, props)\n", Expect: "UpdateUserAccount"},
	)
	extraControls["C03"] = append(extraControls["C03"],
		Control{Name: "GET ?versionId=null authorised as a plain GetObject", Rule: "R-C03-8", File: "s3api/controllers/base.go",
			Old: "\tif versionId != \"\" {\n\t\taction = auth.GetObjectVersionAction\n", New: "\tif versionId != \"\" && versionId != \"null\" {\n\t\taction = auth.GetObjectVersionAction\n", Expect: "GetActions"},
	)
	extraControls["C07"] = append(extraControls["C07"],
		Control{Name: "max-keys=0 replaced by the default page size", Rule: "R-C07-9", File: "backend/posix/posix.go",
			Old: "\tmaxkeys := int32(0)\n\tif input.MaxKeys != nil {\n\t\tmaxkeys = *input.MaxKeys\n\t}\n\tvar fetchOwner bool",
			New: "\tmaxkeys := int32(1000)\n\tif input.MaxKeys != nil && *input.MaxKeys > 0 {\n\t\tmaxkeys = *input.MaxKeys\n\t}\n\tvar fetchOwner bool", Expect: "ListObjectsV2"},
	)
	extraControls["C09"] = append(extraControls["C09"],
		Control{Name: "WalkVersions drops the delete markers of individually listed keys", Rule: "R-C09-7", File: "backend/walk.go",
			Old: "\t\t\tobjects = append(objects, res.ObjectVersions...)\n\t\t\tdelMarkers = append(delMarkers, res.DelMarkers...)\n\n\t\t\tif res.Truncated {\n\t\t\t\ttruncated = true\n\t\t\t\tnextMarker = path\n\t\t\t\tnextVersionIdMarker = res.NextVersionIdMarker\n\t\t\t\treturn fs.SkipAll\n\t\t\t}\n\t\t\treturn nil\n\t\t}\n\n\t\t// Common prefixes are a set",
			New: "\t\t\tobjects = append(objects, res.ObjectVersions...)\n\n\t\t\tif res.Truncated {\n\t\t\t\ttruncated = true\n\t\t\t\tnextMarker = path\n\t\t\t\tnextVersionIdMarker = res.NextVersionIdMarker\n\t\t\t\treturn fs.SkipAll\n\t\t\t}\n\t\t\treturn nil\n\t\t}\n\n\t\t// Common prefixes are a set", Expect: "DelMarkers"},
	)
	extraControls["C18"] = append(extraControls["C18"],
		Control{Name: "ACL tag written URL-safe, read with the standard alphabet", Rule: "R-C18-11", File: "backend/s3proxy/s3.go",
			Old: "\treturn base64.StdEncoding.EncodeToString(input)\n", New: "\treturn base64.URLEncoding.EncodeToString(input)\n", Expect: "base64"},
	)
	extraControls["C19"] = append(extraControls["C19"],
		Control{Name: "PutObject event carries the length on the wire", Rule: "R-C19-11", File: "s3api/controllers/base.go",
			Old: "\t\t\tObjectETag:    &res.ETag,\n\t\t\tObjectSize:    contentLength,\n\t\t\tEventName:     s3event.EventObjectCreatedPut,\n",
			New: "\t\t\tObjectETag:    &res.ETag,\n\t\t\tObjectSize:    int64(ctx.Request().Header.ContentLength()),\n\t\t\tEventName:     s3event.EventObjectCreatedPut,\n", Expect: "ObjectSize"},
	)
	extraControls["C13"] = append(extraControls["C13"],
		Control{Name: "controller refuses Range forms it does not know", Rule: "R-C13-8", File: "s3api/controllers/base.go",
			Old: "\taction := auth.GetObjectAction\n\tif versionId != \"\" {",
			New: "\tif acceptRange != \"\" && !strings.HasPrefix(acceptRange, \"bytes=\") {\n\t\treturn SendResponse(ctx, s3err.GetAPIError(s3err.ErrInvalidRange), &MetaOpts{Logger: c.logger, MetricsMng: c.mm, Action: metrics.ActionGetObject, BucketOwner: parsedAcl.Owner})\n\t}\n\taction := auth.GetObjectAction\n\tif versionId != \"\" {", Expect: "InvalidRange"},
	)
}

// stripConv: v without integer / type conversions.
func stripConv(v ssa.Value) ssa.Value {
	for {
		switch x := v.(type) {
		case *ssa.Convert:
			v = x.X
		case *ssa.ChangeType:
			v = x.X
		default:
			return v
		}
	}
}

// ---- R-C17-14 / R-C02-9: the verifying signer is made per request --------------------------------------------------

// The SigV4 signer keeps the last derived signing key per region/service and reuses it when the access key id and
// the day match; the secret is not part of that comparison. A signer that outlives one verification therefore
// keeps accepting the old secret of an account (and refuses the new one) after the secret was changed.
func more4SignerPerRequest(p *Program, r *Report) {
	rule := "R-C17-14"
	if r.Prop == "C02" {
		rule = "R-C02-9"
	}
	r.Rule(rule, "a changed secret takes effect at once: every signer that recomputes a request signature (SignHTTP / PresignHTTP in s3api) is created by v4.NewSigner in the verifying function itself, or the signer's derived-key cache compares the secret; a signer shared between requests keeps verifying with the key derived from the previous secret", 2)
	// (b) the cache compares the secret
	cacheComparesSecret := false
	if g := p.Func("(*aws/signer/internal/v4.derivedKeyCache).get"); g != nil {
		for _, ce := range condEdgesOf(g) {
			if ce.isEqNeq && (ce.atoms["field:SecretAccessKey"] || ce.atoms["field:Credential"] && ce.atoms["field:SecretAccessKey"]) {
				cacheComparesSecret = true
			}
		}
	}
	n := 0
	for _, f := range p.FuncsIn(utilsPkg, mwPkg, ctrlPkg) {
		var cs []ssa.CallInstruction
		for _, c := range callsIn(f) {
			if cn := calleeName(c); strings.HasSuffix(cn, "signer/v4.Signer).SignHTTP") || strings.HasSuffix(cn, "signer/v4.Signer).PresignHTTP") {
				cs = append(cs, c)
			}
		}
		keys := siteKeys(f, cs)
		for _, c := range cs {
			n++
			local := true
			what := ""
			rs := Origins(c.Common().Args[0], nil)
			if len(rs) == 0 {
				local = false
				what = "unknown origin"
			}
			for _, rt := range rs {
				if rt.Kind == "call" && strings.HasSuffix(rt.Desc, "signer/v4.NewSigner") && rt.Call != nil && rt.Call.Parent() == f {
					continue
				}
				local = false
				what = rt.String()
			}
			own := strings.HasPrefix(calleeName(c), "(aws/") || strings.HasPrefix(calleeName(c), "(*aws/") // the gateway's own copy of the signer
			r.Check(local || (own && cacheComparesSecret), rule, keys[c]+"/signer-per-request", p.Pos(c.Pos()), "signer created in the verifying function",
				"the signature is recomputed with a signer that outlives the request ("+what+"): its derived-key cache matches on access key id and day only, so after an account's secret is changed the old secret keeps authenticating and the new one is refused")
		}
	}
	if n < 1 {
		broken("%s: no signature recomputation site found in s3api (2 on the reference tree)", rule)
	}
}

// ---- R-C17-15: an account modified through updateAcc is stored ------------------------------------------------------

func more4UpdateWrittenBack(p *Program, r *Report) {
	r.Rule("R-C17-15", "an acknowledged account update is stored: the struct handed to updateAcc is a local copy which, after the call, is written into the accounts map or handed to the storing call on every path to the function's success return", 3)
	n := 0
	for _, f := range p.FuncsIn("auth") {
		cs := callsTo(f, "auth.updateAcc")
		keys := siteKeys(f, cs)
		for _, c := range cs {
			n++
			key := keys[c] + "/written-back"
			pos := p.Pos(c.Pos())
			ptr := callArgs(c)[0]
			for {
				if fa, ok := ptr.(*ssa.FieldAddr); ok {
					ptr = fa.X
					continue
				}
				break
			}
			al, ok := ptr.(*ssa.Alloc)
			if !ok || al.Parent() != f {
				r.Viol("R-C17-15", key, pos, "updateAcc modifies a struct this function does not own ("+ptr.Name()+"): the modified account is not seen to be stored (a pointer to a copy made elsewhere is lost when the function returns)")
				continue
			}
			// consumers: the copy, loaded after the call, becomes a map element or a call argument
			avoid := map[*ssa.BasicBlock]bool{}
			// reads of the copy (as a whole or of one of its fields) after the call
			var reads []*ssa.UnOp
			var collect func(addr ssa.Value, depth int)
			collect = func(addr ssa.Value, depth int) {
				if addr.Referrers() == nil || depth > 3 {
					return
				}
				for _, ref := range *addr.Referrers() {
					switch x := ref.(type) {
					case *ssa.UnOp:
						if x.Op == token.MUL && mayPrecede(c, x) {
							reads = append(reads, x)
						}
					case *ssa.FieldAddr:
						collect(x, depth+1)
					}
				}
			}
			collect(al, 0)
			for _, ld := range reads {
				for _, u := range *ld.Referrers() {
					switch x := u.(type) {
					case *ssa.MapUpdate:
						if x.Value == ssa.Value(ld) {
							avoid[x.Block()] = true
						}
					case ssa.CallInstruction:
						if g := x.Common().StaticCallee(); g != nil && g.Pkg != nil && strings.HasPrefix(g.Pkg.Pkg.Path(), modPath) {
							avoid[x.Block()] = true
						}
					case *ssa.Store:
						// stored into a longer-lived structure (a field or an element)
						if _, isAl := x.Addr.(*ssa.Alloc); !isAl && x.Val == ssa.Value(ld) {
							avoid[x.Block()] = true
						}
					}
				}
			}
			if avoid[c.Block()] {
				// the consumer follows in the same block
				r.Ok("R-C17-15", key, pos, "modified copy stored right after the update")
				continue
			}
			reach := reachableAvoiding(f, c.Block(), nil, avoid)
			bad := ""
			for _, s := range errReturnSites(f) {
				if !isNilConst(s.val) {
					continue
				}
				if s.reachedIn(reach) {
					bad = p.Pos(s.ret.Pos())
				}
			}
			if errorResultIdx(f.Signature) < 0 {
				for _, rt := range returnsOf(f) {
					if reach[rt.Block()] {
						bad = p.Pos(rt.Pos())
					}
				}
			}
			r.Check(len(avoid) > 0 && bad == "", "R-C17-15", key, pos, "modified copy stored before every success return",
				"the account modified by updateAcc is a local copy that is not written back (map element / storing call) before the success return at "+bad+": the update is acknowledged and lost")
		}
	}
	if n < 1 {
		broken("R-C17-15: no updateAcc call site found in auth (4 on the reference tree)")
	}
}

// ---- R-C03-8: a version-qualified read is authorised as a version read ----------------------------------------------

func more4VersionAction(p *Program, r *Report) {
	r.Rule("R-C03-8", "version-qualified requests are decided with the version action: where an access decision chooses between an action and its ...Version sibling, the plain action is chosen only on the edge on which the request's versionId is the empty string", 1)
	n := 0
	for _, d := range decisions(s3Handlers(p)) {
		av := first(d.fields["Action"])
		if av == nil {
			continue
		}
		lvs := valueLeaves(av, d.call.Block())
		if len(lvs) < 2 {
			continue
		}
		byName := map[string]valueLeaf{}
		for _, lf := range lvs {
			if s, ok := constString(lf.val); ok {
				byName[s] = lf
			}
		}
		for name, lf := range byName {
			if _, has := byName[name+"Version"]; !has {
				continue
			}
			n++
			var cut []edge
			for _, ce := range condEdgesOf(d.fn) {
				if !ce.isEqNeq || ce.binop == nil || ce.viaPhi {
					continue
				}
				var other ssa.Value
				if s, ok := constString(ce.binop.Y); ok && s == "" {
					other = ce.binop.X
				} else if s, ok := constString(ce.binop.X); ok && s == "" {
					other = ce.binop.Y
				}
				if other == nil {
					continue
				}
				if hasCallRoot(Origins(other, nil), fiberCtx+".Query", "versionId") {
					cut = append(cut, ce.holds)
				}
			}
			ok := len(cut) > 0 && leafOnlyBehind(d.fn, lf, cut)
			r.Check(ok, "R-C03-8", d.key+".Action/"+name, p.Pos(d.call.Pos()), "plain action only for versionId == \"\"",
				"the decision uses "+name+" although the request names a version (versionId not empty on that path): an account that may read objects but not their versions (or is denied "+name+"Version) reads a non-current version")
		}
	}
	if n < 1 {
		broken("R-C03-8: no decision choosing between an action and its Version sibling found (GetObject expected)")
	}
}

// ---- R-C07-9: the page size handed to the walk is the request's ------------------------------------------------------

// derefOfField: v is (a conversion of) *x.<field> for a pointer field of that name.
func derefOfField(v ssa.Value, field string) bool {
	u, ok := stripConv(v).(*ssa.UnOp)
	if !ok || u.Op != token.MUL {
		return false
	}
	switch x := u.X.(type) {
	case *ssa.UnOp:
		if fa, isFA := x.X.(*ssa.FieldAddr); isFA && x.Op == token.MUL {
			return fieldName(fa.X.Type(), fa.Field) == field
		}
	case *ssa.Field:
		return fieldName(x.X.Type(), x.Field) == field
	}
	return false
}

func more4PageSizeIsTheRequests(p *Program, r *Report) {
	r.Rule("R-C07-9", "at most max-keys entries: in every backend listing that walks the tree, once the request's MaxKeys is known to be set every path to backend.Walk / WalkVersions passes the assignment of *MaxKeys to the page size (no value of max-keys, 0 included, is replaced by a default)", 4)
	n := 0
	for _, f := range p.FuncsIn("backend/posix", "backend/scoutfs") {
		ws := callsTo(f, "backend.Walk", "backend.WalkVersions")
		if len(ws) == 0 {
			continue
		}
		keys := siteKeys(f, ws)
		for _, w := range ws {
			g := w.Common().StaticCallee()
			idx := -1
			for i, prm := range g.Params {
				if refParamName(prm) == "max" {
					idx = i
				}
			}
			if idx < 0 {
				r.Viol("R-C07-9", keys[w], p.Pos(w.Pos()), "the walk has no parameter named max (anchor drift)")
				continue
			}
			n++
			arg := stripConv(callArgs(w)[idx])
			// where the request's value is assigned
			assign := map[*ssa.BasicBlock]bool{}
			if ld, ok := arg.(*ssa.UnOp); ok && ld.Op == token.MUL {
				if al, isAl := ld.X.(*ssa.Alloc); isAl {
					for _, ref := range *al.Referrers() {
						if st, isSt := ref.(*ssa.Store); isSt && st.Addr == ssa.Value(al) && derefOfField(st.Val, "MaxKeys") {
							assign[st.Block()] = true
						}
					}
				}
			}
			for _, lf := range valueLeaves(arg, w.Block()) {
				if derefOfField(lf.val, "MaxKeys") && lf.from != nil {
					assign[lf.from] = true
				}
			}
			var set []edge
			for _, ce := range condEdgesOf(f) {
				if isNilTestOfField(ce, "MaxKeys") && (!ce.viaPhi || ce.exact == ce.fails.succ) {
					set = append(set, ce.fails)
				}
			}
			if len(assign) == 0 || len(set) == 0 {
				// another shape (a nil-tolerant getter): the value must still come from the request's field
				from := atomsOf(arg)["field:MaxKeys"]
				for _, rt := range Origins(arg, nil) {
					if rt.Kind == "field" && rt.Desc == "MaxKeys" {
						from = true
					}
				}
				r.Check(from, "R-C07-9", keys[w], p.Pos(w.Pos()), "page size read from MaxKeys", "the page size handed to the walk does not come from the request's MaxKeys")
				continue
			}
			ok := true
			if os.Getenv("VGW_DEBUG") != "" {
				fmt.Fprintf(os.Stderr, "R-C07-9 %s: assign=%d set=%d arg=%T\n", keys[w], len(assign), len(set), arg)
			}
			for _, e := range set {
				from := e.from.Succs[e.succ]
				if assign[from] {
					continue
				}
				if reachableAvoiding(f, from, nil, assign)[w.Block()] {
					ok = false
				}
			}
			r.Check(ok, "R-C07-9", keys[w], p.Pos(w.Pos()), "page size <- *MaxKeys whenever it is set",
				"a request whose max-keys is set can reach the walk without its value being taken (it is replaced by a default for some values): a max-keys=0 request returns entries, i.e. more than max-keys per page")
		}
	}
	if n < 2 {
		broken("R-C07-9: only %d walk calls found in the posix/scoutfs listings (5 on the reference tree)", n)
	}
}

// ---- R-C09-7: both lists of every per-key version result are consumed -------------------------------------------------

// sliceFieldsOf: the names of the slice-typed fields of the struct t (or *t) names.
func sliceFieldsOf(t types.Type) []string {
	if pt, ok := t.Underlying().(*types.Pointer); ok {
		t = pt.Elem()
	}
	st, ok := t.Underlying().(*types.Struct)
	if !ok {
		return nil
	}
	var out []string
	for i := 0; i < st.NumFields(); i++ {
		if _, isSl := st.Field(i).Type().Underlying().(*types.Slice); isSl {
			out = append(out, fieldName(t, i))
		}
	}
	return out
}

func more4BothVersionLists(p *Program, r *Report) {
	r.Rule("R-C09-7", "every version and every delete marker the per-key callback reports is listed: after each call of the callback in WalkVersions every list (slice field: ObjectVersions, DelMarkers) of its result is read", 3)
	f := p.Func("backend.WalkVersions")
	n := 0
	for _, fn := range withAnon(f) {
		var cs []ssa.CallInstruction
		for _, c := range callsIn(fn) {
			if c.Common().IsInvoke() || c.Common().StaticCallee() != nil {
				continue
			}
			res := c.Common().Signature().Results()
			if res.Len() != 2 || len(sliceFieldsOf(res.At(0).Type())) < 2 {
				continue
			}
			cs = append(cs, c)
		}
		for i, c := range cs {
			n++
			read := map[string]bool{}
			var walk func(v ssa.Value, depth int)
			walk = func(v ssa.Value, depth int) {
				if v == nil || depth > 6 || v.Referrers() == nil {
					return
				}
				for _, u := range *v.Referrers() {
					switch x := u.(type) {
					case *ssa.Extract:
						if x.Index == 0 {
							walk(x, depth+1)
						}
					case *ssa.Field:
						read[fieldName(x.X.Type(), x.Field)] = true
					case *ssa.FieldAddr:
						read[fieldName(x.X.Type(), x.Field)] = true
					case *ssa.Store:
						if x.Val == v {
							if al, ok := x.Addr.(*ssa.Alloc); ok {
								walk(al, depth+1)
							}
						}
					case *ssa.Phi:
						walk(x, depth+1)
					case *ssa.UnOp:
						if x.Op == token.MUL {
							walk(x, depth+1)
						}
					}
				}
			}
			walk(c.Value(), 0)
			key := fnName(fn) + "/callback#" + itoa(i+1)
			for _, fld := range sliceFieldsOf(c.Common().Signature().Results().At(0).Type()) {
				r.Check(read[fld], "R-C09-7", key+"."+fld, p.Pos(c.Pos()), fld+" read", "the "+fld+" of the callback's result are dropped at this call: ListObjectVersions omits them for the keys listed here")
			}
		}
	}
	if n < 1 {
		broken("R-C09-7: no call of the per-key callback found in WalkVersions (3 on the reference tree)")
	}
}

// ---- R-C18-11: the ACL tag is decoded with the alphabet it was encoded with ---------------------------------------------

func more4TagCodecAgrees(p *Program, r *Report) {
	r.Rule("R-C18-11", "what the proxy stores it can read back: the base64 alphabet used to encode the ACL bucket tag is the one used to decode it", 1)
	encs := map[string]string{} // direction -> encoding global
	pos := ""
	for _, f := range p.FuncsIn("backend/s3proxy") {
		for _, c := range callsIn(f) {
			dir := ""
			switch calleeName(c) {
			case "(*encoding/base64.Encoding).EncodeToString", "(*encoding/base64.Encoding).Encode", "(*encoding/base64.Encoding).AppendEncode":
				dir = "encode"
			case "(*encoding/base64.Encoding).DecodeString", "(*encoding/base64.Encoding).Decode", "(*encoding/base64.Encoding).AppendDecode":
				dir = "decode"
			default:
				continue
			}
			pos = p.Pos(c.Pos())
			name := "?"
			if ld, ok := c.Common().Args[0].(*ssa.UnOp); ok && ld.Op == token.MUL {
				if g, isG := ld.X.(*ssa.Global); isG {
					name = g.Pkg.Pkg.Path() + "." + g.Name()
				}
			}
			if old, ok := encs[dir]; ok && old != name {
				name = old + "|" + name
			}
			encs[dir] = name
		}
	}
	if encs["encode"] == "" || encs["decode"] == "" {
		broken("R-C18-11: the s3proxy backend no longer base64-encodes and -decodes (the ACL tag codec moved: anchor drift)")
	}
	r.Check(encs["encode"] == encs["decode"] && !strings.Contains(encs["encode"], "?") && !strings.Contains(encs["encode"], "|"), "R-C18-11", "s3proxy/base64", pos,
		"encode and decode with "+encs["encode"], "the ACL tag is encoded with "+encs["encode"]+" and decoded with "+encs["decode"]+": an ACL whose encoding contains one of the two differing characters cannot be read back and every later request on the bucket fails through the proxy")
}

// ---- R-C19-11: the size an object-created event reports is the size handed to the backend --------------------------------

func more4EventSizeIsStoredSize(p *Program, r *Report) {
	r.Rule("R-C19-11", "the notification describes the stored object: the ObjectSize of PutObject's success response is the very length (ContentLength) handed to the backend, not another length of the request", 1)
	n := 0
	for _, bc := range backendCalls(s3Handlers(p)) {
		if bc.method != "PutObject" {
			continue
		}
		args := callArgs(bc.call)
		var in map[string][]ssa.Value
		for _, a := range args {
			if m, _ := litFieldsAt(a, bc.call); m != nil && len(m["ContentLength"]) > 0 {
				in = m
			}
		}
		if in == nil {
			r.Undecided("R-C19-11", bc.key, p.Pos(bc.call.Pos()), "the PutObject input is not a literal built in place")
			continue
		}
		lenv := in["ContentLength"][0]
		for _, rc := range responseCalls(bc.fn) {
			if rc.fields == nil || len(rc.fields["ObjectSize"]) == 0 || !isNilConst(rc.errArg) || !mayPrecede(bc.call, rc.call) {
				continue
			}
			n++
			sz := stripConv(rc.fields["ObjectSize"][0])
			ok := false
			if al, isAl := lenv.(*ssa.Alloc); isAl {
				if ld, isLd := sz.(*ssa.UnOp); isLd && ld.Op == token.MUL && ld.X == ssa.Value(al) {
					ok = true
				}
			} else if sz == stripConv(lenv) {
				ok = true
			}
			r.Check(ok, "R-C19-11", bc.key+"=>ObjectSize", p.Pos(rc.call.Pos()), "ObjectSize is the length handed to the backend",
				"the s3:ObjectCreated:Put event reports a size that is not the length handed to the backend (e.g. the length on the wire of an aws-chunked upload): the notification does not describe the stored object")
		}
	}
	if n < 1 {
		broken("R-C19-11: no PutObject success response with an ObjectSize found")
	}
}

// ---- R-C13-8: only the range parser refuses a range -----------------------------------------------------------------------

func pkgConstInt(p *Program, pkg, name string) (int64, bool) {
	for _, sp := range p.SSAPkg {
		if sp.Pkg.Path() != modPath+"/"+pkg {
			continue
		}
		if c, ok := sp.Pkg.Scope().Lookup(name).(*types.Const); ok && c.Val().Kind() == constant.Int {
			v, exact := constant.Int64Val(c.Val())
			return v, exact
		}
	}
	return 0, false
}

func more4RangeRefusedByParserOnly(p *Program, r *Report) {
	r.Rule("R-C13-8", "an unsupported or malformed Range is ignored, not refused: the front end (controllers, middlewares, utils) never produces InvalidRange itself; 416 comes from the range parser only", 1)
	code, ok := pkgConstInt(p, "s3err", "ErrInvalidRange")
	if !ok {
		broken("R-C13-8: s3err.ErrInvalidRange not found")
	}
	n, bad := 0, 0
	for _, f := range p.FuncsIn(ctrlPkg, mwPkg, utilsPkg, "s3api") {
		for _, c := range callsTo(f, "s3err.GetAPIError") {
			n++
			if k, isC := constInt(callArgs(c)[0]); isC && k == code {
				bad++
				r.Viol("R-C13-8", fnName(f)+"/InvalidRange", p.Pos(c.Pos()), "the front end answers InvalidRange (416) itself: a Range header in a form the gateway does not support must be ignored (200, whole object), only a parsed range that cannot be satisfied is refused by the range parser")
			}
		}
	}
	if n < 15 {
		broken("R-C13-8: only %d GetAPIError calls found in the front end", n)
	}
	if bad == 0 {
		r.Ok("R-C13-8", "front-end/InvalidRange", "s3api", itoa(n)+" API errors produced in the front end, none is InvalidRange")
	}
}

// ---- R-C12-8: a buffer shifted in place is not used at its old length --------------------------------------------------

// After copy(x, x[k:]) the last k bytes of x are stale copies. The signed chunk reader once removed the CRLF in
// front of a chunk header that way and then stashed the buffer at its old length when the header turned out to be
// incomplete: the retry parsed two stale bytes and refused a valid stream (fix c4f3cd0).
func more4NoStaleTail(p *Program, r *Report) {
	r.Rule("R-C12-8", "a parse buffer shifted left in place is not used at its old length: after copy(x, x[k:]) in a chunk reader no call (stash, copy, search) receives x itself; every later use re-slices it (the stash must hold exactly the bytes received, or a chunk header split across two reads cannot be resumed)", 1)
	n := 0
	for _, f := range p.FuncsIn(utilsPkg) {
		if f.Signature.Recv() == nil || !strings.Contains(typeStr(f.Signature.Recv().Type()), "ChunkReader") {
			continue
		}
		k := 0
		for _, c := range callsIn(f) {
			bi, isB := c.Common().Value.(*ssa.Builtin)
			if !isB || bi.Name() != "copy" || len(c.Common().Args) != 2 {
				continue
			}
			dst := c.Common().Args[0]
			sl, ok := c.Common().Args[1].(*ssa.Slice)
			if !ok || sl.Low == nil || !sameSliceValue(sl.X, dst) {
				continue
			}
			if lo, isC := constInt(sl.Low); isC && lo == 0 {
				continue
			}
			n++
			k++
			key := fnName(f) + "/shift#" + itoa(k)
			bad := ""
			for _, b := range f.Blocks {
				for _, in := range b.Instrs {
					u, isCall := in.(ssa.CallInstruction)
					if !isCall || u == c || !mayPrecede(c, in) {
						continue
					}
					if ub, isUB := u.Common().Value.(*ssa.Builtin); isUB && (ub.Name() == "len" || ub.Name() == "cap") {
						continue
					}
					for _, a := range u.Common().Args {
						if a == dst {
							bad = calleeName(u) + " at " + p.Pos(in.Pos())
						}
					}
				}
			}
			r.Check(bad == "", "R-C12-8", key, p.Pos(c.Pos()), "every use after the shift re-slices the buffer",
				"the buffer is shifted left in place and then handed on at its old length ("+bad+"): its tail holds stale bytes; stashed with an incomplete chunk header they are parsed on the next read and a valid stream whose header straddles two reads is refused")
		}
	}
	if n < 1 {
		broken("R-C12-8: no in-place shift found in the chunk readers (the signed reader removes parsed headers from the caller's buffer that way)")
	}
}

// ---- R-C20-13: a retry loop does not spin on a failure it ignores -------------------------------------------------------

func more4RetryLoopsSeeErrors(p *Program, r *Report) {
	r.Rule("R-C20-13", "no livelock: inside an unbounded retry loop of the storage back ends (a cycle that is not a range / counted loop and goes round again after a failed step) no file-system call has its error dropped; a retry that ignores why its repair step failed spins for ever on a name it cannot clear (a non-empty directory) and the request never returns", 1)
	n, loops := 0, 0
	for _, f := range p.FuncsIn("backend/posix", "backend", "backend/scoutfs", "backend/meta") {
		for _, b := range f.Blocks {
			if !inCycle(f, b) || cycleIsBounded(f, b) {
				continue
			}
			loops++
			for _, in := range b.Instrs {
				c, ok := in.(*ssa.Call)
				if !ok {
					continue
				}
				cn := calleeName(c)
				if !primitiveEffects[cn] && !strings.HasPrefix(cn, "os.") && !strings.HasPrefix(cn, "golang.org/x/sys/unix.") && !strings.HasPrefix(cn, "syscall.") {
					continue
				}
				if len(errValues(c)) == 0 && errorResultIdx(c.Common().Signature()) < 0 {
					continue
				}
				n++
				dropped := c.Referrers() == nil || len(*c.Referrers()) == 0
				if !dropped && c.Common().Signature().Results().Len() > 1 {
					dropped = len(errValues(c)) == 0
				}
				r.Check(!dropped, "R-C20-13", fnName(f)+"/"+cn+"@retry", p.Pos(c.Pos()), "error consulted inside the retry loop",
					"the error of "+cn+" is dropped inside an unbounded retry loop: when that step keeps failing (e.g. removing a non-empty directory that occupies the name) the loop never ends, the request hangs and a CPU is pinned")
			}
		}
	}
	if loops < 1 || n < 1 {
		broken("R-C20-13: no unbounded retry loop with file-system calls found in the back ends (the EEXIST retry of link() expected): %d loops, %d calls", loops, n)
	}
}

// cycleIsBounded: the cycle through b is a range loop or a counted loop (its header tests a range/induction value).
func cycleIsBounded(f *ssa.Function, b *ssa.BasicBlock) bool {
	for _, h := range f.Blocks {
		if len(h.Succs) != 2 || !reachable(f, h, nil)[b] || !reachable(f, b, nil)[h] {
			continue
		}
		ifi, ok := h.Instrs[len(h.Instrs)-1].(*ssa.If)
		if !ok {
			continue
		}
		// leaving the cycle from h: one successor cannot come back to h
		leaves := false
		for _, s := range h.Succs {
			if !reachable(f, s, nil)[h] {
				leaves = true
			}
		}
		if !leaves {
			continue
		}
		switch c := ifi.Cond.(type) {
		case *ssa.Extract: // ok of a range `next`
			if _, isNext := c.Tuple.(*ssa.Next); isNext {
				return true
			}
		case *ssa.BinOp: // i < n with i an induction phi
			for _, v := range []ssa.Value{c.X, c.Y} {
				if ph, isPhi := v.(*ssa.Phi); isPhi && ph.Block() == h {
					return true
				}
				if bo, isBo := v.(*ssa.BinOp); isBo {
					if ph, isPhi := bo.X.(*ssa.Phi); isPhi && ph.Comment == "rangeindex" {
						return true
					}
				}
			}
		}
	}
	return false
}

// ---- R-C11-8: deleting a bucket removes its bookkeeping directory as a whole ---------------------------------------------

func more4DeleteBucketClearsTmp(p *Program, r *Report) {
	r.Rule("R-C11-8", "leftover temporary data never blocks a bucket: posix.DeleteBucket removes recursively either the bucket itself or the bucket's whole temp directory (metaTmpDir), not only a subdirectory of it (a named temp file of an interrupted upload lies directly under it)", 1)
	f := p.Func(posixP + "DeleteBucket")
	tmpDir, _ := pkgConstString(p, "backend/posix", "metaTmpDir")
	ok := false
	pos := p.Pos(f.Pos())
	what := "no recursive removal at all"
	for _, c := range callsTo(f, "os.RemoveAll") {
		path := callArgs(c)[0]
		if prm, isP := path.(*ssa.Parameter); isP && typeStr(prm.Type()) == "string" {
			ok = true // the bucket itself
			continue
		}
		if jc, isC := path.(*ssa.Call); isC && calleeName(jc) == "path/filepath.Join" {
			el := variadicInts(jc.Call.Args[len(jc.Call.Args)-1])
			if len(el) == 2 {
				_, first := el[0].(*ssa.Parameter)
				s, isS := constString(el[1])
				if first && isS && s == tmpDir {
					ok = true
					continue
				}
				if first && isS && what != "" {
					what = "only " + s + " is removed recursively"
					pos = p.Pos(c.Pos())
				}
			}
		}
	}
	r.Check(ok && tmpDir != "", "R-C11-8", fnName(f)+"/removes-tmp-dir", pos, "recursive removal covers the temp directory",
		"DeleteBucket does not remove the bucket's temp directory as a whole ("+what+"): a temp file left directly under it by an interrupted upload makes a bucket that lists as empty undeletable for ever")
}

// ---- R-C04-7: pruning removes the directory it examined ------------------------------------------------------------------

func more4PruneProbesWhatItRemoves(p *Program, r *Report) {
	r.Rule("R-C04-7", "deleting a key never removes another object: in the parent-pruning loop of posix.removeParents the directory removed is the very directory whose 'explicitly uploaded' marker (etag attribute) was looked up just before", 1)
	f := p.Func(posixP + "removeParents")
	etagKey, _ := pkgConstString(p, "backend/posix", "etagkey")
	var probed []ssa.Value
	for _, mc := range metaCallsIn(f) {
		if mc.method == "RetrieveAttribute" && mc.keyArg == etagKey {
			a := mc.call.Common().Args
			if len(a) >= 3 {
				probed = append(probed, a[2])
			}
		}
	}
	n := 0
	for _, c := range callsTo(f, "os.Remove", "os.RemoveAll", "golang.org/x/sys/unix.Rmdir", "syscall.Rmdir") {
		n++
		path := callArgs(c)[0]
		ok := false
		if jc, isC := path.(*ssa.Call); isC && calleeName(jc) == "path/filepath.Join" {
			for _, e := range variadicInts(jc.Call.Args[len(jc.Call.Args)-1]) {
				for _, pv := range probed {
					if e == pv {
						ok = true
					}
				}
			}
		}
		r.Check(ok, "R-C04-7", fnName(f)+"/remove#"+itoa(n), p.Pos(c.Pos()), "removes the directory whose marker was looked up",
			"the directory removed while pruning is not the one whose etag attribute was looked up: an explicitly uploaded directory object (PUT dir/) above a deleted key is removed with its metadata although the request never named it")
	}
	if n == 0 || len(probed) == 0 {
		broken("R-C04-7: removeParents no longer looks up the etag attribute and removes a directory (anchor drift)")
	}
}

// ---- R-C10-11 / R-C10-12 ----------------------------------------------------------------------------------------------------

func more4LegalHoldOnEveryPath(p *Program, r *Report) {
	r.Rule("R-C10-11", "a legal hold is consulted for every object that exists: in auth.CheckObjectAccess no path from an object's retention lookup goes on to the next object or to the nil return without passing the GetObjectLegalHold lookup, except the edge on which the retention lookup said ErrNoSuchKey (a granted governance bypass does not lift a legal hold)", 1)
	r.Rule("R-C10-12", "every deleted version is lock-checked: the list handed to auth.CheckObjectAccess in DeleteObjects is the decoded request list that is handed to the backend (not a filtered or de-duplicated copy)", 1)
	f := p.Func(fnCheckObjAccess)
	var ret, hold ssa.CallInstruction
	for _, c := range callsIn(f) {
		if !isBackendCall(c) {
			continue
		}
		switch c.Common().Method.Name() {
		case "GetObjectRetention":
			ret = c
		case "GetObjectLegalHold":
			hold = c
		}
	}
	if ret == nil || hold == nil {
		broken("R-C10-11: lock lookups not found in CheckObjectAccess")
	}
	var errV ssa.Value
	for _, v := range resultValues(ret, 1) {
		errV = v
	}
	byVal := map[string]string{}
	for nm, v := range pkgConstsOfType(p, "s3err", "ErrorCode") {
		byVal[v] = nm
	}
	var skip []edge
	for _, ce := range condEdgesOf(f) {
		cc, ok := ce.cond.(*ssa.Call)
		if !ok || calleeName(cc) != "errors.Is" || len(cc.Call.Args) < 2 || ce.viaPhi {
			continue
		}
		uses := cc.Call.Args[0] == errV
		if ph, isPhi := cc.Call.Args[0].(*ssa.Phi); isPhi {
			for _, e := range ph.Edges {
				if e == errV {
					uses = true
				}
			}
		}
		if !uses {
			continue
		}
		names, _ := constNamesDeep(p, cc.Call.Args[1])
		for _, nm := range names {
			nm = strings.TrimPrefix(nm, "s3err.")
			if byVal[nm] != "" {
				nm = byVal[nm]
			}
			if nm == "ErrNoSuchKey" {
				skip = append(skip, ce.holds)
			}
		}
	}
	avoid := map[*ssa.BasicBlock]bool{hold.Block(): true}
	bad := ""
	if os.Getenv("VGW_DEBUG") != "" {
		fmt.Fprintf(os.Stderr, "R-C10-11: ret block %d hold block %d skip edges %d errV %v\n", ret.Block().Index, hold.Block().Index, len(skip), errV)
	}
	if hold.Block() != ret.Block() {
		for i, s := range ret.Block().Succs {
			isSkip := false
			for _, e := range skip {
				if e.from == ret.Block() && e.succ == i {
					isSkip = true
				}
			}
			if isSkip {
				continue
			}
			reach := reachableAvoiding(f, s, skip, avoid)
			if reach[ret.Block()] {
				bad = "the next object's lookups"
			}
			// a literal `return nil` (a nil that reaches a return through the merged result of a helper is
			// not followed: the tests in between decide it)
			for _, st := range errReturnSites(f) {
				if isNilConst(st.val) && st.pred == nil && reach[st.ret.Block()] {
					bad = "the nil return at " + p.Pos(st.ret.Pos())
				}
			}
		}
	}
	r.Check(bad == "", "R-C10-11", fnName(f)+"/legal-hold-on-every-path", p.Pos(hold.Pos()), "the legal hold lookup is on every path of an existing object",
		"from an object's retention lookup "+bad+" can be reached without the legal hold lookup (other than for a missing key): a caller whose governance bypass is accepted deletes or overwrites a version under legal hold")

	// R-C10-12
	n := 0
	for _, bc := range backendCalls(s3Handlers(p)) {
		if bc.method != "DeleteObjects" {
			continue
		}
		for _, c := range callsTo(bc.fn, fnCheckObjAccess) {
			n++
			var listArg ssa.Value
			for _, a := range callArgs(c) {
				if _, isSl := a.Type().Underlying().(*types.Slice); isSl {
					listArg = a
				}
			}
			var given []ssa.Value
			for _, a := range callArgs(bc.call) {
				given = append(given, structFieldAtCall(a, "Objects", 0)...)
				for _, dv := range structFieldAtCall(a, "Delete", 0) {
					given = append(given, structFieldAtCall(dv, "Objects", 0)...)
				}
			}
			same := false
			var lists []ssa.Value
			if listArg != nil {
				lists = append(lists, listArg)
				lists = append(lists, fieldSources(listArg)...)
			}
			for _, g := range given {
				for _, g2 := range append([]ssa.Value{g}, fieldSources(g)...) {
					for _, l := range lists {
						if g2 == l || (loadedField(l) != "" && loadedField(g2) == loadedField(l)) {
							same = true
						}
					}
				}
			}
			r.Check(listArg != nil && same, "R-C10-12", bc.key+"=>lock-check-list", p.Pos(c.Pos()), "the lock check sees the list the backend deletes",
				"auth.CheckObjectAccess is given another list than the one handed to the backend's DeleteObjects (a filtered / de-duplicated copy): entries the check never saw, e.g. a protected version listed after an unprotected version of the same key, are deleted")
		}
	}
	if n < 1 {
		broken("R-C10-12: no lock check found in the handler of DeleteObjects")
	}
}

// loadedField: "<alloc>.<field>" for a value loaded from a field of a local struct, "" otherwise.
func loadedField(v ssa.Value) string {
	if v == nil {
		return ""
	}
	ld, ok := v.(*ssa.UnOp)
	if !ok || ld.Op != token.MUL {
		return ""
	}
	fa, ok := ld.X.(*ssa.FieldAddr)
	if !ok {
		return ""
	}
	al, ok := fa.X.(*ssa.Alloc)
	if !ok {
		return ""
	}
	return al.Name() + "." + fieldName(al.Type(), fa.Field)
}

// ---- R-C14-7: every resource pattern of a statement is tried -----------------------------------------------------------------

// isGlobMatcher: the wildcard matcher, by role: a function of package auth from two strings to bool that compares
// bytes with '*' and with '?' (Resources.Match, or the free function it is turned into).
func isGlobMatcher(g *ssa.Function) bool {
	if g == nil || g.Pkg == nil || g.Pkg.Pkg.Path() != modPath+"/auth" || g.Parent() != nil || len(g.Blocks) == 0 {
		return false
	}
	res := g.Signature.Results()
	if res.Len() != 1 {
		return false
	}
	if bt, isB := res.At(0).Type().Underlying().(*types.Basic); !isB || bt.Kind() != types.Bool {
		return false
	}
	nStr := 0
	for i := 0; i < g.Signature.Params().Len(); i++ {
		if bt, isB := g.Signature.Params().At(i).Type().Underlying().(*types.Basic); isB && bt.Kind() == types.String {
			nStr++
		}
	}
	if nStr != 2 {
		return false
	}
	star, qm := false, false
	for _, b := range g.Blocks {
		for _, in := range b.Instrs {
			bo, ok := in.(*ssa.BinOp)
			if !ok || (bo.Op != token.EQL && bo.Op != token.NEQ) {
				continue
			}
			for _, v := range []ssa.Value{bo.X, bo.Y} {
				if k, isC := constInt(v); isC {
					if bt, isB := v.Type().Underlying().(*types.Basic); isB && (bt.Kind() == types.Uint8 || bt.Kind() == types.UntypedRune || bt.Kind() == types.Int32) {
						star = star || k == '*'
						qm = qm || k == '?'
					}
				}
			}
		}
	}
	return star && qm
}

// returnsBeforeMatcher: the function literal can return without having called the glob matcher.
func returnsBeforeMatcher(g *ssa.Function) bool {
	avoid := map[*ssa.BasicBlock]bool{}
	for _, c := range callsIn(g) {
		h := c.Common().StaticCallee()
		if isGlobMatcher(h) {
			avoid[c.Block()] = true
		}
		if h != nil && len(h.Blocks) == 1 {
			for _, c2 := range callsIn(h) {
				if isGlobMatcher(c2.Common().StaticCallee()) {
					avoid[c.Block()] = true
				}
			}
		}
	}
	reach := reachableAvoiding(g, nil, nil, avoid)
	for _, rt := range returnsOf(g) {
		if reach[rt.Block()] {
			return true
		}
	}
	return false
}

func more4EveryPatternTried(p *Program, r *Report) {
	r.Rule("R-C14-7", "the evaluator tries every pattern: in Resources.FindMatch each resource of the statement reaches the glob matcher ((auth.Resources).Match, or the function it wraps, recognised by role); no test on the pattern's text skips it (a pattern whose only wildcard is '?' is still a pattern)", 1)
	f := p.Func("(auth.Resources).FindMatch")
	var ms []ssa.CallInstruction
	for _, c := range callsIn(f) {
		g := c.Common().StaticCallee()
		if isGlobMatcher(g) {
			ms = append(ms, c)
			continue
		}
		// a thin wrapper around the matcher
		if g != nil && len(g.Blocks) == 1 {
			for _, c2 := range callsIn(g) {
				if isGlobMatcher(c2.Common().StaticCallee()) {
					ms = append(ms, c)
				}
			}
		}
	}
	callsMatcher := func(g *ssa.Function) bool {
		if g == nil {
			return false
		}
		for _, c := range callsIn(g) {
			h := c.Common().StaticCallee()
			if isGlobMatcher(h) {
				return true
			}
			if h != nil && len(h.Blocks) == 1 {
				for _, c2 := range callsIn(h) {
					if isGlobMatcher(c2.Common().StaticCallee()) {
						return true
					}
				}
			}
		}
		return false
	}
	if len(ms) == 0 {
		// the matcher is called by a function literal handed to an iterating helper (anyKey(r, func(p) bool {...})):
		// then the helper's loop is the loop, and its call of the function it was given is the matcher call
		for _, c := range callsIn(f) {
			h := c.Common().StaticCallee()
			if h == nil || len(h.Blocks) == 0 {
				continue
			}
			for i, a := range c.Common().Args {
				if _, isSig := a.Type().Underlying().(*types.Signature); !isSig || i >= len(h.Params) {
					continue
				}
				viaLit := false
				for _, g := range funcValuesOf(a) {
					if callsMatcher(g) && !returnsBeforeMatcher(g) {
						viaLit = true
					}
				}
				if !viaLit {
					continue
				}
				for _, hc := range callsIn(h) {
					if hc.Common().Value == ssa.Value(h.Params[i]) {
						f = h
						ms = append(ms, hc)
					}
				}
			}
		}
	}
	if len(ms) == 0 {
		r.Viol("R-C14-7", fnName(f)+"/matcher", p.Pos(f.Pos()), "FindMatch does not call the glob matcher")
		return
	}
	for i, m := range ms {
		// the loop header: a block with a range `next` from which m is reachable and which m's block can reach
		bad := ""
		found := false
		for _, h := range f.Blocks {
			isHdr := false
			for _, in := range h.Instrs {
				if _, ok := in.(*ssa.Next); ok {
					isHdr = true
				}
				if ph, ok := in.(*ssa.Phi); ok && ph.Comment == "rangeindex" {
					isHdr = true
				}
			}
			if !isHdr || !reachable(f, h, nil)[m.Block()] || !reachable(f, m.Block(), nil)[h] {
				continue
			}
			found = true
			avoid := map[*ssa.BasicBlock]bool{m.Block(): true}
			for _, s := range h.Succs {
				if !reachable(f, s, nil)[m.Block()] {
					continue // the exit of the loop
				}
				if s == m.Block() {
					continue
				}
				reach := reachableAvoiding(f, s, nil, avoid)
				if reach[h] {
					bad = "the next pattern"
				}
				for _, rt := range returnsOf(f) {
					if reach[rt.Block()] {
						bad = "a return"
					}
				}
			}
		}
		r.Check(found && bad == "", "R-C14-7", fnName(f)+"/every-pattern-matched#"+itoa(i+1), p.Pos(m.Pos()), "each pattern reaches the matcher",
			"a pattern of the statement can be skipped without being handed to the matcher ("+bad+" is reached first): patterns of some form (e.g. with '?' but no '*') never match, so a Deny on them stops denying and an Allow stops allowing")
	}
}

// ---- R-C18-12: the proxy forwards the client's lists as they came --------------------------------------------------------------

func more4ProxyKeepsLists(p *Program, r *Report) {
	r.Rule("R-C18-12", "the proxy does not repair requests: no S3Proxy method sorts, reverses or writes into a list that belongs to its input (a request the endpoint would refuse, e.g. parts out of order, must be refused through the proxy too)", 20)
	n := 0
	for _, f := range p.FuncsIn("backend/s3proxy") {
		if f.Signature.Recv() == nil || !strings.HasSuffix(typeStr(f.Signature.Recv().Type()), "S3Proxy") || f.Parent() != nil {
			continue
		}
		n++
		fromInput := func(v ssa.Value) bool {
			if mi, ok := v.(*ssa.MakeInterface); ok {
				v = mi.X
			}
			for _, rt := range terminalRoots(Origins(v, nil)) {
				if rt.Kind == "param" {
					if prm, ok := rt.Val.(*ssa.Parameter); ok && prm != f.Params[0] {
						return true
					}
				}
				if rt.Kind == "field" {
					// a field of the input struct
					return true
				}
			}
			return false
		}
		bad := ""
		for _, fn := range withAnon(f) {
			for _, c := range callsIn(fn) {
				cn := calleeName(c)
				if strings.HasPrefix(cn, "sort.") || strings.HasPrefix(cn, "slices.Sort") || cn == "slices.Reverse" {
					a := c.Common().Args
					if len(a) > 0 && fromInput(a[0]) {
						bad = cn + " at " + p.Pos(c.Pos())
					}
				}
			}
			for _, b := range fn.Blocks {
				for _, in := range b.Instrs {
					st, ok := in.(*ssa.Store)
					if !ok {
						continue
					}
					if ia, isIA := st.Addr.(*ssa.IndexAddr); isIA {
						if _, isSl := ia.X.Type().Underlying().(*types.Slice); isSl && fromInput(ia.X) {
							bad = "an element store at " + p.Pos(st.Pos())
						}
					}
				}
			}
		}
		r.Check(bad == "", "R-C18-12", fnName(f)+"/input-lists-untouched", p.Pos(f.Pos()), "input lists forwarded as they came",
			"the proxy rewrites a list of its input ("+bad+"): a request the endpoint itself answers with an error (parts listed out of order: InvalidPartOrder) succeeds through the proxy")
	}
	if n < 7 {
		broken("R-C18-12: only %d S3Proxy methods found", n)
	}
}

// ---- R-C05-7: a GET streams the inode that was there when it was answered ----------------------------------------------

func more4BodyOpenedBeforeReturn(p *Program, r *Report) {
	r.Rule("R-C05-7", "the body served is the object that was answered for: every non-nil Body in a result of posix.GetObject is (built on) a file opened by os.Open inside GetObject before it returns; a body that opens the path when it is first read serves whatever is at that name by then, under the length, ETag and metadata of the object it replaced", 1)
	f := p.Func(posixP + "GetObject")
	n := 0
	for _, ret := range returnsOf(f) {
		if len(ret.Results) == 0 {
			continue
		}
		fields, _ := litFieldsAt(ret.Results[0], ret)
		for _, bv := range fields["Body"] {
			if isNilConst(bv) {
				continue
			}
			n++
			opened := false
			var walk func(v ssa.Value, depth int)
			seen := map[ssa.Value]bool{}
			walk = func(v ssa.Value, depth int) {
				if v == nil || seen[v] || depth > 8 {
					return
				}
				seen[v] = true
				for _, rt := range Origins(v, nil) {
					if rt.Kind == "call" && rt.Desc == "os.Open" && rt.Call != nil && rt.Call.Parent() == f {
						opened = true
					}
				}
				// a wrapper literal (&FileSectionReadCloser{R: ..., F: f}): look into its fields
				x := v
				if mi, ok := x.(*ssa.MakeInterface); ok {
					x = mi.X
				}
				if ph, ok := x.(*ssa.Phi); ok {
					for _, e := range ph.Edges {
						walk(e, depth+1)
					}
				}
				if fs, _ := litFields(x); fs != nil {
					for _, vs := range fs {
						for _, fv := range vs {
							walk(fv, depth+1)
						}
					}
				}
				if c, ok := x.(*ssa.Call); ok {
					for _, a := range c.Call.Args {
						walk(a, depth+1)
					}
				}
			}
			walk(bv, 0)
			r.Check(opened, "R-C05-7", fnName(f)+"/body#"+itoa(n), p.Pos(ret.Pos()), "Body built on a file opened in GetObject",
				"the Body of this result is not built on a file opened before GetObject returns (it is opened by path later, e.g. on first read): an overwrite or delete in between makes the response mix the old object's headers with the new object's bytes")
		}
	}
	if n < 1 {
		broken("R-C05-7: no result with a Body found in posix.GetObject")
	}
}
