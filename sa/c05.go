package main

import (
	"sort"
	"strings"

	"golang.org/x/tools/go/ssa"
)

func init() {
	register(&propCheck{id: "C05", run: runC05, controls: controlsC05, extraConfigs: [][2]string{{"darwin", "amd64"}}})
	register(&propCheck{id: "C11", run: runC11, controls: controlsC11, extraConfigs: [][2]string{{"darwin", "amd64"}}})
}

// ---- model of the posix publication protocol ---------------------------------------

type publisher struct {
	f     *ssa.Function
	opens []ssa.CallInstruction
	links []ssa.CallInstruction
}

func isOpenTmp(c ssa.CallInstruction) bool {
	return strings.HasSuffix(calleeName(c), ".openTmpFile")
}

func isLink(c ssa.CallInstruction) bool {
	n := calleeName(c)
	return n == "(*backend/posix.tmpfile).link" || n == "(*backend/scoutfs.tmpfile).link"
}

func publishers(p *Program) []publisher {
	var out []publisher
	pk := []string{"backend/posix"}
	if p.SSAPkg["backend/scoutfs"] != nil {
		pk = append(pk, "backend/scoutfs")
	}
	for _, f := range p.FuncsIn(pk...) {
		var pb publisher
		pb.f = f
		for _, c := range callsIn(f) {
			if _, isCall := c.(*ssa.Call); !isCall {
				continue
			}
			if isOpenTmp(c) {
				pb.opens = append(pb.opens, c)
			}
			if isLink(c) {
				pb.links = append(pb.links, c)
			}
		}
		if len(pb.opens) > 0 && len(pb.links) > 0 {
			out = append(out, pb)
		}
	}
	sort.Slice(out, func(i, j int) bool { return fnName(out[i].f) < fnName(out[j].f) })
	return out
}

func descOf(v ssa.Value) string { return rootsDesc(terminalRoots(Origins(v, nil))) }

// postLinkWrites: path-addressed mutations of the object namespace that may execute after a link() in f.
func pathWrites(f *ssa.Function) []ssa.CallInstruction {
	var out []ssa.CallInstruction
	for _, c := range callsIn(f) {
		if _, isCall := c.(*ssa.Call); !isCall {
			continue
		}
		cc := c.Common()
		if cc.IsInvoke() && typeStr(cc.Value.Type()) == "backend/meta.MetadataStorer" {
			switch cc.Method.Name() {
			case "StoreAttribute":
				if len(cc.Args) > 0 && isNilConst(cc.Args[0]) {
					out = append(out, c)
				}
			case "DeleteAttribute", "DeleteAttributes":
				out = append(out, c)
			}
			continue
		}
		switch calleeName(c) {
		case posixP + "PutObjectTagging", posixP + "PutObjectLegalHold", posixP + "PutObjectRetention", posixP + "DeleteObjectTagging":
			out = append(out, c)
		}
	}
	return out
}

func pubRules(p *Program, r *Report, prop string) {
	r.Rule("R-C05-1", "attributes travel with the unpublished inode: in every function that opens a temp file and later links it, each StoreAttribute executed between the two for the object being published passes the temp file's descriptor (f.File()), never nil (a path-addressed write before publication lands on the OLD object: a concurrent GET sees old body + new ETag)", 15)
	r.Rule("R-C05-2", "publication does not unlink the destination: link()/fallbackLink()/MoveFile never remove the destination path before the Linkat/Rename/exclusive create that publishes (a key being overwritten must never appear missing; after a crash in between it is gone)", 2)
	r.Rule("R-C05-3", "no attribute writes after publication: in a publishing function no path-addressed attribute write (StoreAttribute(nil,..), PutObjectTagging/LegalHold/Retention) on the published object may execute after link() (a reader or a crash in between observes the new body with missing/old attributes)", 5)
	r.Rule("R-C05-4", "temp files are private to one upload: the *os.File of a tmpfile comes from an O_TMPFILE open or from os.CreateTemp (unique, exclusive name); never from a computed name opened with O_CREATE/O_TRUNC (two processes uploading the same key would share one inode)", 2)

	pubs := publishers(p)
	if len(pubs) < 5 {
		broken("only %d publishing functions found in the posix backend", len(pubs))
	}
	for _, pb := range pubs {
		f := pb.f
		// R-C05-1
		objDesc := map[string]bool{}
		for _, o := range pb.opens {
			a := callArgs(o)
			if len(a) >= 3 {
				objDesc[descOf(a[2])] = true
			}
		}
		n := 0
		for _, mc := range metaCallsIn(f) {
			if mc.method != "StoreAttribute" {
				continue
			}
			if _, isCall := mc.call.(*ssa.Call); !isCall {
				continue
			}
			before := false
			for _, l := range pb.links {
				if mayPrecede(mc.call, l) {
					before = true
				}
			}
			afterOpen := false
			for _, o := range pb.opens {
				if mayPrecede(o, mc.call) {
					afterOpen = true
				}
			}
			if !before || !afterOpen {
				continue
			}
			args := mc.call.Common().Args
			if len(args) < 3 || !objDesc[descOf(args[2])] {
				continue // another object (e.g. the upload directory)
			}
			// a write that can only run after some link (e.g. in the next loop iteration) is R-C05-3's business
			n++
			key := fnName(f) + "/StoreAttribute(" + mc.keyArg + ")#" + itoa(n)
			fromTmp := false
			for _, rt := range Origins(args[0], nil) {
				if rt.Kind == "call" && strings.HasSuffix(rt.Desc, ".tmpfile).File") {
					fromTmp = true
				}
			}
			r.Check(fromTmp && !isNilConst(args[0]), "R-C05-1", key, p.Pos(mc.call.Pos()), "written through the temp file's descriptor", "an attribute of the object being published is written by path (nil file) before link(): it lands on the currently published object, so readers see the old body with the new attribute, and a crash leaves it there")
		}
		// R-C05-3
		for _, w := range pathWrites(f) {
			after := false
			for _, l := range pb.links {
				if mayPrecede(l, w) {
					after = true
				}
			}
			if !after {
				continue
			}
			// is it about the published object?
			cc := w.Common()
			var objArg ssa.Value
			if cc.IsInvoke() {
				if len(cc.Args) >= 3 {
					objArg = cc.Args[2]
				}
			} else if a := callArgs(w); len(a) >= 3 {
				objArg = a[2]
			}
			if objArg == nil || !objDesc[descOf(objArg)] {
				continue
			}
			name := calleeName(w)
			if cc.IsInvoke() {
				name = cc.Method.Name()
				for _, a := range cc.Args {
					if s, ok := constString(a); ok {
						name += "(" + s + ")"
					}
				}
			}
			keys := siteKeys(f, []ssa.CallInstruction{w})
			r.Viol("R-C05-3", keys[w]+":after-link:"+name[strings.LastIndex(name, ".")+1:], p.Pos(w.Pos()), "attribute write on the published object after link(): between the two a reader (or a crash) sees the new object without this attribute")
		}
		if len(pb.links) > 0 {
			r.Ok("R-C05-3", fnName(f)+"/scanned", p.Pos(f.Pos()), "publishing function scanned for post-publication attribute writes")
		}
	}

	// R-C05-2: inside the publication primitives
	for _, name := range []string{"(*backend/posix.tmpfile).link", "(*backend/posix.tmpfile).fallbackLink", "backend.MoveFile"} {
		f := p.FuncOpt(name)
		if f == nil {
			continue // build-configuration specific
		}
		var pubCalls []ssa.CallInstruction
		for _, c := range callsIn(f) {
			switch calleeName(c) {
			case "golang.org/x/sys/unix.Linkat", "os.Rename", "backend.MoveFile", "os.Link", "os.OpenFile":
				if _, isCall := c.(*ssa.Call); isCall {
					pubCalls = append(pubCalls, c)
				}
			}
		}
		n := 0
		for _, c := range callsIn(f) {
			if _, isCall := c.(*ssa.Call); !isCall {
				continue // deferred removal of the temp name
			}
			cn := calleeName(c)
			if cn != "os.Remove" && cn != "os.RemoveAll" && cn != "golang.org/x/sys/unix.Unlink" && cn != "syscall.Unlink" {
				continue
			}
			// the destination: built from tmp.bucket/tmp.objname, or the `destination` parameter
			isDest := false
			for _, rt := range Origins(callArgs(c)[0], nil) {
				if (rt.Kind == "field" && (rt.Desc == "objname" || rt.Desc == "bucket")) || (rt.Kind == "param" && rt.Desc == "destination") {
					isDest = true
				}
			}
			if !isDest {
				continue
			}
			precedes := false
			for _, pc := range pubCalls {
				if mayPrecede(c, pc) {
					precedes = true
				}
			}
			if !precedes {
				continue
			}
			n++
			r.Viol("R-C05-2", name+"/"+cn+"(destination)#"+itoa(n), p.Pos(c.Pos()), "the destination path is unlinked before the new file is linked/renamed into place: between the two steps the key does not exist (a concurrent GET gets NoSuchKey; after a crash the object is gone)")
		}
		r.Ok("R-C05-2", name+"/scanned", p.Pos(f.Pos()), "publication primitive scanned")
	}

	// R-C05-4
	for _, name := range []string{posixP + "openTmpFile", posixP + "openMkTemp"} {
		f := p.FuncOpt(name)
		if f == nil {
			continue
		}
		n := 0
		for _, b := range f.Blocks {
			for _, in := range b.Instrs {
				st, ok := in.(*ssa.Store)
				if !ok {
					continue
				}
				fa, ok := st.Addr.(*ssa.FieldAddr)
				if !ok || fieldName(fa.X.Type(), fa.Field) != "f" || !strings.Contains(typeStr(fa.X.Type()), "tmpfile") {
					continue
				}
				n++
				okSrc := true
				desc := ""
				for _, rt := range terminalRoots(Origins(st.Val, nil)) {
					switch {
					case rt.Kind == "call" && rt.Desc == "os.CreateTemp":
					case rt.Kind == "call" && rt.Desc == "os.NewFile":
						// fd from unix.Open with O_TMPFILE
						fdOK := false
						for _, x := range Origins(callArgs(rt.Call)[0], nil) {
							if x.Kind == "call" && x.Desc == "golang.org/x/sys/unix.Open" {
								if fl, isI := constInt(callArgs(x.Call)[1]); isI && fl&0x410000 == 0x410000 { // O_TMPFILE (includes O_DIRECTORY)
									fdOK = true
								}
							}
						}
						if !fdOK {
							okSrc = false
							desc = "os.NewFile on a descriptor not opened with O_TMPFILE"
						}
					default:
						okSrc = false
						desc = rt.String()
					}
				}
				r.Check(okSrc, "R-C05-4", name+"/tmpfile.f#"+itoa(n), p.Pos(st.Pos()), "temp file from O_TMPFILE or os.CreateTemp", "the upload's temp file is not private to this upload ("+desc+"): concurrent uploads of the same key (also from another gateway process) write into the same inode and a reader sees a mixture")
			}
		}
		if n == 0 {
			r.Viol("R-C05-4", name+"/tmpfile.f", p.Pos(f.Pos()), "no tmpfile{f: ...} construction found (anchor drift)")
		}
	}
	_ = prop
}

func runC05(p *Program, r *Report) {
	pubRules(p, r, "C05")
}

func runC11(p *Program, r *Report) {
	pubRules(p, r, "C11")
	r.Rule("R-C11-1", "object bytes are never written in place: the posix backends create or write files only through openTmpFile temp files; no os.Create / os.WriteFile / os.Truncate / os.OpenFile with write flags on an object path (frozen exemptions: backend.MoveFile's exclusive create, sidecar attribute files)", 3)
	r.Rule("R-C11-3", "temp files are released: every successful openTmpFile is followed by a deferred cleanup() of that temp file", 5)
	r.Rule("R-C11-4", "sources outlive publication: in CompleteMultipartUpload (and the version-restore path of DeleteObject) nothing is removed before link() succeeded; the upload directory is removed only after the assembled object is published", 2)

	// R-C11-1
	for _, pk := range []string{"backend/posix", "backend/scoutfs"} {
		if p.SSAPkg[pk] == nil {
			continue
		}
		n := 0
		for _, f := range p.FuncsIn(pk) {
			for _, c := range callsIn(f) {
				cn := calleeName(c)
				bad := false
				switch cn {
				case "os.Create", "os.WriteFile", "io/ioutil.WriteFile", "os.Truncate", "syscall.Truncate", "golang.org/x/sys/unix.Truncate":
					bad = true
				case "os.OpenFile":
					if fl, ok := constInt(callArgs(c)[1]); !ok || fl&0x3 != 0 || fl&0x40 != 0 { // O_WRONLY|O_RDWR|O_CREAT
						bad = true
					}
				case "(*os.File).Write", "(*os.File).WriteString", "(*os.File).WriteAt", "(*os.File).Truncate", "(*os.File).ReadFrom":
					// allowed on temp files only
					okT := false
					if rv := callRecv(c); rv != nil {
						for _, rt := range Origins(rv, nil) {
							if rt.Kind == "field" && rt.Desc == "f" {
								okT = true // tmpfile.f
							}
							if rt.Kind == "call" && (strings.HasSuffix(rt.Desc, ".openTmpFile") || strings.HasSuffix(rt.Desc, ".tmpfile).File") || rt.Desc == "os.CreateTemp") {
								okT = true
							}
						}
					}
					bad = !okT
				default:
					continue
				}
				n++
				r.Check(!bad, "R-C11-1", fnName(f)+"/"+cn+"#"+itoa(n), p.Pos(c.Pos()), "writes only through temp files", "the backend writes a file in place ("+cn+"): a crash or a concurrent reader observes a half-written object")
			}
		}
		r.Ok("R-C11-1", "package:"+pk, pk, itoa(n)+" file-writing call sites examined")
	}

	// R-C11-3
	for _, pb := range publishersOrOpeners(p) {
		f := pb.f
		for i, o := range pb.opens {
			// a defer of cleanup on the value returned by this open
			ok := false
			for _, c := range callsIn(f) {
				d, isDefer := c.(*ssa.Defer)
				if !isDefer || !strings.HasSuffix(calleeName(d), ".tmpfile).cleanup") {
					continue
				}
				for _, rt := range Origins(callRecv(d), nil) {
					if rt.Kind == "call" && rt.Call == o {
						ok = true
					}
				}
				// and it is registered right after the success test: reachable only through the open's success edge
				if ok && !guardedBy(f, d, []ssa.CallInstruction{o}) {
					ok = false
				}
			}
			r.Check(ok, "R-C11-3", fnName(f)+"/openTmpFile#"+itoa(i+1)+":cleanup-deferred", p.Pos(o.Pos()), "defer f.cleanup() follows the successful open", "a temp file opened here is not released by a deferred cleanup(): an error path leaks the descriptor / leaves a named temp file behind")
		}
	}

	// R-C11-4
	for _, name := range []string{posixP + "CompleteMultipartUpload"} {
		f := p.Func(name)
		var links []ssa.CallInstruction
		for _, c := range callsIn(f) {
			if isLink(c) {
				links = append(links, c)
			}
		}
		n := 0
		for _, c := range callsIn(f) {
			if _, isCall := c.(*ssa.Call); !isCall {
				continue
			}
			cn := calleeName(c)
			if cn != "os.Remove" && cn != "os.RemoveAll" {
				continue
			}
			n++
			r.Check(guardedBy(f, c, links), "R-C11-4", fnName(f)+"/"+cn+"#"+itoa(n), p.Pos(c.Pos()), "removed only after link() succeeded", "part files / the upload directory can be removed before the assembled object is published: a crash or an error in between loses the acknowledged parts while no object exists")
		}
		if n == 0 {
			r.Viol("R-C11-4", fnName(f)+"/cleanup", p.Pos(f.Pos()), "no cleanup of the upload directory found (anchor drift)")
		}
	}
}

// publishersOrOpeners: functions that open temp files (whether or not they link in the same function).
func publishersOrOpeners(p *Program) []publisher {
	var out []publisher
	for _, f := range p.FuncsIn("backend/posix") {
		var pb publisher
		pb.f = f
		for _, c := range callsIn(f) {
			if _, isCall := c.(*ssa.Call); isCall && isOpenTmp(c) {
				pb.opens = append(pb.opens, c)
			}
		}
		if len(pb.opens) > 0 && !strings.HasSuffix(fnName(f), ".openTmpFile") {
			out = append(out, pb)
		}
	}
	sort.Slice(out, func(i, j int) bool { return fnName(out[i].f) < fnName(out[j].f) })
	return out
}

func controlsC05() []Control {
	return []Control{
		{Name: "CompleteMultipartUpload: ETag stored by path before link", Rule: "R-C05-1", File: "backend/posix/posix.go",
			Old: "\terr = p.meta.StoreAttribute(f.File(), bucket, object, etagkey, []byte(s3MD5))", New: "\terr = p.meta.StoreAttribute(nil, bucket, object, etagkey, []byte(s3MD5))", Expect: "CompleteMultipartUpload"},
		{Name: "PutObject: ETag stored after link by path", Rule: "R-C05-3", File: "backend/posix/posix.go",
			Old: "\terr = p.meta.StoreAttribute(f.File(), *po.Bucket, *po.Key, etagkey, []byte(etag))\n\tif err != nil {\n\t\treturn s3response.PutObjectOutput{}, fmt.Errorf(\"set etag attr: %w\", err)\n\t}\n", New: "",
			More: []Edit{{"backend/posix/posix.go", "\t// Set object tagging\n\tif tags != nil {", "\terr = p.meta.StoreAttribute(nil, *po.Bucket, *po.Key, etagkey, []byte(etag))\n\tif err != nil {\n\t\treturn s3response.PutObjectOutput{}, fmt.Errorf(\"set etag attr: %w\", err)\n\t}\n\t// Set object tagging\n\tif tags != nil {"}}, Expect: "etag"},
		{Name: "link(): a third unlink of the destination", Rule: "R-C05-2", File: "backend/posix/with_otmpfile.go",
			Old: "\tprocdir, err := os.Open(procfddir)", New: "\tos.Remove(objPath)\n\tprocdir, err := os.Open(procfddir)", Expect: "#3"},
		{Name: "openMkTemp: computed temp name opened with O_TRUNC", Rule: "R-C05-4", File: "backend/posix/with_otmpfile.go",
			Old: "\tf, err := os.CreateTemp(dir,\n\t\tfmt.Sprintf(\"%x.\", sha256.Sum256([]byte(obj))))", New: "\tf, err := os.OpenFile(filepath.Join(dir, fmt.Sprintf(\"%x.tmp\", sha256.Sum256([]byte(obj)))), os.O_RDWR|os.O_CREATE|os.O_TRUNC, 0600)", Expect: "openMkTemp"},
	}
}

func controlsC11() []Control {
	return []Control{
		{Name: "UploadPart: deferred cleanup removed", Rule: "R-C11-3", File: "backend/posix/posix.go",
			Old: "\t\treturn nil, fmt.Errorf(\"open temp file: %w\", err)\n\t}\n\tdefer f.cleanup()\n\n\thash := md5.New()\n\ttr := io.TeeReader(r, hash)", New: "\t\treturn nil, fmt.Errorf(\"open temp file: %w\", err)\n\t}\n\n\thash := md5.New()\n\ttr := io.TeeReader(r, hash)", Expect: "UploadPart"},
		{Name: "PutObject: placeholder written in place before the copy", Rule: "R-C11-1", File: "backend/posix/posix.go",
			Old: "\thash := md5.New()\n\trdr := io.TeeReader(po.Body, hash)\n", New: "\tos.WriteFile(name, nil, 0644)\n\thash := md5.New()\n\trdr := io.TeeReader(po.Body, hash)\n", Expect: "PutObject"},
		{Name: "CompleteMultipartUpload: parts removed while copying", Rule: "R-C11-4", File: "backend/posix/posix.go",
			Old: "\t\t_, err = io.Copy(f.File(), rdr)\n\t\tpf.Close()\n", New: "\t\t_, err = io.Copy(f.File(), rdr)\n\t\tpf.Close()\n\t\tos.Remove(fullPartPath)\n", Expect: "os.Remove"},
		{Name: "PutObject: attributes by path after link (publish first)", Rule: "R-C05-3", File: "backend/posix/posix.go",
			Old: "\tif versionID != \"\" && versionID != nullVersionId {\n\t\terr := p.meta.StoreAttribute(f.File(), *po.Bucket, *po.Key, versionIdKey, []byte(versionID))\n\t\tif err != nil {\n\t\t\treturn s3response.PutObjectOutput{}, fmt.Errorf(\"set versionId attr: %w\", err)\n\t\t}\n\t}\n\n\terr = f.link()", New: "\terr = f.link()\n\tif versionID != \"\" && versionID != nullVersionId {\n\t\terr := p.meta.StoreAttribute(nil, *po.Bucket, *po.Key, versionIdKey, []byte(versionID))\n\t\tif err != nil {\n\t\t\treturn s3response.PutObjectOutput{}, fmt.Errorf(\"set versionId attr: %w\", err)\n\t\t}\n\t}\n", Expect: "version-id"},
	}
}
