package main

// Frozen semantic tables (the oracles). Each row carries its reason. They are
// keyed by backend.Backend method name; a backend method that a handler calls
// and that has no row is reported (anchor drift), never assumed.

type beRow struct {
	actions  []string // admissible auth.Action values for the decision guarding this call
	perm     string   // required AclPermission
	object   bool     // object-level operation (the decision must name the object)
	mutating bool     // changes stored state (T-MUTATING)
	destruct bool     // replaces or removes object content (T-DESTRUCTIVE)
	why      string
}

var tAction = map[string]beRow{
	// --- bucket level, read
	"HeadBucket":                 {[]string{"s3:ListBucket"}, "READ", false, false, false, "S3: HeadBucket requires s3:ListBucket"},
	"ListObjects":                {[]string{"s3:ListBucket"}, "READ", false, false, false, "S3: ListObjects requires s3:ListBucket"},
	"ListObjectsV2":              {[]string{"s3:ListBucket"}, "READ", false, false, false, "S3: ListObjectsV2 requires s3:ListBucket"},
	"ListObjectVersions":         {[]string{"s3:ListBucketVersions"}, "READ", false, false, false, "S3: ListObjectVersions requires s3:ListBucketVersions"},
	"ListMultipartUploads":       {[]string{"s3:ListBucketMultipartUploads"}, "READ", false, false, false, "S3 action table"},
	"GetBucketTagging":           {[]string{"s3:GetBucketTagging"}, "READ", false, false, false, "S3 action table"},
	"GetBucketOwnershipControls": {[]string{"s3:GetBucketOwnershipControls"}, "READ", false, false, false, "S3 action table"},
	"GetBucketVersioning":        {[]string{"s3:GetBucketVersioning"}, "READ", false, false, false, "S3 action table"},
	"GetBucketPolicy":            {[]string{"s3:GetBucketPolicy"}, "READ", false, false, false, "S3 action table"},
	"GetBucketCors":              {[]string{"s3:GetBucketCORS"}, "READ", false, false, false, "S3 action table"},
	"GetObjectLockConfiguration": {[]string{"s3:GetBucketObjectLockConfiguration"}, "READ", false, false, false, "S3 action table"},
	"GetBucketAcl":               {[]string{"s3:GetBucketAcl"}, "READ_ACP", false, false, false, "ACL reads need READ_ACP"},
	// --- bucket level, write
	"PutBucketTagging":              {[]string{"s3:PutBucketTagging"}, "WRITE", false, true, false, "S3 action table"},
	"DeleteBucketTagging":           {[]string{"s3:PutBucketTagging"}, "WRITE", false, true, false, "S3: DeleteBucketTagging requires s3:PutBucketTagging"},
	"PutBucketOwnershipControls":    {[]string{"s3:PutBucketOwnershipControls"}, "WRITE", false, true, false, "S3 action table"},
	"DeleteBucketOwnershipControls": {[]string{"s3:PutBucketOwnershipControls"}, "WRITE", false, true, false, "S3: delete uses the Put permission"},
	"PutBucketVersioning":           {[]string{"s3:PutBucketVersioning"}, "WRITE", false, true, false, "S3 action table"},
	"PutObjectLockConfiguration":    {[]string{"s3:PutBucketObjectLockConfiguration"}, "WRITE", false, true, false, "S3 action table"},
	"PutBucketCors":                 {[]string{"s3:PutBucketCORS"}, "WRITE", false, true, false, "S3 action table"},
	"DeleteBucketCors":              {[]string{"s3:PutBucketCORS"}, "WRITE", false, true, false, "S3: DeleteBucketCors requires s3:PutBucketCORS"},
	"PutBucketPolicy":               {[]string{"s3:PutBucketPolicy"}, "WRITE", false, true, false, "S3 action table"},
	"DeleteBucketPolicy":            {[]string{"s3:DeleteBucketPolicy"}, "WRITE", false, true, false, "S3 action table"},
	"PutBucketAcl":                  {[]string{"s3:PutBucketAcl"}, "WRITE_ACP", false, true, false, "ACL writes need WRITE_ACP"},
	"DeleteBucket":                  {[]string{"s3:DeleteBucket"}, "WRITE", false, true, false, "S3 action table"},
	"CreateBucket":                  {[]string{"s3:CreateBucket"}, "WRITE", false, true, false, "gated by role in AclParser (exempt from R-C03-1)"},
	// --- object level, read
	"GetObject":           {[]string{"s3:GetObject", "s3:GetObjectVersion"}, "READ", true, false, false, "S3: GetObject / GetObjectVersion with versionId"},
	"HeadObject":          {[]string{"s3:GetObject", "s3:GetObjectVersion"}, "READ", true, false, false, "S3: HeadObject requires s3:GetObject"},
	"GetObjectAttributes": {[]string{"s3:GetObjectAttributes"}, "READ", true, false, false, "S3 action table"},
	"GetObjectTagging":    {[]string{"s3:GetObjectTagging"}, "READ", true, false, false, "S3 action table"},
	"GetObjectRetention":  {[]string{"s3:GetObjectRetention"}, "READ", true, false, false, "S3 action table"},
	"GetObjectLegalHold":  {[]string{"s3:GetObjectLegalHold"}, "READ", true, false, false, "S3 action table"},
	"GetObjectAcl":        {[]string{"s3:GetObjectAcl"}, "READ_ACP", true, false, false, "ACL reads need READ_ACP"},
	"ListParts":           {[]string{"s3:ListMultipartUploadParts"}, "READ", true, false, false, "S3 action table"},
	"SelectObjectContent": {[]string{"s3:GetObject"}, "READ", true, false, false, "S3: SelectObjectContent requires s3:GetObject"},
	// --- object level, write
	"PutObject":               {[]string{"s3:PutObject"}, "WRITE", true, true, true, "S3 action table"},
	"CopyObject":              {[]string{"s3:PutObject"}, "WRITE", true, true, true, "S3: destination needs s3:PutObject"},
	"CreateMultipartUpload":   {[]string{"s3:PutObject"}, "WRITE", true, true, false, "S3: multipart needs s3:PutObject"},
	"UploadPart":              {[]string{"s3:PutObject"}, "WRITE", true, true, false, "S3: multipart needs s3:PutObject"},
	"UploadPartCopy":          {[]string{"s3:PutObject"}, "WRITE", true, true, false, "S3: multipart needs s3:PutObject"},
	"CompleteMultipartUpload": {[]string{"s3:PutObject"}, "WRITE", true, true, true, "S3: multipart needs s3:PutObject"},
	"AbortMultipartUpload":    {[]string{"s3:AbortMultipartUpload"}, "WRITE", true, true, false, "S3 action table"},
	"DeleteObject":            {[]string{"s3:DeleteObject", "s3:DeleteObjectVersion"}, "WRITE", true, true, true, "S3 action table"},
	"DeleteObjects":           {[]string{"s3:DeleteObject"}, "WRITE", true, true, true, "S3: per-key s3:DeleteObject"},
	"PutObjectTagging":        {[]string{"s3:PutObjectTagging"}, "WRITE", true, true, false, "S3 action table"},
	"DeleteObjectTagging":     {[]string{"s3:DeleteObjectTagging"}, "WRITE", true, true, false, "S3 action table"},
	"PutObjectRetention":      {[]string{"s3:PutObjectRetention"}, "WRITE", true, true, false, "S3 action table"},
	"PutObjectLegalHold":      {[]string{"s3:PutObjectLegalHold"}, "WRITE", true, true, false, "S3 action table"},
	"PutObjectAcl":            {[]string{"s3:PutObjectAcl"}, "WRITE_ACP", true, true, false, "ACL writes need WRITE_ACP"},
	"RestoreObject":           {[]string{"s3:RestoreObject"}, "WRITE", true, true, false, "S3 action table"},
	// --- not decided by a bucket decision
	"ListBuckets": {nil, "", false, false, false, "filtered by owner inside the backend"},
}

func contains(ss []string, s string) bool {
	for _, x := range ss {
		if x == s {
			return true
		}
	}
	return false
}
