package main

import (
	"bufio"
	"bytes"
	"encoding/json"
	"fmt"
	"go/ast"
	"go/token"
	"go/types"
	"os"
	"os/exec"
	"path/filepath"
	"sort"
	"strings"

	"golang.org/x/tools/go/ssa"
)

func init() {
	register(&propCheck{id: "C20", run: runC20, controls: controlsC20})
}

// bceRow: number of bounds checks the compiler's prove pass leaves in a function
// (IsInBounds, IsSliceInBounds) with the invariant that makes them safe.
type bceRow struct {
	inb, slb int
	why      string
}

const (
	whyStd   = "inlined standard-library helper (hex.EncodeToString / strings.TrimPrefix|TrimSuffix / bytes.Buffer.String|Bytes / strings.Builder): the bound is the library's own invariant"
	whySort  = "indices are supplied by package sort within [0,len)"
	whyRoute = "router invariant: ctx.Path() starts with '/', and the :key parameter is never empty (fiber matches /:bucket/:key/* only with a non-empty key; probed)"
	whyChunk = "aws-chunked buffer arithmetic: offsets are bounded by n=len(read) and by non-negative chunk sizes (negative sizes are refused: R-C12-3); the data-dependent part of C12 that is not decided"
	whySDK   = "vendored copy of the AWS SDK v4 signer helpers (index arithmetic on strings.Index results)"
)

// Frozen on the tree with the fix: commits applied (2026-09-28). Keyed by "<package dir>:<Recv.Func>".
// anchors:off (the table is matched against the compiler's positions, not against SSA functions)
var bceTable = map[string]bceRow{
	"auth:Action.IsObjectAction":                          {1, 0, "a[len(a)-1]: only called on actions that passed IsValid (prefix \"s3:\" => non-empty)"},
	"auth:IpaIAMService.GetUserAccount":                   {2, 0, "uidnumber/gidnumber[0] of an IPA reply (external IAM service, not client data)"},
	"auth:Resources.Match":                                {4, 0, "pattern[pIdx] guarded by pIdx < len(pattern) in the same condition; input[sIdx] by the loop condition"},
	"auth:pkcs7Unpad":                                     {1, 1, "IPA password unpadding, n validated against len(b) just above (external IAM service)"},
	"aws/signer/internal/v4:GetURIPath":                   {0, 3, whySDK},
	"aws/signer/internal/v4:StripExcessSpaces":            {3, 2, whySDK},
	"aws/signer/internal/v4:portOnly":                     {0, 2, whySDK},
	"aws/signer/internal/v4:stripPort":                    {0, 3, whySDK},
	"aws/signer/v4:httpSigner.buildSignature":             {1, 0, whyStd},
	"aws/signer/v4:httpSigner.buildStringToSign":          {1, 0, whyStd},
	"backend/meta:XattrMeta.ListAttributes":               {0, 1, whyStd},
	"backend/posix:Posix.GetBucketVersioning":             {1, 0, "vData[0]: the versioning attribute is written by PutBucketVersioning as exactly one byte (writer/reader agreement, checked as R-C20-6)"},
	"backend/posix:Posix.GetObjectLegalHold":              {1, 0, "data[0]: the legal-hold attribute is written by PutObjectLegalHold as exactly one byte (writer/reader agreement, checked as R-C20-6)"},
	"backend/posix:Posix.ListBucketsAndOwners":            {2, 0, whySort},
	"backend/posix:Posix.ListMultipartUploads":            {5, 0, whySort + "; uploads[i] inside `for i < len(uploads)`; resultUpds[len-1] only when len(resultUpds) == maxUploads >= 1"},
	"backend/posix:Posix.ListParts":                       {2, 0, whySort},
	"backend/posix:Posix.PutObject":                       {1, 0, whyStd},
	"backend/posix:Posix.UploadPart":                      {1, 0, whyStd},
	"backend/posix:Posix.UploadPartCopy":                  {1, 0, whyStd},
	"backend/posix:Posix.loadObjectMetaData":              {0, 2, whyStd},
	"backend/posix:Posix.removeParents":                   {0, 1, whyStd},
	"backend/posix:genObjVersionKey":                      {0, 3, "sum is a 64-character sha256 hex string"},
	"backend/posix:joinPathWithTrailer":                   {1, 0, "paths[len(paths)-1]: variadic always called with at least one element"},
	"backend/s3proxy:S3Proxy.ChangeBucketOwner":           {1, 0, "tagout.TagSet[i] in a loop bounded by len of the same slice after copy"},
	"backend/s3proxy:S3Proxy.GetBucketOwnershipControls":  {1, 0, "Rules[0] of a successful upstream reply (S3 always returns one rule); upstream data, not the client's"},
	"backend/s3proxy:S3Proxy.ListBucketsAndOwners":        {1, 0, whyStd},
	"backend/s3proxy:S3Proxy.PutBucketAcl":                {1, 0, whyStd},
	"backend/scoutfs:ScoutFS.loadUserMetaData":            {0, 2, whyStd},
	"backend:ByBucketName.Less":                           {2, 0, whySort},
	"backend:ByBucketName.Swap":                           {2, 0, whySort},
	"backend:ByObjectName.Less":                           {2, 0, whySort},
	"backend:ByObjectName.Swap":                           {2, 0, whySort},
	"backend:MkdirAll":                                    {1, 1, "copy of os.MkdirAll's backward scan (j > 0 guards path[j-1])"},
	"backend:ParseCopySource":                             {1, 2, "copySourceHeader[0]: callers pass a non-empty header (controllers branch on copySource != \"\"; checked as R-C20-6); slices use LastIndex results"},
	"backend:Walk":                                        {0, 3, whyStd + "; prefix[:idx] with idx from LastIndex > 0"},
	"backend:WalkVersions":                                {0, 1, whyStd},
	"backend:md5String":                                   {1, 0, whyStd},
	"s3api/controllers:S3ApiController.CreateActions":     {0, 2, whyRoute},
	"s3api/controllers:S3ApiController.DeleteActions":     {0, 2, whyRoute},
	"s3api/controllers:S3ApiController.GetActions":        {0, 2, whyRoute},
	"s3api/controllers:S3ApiController.HeadObject":        {0, 2, whyRoute},
	"s3api/controllers:S3ApiController.PutActions":        {0, 2, whyRoute},
	"s3api/controllers:S3ApiController.PutBucketActions":  {1, 0, "ownershipControls.Rules[0] after the rulesCount != 1 test returned (fix 14b7392; the order is checked as R-C20-6)"},
	"s3api/debuglogger:prettyPrintXML":                    {0, 1, whyStd},
	"s3api/debuglogger:printWrappedLine":                  {0, 1, "debug logging only"},
	"s3api/debuglogger:wrapText":                          {0, 1, "debug logging only; text[:width] inside len(text) > width"},
	"s3api/middlewares:AclParser":                         {1, 0, whyRoute + ": strings.Split(path, \"/\") of a path starting with '/' has >= 2 elements"},
	"s3api/middlewares:DecodeURL":                         {0, 1, whyStd},
	"s3api/middlewares:VerifyV4Signature":                 {1, 1, "date[:8] after time.Parse(\"20060102T150405Z\") succeeded (16 characters); " + whyStd},
	"s3api/utils:ChunkReader.Read":                        {0, 3, whyChunk},
	"s3api/utils:ChunkReader.checkSignature":              {1, 0, whyStd},
	"s3api/utils:ChunkReader.getChunkStringToSign":        {1, 0, whyStd},
	"s3api/utils:ChunkReader.getTrailerChunkStringToSign": {1, 0, whyStd},
	"s3api/utils:ChunkReader.parseAndRemoveChunkInfo":     {0, 4, whyChunk},
	"s3api/utils:ChunkReader.parseChunkHeaderBytes":       {0, 2, whyChunk + "; " + whyStd},
	"s3api/utils:ChunkReader.verifyChecksum":              {0, 1, whyStd},
	"s3api/utils:ChunkReader.verifyTrailerSignature":      {1, 0, whyStd},
	"s3api/utils:GetUserMetaData":                         {0, 1, "hKey[11:] after HasPrefix(ToLower(hKey), \"x-amz-meta-\"): every byte of the 11-byte ASCII prefix lower-cases from a byte sequence that is not shorter"},
	"s3api/utils:HashReader.Read":                         {0, 1, "p[:n] with n returned by the inner Read (io.Reader contract n <= len(p))"},
	"s3api/utils:HashReader.Sum":                          {1, 0, whyStd},
	"s3api/utils:ParseChecksumHeaders":                    {0, 1, whyStd},
	"s3api/utils:ParsePresignedURIParts":                  {0, 1, "date[:8] after time.Parse(\"20060102T150405Z\") succeeded (16 characters)"},
	"s3api/utils:UnsignedChunkReader.Read":                {0, 4, whyChunk + "; stash[n:] with n = copy(...) <= len(stash)"},
	"s3api/utils:UnsignedChunkReader.readTrailer":         {0, 1, whyStd},
	"s3api/utils:escapePath":                              {4, 1, "copy of url escaping: t sized by the counted number of escapes"},
	"s3api/utils:readAndTrim":                             {0, 1, whyStd},
	"s3err:APIError.Error":                                {0, 1, whyStd},
	"s3err:encodeResponse":                                {0, 1, whyStd},
	"s3event:EventFilter.Filter":                          {0, 1, "event[:LastIndex+1]: LastIndex >= -1"},
	"s3event:Kafka.SendEvent":                             {1, 0, "Records[0] of the schema createEventSchema just built with one record"},
	"s3event:NatsEventSender.SendEvent":                   {1, 0, "Records[0] of the schema createEventSchema just built with one record"},
	"s3event:Webhook.SendEvent":                           {1, 0, "Records[0] of the schema createEventSchema just built with one record"},
	"s3event:createEventSchema":                           {0, 1, whyRoute + ": events are emitted for object routes only (path has >= 3 segments)"},
	"s3log:FileLogger.Log":                                {0, 1, whyRoute + ": guarded by len(path) > 1"},
	"s3log:WebhookLogger.Log":                             {0, 1, whyRoute + ": guarded by len(path) > 1"},
	"s3log:genID":                                         {1, 0, whyStd},
}

// anchors:on

type bceSite struct {
	file string
	line int
	kind string
	text string
}

func runBCE(p *Program) (map[string][]bceSite, error) {
	args := []string{"build", "-gcflags=" + modPath + "/...=-d=ssa/check_bce/debug=1"}
	if len(p.Overlay) > 0 {
		// negative controls: hand the same in-memory edits to the compiler through -overlay
		tmp, err := os.MkdirTemp("", "vgwsa-overlay")
		if err != nil {
			return nil, err
		}
		defer os.RemoveAll(tmp)
		repl := map[string]string{}
		i := 0
		for path, content := range p.Overlay {
			i++
			fn := filepath.Join(tmp, fmt.Sprintf("f%d.go", i))
			if err := os.WriteFile(fn, content, 0o644); err != nil {
				return nil, err
			}
			repl[path] = fn
		}
		b, _ := json.Marshal(map[string]any{"Replace": repl})
		of := filepath.Join(tmp, "overlay.json")
		if err := os.WriteFile(of, b, 0o644); err != nil {
			return nil, err
		}
		args = append(args, "-overlay="+of)
	}
	args = append(args, "./...")
	cmd := exec.Command("go", args...)
	cmd.Dir = p.Dir
	env := []string{}
	for _, kv := range os.Environ() {
		if strings.HasPrefix(kv, "GOFLAGS=") || strings.HasPrefix(kv, "GOWORK=") || strings.HasPrefix(kv, "GOOS=") || strings.HasPrefix(kv, "GOARCH=") {
			continue
		}
		env = append(env, kv)
	}
	cmd.Env = append(env, "GOFLAGS=-mod=mod", "GOWORK=off", "GOPROXY=off", "GOSUMDB=off", "GOTOOLCHAIN=local")
	var out bytes.Buffer
	cmd.Stderr = &out
	cmd.Stdout = &out
	err := cmd.Run()
	sites := map[string][]bceSite{}
	dedup := map[string]bool{}
	n := 0
	sc := bufio.NewScanner(&out)
	sc.Buffer(make([]byte, 1<<20), 1<<20)
	for sc.Scan() {
		l := sc.Text()
		if !strings.Contains(l, "Found Is") {
			continue
		}
		parts := strings.SplitN(l, ":", 4)
		if len(parts) < 4 {
			continue
		}
		file := strings.TrimPrefix(parts[0], "./")
		if strings.HasPrefix(file, "/") {
			if !strings.HasPrefix(file, p.Dir+"/") {
				continue // generic library code instantiated in this build
			}
			file = strings.TrimPrefix(file, p.Dir+"/")
		}
		if strings.HasPrefix(file, "tests/") || strings.HasPrefix(file, "cmd/") || strings.HasPrefix(file, "backend/azure/") || strings.HasPrefix(file, "<") {
			continue
		}
		var line int
		fmt.Sscan(parts[1], &line)
		kind := "IsInBounds"
		if strings.Contains(l, "IsSliceInBounds") {
			kind = "IsSliceInBounds"
		}
		// the compiler reports a check once per copy of the code (a small function is also compiled
		// inlined into its callers): one position is one access
		dk := file + ":" + parts[1] + ":" + parts[2] + ":" + kind
		if dedup[dk] {
			continue
		}
		dedup[dk] = true
		fn := enclosingFunc(p, file, line)
		sites[fn] = append(sites[fn], bceSite{file, line, kind, ""})
		n++
	}
	if err != nil && n == 0 {
		return nil, fmt.Errorf("go build for bounds-check listing failed: %v: %s", err, firstLines(out.String(), 5))
	}
	if n < 50 {
		return nil, fmt.Errorf("bounds-check listing produced only %d sites (the compiler flag did not take effect?)", n)
	}
	return sites, nil
}

func firstLines(s string, n int) string {
	ls := strings.Split(s, "\n")
	if len(ls) > n {
		ls = ls[:n]
	}
	return strings.Join(ls, " | ")
}

func enclosingFunc(p *Program, file string, line int) string {
	dir := filepath.Dir(file)
	pk := p.ByPath[dir]
	if pk == nil {
		return dir + ":?"
	}
	for _, af := range pk.Syntax {
		pos := p.Fset.Position(af.Pos())
		if !strings.HasSuffix(pos.Filename, "/"+file) {
			continue
		}
		for _, d := range af.Decls {
			fd, ok := d.(*ast.FuncDecl)
			if !ok {
				continue
			}
			s, e := p.Fset.Position(fd.Pos()).Line, p.Fset.Position(fd.End()).Line
			if line < s || line > e {
				continue
			}
			name := fd.Name.Name
			if fd.Recv != nil && len(fd.Recv.List) > 0 {
				t := fd.Recv.List[0].Type
				if st, ok := t.(*ast.StarExpr); ok {
					t = st.X
				}
				if id, ok := t.(*ast.Ident); ok {
					name = id.Name + "." + name
				}
			}
			return dir + ":" + name
		}
	}
	return dir + ":?"
}

func runC20(p *Program, r *Report) {
	r.Rule("R-C20-1", "bounds checks: every index/slice expression for which the compiler's prove pass leaves a bounds check (go build -gcflags=-d=ssa/check_bce/debug=1) lies in a function of the frozen table, whose per-function count of each kind does not exceed the reviewed count; a function with more unproven accesses than reviewed, or an unreviewed function, is reported with its sites", 60)
	r.Rule("R-C20-2", "no allocation sized by the wire: no make([]T, n) / Buffer.Grow(n) in request-reachable packages whose size originates from strconv parsing of request bytes", 1)
	r.Rule("R-C20-3", "no result is used before its error is checked: every dereference of the pointer result of a call returning (*T, error) is reachable from the call only through the err == nil edge or a != nil test of the pointer", 100)
	r.Rule("R-C20-4", "cross-layer pointer agreement: every pointer field of a backend input struct that the posix backend dereferences without a nil test is set by every controller literal passed to that backend method", 10)
	r.Rule("R-C20-5", "context locals exist where asserted: the sub-resources excluded from AclParser's create-bucket branch cover every PutBucketActions branch that asserts Locals(\"parsedAcl\"), and every Locals key asserted without comma-ok in the handlers is set by a middleware", 6)
	r.Rule("R-C20-6", "writer/reader agreements behind the reviewed bounds: single-byte attributes are written as exactly one byte; ParseCopySource is only called with a non-empty header; Rules[0] is evaluated after the rule-count test", 4)

	// R-C20-1
	if p.Config == "linux/amd64" {
		sites, err := runBCE(p)
		if err != nil {
			broken("R-C20-1: %v", err)
		}
		// source lines of the module that contain an index or slice operation of their own (the compiler also
		// reports checks inside library code it inlined at a call site, e.g. strings.CutSuffix: those are the
		// library's, not this function's)
		own := map[string]bool{}
		ownUnproved := map[string]bool{} // lines with an index operation that the search-result idiom below does not cover
		for _, sp := range p.SSAPkg {
			for _, f := range pkgFuncs(p.SSA, sp) {
				for _, b := range f.Blocks {
					for _, in := range b.Instrs {
						switch x := in.(type) {
						case *ssa.IndexAddr, *ssa.Index, *ssa.Slice, *ssa.Lookup:
							if lk, isLk := x.(*ssa.Lookup); isLk {
								if _, isMap := lk.X.Type().Underlying().(*types.Map); isMap {
									continue // map lookups have no bounds
								}
							}
							// a constant index into a fixed-size array needs no check (building `[...]T{a, b}`)
							if ia, isIA := x.(*ssa.IndexAddr); isIA {
								t := ia.X.Type().Underlying()
								if pt, isP := t.(*types.Pointer); isP {
									t = pt.Elem().Underlying()
								}
								if at, isArr := t.(*types.Array); isArr {
									if k, isC := constInt(ia.Index); isC && k >= 0 && k < at.Len() {
										continue
									}
								}
							}
							if in.Pos().IsValid() {
								ps := p.Fset.Position(in.Pos())
								k := strings.TrimPrefix(ps.Filename, p.Dir+"/") + ":" + itoa(ps.Line)
								kind := ":IsInBounds"
								if _, isSl := x.(*ssa.Slice); isSl {
									kind = ":IsSliceInBounds"
								}
								own[k+kind] = true
								if !indexProvedBySearchIdiom(in) && !sliceProvedByGuards(in) && !indexProvedBySortIdiom(in) {
									ownUnproved[k+kind] = true
								}
							}
						}
					}
				}
			}
		}
		// lines that call a function of the module: an unproven access the compiler reports there without an
		// index operation of the line's own is the inlined copy of that callee's access (counted at the callee)
		callsModule := map[string][]string{}
		for _, sp := range p.SSAPkg {
			for _, f := range pkgFuncs(p.SSA, sp) {
				for _, b := range f.Blocks {
					for _, in := range b.Instrs {
						c, ok := in.(ssa.CallInstruction)
						if !ok || !in.Pos().IsValid() {
							continue
						}
						if g := c.Common().StaticCallee(); g != nil && g.Pkg != nil && strings.HasPrefix(g.Pkg.Pkg.Path(), modPath) {
							ps := p.Fset.Position(in.Pos())
							k := strings.TrimPrefix(ps.Filename, p.Dir+"/") + ":" + itoa(ps.Line)
							gp := p.Fset.Position(g.Pos())
							callsModule[k] = append(callsModule[k], enclosingFunc(p, strings.TrimPrefix(gp.Filename, p.Dir+"/"), gp.Line))
						}
					}
				}
			}
		}
		for _, ic := range p.InlinedCalls {
			if !ic.Pos.IsValid() {
				continue
			}
			ps := p.Fset.Position(ic.Pos)
			k := strings.TrimPrefix(ps.Filename, p.Dir+"/") + ":" + itoa(ps.Line)
			gp := p.Fset.Position(ic.Callee.Pos())
			callsModule[k] = append(callsModule[k], enclosingFunc(p, strings.TrimPrefix(gp.Filename, p.Dir+"/"), gp.Line))
		}
		fns := make([]string, 0, len(sites))
		for fn := range sites {
			fns = append(fns, fn)
		}
		sort.Strings(fns)
		// Per function against the reviewed table; what exceeds it is then balanced per package against
		// what disappeared from reviewed functions of the same package: extracting a block into a helper
		// (or inlining one) moves an unproven access to another function without adding one.
		pkgOf := func(fn string) string { return fn[:strings.LastIndex(fn, ":")] }
		excess := map[string][]string{}
		excessN := map[string]int{}
		slack := map[string]int{}
		seenFn := map[string]bool{}
		for _, fn := range fns {
			seenFn[fn] = true
			ss := sites[fn]
			inb, slb := 0, 0
			var where, whereOwn []string
			ownN, copies, idiom := 0, 0, 0
			for _, s := range ss {
				if k := fmt.Sprintf("%s:%d:%s", s.file, s.line, s.kind); !own[k] {
					for _, callee := range callsModule[fmt.Sprintf("%s:%d", s.file, s.line)] {
						if len(sites[callee]) > 0 {
							copies++
							break
						}
					}
				}
				if s.kind == "IsInBounds" {
					inb++
				} else {
					slb++
				}
				where = append(where, fmt.Sprintf("%s:%d(%s)", s.file, s.line, s.kind))
				if k := fmt.Sprintf("%s:%d:%s", s.file, s.line, s.kind); own[k] && !ownUnproved[k] {
					idiom++ // x[i] with i the non-negative result of a search in x itself: in bounds by the library's contract
				} else if own[k] {
					ownN++
					whereOwn = append(whereOwn, fmt.Sprintf("%s:%d(%s)", s.file, s.line, s.kind))
				}
			}
			row, ok := bceTable[fn]
			pos := fmt.Sprintf("%s:%d", ss[0].file, ss[0].line)
			allowed := row.inb + row.slb
			switch {
			case ok && inb <= row.inb && slb <= row.slb:
				r.Ok("R-C20-1", "bce:"+fn, pos, fmt.Sprintf("%d/%d unproven accesses (%d written in this function), reviewed %d/%d: %s", inb, slb, ownN, row.inb, row.slb, row.why))
				if eff := len(ss) - copies; allowed > eff {
					slack[pkgOf(fn)] += allowed - eff
				}
				if os.Getenv("VGW_DEBUG") != "" && allowed != len(ss)-copies {
					fmt.Fprintf(os.Stderr, "bce slack fn %s allowed %d/%d found %d/%d own %d: %v\n", fn, row.inb, row.slb, inb, slb, ownN, where)
				}
			default:
				// only accesses written in this function count; the rest is inlined library code
				// accesses an idiom prover discharges (sort callbacks, search results) are part of the reviewed
				// count but not of ownN: they do not make room for new unproven accesses
				if allowed -= idiom; allowed < 0 {
					allowed = 0
				}
				over := ownN - allowed
				if !ok {
					over = ownN
				}
				if over <= 0 {
					r.Ok("R-C20-1", "bce:"+fn, pos, fmt.Sprintf("%d unproven accesses, %d of them in inlined library code; reviewed %d", len(ss), len(ss)-ownN, allowed))
					continue
				}
				excessN[pkgOf(fn)] += over
				excess[pkgOf(fn)] = append(excess[pkgOf(fn)], fn+"\x00"+pos+"\x00"+fmt.Sprintf("%d unproven access(es) written in this function, reviewed %d: %s", ownN, allowed, strings.Join(whereOwn, ", ")))
			}
		}
		for fn, row := range bceTable {
			if !seenFn[fn] {
				slack[pkgOf(fn)] += row.inb + row.slb // the reviewed function has no unproven access any more (or is gone)
			}
		}
		if os.Getenv("VGW_DEBUG") != "" {
			for pk, v := range slack {
				if v != 0 {
					fmt.Fprintf(os.Stderr, "bce slack %s = %d\n", pk, v)
				}
			}
		}
		var pks []string
		for pk := range excessN {
			pks = append(pks, pk)
		}
		sort.Strings(pks)
		for _, pk := range pks {
			if excessN[pk] <= slack[pk] {
				r.Ok("R-C20-1", "bce-moved:"+pk, pk, fmt.Sprintf("%d unproven accesses now in unreviewed functions, %d disappeared from reviewed functions of the package: code moved, none added", excessN[pk], slack[pk]))
				continue
			}
			sort.Strings(excess[pk])
			for _, e := range excess[pk] {
				parts := strings.SplitN(e, "\x00", 3)
				r.Viol("R-C20-1", "bce:"+parts[0], parts[1], fmt.Sprintf("function %s: %s; package %s has %d unproven index/slice operation(s) beyond the reviewed table and only %d disappeared from its reviewed functions: a length or emptiness test was dropped or a new unchecked access added", parts[0], parts[2], pk, excessN[pk], slack[pk]))
			}
		}
	}

	c20Alloc(p, r)
	c20UseBeforeCheck(p, r)
	c20Pointers(p, r)
	c20Locals(p, r)
	c20Agreements(p, r)
}

var reqPkgs = []string{ctrlPkg, mwPkg, utilsPkg, "s3api", "auth", "backend", "backend/posix", "backend/meta", "backend/scoutfs", "backend/s3proxy", "s3response", "s3err", "s3event", "s3log"}

func c20Alloc(p *Program, r *Report) {
	n := 0
	for _, f := range p.FuncsIn(reqPkgs...) {
		for _, b := range f.Blocks {
			for _, in := range b.Instrs {
				var sizes []ssa.Value
				what := ""
				switch x := in.(type) {
				case *ssa.MakeSlice:
					sizes = []ssa.Value{x.Len, x.Cap}
					what = "make"
				case *ssa.Call:
					nme := calleeName(x)
					if nme == "(*bytes.Buffer).Grow" || nme == "(*strings.Builder).Grow" || nme == "slices.Grow" {
						sizes = callArgs(x)
						what = nme
					}
				}
				if what == "" {
					continue
				}
				n++
				bad := ""
				for _, sz := range sizes {
					for _, rt := range Origins(sz, nil) {
						if rt.Kind == "call" && (strings.HasPrefix(rt.Desc, "strconv.Parse") || rt.Desc == "strconv.Atoi" || strings.HasSuffix(rt.Desc, ".extractChunkSize") || strings.HasSuffix(rt.Desc, ".parseChunkHeaderBytes")) {
							bad = rt.Desc
						}
					}
				}
				key := fnName(f) + "/" + what + "@" + itoa(n)
				if bad == "" {
					continue
				}
				r.Viol("R-C20-2", key, p.Pos(in.Pos()), "allocation sized by a number parsed from the request ("+bad+") without an upper bound: an unauthenticated client chooses how much memory the gateway allocates")
			}
		}
	}
	r.Ok("R-C20-2", "allocation-sites-scanned", "-", itoa(n)+" make/Grow sites scanned in request-reachable packages")
}

// frozen exceptions of R-C20-3 (correct code the path-insensitive rule cannot see through)
var nilExceptions = map[string]string{
	"auth.CheckObjectAccess/(backend.Backend).GetObjectLegalHold": "the dereference *status is guarded by the boolean checkLegalHold, which is cleared on every error path that does not return",
	"(*s3log.WebhookLogger).sendLog/net/http.NewRequest":          "http.NewRequest can only fail on the configured URL, which InitWebhookLogger rejects at start-up; not client-reachable",
}

func c20UseBeforeCheck(p *Program, r *Report) {
	n := c20UseBeforeCheckScope(p, r, []string{ctrlPkg, mwPkg, utilsPkg, "s3api", "auth", "backend", "backend/posix", "backend/meta", "backend/scoutfs", "backend/s3proxy", "s3event", "s3log"})
	if n < 100 {
		broken("R-C20-3: only %d (*T, error) calls examined", n)
	}
}

func c20UseBeforeCheckScope(p *Program, r *Report, scope []string) int {
	n := 0
	for _, f := range p.FuncsIn(scope...) {
		for _, c := range callsIn(f) {
			call, ok := c.(*ssa.Call)
			if !ok {
				continue
			}
			res := call.Call.Signature().Results()
			if res.Len() < 2 || !isErrorType(res.At(res.Len()-1).Type()) {
				continue
			}
			if _, isPtr := res.At(0).Type().Underlying().(*types.Pointer); !isPtr {
				continue
			}
			var ptr, errv ssa.Value
			for _, ref := range *call.Referrers() {
				if e, ok := ref.(*ssa.Extract); ok {
					if e.Index == 0 {
						ptr = e
					}
					if e.Index == res.Len()-1 {
						errv = e
					}
				}
			}
			if ptr == nil {
				continue
			}
			n++
			key := fnName(f) + "/" + calleeName(c)
			if calleeName(c) == "" {
				key = fnName(f) + "/dynamic@" + itoa(n)
			}
			var cut []edge
			if errv != nil {
				ne, _ := nilTestEdges(errv)
				cut = append(cut, ne...)
			}
			for _, a := range aliasesOf(ptr) {
				_, nn := nilTestEdges(a)
				cut = append(cut, nn...)
			}
			// dereference sites of ptr
			bad := ""
			for _, a := range aliasesOf(ptr) {
				if a.Referrers() == nil {
					continue
				}
				for _, ref := range *a.Referrers() {
					isDeref := false
					switch x := ref.(type) {
					case *ssa.FieldAddr:
						isDeref = x.X == a
					case *ssa.UnOp:
						isDeref = x.Op == token.MUL && x.X == a
					case *ssa.IndexAddr:
						isDeref = x.X == a
					}
					if !isDeref {
						continue
					}
					ub := ref.Block()
					if ub == call.Block() && instrIndex(ref) > instrIndex(call) {
						bad = p.Pos(ref.Pos())
						continue
					}
					reach := map[*ssa.BasicBlock]bool{}
					for _, s := range call.Block().Succs {
						// edges out of the call block, honouring the cut
						skip := false
						for _, e := range cut {
							if e.from == call.Block() && e.from.Succs[e.succ] == s {
								skip = true
							}
						}
						if skip {
							continue
						}
						for b := range reachable(f, s, cut) {
							reach[b] = true
						}
					}
					if reach[ub] {
						bad = p.Pos(ref.Pos())
					}
				}
			}
			exKey := strings.SplitN(key, "@", 2)[0]
			if why, ex := nilExceptions[exKey]; ex && bad != "" {
				r.Ok("R-C20-3", key, p.Pos(call.Pos()), "frozen exception: "+why)
				continue
			}
			r.Check(bad == "", "R-C20-3", key, p.Pos(call.Pos()), "result dereferenced only after the error/nil test", "the pointer result of "+calleeName(c)+" is dereferenced (at "+bad+") on a path where neither its error nor the pointer itself was tested: a failing call makes the gateway dereference nil and exit")
		}
	}
	return n
}

// requiredPtrFields: for posix backend method m, pointer fields of its input-struct parameters that are
// dereferenced without a preceding nil test.
func requiredPtrFields(f *ssa.Function) map[string]map[string]bool {
	out := map[string]map[string]bool{} // param type -> fields
	for _, prm := range f.Params[1:] {
		pt, ok := prm.Type().Underlying().(*types.Pointer)
		var st *types.Struct
		if ok {
			st, _ = pt.Elem().Underlying().(*types.Struct)
		} else {
			st, _ = prm.Type().Underlying().(*types.Struct)
		}
		if st == nil {
			continue
		}
		tname := typeStr(prm.Type())
		// loads of pointer-typed fields of prm
		type fl struct {
			load  ssa.Value
			field string
		}
		var loads []fl
		for _, b := range f.Blocks {
			for _, in := range b.Instrs {
				switch x := in.(type) {
				case *ssa.UnOp:
					if x.Op != token.MUL {
						continue
					}
					fa, ok := x.X.(*ssa.FieldAddr)
					if !ok {
						continue
					}
					if !fromParam(fa.X, prm) {
						continue
					}
					if _, isPtr := x.Type().Underlying().(*types.Pointer); isPtr {
						loads = append(loads, fl{x, fieldName(fa.X.Type(), fa.Field)})
					}
				case *ssa.Field:
					if fromParam(x.X, prm) {
						if _, isPtr := x.Type().Underlying().(*types.Pointer); isPtr {
							loads = append(loads, fl{x, fieldName(x.X.Type(), x.Field)})
						}
					}
				}
			}
		}
		// nil tests per field
		cutByField := map[string][]edge{}
		for _, l := range loads {
			_, nn := nilTestEdges(l.load)
			cutByField[l.field] = append(cutByField[l.field], nn...)
		}
		for _, l := range loads {
			if l.load.Referrers() == nil {
				continue
			}
			for _, ref := range *l.load.Referrers() {
				isDeref := false
				switch x := ref.(type) {
				case *ssa.UnOp:
					isDeref = x.Op == token.MUL && x.X == l.load
				case *ssa.FieldAddr:
					isDeref = x.X == l.load
				}
				if !isDeref {
					continue
				}
				if reachable(f, nil, cutByField[l.field])[ref.Block()] {
					if out[tname] == nil {
						out[tname] = map[string]bool{}
					}
					out[tname][l.field] = true
				}
			}
		}
	}
	return out
}

func fromParam(v ssa.Value, prm *ssa.Parameter) bool {
	for i := 0; i < 6; i++ {
		switch x := v.(type) {
		case *ssa.Parameter:
			return x == prm
		case *ssa.UnOp:
			v = x.X
		case *ssa.Alloc:
			// spilled parameter
			for _, st := range storesTo(x) {
				if st.Val == prm {
					return true
				}
			}
			return false
		default:
			return false
		}
	}
	return false
}

func c20Pointers(p *Program, r *Report) {
	hs := append(s3Handlers(p), adminHandlers(p)...)
	bcs := backendCalls(hs)
	req := map[string]map[string]map[string]bool{} // method -> type -> fields
	for _, m := range p.Methods("backend/posix", "Posix") {
		if m.Object() == nil || !m.Object().Exported() || len(m.Params) < 2 {
			continue
		}
		if rf := requiredPtrFields(m); len(rf) > 0 {
			req[m.Name()] = rf
		}
	}
	n := 0
	for _, bc := range bcs {
		rf := req[bc.method]
		if rf == nil {
			continue
		}
		for _, a := range callArgs(bc.call) {
			fields := rf[typeStr(a.Type())]
			if fields == nil {
				continue
			}
			fs, _ := litFields(a)
			if fs == nil {
				r.Undecided("R-C20-4", bc.key+":input", p.Pos(bc.call.Pos()), "input struct is not a literal built in place")
				continue
			}
			names := make([]string, 0, len(fields))
			for fl := range fields {
				names = append(names, fl)
			}
			sort.Strings(names)
			for _, fl := range names {
				n++
				vs, set := fs[fl]
				okV := set
				for _, v := range vs {
					if isNilConst(v) {
						okV = false
					}
				}
				r.Check(okV, "R-C20-4", bc.key+"."+fl, p.Pos(bc.call.Pos()), "set to a non-nil pointer", "the controller does not set input."+fl+" but posix."+bc.method+" dereferences it without a nil test: the request makes the gateway dereference nil and exit")
			}
		}
	}
	if n < 10 {
		broken("R-C20-4: only %d required pointer fields found across controller literals", n)
	}
}

func c20Locals(p *Program, r *Report) {
	// keys set by middlewares
	set := map[string]bool{}
	for _, f := range p.FuncsIn(mwPkg) {
		for _, c := range callsTo(f, fiberCtx+".Locals") {
			a := callArgs(c)
			if len(a) >= 2 && !isNilConst(a[1]) {
				if s, ok := constString(a[0]); ok {
					set[s] = true
				}
			}
		}
	}
	// hard assertions in handlers / middlewares
	hard := map[string]string{}
	assertIn := func(f *ssa.Function) map[string]*ssa.TypeAssert {
		out := map[string]*ssa.TypeAssert{}
		for _, b := range f.Blocks {
			for _, in := range b.Instrs {
				ta, ok := in.(*ssa.TypeAssert)
				if !ok || ta.CommaOk {
					continue
				}
				if c, ok := ta.X.(*ssa.Call); ok && calleeName(c) == fiberCtx+".Locals" {
					if s, ok := constString(callArgs(c)[0]); ok {
						out[s] = ta
					}
				}
			}
		}
		return out
	}
	for _, f := range append(p.FuncsIn(ctrlPkg), p.FuncsIn(mwPkg)...) {
		for k, ta := range assertIn(f) {
			hard[k] = p.Pos(ta.Pos())
		}
	}
	keys := make([]string, 0, len(hard))
	for k := range hard {
		keys = append(keys, k)
	}
	sort.Strings(keys)
	for _, k := range keys {
		r.Check(set[k], "R-C20-5", "Locals("+k+")/producer", hard[k], "a middleware sets it", "Locals(\""+k+"\") is type-asserted without comma-ok but no middleware ever sets it: the assertion panics")
	}
	// AclParser exclusions vs PutBucketActions branches asserting parsedAcl
	acl := p.Func(mwPkg + ".AclParser$1")
	excluded := map[string]bool{}
	for _, ce := range condEdgesOf(acl) {
		if c, ok := ce.cond.(*ssa.Call); ok && calleeName(c) == "(*github.com/valyala/fasthttp.Args).Has" {
			// a constant, or an element of a constant table the test loops over
			if ss, ok := stringSet(p, callArgs(c)[0]); ok {
				for _, s := range ss {
					excluded[s] = true
				}
			}
		}
		// slices.ContainsFunc(table, ctx.Request().URI().QueryArgs().Has)
		if ss, fn, _, ok := tableMembershipTest(p, ce.cond); ok && fn != nil {
			isHas := false
			for _, g := range funcValuesOf(fn) {
				if strings.Contains(fnName(g), "fasthttp.Args).Has") {
					isHas = true
				}
				for _, c2 := range callsIn(g) {
					if calleeName(c2) == "(*github.com/valyala/fasthttp.Args).Has" {
						isHas = true
					}
				}
			}
			if isHas {
				for _, s := range ss {
					excluded[s] = true
				}
			}
		}
	}
	h := p.Func("(" + ctrlPkg + ".S3ApiController).PutBucketActions")
	type br struct {
		q  string
		ce condEdge
	}
	var branches []br
	for _, ce := range condEdgesOf(h) {
		if c, ok := ce.cond.(*ssa.Call); ok && calleeName(c) == "(*github.com/valyala/fasthttp.Args).Has" {
			if s, ok := constString(callArgs(c)[0]); ok {
				branches = append(branches, br{s, ce})
			}
		}
	}
	var allHolds []edge
	for _, b := range branches {
		allHolds = append(allHolds, b.ce.holds)
	}
	for _, ta := range assertSites(h, "parsedAcl") {
		// which query branches can reach this assertion?
		for _, b := range branches {
			if reachableFromEdge(h, b.ce.holds, nil)[ta.Block()] && !reachable(h, nil, []edge{b.ce.holds})[ta.Block()] {
				r.Check(excluded[b.q], "R-C20-5", fnName(h)+"/parsedAcl@"+b.q, p.Pos(ta.Pos()), "sub-resource is excluded from the create-bucket branch of AclParser", "PUT /bucket?"+b.q+" asserts Locals(\"parsedAcl\") but AclParser treats that request as a bucket creation and never sets it: the assertion panics")
			}
		}
		// the fall-through (create bucket) path must not assert parsedAcl
		if reachable(h, nil, allHolds)[ta.Block()] {
			r.Viol("R-C20-5", fnName(h)+"/parsedAcl@create", p.Pos(ta.Pos()), "the create-bucket path asserts Locals(\"parsedAcl\"), which AclParser does not set for it")
		}
	}
}

func assertSites(f *ssa.Function, key string) []*ssa.TypeAssert {
	var out []*ssa.TypeAssert
	for _, b := range f.Blocks {
		for _, in := range b.Instrs {
			ta, ok := in.(*ssa.TypeAssert)
			if !ok || ta.CommaOk {
				continue
			}
			if c, ok := ta.X.(*ssa.Call); ok && calleeName(c) == fiberCtx+".Locals" {
				if s, ok := constString(callArgs(c)[0]); ok && s == key {
					out = append(out, ta)
				}
			}
		}
	}
	return out
}

func c20Agreements(p *Program, r *Report) {
	// single-byte attributes: stores of versioningKey / objectLegalHoldKey values are 1-element byte slices
	for _, w := range []struct{ fn, key string }{
		{posixP + "PutBucketVersioning", "versioning"},
		{posixP + "PutObjectLegalHold", "legal-hold"},
	} {
		f := p.Func(w.fn)
		ok := false
		n := 0
		for _, mc := range metaCallsIn(f) {
			if mc.method != "StoreAttribute" {
				continue
			}
			n++
			args := mc.call.Common().Args
			val := args[len(args)-1]
			one := true
			found := false
			nilPossible := false
			_ = nilPossible
			for _, rt := range Origins(val, nil) {
				if rt.Kind == "alloc" || rt.Kind == "const" {
					continue
				}
				_ = rt
			}
			// every slice stored originates from a `new [1]byte` array
			seen := map[ssa.Value]bool{}
			var walk func(v ssa.Value)
			walk = func(v ssa.Value) {
				if v == nil || seen[v] {
					return
				}
				seen[v] = true
				switch x := v.(type) {
				case *ssa.Slice:
					if al, isAl := x.X.(*ssa.Alloc); isAl {
						if pt, ok := al.Type().Underlying().(*types.Pointer); ok {
							if at, ok := pt.Elem().Underlying().(*types.Array); ok {
								found = true
								if at.Len() != 1 {
									one = false
								}
								return
							}
						}
					}
					one = false
				case *ssa.Phi:
					for _, e := range x.Edges {
						walk(e)
					}
				case *ssa.UnOp:
					if al, isAl := x.X.(*ssa.Alloc); isAl {
						for _, st := range storesTo(al) {
							walk(st.Val)
						}
					}
				case *ssa.Const:
					if x.Value == nil { // nil slice: zero bytes
						if w.key == "versioning" {
							nilPossible = true // only for a status that is neither Enabled nor Suspended: excluded by the controller (checked below)
						} else {
							one = false
						}
					}
				default:
					one = false
				}
			}
			walk(val)
			if found && one {
				ok = true
			} else {
				ok = false
				break
			}
		}
		r.Check(ok && n > 0, "R-C20-6", w.fn+"/one-byte-attribute", p.Pos(f.Pos()), "attribute written as exactly one byte", "the "+w.key+" attribute is not always written as exactly one byte, but its reader indexes [0] unconditionally")
	}
	// the controller hands PutBucketVersioning only Enabled or Suspended (otherwise the backend would store an empty attribute)
	{
		pbv := p.Func("(" + ctrlPkg + ".S3ApiController).PutBucketActions")
		var cut []edge
		for _, ce := range condEdgesOf(pbv) {
			if ce.isEqNeq && ce.atoms["field:Status"] && (ce.atoms[`const:"Enabled"`] || ce.atoms[`const:"Suspended"`]) {
				cut = append(cut, ce.holds)
			}
		}
		for _, bc := range backendCalls([]*ssa.Function{pbv}) {
			if bc.method == "PutBucketVersioning" {
				r.Check(len(cut) >= 2 && !reachable(pbv, nil, cut)[bc.call.Block()], "R-C20-6", bc.key+":status-validated", p.Pos(bc.call.Pos()), "only Enabled/Suspended reach the backend", "a versioning status other than Enabled/Suspended can reach the backend, which then stores an empty attribute that GetBucketVersioning indexes [0]")
			}
		}
	}
	// ParseCopySource callers pass a non-empty header: call reachable only through a `!= ""` edge on the same value, in the
	// controller (the backend trusts it)
	h := p.Func("(" + ctrlPkg + ".S3ApiController).PutActions")
	for _, bc := range backendCalls([]*ssa.Function{h}) {
		if bc.method != "CopyObject" && bc.method != "UploadPartCopy" {
			continue
		}
		var cut []edge
		for _, ce := range condEdgesOf(h) {
			if ce.isEqNeq && ce.atoms[`const:""`] && ce.atoms["arg:X-Amz-Copy-Source"] && ce.binop != nil {
				cut = append(cut, ce.fails)
			}
		}
		r.Check(len(cut) > 0 && !reachable(h, nil, cut)[bc.call.Block()], "R-C20-6", bc.key+":non-empty-copy-source", p.Pos(bc.call.Pos()), "copy branch entered only with a non-empty copy source", bc.method+" can be called with an empty copy source: backend.ParseCopySource indexes copySourceHeader[0]")
	}
	// Rules[0] after the count test
	pb := p.Func("(" + ctrlPkg + ".S3ApiController).PutBucketActions")
	var cnt []edge
	for _, ce := range condEdgesOf(pb) {
		if ce.isEqNeq && ce.atoms["call:len"] && ce.atoms["field:Rules"] && ce.atoms["const:1"] {
			cnt = append(cnt, ce.holds)
		}
	}
	okR := len(cnt) > 0
	nIdx := 0
	for _, b := range pb.Blocks {
		for _, in := range b.Instrs {
			ia, ok := in.(*ssa.IndexAddr)
			if !ok {
				continue
			}
			isRules := false
			for _, rt := range Origins(ia.X, nil) {
				if rt.Kind == "field" && rt.Desc == "Rules" {
					isRules = true
				}
			}
			if !isRules {
				continue
			}
			nIdx++
			if reachable(pb, nil, cnt)[b] {
				okR = false
			}
		}
	}
	r.Check(okR && nIdx > 0, "R-C20-6", fnName(pb)+"/Rules[0]-after-count-test", p.Pos(pb.Pos()), "Rules[0] only after len(Rules) == 1", "ownershipControls.Rules[0] can be evaluated before the rule count was tested: an empty rule list crashes the gateway")
}

func controlsC20() []Control {
	return []Control{
		{Name: "ParseAuthorization: credential field count test dropped", Rule: "R-C20-1", File: "s3api/utils/auth-reader.go",
			Old: "\tif len(creds) != 5 {", New: "\tif len(creds) > 5 {", Expect: "ParseAuthorization"},
		{Name: "revert fix 14b7392: Rules[0] before the count test", Rule: "R-C20-6", File: "s3api/controllers/base.go",
			Old: "\t\trulesCount := len(ownershipControls.Rules)\n\t\tif rulesCount != 1 || !utils.IsValidOwnership(ownershipControls.Rules[0].ObjectOwnership, c.debug) {", New: "\t\trulesCount := len(ownershipControls.Rules)\n\t\tisValidOwnership := utils.IsValidOwnership(ownershipControls.Rules[0].ObjectOwnership, c.debug)\n\t\tif rulesCount != 1 || !isValidOwnership {", Expect: "Rules[0]"},
		{Name: "revert fix ea2b6ee: ListBuckets indexes an empty page", Rule: "R-C20-1", File: "backend/posix/posix.go",
			Old: "\t\t\tif len(buckets) > 0 {\n\t\t\t\tcToken = buckets[len(buckets)-1].Name\n\t\t\t}\n", New: "\t\t\tcToken = buckets[len(buckets)-1].Name\n", Expect: "ListBuckets"},
		{Name: "ListParts: page guard kept in a boolean, joined with || instead of &&", Rule: "R-C20-1", File: "backend/posix/posix.go",
			Old: "\tif maxParts > 0 && len(parts) > maxParts {\n\t\tparts = parts[:maxParts]", New: "\ttruncated := maxParts > 0 || len(parts) > maxParts\n\tif truncated {\n\t\tparts = parts[:maxParts]", Expect: "ListParts"},
		{Name: "unsigned reader grows its buffer by the declared chunk size", Rule: "R-C20-2", File: "s3api/utils/unsigned-chunk-reader.go",
			Old: "\t\tvar buf bytes.Buffer\n", New: "\t\tvar buf bytes.Buffer\n\t\tbuf.Grow(int(chunkSize))\n", Expect: "Grow"},
		{Name: "revert fix c423892: s3proxy uses the result before the error", Rule: "R-C20-3", File: "backend/s3proxy/s3.go",
			Old: "\tout, err := s.client.GetObjectAttributes(ctx, input)\n\tif err != nil {\n\t\treturn s3response.GetObjectAttributesResponse{}, handleError(err)\n\t}\n", New: "\tout, err := s.client.GetObjectAttributes(ctx, input)\n", Expect: "GetObjectAttributes"},
		{Name: "ListActions drops MaxUploads from the input", Rule: "R-C20-4", File: "s3api/controllers/base.go",
			Old: "\t\t\t\tMaxUploads:     &maxUploads,\n", New: "", More: []Edit{{"s3api/controllers/base.go", "\t\tmaxUploads, err := utils.ParseUint(maxUploadsStr, c.debug)\n", "\t\tmaxUploads, err := utils.ParseUint(maxUploadsStr, c.debug)\n\t\t_ = maxUploads\n"}}, Expect: "MaxUploads"},
		{Name: "PutBucketActions: new lifecycle branch asserting parsedAcl", Rule: "R-C20-5", File: "s3api/controllers/base.go",
			Old: "\tif ctx.Request().URI().QueryArgs().Has(\"ownershipControls\") {\n\t\tparsedAcl := ctx.Locals(\"parsedAcl\").(auth.ACL)\n\t\tvar ownershipControls", New: "\tif ctx.Request().URI().QueryArgs().Has(\"lifecycle\") {\n\t\tparsedAcl := ctx.Locals(\"parsedAcl\").(auth.ACL)\n\t\treturn SendResponse(ctx, s3err.GetAPIError(s3err.ErrNotImplemented), &MetaOpts{Logger: c.logger, BucketOwner: parsedAcl.Owner})\n\t}\n\n\tif ctx.Request().URI().QueryArgs().Has(\"ownershipControls\") {\n\t\tparsedAcl := ctx.Locals(\"parsedAcl\").(auth.ACL)\n\t\tvar ownershipControls", Expect: "lifecycle"},
	}
}

// indexProvedBySearchIdiom: x[i] where i is the result of slices.Index / slices.IndexFunc / strings.Index... on the
// same value x and the access is only reachable through an edge on which i is known not to be negative. The
// library guarantees -1 <= i < len(x); the compiler does not know that contract.
func indexProvedBySearchIdiom(in ssa.Instruction) bool {
	var x, idx ssa.Value
	switch v := in.(type) {
	case *ssa.IndexAddr:
		x, idx = v.X, v.Index
	case *ssa.Index:
		x, idx = v.X, v.Index
	case *ssa.Lookup:
		x, idx = v.X, v.Index
	default:
		return false
	}
	if rangeIndexInBounds(in, x, idx) {
		return true
	}
	c, ok := idx.(*ssa.Call)
	if !ok {
		return false
	}
	g := c.Call.StaticCallee()
	if g == nil {
		return false
	}
	name := g.Name()
	if o := g.Origin(); o != nil {
		name = o.Name()
	}
	pkg := ""
	if g.Pkg != nil {
		pkg = g.Pkg.Pkg.Path()
	} else if o := g.Origin(); o != nil && o.Pkg != nil {
		pkg = o.Pkg.Pkg.Path()
	}
	switch pkg + "." + name {
	case "slices.Index", "slices.IndexFunc", "strings.Index", "strings.IndexByte", "strings.LastIndex", "strings.IndexFunc", "bytes.Index", "bytes.IndexByte", "bytes.LastIndex":
	default:
		return false
	}
	if len(c.Call.Args) == 0 || !sameSliceValue(c.Call.Args[0], x) {
		return false
	}
	f := in.Parent()
	var nonNeg []edge
	for _, ce := range condEdgesOf(f) {
		bo := ce.binop
		if bo == nil {
			continue
		}
		var k *ssa.Const
		left := false
		if bo.X == idx {
			k, _ = bo.Y.(*ssa.Const)
			left = true
		} else if bo.Y == idx {
			k, _ = bo.X.(*ssa.Const)
		}
		if k == nil {
			continue
		}
		n, isInt := constInt(k)
		if !isInt {
			continue
		}
		op := bo.Op
		if !left { // k op idx  ->  idx op' k
			switch op {
			case token.LSS:
				op = token.GTR
			case token.GTR:
				op = token.LSS
			case token.LEQ:
				op = token.GEQ
			case token.GEQ:
				op = token.LEQ
			}
		}
		// ce.holds: (X == Y) for ==/!=, else the operator itself holds (condEdgesOf normalises != to ==)
		switch {
		case ce.isEqNeq && n == -1: // idx == -1 : fails edge has idx >= 0
			nonNeg = append(nonNeg, ce.fails)
		case op == token.LSS && n == 0, op == token.LEQ && n == -1:
			nonNeg = append(nonNeg, ce.fails)
		case op == token.GEQ && n == 0, op == token.GTR && n == -1:
			nonNeg = append(nonNeg, ce.holds)
		}
	}
	return len(nonNeg) > 0 && !reachable(f, nil, nonNeg)[in.Block()]
}

// indexProvedBySortIdiom: x[i] in the comparison function handed to sort.Slice / sort.SliceStable together with x
// itself, i being one of the function's two parameters: package sort calls it with 0 <= i, j < len(x) only, and the
// function does not reassign x.
func indexProvedBySortIdiom(in ssa.Instruction) bool {
	ia, ok := in.(*ssa.IndexAddr)
	if !ok {
		return false
	}
	g := in.Parent()
	if g == nil || g.Parent() == nil || len(g.Params) != 2 {
		return false
	}
	prm, ok := ia.Index.(*ssa.Parameter)
	if !ok || prm.Parent() != g {
		return false
	}
	ld, ok := ia.X.(*ssa.UnOp)
	if !ok || ld.Op != token.MUL {
		return false
	}
	fv, ok := ld.X.(*ssa.FreeVar)
	if !ok {
		return false
	}
	k := -1
	for i, v := range g.FreeVars {
		if v == fv {
			k = i
		}
	}
	if k < 0 {
		return false
	}
	for _, b := range g.Blocks {
		for _, x := range b.Instrs {
			if st, isSt := x.(*ssa.Store); isSt && st.Addr == ssa.Value(fv) {
				return false
			}
		}
	}
	n := 0
	for _, b := range g.Parent().Blocks {
		for _, x := range b.Instrs {
			mc, isMC := x.(*ssa.MakeClosure)
			if !isMC || mc.Fn != ssa.Value(g) {
				continue
			}
			refs := mc.Referrers()
			if refs == nil || len(*refs) != 1 || k >= len(mc.Bindings) {
				return false
			}
			call, isCall := (*refs)[0].(*ssa.Call)
			if !isCall {
				return false
			}
			callee := call.Call.StaticCallee()
			if callee == nil || callee.Pkg == nil || callee.Pkg.Pkg.Path() != "sort" || (callee.Name() != "Slice" && callee.Name() != "SliceStable") {
				return false
			}
			if len(call.Call.Args) != 2 || call.Call.Args[1] != ssa.Value(mc) {
				return false
			}
			mi, isMI := call.Call.Args[0].(*ssa.MakeInterface)
			if !isMI {
				return false
			}
			arg, isLd := mi.X.(*ssa.UnOp)
			if !isLd || arg.Op != token.MUL || arg.X != mc.Bindings[k] {
				return false
			}
			n++
		}
	}
	return n == 1
}

// sliceProvedByGuards: x[:h] (or x[0:h]) where every path from the definition of h to the slice passes a test
// that leaves 0 <= h and a test that leaves h <= len(x), x being the very value sliced. The compiler's prove pass
// loses such a guard when it is kept in a boolean variable; the guard is there all the same.
func sliceProvedByGuards(in ssa.Instruction) bool {
	s, ok := in.(*ssa.Slice)
	if !ok || s.Max != nil || s.High == nil {
		return false
	}
	if s.Low != nil {
		if k, isC := constInt(s.Low); !isC || k != 0 {
			return false
		}
	}
	h := s.High
	f := in.Parent()
	isLenOf := func(v ssa.Value) (ssa.Value, bool) {
		c, ok := v.(*ssa.Call)
		if !ok {
			return nil, false
		}
		if bi, isB := c.Call.Value.(*ssa.Builtin); !isB || bi.Name() != "len" || len(c.Call.Args) != 1 {
			return nil, false
		}
		return c.Call.Args[0], true
	}
	var nonNeg, leLen []edge
	_, hIsLen := isLenOf(h)
	// x[:len(x)-1] of the result of strings.Split with a non-empty separator (it always yields at least one piece)
	if sub, isSub := h.(*ssa.BinOp); isSub && sub.Op == token.SUB {
		if y, isLen := isLenOf(sub.X); isLen && sameSliceValue(y, s.X) {
			if k, isC := constInt(sub.Y); isC && k == 1 {
				if sc, isCall := y.(*ssa.Call); isCall && (calleeName(sc) == "strings.Split" || calleeName(sc) == "strings.SplitN") {
					if sep, okS := constString(sc.Call.Args[1]); okS && sep != "" {
						return true
					}
				}
			}
		}
	}
	// fact on an edge: a < b (strict) or a <= b
	use := func(a, b ssa.Value, strict bool, e edge) {
		if b == h {
			if k, isC := constInt(a); isC && (k >= 0 || (strict && k == -1)) {
				nonNeg = append(nonNeg, e)
			}
			if _, isLen := isLenOf(a); isLen {
				nonNeg = append(nonNeg, e)
			}
		}
		if a == h {
			if y, isLen := isLenOf(b); isLen && sameSliceValue(y, s.X) {
				leLen = append(leLen, e)
			}
		}
	}
	for _, ce := range condEdgesOf(f) {
		bo := ce.binop
		if bo == nil {
			continue
		}
		okH := !ce.viaPhi || ce.exact == ce.holds.succ
		okF := !ce.viaPhi || ce.exact == ce.fails.succ
		switch bo.Op {
		case token.LSS: // X < Y ; else Y <= X
			if okH {
				use(bo.X, bo.Y, true, ce.holds)
			}
			if okF {
				use(bo.Y, bo.X, false, ce.fails)
			}
		case token.LEQ:
			if okH {
				use(bo.X, bo.Y, false, ce.holds)
			}
			if okF {
				use(bo.Y, bo.X, true, ce.fails)
			}
		case token.GTR: // Y < X ; else X <= Y
			if okH {
				use(bo.Y, bo.X, true, ce.holds)
			}
			if okF {
				use(bo.X, bo.Y, false, ce.fails)
			}
		case token.GEQ:
			if okH {
				use(bo.Y, bo.X, false, ce.holds)
			}
			if okF {
				use(bo.X, bo.Y, true, ce.fails)
			}
		}
	}
	var from *ssa.BasicBlock
	if hi, isI := h.(ssa.Instruction); isI {
		from = hi.Block()
	}
	if len(leLen) == 0 || reachable(f, from, leLen)[in.Block()] {
		return false
	}
	return hIsLen || (len(nonNeg) > 0 && !reachable(f, from, nonNeg)[in.Block()])
}

// sameSliceValue: the same SSA value, or two loads of the same field of the same struct pointer in a function that
// never stores to that field and hands the struct to no call in between.
func sameSliceValue(a, b ssa.Value) bool {
	if a == b {
		return true
	}
	la, ok1 := a.(*ssa.UnOp)
	lb, ok2 := b.(*ssa.UnOp)
	if !ok1 || !ok2 || la.Op != token.MUL || lb.Op != token.MUL {
		return false
	}
	// two loads of one local variable (a cell because a closure captures it) with no store and no call between
	if al, isAl := la.X.(*ssa.Alloc); isAl && lb.X == la.X {
		for _, blk := range al.Parent().Blocks {
			for _, in := range blk.Instrs {
				between := func() bool {
					return (mayPrecede(la, in) && mayPrecede(in, lb)) || (mayPrecede(lb, in) && mayPrecede(in, la))
				}
				switch x := in.(type) {
				case *ssa.Store:
					if x.Addr == la.X && between() {
						return false
					}
				case ssa.CallInstruction:
					if _, isB := x.Common().Value.(*ssa.Builtin); !isB && between() {
						return false
					}
				}
			}
		}
		return true
	}
	fa, ok1 := la.X.(*ssa.FieldAddr)
	fb, ok2 := lb.X.(*ssa.FieldAddr)
	if !ok1 || !ok2 || fa.X != fb.X || fa.Field != fb.Field {
		return false
	}
	f := la.Parent()
	for _, blk := range f.Blocks {
		for _, in := range blk.Instrs {
			if st, ok := in.(*ssa.Store); ok {
				if fx, ok := st.Addr.(*ssa.FieldAddr); ok && fx.X == fa.X && fx.Field == fa.Field {
					// a store that cannot fall between the two loads (the literal being built before both)
					// leaves them equal
					if (mayPrecede(la, st) && mayPrecede(st, lb)) || (mayPrecede(lb, st) && mayPrecede(st, la)) {
						return false
					}
				}
			}
			if c, ok := in.(ssa.CallInstruction); ok {
				for _, arg := range c.Common().Args {
					if arg == fa.X && mayPrecede(la, c) && mayPrecede(c, lb) && fieldAssignedAfterConstruction(f, fa) {
						return false
					}
				}
			}
		}
	}
	return true
}

// fieldAssignedAfterConstruction: some function of the package stores into this field of this struct type other
// than while building a fresh value (a composite literal: the struct was allocated in the same function). A field
// that is only ever set by literals cannot change under a method that was handed the struct.
func fieldAssignedAfterConstruction(f *ssa.Function, fa *ssa.FieldAddr) bool {
	pp := programOf(f)
	if pp == nil || f.Pkg == nil {
		return true
	}
	st := derefType(fa.X.Type())
	for _, g := range pkgFuncs(pp.SSA, f.Pkg) {
		for _, b := range g.Blocks {
			for _, in := range b.Instrs {
				s, ok := in.(*ssa.Store)
				if !ok {
					continue
				}
				fa2, ok := s.Addr.(*ssa.FieldAddr)
				if !ok || fa2.Field != fa.Field || !types.Identical(derefType(fa2.X.Type()), st) {
					continue
				}
				if al, isAl := fa2.X.(*ssa.Alloc); isAl && al.Parent() == g {
					continue // literal under construction
				}
				return true
			}
		}
	}
	return false
}

// rangeIndexInBounds: x[i] inside `for i := range y` where y and x are the same slice (the same value, or two loads
// of one field that nothing in between can have changed): 0 <= i < len(y) on the edge into the loop body.
func rangeIndexInBounds(in ssa.Instruction, x, idx ssa.Value) bool {
	add, ok := idx.(*ssa.BinOp)
	if !ok || add.Op != token.ADD {
		return false
	}
	phi, ok := add.X.(*ssa.Phi)
	if !ok || phi.Comment != "rangeindex" {
		return false
	}
	if one, isC := add.Y.(*ssa.Const); !isC || one.Value == nil || one.Value.ExactString() != "1" {
		return false
	}
	// the loop test: add < len(y)
	f := in.Parent()
	for _, ce := range condEdgesOf(f) {
		bo := ce.binop
		if bo == nil || bo.Op != token.LSS || bo.X != ssa.Value(add) {
			continue
		}
		ln, ok := bo.Y.(*ssa.Call)
		if !ok {
			continue
		}
		if bi, isB := ln.Call.Value.(*ssa.Builtin); !isB || bi.Name() != "len" || len(ln.Call.Args) != 1 {
			continue
		}
		if !sameSliceValue(ln.Call.Args[0], x) {
			continue
		}
		if !reachable(f, nil, []edge{ce.holds})[in.Block()] {
			return true
		}
	}
	return false
}
