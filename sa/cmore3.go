package main

// Rules added while making the checker robust to refactorings (DESIGN.md §5.4): restatements by role of what an
// earlier, shape-bound rule caught only by accident.

import (
	"go/types"

	"golang.org/x/tools/go/ssa"
)

func init() {
	extraRules["C02"] = append(extraRules["C02"], more3ReaderChain)
	extraRules["C06"] = append(extraRules["C06"], more3ReaderChain)
	extraRules["C12"] = append(extraRules["C12"], more3ReaderChain)
	extraControls["C02"] = append(extraControls["C02"],
		Control{Name: "MD5 middleware builds its reader on the raw body stream", Rule: "R-C02-8", File: "s3api/middlewares/md5.go",
			Old: "\t\t\twrapBodyReader(ctx, func(r io.Reader) io.Reader {\n\t\t\t\tr, err = utils.NewHashReader(r, incomingSum, utils.HashTypeMd5)\n\t\t\t\treturn r\n\t\t\t})",
			New: "\t\t\tvar hr io.Reader\n\t\t\thr, err = utils.NewHashReader(ctx.Request().BodyStream(), incomingSum, utils.HashTypeMd5)\n\t\t\tctx.Locals(\"body-reader\", hr)", Expect: "wraps-current-reader"},
	)
}

// ---- R-C02-8: every body reader a middleware installs wraps the one that is installed ------------------------

func more3ReaderChain(p *Program, r *Report) {
	rule := "R-C02-8"
	r.Rule(rule, "the reader chain is only ever extended: whenever a middleware stores a reader under the context local \"body-reader\", the inner io.Reader given to the constructor of the stored reader is read from that same local (the raw body stream only where none is installed yet); a middleware that builds its reader on the raw stream discards the deferred signature / chunk verification installed before it", 3)
	ioReader := func(t types.Type) bool {
		nt, ok := types.Unalias(t).(*types.Named)
		return ok && nt.Obj().Pkg() != nil && nt.Obj().Pkg().Path() == "io" && nt.Obj().Name() == "Reader"
	}
	n := 0
	for _, name := range []string{mwPkg + ".VerifyV4Signature$1", mwPkg + ".VerifyPresignedV4Signature$1", mwPkg + ".VerifyMD5Body$1"} {
		f := p.Func(name)
		k := 0
		for _, c := range callsTo(f, fiberCtx+".Locals") {
			args := callArgs(c)
			if len(args) < 2 {
				continue
			}
			if key, ok := constString(args[0]); !ok || key != "body-reader" {
				continue
			}
			if isNilConst(args[1]) {
				continue // the read of the local (no value given)
			}
			k++
			n++
			// the constructors the stored value comes from, and their io.Reader argument
			ctors, ok := 0, true
			what := ""
			for _, v := range args[1:] {
				for _, rt := range Origins(v, nil) {
					if rt.Kind != "call" || rt.Call == nil {
						continue
					}
					cc, isCall := rt.Call.(*ssa.Call)
					if !isCall {
						continue
					}
					g := cc.Call.StaticCallee()
					if g == nil || g.Pkg == nil || g.Pkg.Pkg.Path() != modPath+"/s3api/utils" {
						continue
					}
					for i, prm := range g.Params {
						if !ioReader(prm.Type()) || i >= len(cc.Call.Args) {
							continue
						}
						ctors++
						if !hasCallRoot(Origins(cc.Call.Args[i], nil), fiberCtx+".Locals", "body-reader") {
							ok = false
							what = fnName(g)
						}
					}
				}
			}
			r.Check(ctors > 0 && ok, rule, fnName(f)+"/install#"+itoa(k)+":wraps-current-reader", p.Pos(c.Pos()), "the new reader's source is the installed body reader", "the reader stored as body reader ("+what+") is not built on the reader already installed under \"body-reader\": whatever verification an earlier middleware deferred into that reader never runs")
		}
	}
	if n < 3 {
		broken("R-C02-8: only %d body-reader installs found in the middlewares", n)
	}
}
