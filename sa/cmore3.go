package main

// Rules added while making the checker robust to refactorings (DESIGN.md §5.4): restatements by role of what an
// earlier, shape-bound rule caught only by accident.

import (
	"go/token"
	"go/types"
	"math/big"
	"sort"
	"strings"

	"golang.org/x/tools/go/ssa"
)

func init() {
	extraRules["C02"] = append(extraRules["C02"], more3ReaderChain)
	extraRules["C06"] = append(extraRules["C06"], more3ReaderChain)
	extraRules["C12"] = append(extraRules["C12"], more3ReaderChain)
	extraRules["C20"] = append(extraRules["C20"], more3ReaderChain)
	extraControls["C02"] = append(extraControls["C02"],
		Control{Name: "MD5 middleware builds its reader on the raw body stream", Rule: "R-C02-8", File: "s3api/middlewares/md5.go",
			Old: "\t\t\twrapBodyReader(ctx, func(r io.Reader) io.Reader {\n\t\t\t\tr, err = utils.NewHashReader(r, incomingSum, utils.HashTypeMd5)\n\t\t\t\treturn r\n\t\t\t})",
			New: "\t\t\tvar hr io.Reader\n\t\t\thr, err = utils.NewHashReader(ctx.Request().BodyStream(), incomingSum, utils.HashTypeMd5)\n\t\t\tctx.Locals(\"body-reader\", hr)", Expect: "wraps-current-reader"},
	)
}

// ---- R-C02-8: every body reader a middleware installs wraps the one that is installed ------------------------

func more3ReaderChain(p *Program, r *Report) {
	rule := "R-C02-8"
	if r.Prop == "C20" {
		r.Rule("R-C20-12", "the reader chain has a bottom: where a middleware builds a reader on the request's own body stream (ctx.Request().BodyStream(), nil for a request without a body) that value is known non-nil on the edge it arrives by", 3)
	} else {
		r.Rule(rule, "the reader chain is only ever extended: whenever a middleware stores a reader under the context local \"body-reader\", the inner io.Reader given to the constructor of the stored reader is read from that same local (the raw body stream only where none is installed yet); a middleware that builds its reader on the raw stream discards the deferred signature / chunk verification installed before it", 3)
	}
	ioReader := func(t types.Type) bool {
		nt, ok := types.Unalias(t).(*types.Named)
		return ok && nt.Obj().Pkg() != nil && nt.Obj().Pkg().Path() == "io" && nt.Obj().Name() == "Reader"
	}
	// chained: the value is the installed body reader, or a reader some constructor of the package built on one
	var chained func(v ssa.Value, depth int) bool
	chained = func(v ssa.Value, depth int) bool {
		rs := Origins(v, nil)
		if hasCallRoot(rs, fiberCtx+".Locals", "body-reader") {
			return true
		}
		if depth > 3 {
			return false
		}
		for _, rt := range rs {
			cc, isCall := rt.Call.(*ssa.Call)
			if rt.Kind != "call" || !isCall {
				continue
			}
			g := cc.Call.StaticCallee()
			if g == nil || g.Pkg == nil || g.Pkg.Pkg.Path() != modPath+"/s3api/utils" {
				continue
			}
			for i, prm := range g.Params {
				if ioReader(prm.Type()) && i < len(cc.Call.Args) && chained(cc.Call.Args[i], depth+1) {
					return true
				}
			}
		}
		return false
	}
	n := 0
	for _, name := range []string{mwPkg + ".VerifyV4Signature$1", mwPkg + ".VerifyPresignedV4Signature$1", mwPkg + ".VerifyMD5Body$1"} {
		f := p.Func(name)
		k := 0
		for _, c := range callsTo(f, fiberCtx+".Locals") {
			args := callArgs(c)
			if len(args) < 2 {
				continue
			}
			if key, ok := constString(args[0]); !ok || key != "body-reader" {
				continue
			}
			if isNilConst(args[1]) {
				continue // the read of the local (no value given)
			}
			k++
			n++
			// the constructors the stored value comes from, and their io.Reader argument
			ctors, ok := 0, true
			what := ""
			for _, v := range args[1:] {
				for _, rt := range Origins(v, nil) {
					if rt.Kind != "call" || rt.Call == nil {
						continue
					}
					cc, isCall := rt.Call.(*ssa.Call)
					if !isCall {
						continue
					}
					g := cc.Call.StaticCallee()
					if g == nil || g.Pkg == nil || g.Pkg.Pkg.Path() != modPath+"/s3api/utils" {
						// the wrapping callback as a method value (or a named function) of this package: the
						// constructor is called inside it on the reader it is handed, which is this call's argument
						for _, m := range funcValuesOf(cc.Call.Value) {
							if m == nil || m.Pkg == nil || m.Pkg.Pkg.Path() != modPath+"/s3api/middlewares" || len(m.Blocks) == 0 {
								continue
							}
							off := 0
							if m.Signature.Recv() != nil {
								off = 1 // the bound receiver is not among the call's arguments
							}
							for _, ic := range callsIn(m) {
								ig := ic.Common().StaticCallee()
								if ig == nil || ig.Pkg == nil || ig.Pkg.Pkg.Path() != modPath+"/s3api/utils" {
									continue
								}
								for i, prm := range ig.Params {
									if !ioReader(prm.Type()) || i >= len(ic.Common().Args) {
										continue
									}
									ctors++
									fromParam := -1
									for _, r2 := range terminalRoots(Origins(ic.Common().Args[i], nil)) {
										for j, mp := range m.Params {
											if r2.Kind == "param" && r2.Val == ssa.Value(mp) {
												fromParam = j - off
											}
										}
									}
									if fromParam < 0 || fromParam >= len(cc.Call.Args) || !chained(cc.Call.Args[fromParam], 0) {
										ok = false
										what = fnName(ig) + " in " + fnName(m)
									}
								}
							}
						}
						continue
					}
					for i, prm := range g.Params {
						if !ioReader(prm.Type()) || i >= len(cc.Call.Args) {
							continue
						}
						ctors++
						if !chained(cc.Call.Args[i], 0) {
							ok = false
							what = fnName(g)
						}
					}
				}
			}
			// the bottom of the chain exists: the request's own body stream is nil for a request without a body
			// (fasthttp), so where it is used as the source it must be known non-nil on the edge it arrives by
			nilSrc := ""
			for _, v := range args[1:] {
				for _, rt := range Origins(v, nil) {
					cc, isCall := rt.Call.(*ssa.Call)
					if rt.Kind != "call" || !isCall {
						continue
					}
					g := cc.Call.StaticCallee()
					if g == nil || g.Pkg == nil || g.Pkg.Pkg.Path() != modPath+"/s3api/utils" {
						continue
					}
					for i, prm := range g.Params {
						if !ioReader(prm.Type()) || i >= len(cc.Call.Args) {
							continue
						}
						for _, lf := range valueLeaves(cc.Call.Args[i], cc.Block()) {
							isStream := false
							for _, r2 := range Origins(lf.val, nil) {
								if r2.Kind == "call" && strings.HasSuffix(r2.Desc, "fasthttp.Request).BodyStream") {
									isStream = true
								}
							}
							if _, isPhi := lf.val.(*ssa.Phi); isStream && !isPhi && truthOnEdge(lf.val, lf.from, lf.to) <= 0 {
								nilSrc = p.Pos(cc.Pos())
							}
						}
					}
				}
			}
			if r.Prop == "C20" {
				r.Check(nilSrc == "", "R-C20-12", fnName(f)+"/install#"+itoa(k)+":source-not-nil", p.Pos(c.Pos()), "the request's body stream is used only where it is known non-nil", "the reader installed here is built (at "+nilSrc+") on ctx.Request().BodyStream() without a nil test: a PUT without Content-Length has no body stream, the first Read dereferences nil and the process exits (fasthttp does not recover handler panics); a valid access key id suffices, the signature is never checked")
				continue
			}
			r.Check(ctors > 0 && ok, rule, fnName(f)+"/install#"+itoa(k)+":wraps-current-reader", p.Pos(c.Pos()), "the new reader's source is the installed body reader", "the reader stored as body reader ("+what+") is not built on the reader already installed under \"body-reader\": whatever verification an earlier middleware deferred into that reader never runs")
		}
	}
	if n < 3 {
		broken("R-C02-8: only %d body-reader installs found in the middlewares", n)
	}
}

func init() {
	extraRules["C01"] = append(extraRules["C01"], more3NoHardLinks)
	extraRules["C09"] = append(extraRules["C09"], more3NoHardLinks)
	extraRules["C03"] = append(extraRules["C03"], more3VerdictAfterLoop, more3BatchDeleteFailsClosed)
	extraRules["C14"] = append(extraRules["C14"], more3VerdictAfterLoop)
	extraRules["C07"] = append(extraRules["C07"], more3SkipAllOnlyWhenFull)
	extraRules["C08"] = append(extraRules["C08"], more3CompleteValidatesFirst)
	for _, id := range []string{"C02", "C10", "C12", "C17", "C20", "C05"} {
		extraRules[id] = append(extraRules[id], more3NoPackageLevelState)
	}
	extraRules["C11"] = append(extraRules["C11"], more3TempFilesUnderTmpDir)
	extraRules["C05"] = append(extraRules["C05"], more3TempFilesUnderTmpDir)
	extraRules["C15"] = append(extraRules["C15"], more3ReadsDoNotWrite)
	extraRules["C17"] = append(extraRules["C17"], more3CacheMapNotReplaced)
	extraRules["C18"] = append(extraRules["C18"], more3ProxyCreateThenTag)
	extraRules["C19"] = append(extraRules["C19"], more3EventKeyVerbatim, more3OneDeliveryAttempt)
}

// inLoopBody: b is reached by leaving a loop from somewhere other than the loop's header (the header's exit is
// the loop's normal end; leaving from any other block of the cycle is a break or a return written in the body).
func inLoopBody(f *ssa.Function, b *ssa.BasicBlock) bool {
	cyc := map[*ssa.BasicBlock]bool{}
	for _, x := range f.Blocks {
		if inCycle(f, x) {
			cyc[x] = true
		}
	}
	if cyc[b] {
		return true
	}
	header := map[*ssa.BasicBlock]bool{}
	for x := range cyc {
		for _, pr := range x.Preds {
			if !cyc[pr] {
				header[x] = true
			}
		}
	}
	for x := range cyc {
		if header[x] {
			continue
		}
		for _, y := range x.Succs {
			if cyc[y] {
				continue
			}
			if y == b || reachableAvoiding(f, y, nil, cyc)[b] {
				return true
			}
		}
	}
	return false
}

func inCycle(f *ssa.Function, b *ssa.BasicBlock) bool {
	for _, s := range b.Succs {
		if reachable(f, s, nil)[b] {
			return true
		}
	}
	return false
}

// ---- R-C01-8: keys never share an inode ----------------------------------------------------------------------

func more3NoHardLinks(p *Program, r *Report) {
	rule := "R-C01-8"
	r.Rule(rule, "objects and versions never share storage: no function of the posix or scoutfs backend calls os.Link or os.Symlink (publication is the temp file's own linkat/rename; a copy or a saved version that is a hard link to its source changes whenever the source's attributes are written by path)", 1)
	pk := []string{"backend/posix", "backend"}
	if p.SSAPkg["backend/scoutfs"] != nil {
		pk = append(pk, "backend/scoutfs")
	}
	n := 0
	for _, f := range p.FuncsIn(pk...) {
		n++
		for _, c := range callsTo(f, "os.Link", "os.Symlink") {
			r.Viol(rule, fnName(f)+"/"+calleeName(c), p.Pos(c.Pos()), calleeName(c)+" between object paths: two keys (or a key and its saved version) share one inode and its attributes; a later write by path to one changes what the other returns")
		}
	}
	r.Ok(rule, "backend/no-hard-links", "backend", itoa(n)+" functions scanned")
}

// ---- R-C14-6: the verdict is taken after all statements / from inside a search loop only positively ----------

func more3VerdictAfterLoop(p *Program, r *Report) {
	rule := "R-C14-6"
	r.Rule(rule, "order of statements and of map iteration does not matter: the policy evaluator returns an allowing result only after its loop over the statements has ended (a matching Allow must not end the scan: a later Deny still overrides), and the matcher loops over actions, resources and principals return only the positive verdict from inside the loop (a negative verdict taken from the first element visited depends on map order)", 3)
	f := p.Func("(*auth.BucketPolicy).isAllowed")
	bad := ""
	for _, ret := range returnsOf(f) {
		for _, lf := range valueLeaves(ret.Results[0], ret.Block()) {
			allow := false
			if b, ok := constBool(lf.val); ok && b {
				allow = true
			}
			if sv, ok := constString(lf.val); ok && sv == "Allow" {
				allow = true
			}
			if allow && inLoopBody(f, ret.Block()) {
				bad = p.Pos(ret.Pos())
			}
		}
	}
	r.Check(bad == "", rule, fnName(f)+"/allow-after-scan", p.Pos(f.Pos()), "allowing result only after the statement loop", "the evaluator returns an allowing result from inside the loop over the statements (at "+bad+"): a Deny statement that comes later in the document no longer overrides")
	for _, name := range []string{"(auth.Actions).FindMatch", "(auth.Resources).FindMatch"} {
		g := p.Func(name)
		bad := ""
		for _, ret := range returnsOf(g) {
			if !inLoopBody(g, ret.Block()) {
				continue
			}
			for _, lf := range valueLeaves(ret.Results[0], ret.Block()) {
				if b, ok := constBool(lf.val); !ok || !b {
					// a computed or negative result from inside the loop: only fine when the block is reached on a
					// true edge of the value itself (return x where x was just tested true)
					if !ok && truthOnEdge(lf.val, lf.from, lf.to) > 0 {
						continue
					}
					bad = p.Pos(ret.Pos())
				}
			}
		}
		r.Check(bad == "", rule, name+"/positive-only-from-loop", p.Pos(g.Pos()), "only `true` is returned from inside the search loop", "the matcher returns a non-positive verdict from inside its loop over the collection (at "+bad+"): with several patterns the answer depends on which one the map iteration visits first")
	}
}

// ---- R-C03-3 (strengthened): a refused key stops the batch ---------------------------------------------------

func more3BatchDeleteFailsClosed(p *Program, r *Report) {
	rule := "R-C03-3"
	f := p.Func("(s3api/controllers.S3ApiController).DeleteObjects")
	var targets []*ssa.BasicBlock
	for _, c := range callsIn(f) {
		if isBackendCall(c) && c.Common().Method.Name() == "DeleteObjects" {
			targets = append(targets, c.Block())
		}
	}
	n := 0
	for _, c := range callsTo(f, fnVerifyAccess) {
		if !inCycle(f, c.Block()) {
			continue
		}
		n++
		ok, why := noTargetAfterFailure(f, c, targets)
		r.Check(ok && len(targets) > 0, rule, fnName(f)+"/per-key-refusal-stops-the-batch#"+itoa(n), p.Pos(c.Pos()), "be.DeleteObjects unreachable once a key was refused", "the batch delete is still reachable after VerifyAccess refused one of its keys ("+why+"): the refusal is lost (e.g. assigned to a shadowed variable) and objects the caller may not delete are deleted")
	}
	if n == 0 {
		r.Viol(rule, fnName(f)+"/per-key-refusal-stops-the-batch", p.Pos(f.Pos()), "no per-key VerifyAccess in a loop before the batch delete")
	}
}

// ---- R-C07-8: a listing walk ends early only when the page is full -------------------------------------------

func more3SkipAllOnlyWhenFull(p *Program, r *Report) {
	rule := "R-C07-8"
	r.Rule(rule, "a listing ends early only because the page is full: in the callbacks of backend.Walk and WalkVersions fs.SkipAll is returned only behind a test of a flag that is set where the number of collected entries is compared with max (directory visiting order is not key order: ending the walk because an entry sorts after the prefix loses keys)", 6)
	n := 0
	for _, name := range []string{"backend.Walk", "backend.WalkVersions"} {
		outer := p.Func(name)
		for _, cb := range walkCallbacks(outer) {
			// cells that are set to true behind a comparison with max
			full := map[ssa.Value]bool{}
			for _, b := range cb.Blocks {
				for _, in := range b.Instrs {
					st, ok := in.(*ssa.Store)
					if !ok {
						continue
					}
					if bv, isB := constBool(st.Val); !isB || !bv {
						continue
					}
					var cut []edge
					for _, ce := range condEdgesOf(cb) {
						if ce.atoms["param:max"] {
							cut = append(cut, ce.holds, ce.fails)
						}
					}
					if len(cut) > 0 && !reachable(cb, nil, cut)[b] {
						full[st.Addr] = true
					}
				}
			}
			var fullEdges []edge
			for _, ce := range condEdgesOf(cb) {
				if u, ok := ce.cond.(*ssa.UnOp); ok && full[u.X] {
					fullEdges = append(fullEdges, ce.holds)
				}
				if ce.atoms["param:max"] {
					fullEdges = append(fullEdges, ce.holds, ce.fails)
				}
			}
			k := 0
			for _, s := range errReturnSites(cb) {
				isAll := false
				if u, ok := s.val.(*ssa.UnOp); ok {
					if g, ok := u.X.(*ssa.Global); ok && g.Name() == "SkipAll" {
						isAll = true
					}
				}
				if !isAll {
					continue
				}
				k++
				n++
				r.Check(len(fullEdges) > 0 && !siteReachable(cb, s, fullEdges), rule, fnName(cb)+"/SkipAll#"+itoa(k), p.Pos(s.ret.Pos()), "behind the page-full test", "fs.SkipAll is returned without the page being full: the walk visits names in directory order, which is not key order (a directory `logs` comes before its sibling `logs-2024.txt`), so keys that match are never visited")
			}
		}
	}
	if n < 4 {
		broken("R-C07-8: only %d fs.SkipAll returns found in the walk callbacks", n)
	}
}

// ---- R-C08-8 / R-C08-9: completion validates before it touches the namespace; part order is strict ----------

func more3CompleteValidatesFirst(p *Program, r *Report) {
	rule := "R-C08-8"
	r.Rule(rule, "a refused completion leaves nothing behind, and part order is strict: in posix.CompleteMultipartUpload no return of a part-list refusal (InvalidPart, InvalidPartOrder, EntityTooSmall) is reachable after backend.MkdirAll created the key's parent directories; and the order test refuses a part number equal to its predecessor's", 2)
	f := p.Func(posixP + "CompleteMultipartUpload")
	byVal := map[string]string{}
	for nm, v := range pkgConstsOfType(p, "s3err", "ErrorCode") {
		byVal[v] = nm
	}
	// where a part-list refusal is produced
	refusalOf := func(c ssa.CallInstruction) string {
		if calleeName(c) != "s3err.GetAPIError" {
			return ""
		}
		names, _ := constNames(p, callArgs(c)[0])
		for _, v := range names {
			if nm := byVal[v]; nm == "ErrInvalidPart" || nm == "ErrInvalidPartOrder" || nm == "ErrEntityTooSmall" {
				return nm
			}
		}
		return ""
	}
	bad := ""
	nm := 0
	for _, c := range callsTo(f, "backend.MkdirAll") {
		nm++
		reach := reachable(f, c.Block(), nil)
		for _, c2 := range callsIn(f) {
			if what := refusalOf(c2); what != "" && reach[c2.Block()] {
				bad = what + " at " + p.Pos(c2.Pos())
			}
		}
	}
	r.Check(nm > 0 && bad == "", rule, fnName(f)+"/validate-before-mkdir", p.Pos(f.Pos()), "parents are created only after the part list was accepted", "a refusal of the part list ("+bad+") is still reachable after the key's parent directories were created: a rejected request leaves directory objects behind that HEAD and listings show")
	// strict order: the edge that leads to InvalidPartOrder is taken when the two part numbers are equal
	okStrict := false
	for _, ce := range condEdgesOf(f) {
		if ce.binop == nil || !ce.atoms["field:PartNumber"] {
			continue
		}
		var refuseOnTrue bool
		found := false
		// the test that directly decides the refusal: the refusal's block hangs off one of its edges through
		// single-predecessor blocks only
		for _, c2 := range callsIn(f) {
			if refusalOf(c2) != "ErrInvalidPartOrder" {
				continue
			}
			B := c2.Block()
			for n := 0; n < 6 && len(B.Preds) == 1 && B.Preds[0] != ce.ifi.Block() && len(B.Preds[0].Succs) == 1; n++ {
				B = B.Preds[0]
			}
			if len(B.Preds) == 1 && B.Preds[0] == ce.ifi.Block() && ce.ifi.Block().Succs[0] != ce.ifi.Block().Succs[1] {
				refuseOnTrue, found = ce.ifi.Block().Succs[0] == B, true
			}
		}
		if !found {
			continue
		}
		// value of the raw comparison when both operands are equal
		eq := false
		switch ce.binop.Op {
		case token.LEQ, token.GEQ, token.EQL:
			eq = true
		}
		neg := false
		for c := ce.ifi.Cond; c != ssa.Value(ce.binop); {
			u, ok := c.(*ssa.UnOp)
			if !ok || u.Op != token.NOT {
				break
			}
			neg = !neg
			c = u.X
		}
		if neg {
			eq = !eq
		}
		if eq == refuseOnTrue {
			okStrict = true
		}
	}
	r.Check(okStrict, "R-C08-8", fnName(f)+"/part-order-strict", p.Pos(f.Pos()), "equal part numbers are refused", "the part-order test lets a part number equal to its predecessor through: a list [1,1,2] is accepted and the object contains part 1 twice")
}

// ---- R-C17-12: no per-process memo in the request path ---------------------------------------------------------

func more3NoPackageLevelState(p *Program, r *Report) {
	rule := "R-C17-12"
	r.Rule(rule, "no per-process memo of request-dependent facts: no function of auth, s3api/utils, s3api/middlewares, s3api/controllers, backend or the posix/scoutfs backends stores into a package-level map or sync.Map, and io.CopyBuffer is never given a package-level buffer (such state is shared by all requests, survives DeleteBucket / secret rotation / the other gateway's writes, and is unsynchronised)", 1)
	pks := []string{"auth", "s3api/utils", "s3api/middlewares", "s3api/controllers", "backend", "backend/posix"}
	if p.SSAPkg["backend/scoutfs"] != nil {
		pks = append(pks, "backend/scoutfs")
	}
	isGlobal := func(v ssa.Value) *ssa.Global {
		for i := 0; i < 4; i++ {
			switch x := v.(type) {
			case *ssa.Global:
				return x
			case *ssa.UnOp:
				v = x.X
				continue
			case *ssa.FieldAddr:
				v = x.X
				continue
			}
			break
		}
		return nil
	}
	n := 0
	for _, f := range p.FuncsIn(pks...) {
		if f.Name() == "init" {
			continue
		}
		n++
		for _, b := range f.Blocks {
			for _, in := range b.Instrs {
				var g *ssa.Global
				what := ""
				switch x := in.(type) {
				case *ssa.MapUpdate:
					g, what = isGlobal(x.Map), "a package-level map"
				case ssa.CallInstruction:
					cn := calleeName(x)
					if strings.HasPrefix(cn, "(*sync.Map).") && (strings.HasSuffix(cn, ".Store") || strings.HasSuffix(cn, ".LoadOrStore") || strings.HasSuffix(cn, ".Swap") || strings.HasSuffix(cn, ".CompareAndSwap")) {
						if rv := callRecv(x); rv != nil {
							g, what = isGlobal(rv), "a package-level sync.Map"
						}
					}
					if cn == "io.CopyBuffer" {
						if a := callArgs(x); len(a) == 3 {
							g, what = isGlobal(a[2]), "a package-level copy buffer"
						}
					}
					if (cn == "(*sync.Pool).Put" || cn == "(*sync.Pool).Get") && callRecv(x) != nil {
						// pooled buffers are shared between requests: flagged only when the pooled value is kept in a field
						// after Put (decided by R-C12-4 / R-C12-7); not reported here
						_ = cn
					}
				}
				if g != nil && g.Pkg != nil && strings.HasPrefix(g.Pkg.Pkg.Path(), modPath) {
					r.Viol(rule, fnName(f)+"/"+g.Name(), p.Pos(in.Pos()), "writes "+what+" ("+g.Name()+") on the request path: a verdict, key, ETag or buffer kept there is shared by every request of the process and outlives what it was derived from")
				}
			}
		}
	}
	r.Ok(rule, "request-path/no-package-level-state", "-", itoa(n)+" functions scanned")
}

// ---- R-C11-7: temp files are created where listings never look -------------------------------------------------

func more3TempFilesUnderTmpDir(p *Program, r *Report) {
	rule := "R-C11-7"
	r.Rule(rule, "unfinished files are invisible: the directory every posix openTmpFile call is given is built from the temp-directory constant (metaTmpDir / metaTmpMultipartDir), the one name every listing prunes and no version lookup enters", 4)
	tmp, _ := pkgConstString(p, "backend/posix", "metaTmpDir")
	n := 0
	for _, f := range p.FuncsIn("backend/posix") {
		k := 0
		for _, c := range callsTo(f, posixP+"openTmpFile") {
			k++
			n++
			args := callArgs(c)
			ok := false
			for _, rt := range Origins(args[0], nil) {
				if rt.Kind == "const" && tmp != "" && strings.HasPrefix(strings.Trim(rt.Desc, `"`), tmp) {
					ok = true
				}
			}
			r.Check(ok, rule, fnName(f)+"/openTmpFile#"+itoa(k)+":dir", p.Pos(c.Pos()), "under "+tmp, "the temp file is created in a directory that is not under "+tmp+": with the named-temp-file strategy a crash leaves it where listings, version lookups or the multipart code take it for an object, a version or a part")
		}
	}
	if n < 4 {
		broken("R-C11-7: only %d openTmpFile calls found", n)
	}
}

// ---- R-C15-7: read operations do not write ---------------------------------------------------------------------

func more3ReadsDoNotWrite(p *Program, r *Report) {
	rule := "R-C15-7"
	r.Rule(rule, "read operations change nothing: the posix implementations of the Backend methods that the operation table classifies as non-mutating (Get*, Head*, List*) reach, through calls inside the package, no attribute store or delete and no file removal, rename or creation (read-only mode lets these requests through)", 15)
	n := 0
	ms := p.Methods("backend/posix", "Posix")
	for _, m := range ms {
		row, ok := tAction[m.Name()]
		if !ok || row.mutating || !token.IsExported(m.Name()) {
			continue
		}
		n++
		bad := ""
		inUnit := staticCallees(p, m)
		unit := []*ssa.Function{m}
		for _, g := range p.FuncsIn("backend/posix") {
			if g != m && inUnit[fnName(g)] {
				if _, isOp := tAction[g.Name()]; isOp && g.Signature.Recv() != nil && token.IsExported(g.Name()) {
					continue // another operation, judged on its own
				}
				unit = append(unit, g)
			}
		}
		for _, g := range unit {
			for _, mc := range metaCallsIn(g) {
				if mc.method == "StoreAttribute" || mc.method == "DeleteAttribute" || mc.method == "DeleteAttributes" {
					bad = mc.method + " at " + p.Pos(mc.call.Pos())
				}
			}
			for _, c := range callsTo(g, "os.Remove", "os.RemoveAll", "os.Rename", "os.Mkdir", "os.MkdirAll", "backend.MkdirAll", "os.WriteFile", "os.Create", "os.Chown", "os.Truncate") {
				bad = calleeName(c) + " at " + p.Pos(c.Pos())
			}
		}
		r.Check(bad == "", rule, fnName(m)+"/no-writes", p.Pos(m.Pos()), "no mutation reachable", "a read operation mutates storage ("+bad+"): a GET/HEAD on a read-only gateway changes what is stored")
	}
	if n < 15 {
		broken("R-C15-7: only %d non-mutating posix methods found in the operation table", n)
	}
}

// ---- R-C17-13: the cache's map is never replaced ---------------------------------------------------------------

func more3CacheMapNotReplaced(p *Program, r *Report) {
	rule := "R-C17-13"
	r.Rule(rule, "updates and deletes are never lost to the pruner: the account cache's map field is assigned only where the cache is constructed; every other function changes the map in place under the write lock (a pruner that builds a new map and swaps it in discards the updates made meanwhile)", 1)
	ct := c17CacheType(p)
	if ct == nil {
		r.Viol(rule, "auth/cache-type", "auth/iam_cache.go", "cannot find the cache type")
		return
	}
	bad := ""
	n := 0
	for _, f := range p.FuncsIn("auth") {
		for _, b := range f.Blocks {
			for _, in := range b.Instrs {
				st, ok := in.(*ssa.Store)
				if !ok {
					continue
				}
				fa, ok := st.Addr.(*ssa.FieldAddr)
				if !ok || !types.Identical(derefType(fa.X.Type()), ct) {
					continue
				}
				if _, isMap := st.Val.Type().Underlying().(*types.Map); !isMap {
					continue
				}
				n++
				// fine when the struct is being built here (the base is a fresh allocation of this function)
				if al, isAl := fa.X.(*ssa.Alloc); isAl && al.Parent() == f {
					continue
				}
				bad = fnName(f) + " at " + p.Pos(st.Pos())
			}
		}
	}
	r.Check(n > 0 && bad == "", rule, "auth.cache/map-assigned-once", "auth/iam_cache.go", "the map is assigned in the constructor only", "the cache's map is replaced outside its constructor ("+bad+"): entries updated or deleted between the copy and the swap come back as they were")
}

// ---- R-C18-10: the proxy tags only the bucket it created --------------------------------------------------------

func more3ProxyCreateThenTag(p *Program, r *Report) {
	rule := "R-C18-10"
	r.Rule(rule, "the ACL tag is written only onto a bucket this request created: in s3proxy.CreateBucket the PutBucketTagging call is unreachable once the upstream CreateBucket failed (every gateway user shares the upstream credential: tolerating BucketAlreadyOwnedByYou lets one user overwrite another's bucket ACL)", 1)
	f := p.Func("(*backend/s3proxy.S3Proxy).CreateBucket")
	var create ssa.CallInstruction
	var tagBlocks []*ssa.BasicBlock
	for _, c := range callsIn(f) {
		cn := calleeName(c)
		if strings.HasSuffix(cn, "s3.Client).CreateBucket") {
			create = c
		}
		if strings.HasSuffix(cn, "s3.Client).PutBucketTagging") {
			tagBlocks = append(tagBlocks, c.Block())
		}
	}
	if create == nil || len(tagBlocks) == 0 {
		r.Viol(rule, fnName(f)+"/create-then-tag", p.Pos(f.Pos()), "cannot find the upstream CreateBucket and PutBucketTagging calls")
		return
	}
	ok, why := noTargetAfterFailure(f, create, tagBlocks)
	r.Check(ok, rule, fnName(f)+"/create-then-tag", p.Pos(create.Pos()), "tagging unreachable after a failed create", "the ACL tag is written although the upstream CreateBucket failed ("+why+")")
}

// ---- R-C19-9 / R-C19-10: the event names the key as requested; one delivery per event ---------------------------

func more3EventKeyVerbatim(p *Program, r *Report) {
	rule := "R-C19-9"
	r.Rule(rule, "the notification names the key the request named: in s3event.createEventSchema the object key is cut out of the request path without a normalising call (strings.Trim/TrimSuffix/TrimRight, path.Clean, ToLower ...) and without a second percent-decoding (fasthttp URI().Path(), url.PathUnescape): directory-object keys end in '/', a key may contain a literal %41", 1)
	f := p.Func("s3event.createEventSchema")
	norm := ""
	n := 0
	for _, ret := range returnsOf(f) {
		fs, _ := litFields(ret.Results[0])
		_ = fs
	}
	for _, b := range f.Blocks {
		for _, in := range b.Instrs {
			st, ok := in.(*ssa.Store)
			if !ok {
				continue
			}
			fa, ok := st.Addr.(*ssa.FieldAddr)
			if !ok || fieldName(fa.X.Type(), fa.Field) != "Key" {
				continue
			}
			n++
			for _, rt := range Origins(st.Val, nil) {
				if rt.Kind == "via" || rt.Kind == "call" {
					switch rt.Desc {
					case "strings.Trim", "strings.TrimSuffix", "strings.TrimRight", "strings.TrimSpace", "path.Clean", "path/filepath.Clean", "path.Join", "path/filepath.Join", "strings.ToLower", "strings.ToUpper", "strings.ReplaceAll":
						norm = rt.Desc
					}
					// a second decoding: the path fiber hands out is decoded already; fasthttp's URI().Path()
					// (or an explicit unescape) decodes what it is given once more
					if strings.Contains(rt.Desc, "fasthttp.URI).Path") || strings.HasPrefix(rt.Desc, "net/url.") {
						norm = rt.Desc
					}
				}
			}
		}
	}
	r.Check(n > 0 && norm == "", rule, fnName(f)+"/key-verbatim", p.Pos(f.Pos()), "the key is the request's key", "the event's object key goes through "+norm+": a change to the directory object `a/b/` is notified under the different key `a/b`")
}

func more3OneDeliveryAttempt(p *Program, r *Report) {
	rule := "R-C19-10"
	r.Rule(rule, "one notification per event: the senders' delivery call (http Client.Do / Post, kafka WriteMessages, nats Publish) is not inside a loop (a retry after a timeout delivers an event twice to an endpoint that was only slow)", 3)
	n := 0
	for _, f := range p.FuncsIn("s3event") {
		for _, c := range callsIn(f) {
			cn := calleeName(c)
			if !(cn == "(*net/http.Client).Do" || cn == "(*net/http.Client).Post" || strings.HasSuffix(cn, ".WriteMessages") || (strings.Contains(cn, "nats") && strings.HasSuffix(cn, ".Publish"))) {
				continue
			}
			if strings.Contains(fnName(f), "Init") {
				continue // the connectivity test at start-up
			}
			n++
			r.Check(!inCycle(f, c.Block()), rule, fnName(f)+"/"+cn, p.Pos(c.Pos()), "a single attempt", "the delivery call is inside a loop: a notification the endpoint received but answered late is sent again")
		}
	}
	if n < 1 {
		broken("R-C19-10: no delivery call found in s3event")
	}
}

func init() {
	extraRules["C07"] = append(extraRules["C07"], more3NarrowingProven)
	extraRules["C20"] = append(extraRules["C20"], more3NarrowingProven)
}

// ---- R-C20-10: a parsed number is narrowed only when it fits --------------------------------------------------

func intWidth(t types.Type) (bits int, signed, ok bool) {
	bt, isB := t.Underlying().(*types.Basic)
	if !isB {
		return 0, false, false
	}
	switch bt.Kind() {
	case types.Int8:
		return 8, true, true
	case types.Int16:
		return 16, true, true
	case types.Int32:
		return 32, true, true
	case types.Int64, types.Int:
		return 64, true, true
	case types.Uint8:
		return 8, false, true
	case types.Uint16:
		return 16, false, true
	case types.Uint32:
		return 32, false, true
	case types.Uint64, types.Uint:
		return 64, false, true
	}
	return 0, false, false
}

func more3NarrowingProven(p *Program, r *Report) {
	rule := "R-C20-10"
	r.Rule(rule, "a number parsed from the request is narrowed only when it fits: every conversion of a strconv-parsed integer to a narrower integer type in s3api/utils (list limits, part numbers) happens where the zone interpreter proves the value inside the target type's range (a max-keys of 2^32 must not wrap to 0, the value that means `answer empty`)", 1)
	n := 0
	for _, f := range p.FuncsIn("s3api/utils") {
		if f.Parent() != nil || !isBackEdgeFree(f) {
			continue
		}
		var convs []*ssa.Convert
		for _, b := range f.Blocks {
			for _, in := range b.Instrs {
				cv, ok := in.(*ssa.Convert)
				if !ok {
					continue
				}
				fb, _, ok1 := intWidth(cv.X.Type())
				tb, _, ok2 := intWidth(cv.Type())
				if !ok1 || !ok2 || tb >= fb {
					continue
				}
				parsed := false
				for _, rt := range Origins(cv.X, nil) {
					if rt.Kind == "call" && (strings.HasPrefix(rt.Desc, "strconv.Parse") || rt.Desc == "strconv.Atoi") {
						parsed = true
					}
				}
				if parsed {
					convs = append(convs, cv)
				}
			}
		}
		if len(convs) == 0 {
			continue
		}
		// strconv's contract: ParseInt/ParseUint(s, base, bitSize) always return a value that fits bitSize bits
		// (clamped on a range error)
		axioms := func(v ssa.Value) (lo, hi *big.Int) {
			ex, ok := v.(*ssa.Extract)
			if !ok || ex.Index != 0 {
				return nil, nil
			}
			c, ok := ex.Tuple.(*ssa.Call)
			if !ok || len(c.Call.Args) != 3 {
				return nil, nil
			}
			cn := calleeName(c)
			bits, isC := constInt(c.Call.Args[2])
			if !isC || bits <= 0 || bits > 64 {
				return nil, nil
			}
			switch cn {
			case "strconv.ParseInt":
				h := new(big.Int).Sub(new(big.Int).Lsh(big.NewInt(1), uint(bits-1)), big.NewInt(1))
				l := new(big.Int).Neg(new(big.Int).Lsh(big.NewInt(1), uint(bits-1)))
				return l, h
			case "strconv.ParseUint":
				return big.NewInt(0), new(big.Int).Sub(new(big.Int).Lsh(big.NewInt(1), uint(bits)), big.NewInt(1))
			}
			return nil, nil
		}
		a := runZone(p, f, axioms)
		for i, cv := range convs {
			n++
			tb, signed, _ := intWidth(cv.Type())
			hi := new(big.Int).Sub(new(big.Int).Lsh(big.NewInt(1), uint(tb-1)), big.NewInt(1))
			lo := new(big.Int).Neg(new(big.Int).Lsh(big.NewInt(1), uint(tb-1)))
			if !signed {
				hi = new(big.Int).Sub(new(big.Int).Lsh(big.NewInt(1), uint(tb)), big.NewInt(1))
				lo = big.NewInt(0)
			}
			okHi, w1 := a.impliedAt(cv.Block(), func(pt *part) (lin, bool) {
				x, ok := a.linIn(cv.X, pt)
				return x.plus(linConst(hi), -1), ok
			})
			okLo, w2 := a.impliedAt(cv.Block(), func(pt *part) (lin, bool) {
				x, ok := a.linIn(cv.X, pt)
				return linConst(lo).plus(x, -1), ok
			})
			r.Check(okHi && okLo, rule, fnName(f)+"/narrow#"+itoa(i+1), p.Pos(cv.Pos()), "value proven inside the target range", "a parsed number is converted to a narrower integer type without being proven to fit ("+w1+" <= 0, "+w2+" <= 0 not implied): 2^32 becomes 0")
		}
	}
	if n < 1 {
		broken("R-C20-10: no narrowing conversion of a parsed number found in s3api/utils")
	}
}

func init() {
	extraRules["C10"] = append(extraRules["C10"], more3LockLookupSameTarget)
}

// ---- R-C10-10: a lock is looked up on the version that is named --------------------------------------------

func more3LockLookupSameTarget(p *Program, r *Report) {
	rule := "R-C10-10"
	r.Rule(rule, "the lock that is reported is the lock of the version asked about: in posix GetObjectLegalHold and GetObjectRetention every other look at the object (delete-marker test, attribute read other than the version-id lookup) addresses the same bucket/object values as the read of the lock attribute itself, i.e. the version the version id was resolved to, not the key's current version", 2)
	for _, w := range []struct{ fn, key string }{{"GetObjectLegalHold", "object-legal-hold"}, {"GetObjectRetention", "object-retention"}} {
		f := p.Func(posixP + w.fn)
		var lock ssa.CallInstruction
		for _, mc := range metaCallsIn(f) {
			if mc.method == "RetrieveAttribute" && mc.keyArg == w.key {
				lock = mc.call
			}
		}
		if lock == nil {
			r.Viol(rule, fnName(f)+"/lock-read", p.Pos(f.Pos()), "cannot find the read of the lock attribute")
			continue
		}
		la := lock.Common().Args
		bad := ""
		for _, mc := range metaCallsIn(f) {
			if mc.call == lock || mc.keyArg == "version-id" {
				continue
			}
			a := mc.call.Common().Args
			if len(a) >= 3 {
				if ob, isC := constString(a[2]); isC && ob == "" {
					continue // a bucket-level attribute
				}
			}
			if len(a) >= 3 && (a[1] != la[1] || a[2] != la[2]) && strings.HasSuffix(mc.method, "Attribute") && mc.method != "ListAttributes" {
				bad = mc.method + "(" + mc.keyArg + ") at " + p.Pos(mc.call.Pos())
			}
		}
		for _, c := range callsTo(f, posixP+"isObjDeleteMarker") {
			a := callArgs(c)
			if len(a) >= 2 && (a[0] != la[1] || a[1] != la[2]) {
				bad = "isObjDeleteMarker at " + p.Pos(c.Pos())
			}
		}
		r.Check(bad == "", rule, fnName(f)+"/same-target", p.Pos(lock.Pos()), "all looks address the resolved version", "the lock check looks at a different object than the one whose lock it reports ("+bad+"): with a version id given it examines the key's current version, so a delete marker on top makes every older version look unlocked")
	}
}

func init() {
	extraRules["C20"] = append(extraRules["C20"], more3OutputPointerAgreement)
}

// ---- R-C20-11: what a handler dereferences of a backend result, the posix backend always sets ----------------

func more3OutputPointerAgreement(p *Program, r *Report) {
	rule := "R-C20-11"
	r.Rule(rule, "cross-layer pointer agreement, results: every pointer field of a backend result that a controller dereferences without a nil test is set (non-nil) in every result literal the posix implementation of that method returns, also in the ones returned together with an error", 1)
	hs := s3Handlers(p)
	type need struct {
		method, field, at    string
		onSuccess, onFailure bool // the dereference can happen after the call succeeded / failed
	}
	var needs []need
	seen := map[string]bool{}
	for _, bc := range backendCalls(hs) {
		call, ok := bc.call.(*ssa.Call)
		if !ok {
			continue
		}
		f := bc.fn
		// the pointer result
		var res ssa.Value
		if _, isPtr := call.Type().Underlying().(*types.Pointer); isPtr {
			res = call
		} else if call.Referrers() != nil {
			for _, ref := range *call.Referrers() {
				if ex, ok := ref.(*ssa.Extract); ok && ex.Index == 0 {
					if _, isPtr := ex.Type().Underlying().(*types.Pointer); isPtr {
						res = ex
					}
				}
			}
		}
		if res == nil {
			continue
		}
		aliases := aliasesOf(res)
		for _, b := range f.Blocks {
			for _, in := range b.Instrs {
				ld, ok := in.(*ssa.UnOp)
				if !ok || ld.Op != token.MUL {
					continue
				}
				fa, ok := ld.X.(*ssa.FieldAddr)
				if !ok {
					continue
				}
				isRes := false
				for _, a := range aliases {
					if fa.X == a {
						isRes = true
					}
				}
				if !isRes {
					continue
				}
				if _, isPtr := ld.Type().Underlying().(*types.Pointer); !isPtr || ld.Referrers() == nil {
					continue
				}
				_, nn := nilTestEdges(ld)
				for _, ref := range *ld.Referrers() {
					deref := false
					switch x := ref.(type) {
					case *ssa.UnOp:
						deref = x.Op == token.MUL && x.X == ssa.Value(ld)
					case *ssa.FieldAddr:
						deref = x.X == ssa.Value(ld)
					}
					if !deref {
						continue
					}
					// guarded by a nil test of this very load, or of another load of the same field
					var cut []edge
					cut = append(cut, nn...)
					for _, b2 := range f.Blocks {
						for _, in2 := range b2.Instrs {
							if l2, ok := in2.(*ssa.UnOp); ok && l2.Op == token.MUL {
								if fa2, ok := l2.X.(*ssa.FieldAddr); ok && fa2.Field == fa.Field && fa2.X == fa.X {
									_, n2 := nilTestEdges(l2)
									cut = append(cut, n2...)
								}
							}
						}
					}
					if len(cut) > 0 && !reachable(f, nil, cut)[ref.Block()] {
						continue
					}
					fld := fieldName(fa.X.Type(), fa.Field)
					k := bc.method + "." + fld
					okE, failE := nilTestEdgesCall(bc.call)
					onS := len(okE) == 0 || reachable(f, nil, failE)[ref.Block()] // reachable without taking a failure edge
					onF := len(failE) == 0 || reachable(f, nil, okE)[ref.Block()] // reachable without taking a success edge
					if !seen[k] {
						seen[k] = true
						needs = append(needs, need{bc.method, fld, p.Pos(ref.Pos()), onS, onF})
					} else {
						for i := range needs {
							if needs[i].method == bc.method && needs[i].field == fld {
								needs[i].onSuccess = needs[i].onSuccess || onS
								needs[i].onFailure = needs[i].onFailure || onF
							}
						}
					}
				}
			}
		}
	}
	sort.Slice(needs, func(i, j int) bool { return needs[i].method+needs[i].field < needs[j].method+needs[j].field })
	for _, nd := range needs {
		m := p.FuncOpt(posixP + nd.method)
		if m == nil {
			continue
		}
		bad := ""
		nlit := 0
		for _, ret := range returnsOf(m) {
			if len(ret.Results) == 0 {
				continue
			}
			rv := ret.Results[0]
			// a function with deferred calls returns through result cells: the value stored into the cell just
			// before this return
			if ld, ok := rv.(*ssa.UnOp); ok && ld.Op == token.MUL {
				if cell, ok := ld.X.(*ssa.Alloc); ok {
					if _, isPtrCell := derefType(cell.Type()).Underlying().(*types.Pointer); isPtrCell {
						rv = nil
						for _, in := range ret.Block().Instrs {
							if st, ok := in.(*ssa.Store); ok && st.Addr == ssa.Value(cell) {
								rv = st.Val
							}
						}
						if rv == nil {
							continue
						}
					}
				}
			}
			if isNilConst(rv) {
				continue
			}
			// is this a success or a failure return?
			ev := ret.Results[len(ret.Results)-1]
			if ld, ok := ev.(*ssa.UnOp); ok && ld.Op == token.MUL {
				if cell, ok := ld.X.(*ssa.Alloc); ok {
					for _, in := range ret.Block().Instrs {
						if st, ok := in.(*ssa.Store); ok && st.Addr == ssa.Value(cell) {
							ev = st.Val
						}
					}
				}
			}
			if isNilConst(ev) && !nd.onSuccess {
				continue
			}
			if _, isC := ev.(*ssa.Const); !isC && truthiness(ev, ret.Block()) > 0 && !nd.onFailure {
				continue
			}
			fs, al := litFieldsAt(rv, ret)
			if al == nil {
				continue
			}
			nlit++
			vs, set := fs[nd.field]
			if !set {
				bad = p.Pos(ret.Pos())
			}
			for _, v := range vs {
				if isNilConst(v) {
					bad = p.Pos(ret.Pos())
				}
			}
		}
		r.Check(bad == "", rule, "posix."+nd.method+"/result."+nd.field, nd.at, "set in all "+itoa(nlit)+" result literals", "the controller dereferences result."+nd.field+" of "+nd.method+" without a nil test (at "+nd.at+"), but posix."+nd.method+" returns a result (at "+bad+") that leaves it nil: that request makes the gateway dereference nil and exit")
	}
	if len(needs) < 1 {
		broken("R-C20-11: no unguarded dereference of a backend result field found in the controllers")
	}
}

func init() {
	extraControls["C01"] = append(extraControls["C01"],
		Control{Name: "createObjVersion hard-links the outgoing version", Rule: "R-C01-8", File: "backend/posix/posix.go",
			Old: "\tversionTmpPath := filepath.Join(versionBucketPath, metaTmpDir)\n", New: "\tversionTmpPath := filepath.Join(versionBucketPath, metaTmpDir)\n\tif os.Link(filepath.Join(bucket, key), filepath.Join(versionBucketPath, versioningKey)) == nil {\n\t\treturn versionPath, nil\n\t}\n", Expect: "os.Link"})
	extraControls["C14"] = append(extraControls["C14"],
		Control{Name: "isAllowed returns at the first matching Allow", Rule: "R-C14-6", File: "auth/bucket_policy.go",
			Old: "\t\t\t\tisAllowed = true\n", New: "\t\t\t\treturn true\n", Expect: "allow-after-scan"},
		Control{Name: "Actions.FindMatch answers from the first wildcard it visits", Rule: "R-C14-6", File: "auth/bucket_policy_actions.go",
			Old: "\t\tif strings.HasSuffix(string(act), \"*\") && act.WildCardMatch(action) {\n\t\t\treturn true\n\t\t}", New: "\t\tif strings.HasSuffix(string(act), \"*\") {\n\t\t\treturn act.WildCardMatch(action)\n\t\t}", Expect: "positive-only-from-loop"})
	extraControls["C03"] = append(extraControls["C03"],
		Control{Name: "DeleteObjects: the per-key refusal only ends the loop", Rule: "R-C03-3", File: "s3api/controllers/base.go",
			Old: "\t\t\t\tObject:        getstring(obj.Key),\n\t\t\t\tAction:        auth.DeleteObjectAction,\n\t\t\t})\n\t\tif err != nil {\n\t\t\treturn SendResponse(ctx, err,\n\t\t\t\t&MetaOpts{\n\t\t\t\t\tLogger:      c.logger,\n\t\t\t\t\tMetricsMng:  c.mm,\n\t\t\t\t\tAction:      metrics.ActionDeleteObjects,\n\t\t\t\t\tBucketOwner: parsedAcl.Owner,\n\t\t\t\t})\n\t\t}\n\t}\n",
			New: "\t\t\t\tObject:        getstring(obj.Key),\n\t\t\t\tAction:        auth.DeleteObjectAction,\n\t\t\t})\n\t\tif err != nil {\n\t\t\tbreak\n\t\t}\n\t}\n", Expect: "per-key-refusal"})
	extraControls["C07"] = append(extraControls["C07"],
		Control{Name: "Walk ends at the first directory that sorts after the prefix", Rule: "R-C07-8", File: "backend/walk.go",
			Old: "\t\t\t\t\tif prefix != \"\" && !strings.HasPrefix(path+\"/\", prefix) {\n\t\t\t\t\t\treturn skipflag\n\t\t\t\t\t}\n\t\t\t\t\tif pastMax {", New: "\t\t\t\t\tif prefix != \"\" && !strings.HasPrefix(path+\"/\", prefix) {\n\t\t\t\t\t\tif path+\"/\" > prefix {\n\t\t\t\t\t\t\treturn fs.SkipAll\n\t\t\t\t\t\t}\n\t\t\t\t\t\treturn skipflag\n\t\t\t\t\t}\n\t\t\t\t\tif pastMax {", Expect: "SkipAll"},
		Control{Name: "ParseUint narrows before it checks the range", Rule: "R-C20-10", File: "s3api/utils/utils.go",
			Old: "\tnum, err := strconv.ParseInt(str, 10, 32)\n", New: "\tnum64, err := strconv.ParseInt(str, 10, 64)\n\tnum := int64(int32(num64))\n", Expect: "narrow"})
	extraControls["C08"] = append(extraControls["C08"],
		Control{Name: "CompleteMultipartUpload accepts a repeated part number", Rule: "R-C08-8", File: "backend/posix/posix.go",
			Old: "\t\tif *part.PartNumber <= partNumber {", New: "\t\tif *part.PartNumber < partNumber {", Expect: "part-order-strict"})
	extraControls["C17"] = append(extraControls["C17"],
		Control{Name: "CheckObjectAccess remembers unlocked buckets in a package-level sync.Map", Rule: "R-C17-12", File: "auth/object_lock.go",
			Old: "func CheckObjectAccess(ctx context.Context, bucket, userAccess string, objects []types.ObjectIdentifier, bypass bool, be backend.Backend) error {\n", New: "var seenBuckets sync.Map\n\nfunc CheckObjectAccess(ctx context.Context, bucket, userAccess string, objects []types.ObjectIdentifier, bypass bool, be backend.Backend) error {\n\tseenBuckets.Store(bucket, true)\n",
			More: []Edit{{"auth/object_lock.go", "import (\n", "import (\n\t\"sync\"\n"}}, Expect: "seenBuckets"},
		Control{Name: "gcCache swaps in a pruned copy of the map", Rule: "R-C17-13", File: "auth/iam_cache.go",
			Old: "\t\ti.Lock()\n\t\t// prune expired entries\n\t\tfor k, v := range i.items {\n\t\t\tif now.After(v.exp) {\n\t\t\t\tdelete(i.items, k)\n\t\t\t}\n\t\t}\n\t\ti.Unlock()", New: "\t\tlive := make(map[string]item)\n\t\ti.RLock()\n\t\tfor k, v := range i.items {\n\t\t\tif !now.After(v.exp) {\n\t\t\t\tlive[k] = v\n\t\t\t}\n\t\t}\n\t\ti.RUnlock()\n\t\ti.Lock()\n\t\ti.items = live\n\t\ti.Unlock()", Expect: "map-assigned-once"})
	extraControls["C11"] = append(extraControls["C11"],
		Control{Name: "createObjVersion stages its copy in the key's version directory", Rule: "R-C11-7", File: "backend/posix/posix.go",
			Old: "\tversionTmpPath := filepath.Join(versionBucketPath, metaTmpDir)\n", New: "\tversionTmpPath := filepath.Join(versionBucketPath, genObjVersionKey(key))\n", Expect: "openTmpFile"})
	extraControls["C15"] = append(extraControls["C15"],
		Control{Name: "GetObjectRetention removes an attribute while reading", Rule: "R-C15-7", File: "backend/posix/posix.go",
			Old: "func (p *Posix) GetObjectRetention(_ context.Context, bucket, object, versionId string) ([]byte, error) {\n\terr := p.doesBucketAndObjectExist(bucket, object)\n", New: "func (p *Posix) GetObjectRetention(_ context.Context, bucket, object, versionId string) ([]byte, error) {\n\t_ = p.meta.DeleteAttribute(bucket, object, \"stale\")\n\terr := p.doesBucketAndObjectExist(bucket, object)\n", Expect: "GetObjectRetention"})
	extraControls["C18"] = append(extraControls["C18"],
		Control{Name: "s3proxy CreateBucket tags although the upstream create failed", Rule: "R-C18-10", File: "backend/s3proxy/s3.go",
			Old: "\t_, err := s.client.CreateBucket(ctx, input)\n\tif err != nil {\n\t\treturn handleError(err)\n\t}\n", New: "\t_, err := s.client.CreateBucket(ctx, input)\n\tif err != nil && !strings.Contains(err.Error(), \"BucketAlreadyOwnedByYou\") {\n\t\treturn handleError(err)\n\t}\n", Expect: "create-then-tag"})
	extraControls["C19"] = append(extraControls["C19"],
		Control{Name: "event key trimmed on both sides", Rule: "R-C19-9", File: "s3event/event.go",
			Old: "\tbucket, object := path[1], strings.Join(path[2:], \"/\")\n", New: "\tbucket, object := path[1], strings.Trim(strings.Join(path[2:], \"/\"), \"/\")\n", Expect: "key-verbatim"},
		Control{Name: "webhook delivery retried once", Rule: "R-C19-10", File: "s3event/webhook.go",
			Old: "\t_, err = w.client.Do(req)\n\tif err != nil {\n\t\tif err, ok := err.(net.Error); ok && !err.Timeout() {", New: "\tfor attempt := 0; attempt < 2; attempt++ {\n\t\t_, err = w.client.Do(req)\n\t\tif err == nil {\n\t\t\tbreak\n\t\t}\n\t}\n\tif err != nil {\n\t\tif err, ok := err.(net.Error); ok && !err.Timeout() {", Expect: "Do"})
	extraControls["C10"] = append(extraControls["C10"],
		Control{Name: "GetObjectLegalHold tests the current object for a delete marker", Rule: "R-C10-10", File: "backend/posix/posix.go",
			Old: "func (p *Posix) GetObjectLegalHold(_ context.Context, bucket, object, versionId string) (*bool, error) {\n\terr := p.doesBucketAndObjectExist(bucket, object)\n\tif err != nil {\n\t\treturn nil, err\n\t}\n", New: "func (p *Posix) GetObjectLegalHold(_ context.Context, bucket, object, versionId string) (*bool, error) {\n\terr := p.doesBucketAndObjectExist(bucket, object)\n\tif err != nil {\n\t\treturn nil, err\n\t}\n\tif dm, _ := p.isObjDeleteMarker(bucket, object); dm {\n\t\treturn nil, s3err.GetAPIError(s3err.ErrNoSuchObjectLockConfiguration)\n\t}\n", Expect: "same-target"})
	extraControls["C20"] = append(extraControls["C20"],
		Control{Name: "revert fix 0dbe61a: readers stacked on a nil body stream", Rule: "R-C20-12", File: "s3api/middlewares/body-reader.go",
			Old: "\t\tif r == nil {\n\t\t\t// a request without a body has no body stream: the readers\n\t\t\t// stacked on top need something to read the end of stream from\n\t\t\tr = bytes.NewReader(nil)\n\t\t}\n", New: "",
			More: []Edit{{"s3api/middlewares/body-reader.go", "\t\"bytes\"\n", ""}}, Expect: "source-not-nil"},
		Control{Name: "posix.GetObject: delete-marker result without LastModified", Rule: "R-C20-11", File: "backend/posix/posix.go",
			Old: "\t\t\t\tDeleteMarker: getBoolPtr(true),\n\t\t\t\tLastModified: backend.GetTimePtr(fi.ModTime()),\n\t\t\t}, err\n", New: "\t\t\t\tDeleteMarker: getBoolPtr(true),\n\t\t\t}, err\n", Expect: "LastModified"})
}
