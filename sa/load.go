package main

import (
	"fmt"
	"go/ast"
	"go/token"
	"go/types"
	"os"
	"sort"
	"strings"
	"sync"

	"golang.org/x/tools/go/packages"
	"golang.org/x/tools/go/ssa"
	"golang.org/x/tools/go/ssa/ssautil"
)

const modPath = "github.com/versity/versitygw"

// Program is the resolved target program for one build configuration.
type Program struct {
	Renames      []string // anchors located under another name (rename.go)
	renamed      []*ssa.Function
	forwarders   []*ssa.Function        // entry points that only forward to the function that took their name
	Inlined      int                    // call sites normalised by inline.go
	Absorbed     map[*ssa.Function]bool // helpers that now exist only as inlined copies: not analysed on their own
	InlinedCalls []inlinedCall
	Dir          string
	Config       string // GOOS/GOARCH
	Fset         *token.FileSet
	Pkgs         []*packages.Package // module packages only
	ByPath       map[string]*packages.Package
	SSA          *ssa.Program
	SSAPkg       map[string]*ssa.Package // by short path ("auth", "backend/posix")
	NFuncs       int
	Overlay      map[string][]byte
	fnIndex      map[string]*ssa.Function
}

// brokenError is a failure of the machinery (not a verdict): exit 2.
type brokenError struct{ msg string }

func (e brokenError) Error() string { return e.msg }

func broken(format string, a ...any) { panic(brokenError{fmt.Sprintf(format, a...)}) }

func repoDir() string {
	if d := os.Getenv("VGW_REPO"); d != "" {
		return d
	}
	return "/repo"
}

// LoadProgram type-checks ./... of the target module from its working tree
// (plus an optional in-memory overlay used by the negative controls) and
// builds SSA for it. goos/goarch may be empty (= linux/amd64).
func LoadProgram(dir string, overlay map[string][]byte, goos, goarch string) *Program {
	if goos == "" {
		goos = "linux"
	}
	if goarch == "" {
		goarch = "amd64"
	}
	env := []string{}
	for _, kv := range os.Environ() {
		if strings.HasPrefix(kv, "GOWORK=") || strings.HasPrefix(kv, "GOFLAGS=") ||
			strings.HasPrefix(kv, "GOOS=") || strings.HasPrefix(kv, "GOARCH=") ||
			strings.HasPrefix(kv, "CGO_ENABLED=") || strings.HasPrefix(kv, "GOPROXY=") ||
			strings.HasPrefix(kv, "GOSUMDB=") || strings.HasPrefix(kv, "GOTOOLCHAIN=") {
			continue
		}
		env = append(env, kv)
	}
	env = append(env, "GOWORK=off", "GOFLAGS=-mod=mod", "GOPROXY=off", "GOSUMDB=off",
		"GOTOOLCHAIN=local", "GOOS="+goos, "GOARCH="+goarch, "CGO_ENABLED=0")
	cfg := &packages.Config{
		Mode:    packages.LoadSyntax | packages.NeedModule,
		Dir:     dir,
		Env:     env,
		Tests:   false,
		Overlay: overlay,
	}
	pkgs, err := packages.Load(cfg, "./...")
	if err != nil {
		broken("packages.Load: %v", err)
	}
	if len(pkgs) == 0 {
		broken("packages.Load: zero packages")
	}
	p := &Program{Dir: dir, Overlay: overlay, Config: goos + "/" + goarch, ByPath: map[string]*packages.Package{},
		SSAPkg: map[string]*ssa.Package{}, fnIndex: map[string]*ssa.Function{}}
	var errs []string
	packages.Visit(pkgs, nil, func(pk *packages.Package) {
		for _, e := range pk.Errors {
			errs = append(errs, e.Error())
		}
	})
	if len(errs) > 0 {
		sort.Strings(errs)
		if len(errs) > 8 {
			errs = errs[:8]
		}
		broken("type-check errors in target (%s): %s", p.Config, strings.Join(errs, "; "))
	}
	p.Fset = pkgs[0].Fset
	for _, pk := range pkgs {
		if pk.PkgPath == modPath || strings.HasPrefix(pk.PkgPath, modPath+"/") {
			p.Pkgs = append(p.Pkgs, pk)
			p.ByPath[short(pk.PkgPath)] = pk
		}
	}
	if len(p.Pkgs) < 15 {
		broken("only %d module packages loaded (expected >= 15)", len(p.Pkgs))
	}
	prog, _ := ssautil.Packages(pkgs, ssa.InstantiateGenerics)
	prog.Build()
	p.SSA = prog
	for _, pk := range p.Pkgs {
		sp := prog.Package(pk.Types)
		if sp == nil {
			broken("no SSA package for %s", pk.PkgPath)
		}
		p.SSAPkg[short(pk.PkgPath)] = sp
	}
	for _, sp := range p.SSAPkg {
		for _, f := range pkgFuncs(prog, sp) {
			p.NFuncs++
			p.fnIndex[fnName(f)] = f
		}
	}
	resolveRenames(p)
	p.Inlined, p.Absorbed = inlineAll(p)
	programs.Store(prog, p)
	return p
}

var programs sync.Map // *ssa.Program -> *Program

func programOf(f *ssa.Function) *Program {
	if f == nil || f.Prog == nil {
		return nil
	}
	if v, ok := programs.Load(f.Prog); ok {
		return v.(*Program)
	}
	return nil
}

func short(path string) string {
	if path == modPath {
		return "."
	}
	return strings.TrimPrefix(path, modPath+"/")
}

// pkgFuncs: every source function and method of the package, with closures.
func pkgFuncs(prog *ssa.Program, sp *ssa.Package) []*ssa.Function {
	var out []*ssa.Function
	seen := map[*ssa.Function]bool{}
	var add func(f *ssa.Function)
	add = func(f *ssa.Function) {
		if f == nil || seen[f] || f.Blocks == nil {
			return
		}
		seen[f] = true
		out = append(out, f)
		for _, a := range f.AnonFuncs {
			add(a)
		}
	}
	names := make([]string, 0, len(sp.Members))
	for n := range sp.Members {
		names = append(names, n)
	}
	sort.Strings(names)
	for _, n := range names {
		switch m := sp.Members[n].(type) {
		case *ssa.Function:
			add(m)
		case *ssa.Type:
			for _, t := range []types.Type{m.Type(), types.NewPointer(m.Type())} {
				ms := prog.MethodSets.MethodSet(t)
				for i := 0; i < ms.Len(); i++ {
					f := prog.MethodValue(ms.At(i))
					if f != nil && f.Pkg == sp && f.Synthetic == "" {
						add(f)
					}
				}
			}
		}
	}
	return out
}

// fnName is the stable short name of a function: "auth.VerifyAccess",
// "(*backend/posix.Posix).PutObject", "s3api/middlewares.VerifyV4Signature$1".
func fnName(f *ssa.Function) string {
	if f == nil {
		return "<nil>"
	}
	if n, ok := renamedFns.Load(f); ok {
		return n.(string)
	}
	if f.Parent() != nil {
		return fnName(f.Parent()) + "$" + strings.TrimPrefix(f.Name(), f.Parent().Name()+"$")
	}
	if obj, ok := f.Object().(*types.Func); ok && obj != nil {
		return objName(obj)
	}
	return strings.ReplaceAll(f.String(), modPath+"/", "")
}

func objName(fn *types.Func) string {
	if fn == nil {
		return "<nil>"
	}
	return strings.ReplaceAll(fn.FullName(), modPath+"/", "")
}

// Func resolves an anchor; a missing anchor is a machinery failure unless the
// caller handles nil through FuncOpt.
func (p *Program) Func(name string) *ssa.Function {
	f := p.fnIndex[name]
	if strings.Contains(name, "$") {
		// "Factory$1" means the function the factory returns, whatever number the literal has today
		if g := p.returnedFunc(name); g != nil {
			f = g
		}
	}
	if f == nil {
		broken("anchor function %q does not resolve in %s", name, p.Config)
	}
	if d := os.Getenv("VGW_DUMPFN"); d != "" && d == name && !dumped[name] {
		dumped[name] = true
		f.WriteTo(os.Stderr)
	}
	return f
}

var dumped = map[string]bool{}

// returnedFunc: "pkg.Factory$1" names the function literal a factory returns (a fiber handler). When the factory
// returns a named function or a method value instead, that function is the same subject: it is found through
// the factory's return value and from then on answers to the literal's name.
func (p *Program) returnedFunc(name string) *ssa.Function {
	i := strings.LastIndex(name, "$")
	if i <= 0 {
		return nil
	}
	fac := p.fnIndex[name[:i]]
	if fac == nil || len(fac.Blocks) == 0 {
		return nil
	}
	var cands []*ssa.Function
	for _, ret := range returnsOf(fac) {
		if len(ret.Results) == 0 {
			continue
		}
		for _, g := range funcValuesOf(ret.Results[0]) {
			dup := false
			for _, h := range cands {
				dup = dup || h == g
			}
			if !dup {
				cands = append(cands, g)
			}
		}
	}
	if len(cands) != 1 || len(cands[0].Blocks) == 0 {
		return nil
	}
	g := cands[0]
	was := fnName(g)
	if was == name {
		return g
	}
	if old := p.fnIndex[name]; old != nil && old != g {
		// another literal of the factory carries that number today: it gives the name up
		renamedFns.Store(old, name+"'")
		p.renamed = append(p.renamed, old)
		p.fnIndex[name+"'"] = old
	}
	renamedFns.Store(g, name)
	p.renamed = append(p.renamed, g)
	p.fnIndex[name] = g
	note := fmt.Sprintf("%s is the function %s returns; it is taken to be %s of the reference tree", was, name[:i], name)
	p.Renames = append(p.Renames, note)
	fmt.Fprintln(os.Stderr, "note: anchor relocated: "+note)
	return g
}

func (p *Program) FuncOpt(name string) *ssa.Function { return p.fnIndex[name] }

// FuncsIn returns all functions (incl. closures) of the given short package paths.
func (p *Program) FuncsIn(pkgs ...string) []*ssa.Function {
	var out []*ssa.Function
	for _, s := range pkgs {
		sp := p.SSAPkg[s]
		if sp == nil {
			broken("anchor package %q not loaded in %s", s, p.Config)
		}
		for _, f := range pkgFuncs(p.SSA, sp) {
			if p.absorbed(f) {
				continue
			}
			out = append(out, f)
		}
	}
	return out
}

func (p *Program) absorbed(f *ssa.Function) bool {
	for g := f; g != nil; g = g.Parent() {
		if p.Absorbed[g] {
			return true
		}
	}
	return false
}

// Methods of a named type (both receivers), sorted by name.
func (p *Program) Methods(pkg, typ string) []*ssa.Function {
	var out []*ssa.Function
	pre1 := "(" + pkg + "." + typ + ")."
	pre2 := "(*" + pkg + "." + typ + ")."
	for n, f := range p.fnIndex {
		if f.Parent() == nil && !p.absorbed(f) && (strings.HasPrefix(n, pre1) || strings.HasPrefix(n, pre2)) {
			out = append(out, f)
		}
	}
	sort.Slice(out, func(i, j int) bool { return fnName(out[i]) < fnName(out[j]) })
	return out
}

func (p *Program) Pos(pos token.Pos) string {
	if !pos.IsValid() {
		return "-"
	}
	ps := p.Fset.Position(pos)
	return fmt.Sprintf("%s:%d", strings.TrimPrefix(ps.Filename, p.Dir+"/"), ps.Line)
}

// Pkg returns the type-checked syntax package.
func (p *Program) Pkg(s string) *packages.Package {
	pk := p.ByPath[s]
	if pk == nil {
		broken("anchor package %q not loaded in %s", s, p.Config)
	}
	return pk
}

// FuncDecl finds the syntax of a top-level function or method.
func (p *Program) FuncDecl(pkg, recv, name string) (*ast.FuncDecl, *packages.Package) {
	pk := p.Pkg(pkg)
	for _, f := range pk.Syntax {
		for _, d := range f.Decls {
			fd, ok := d.(*ast.FuncDecl)
			if !ok || fd.Name.Name != name {
				continue
			}
			r := ""
			if fd.Recv != nil && len(fd.Recv.List) > 0 {
				t := fd.Recv.List[0].Type
				if st, ok := t.(*ast.StarExpr); ok {
					t = st.X
				}
				if id, ok := t.(*ast.Ident); ok {
					r = id.Name
				}
			}
			if r == recv {
				return fd, pk
			}
		}
	}
	return nil, pk
}
