package main

import (
	"go/token"
	"strings"

	"golang.org/x/tools/go/ssa"
)

func init() {
	register(&propCheck{id: "C10", run: runC10, controls: controlsC10})
}

func runC10(p *Program, r *Report) {
	r.Rule("R-C10-1", "every controller call to a destructive backend method (PutObject, CopyObject, CompleteMultipartUpload, DeleteObject, DeleteObjects) is reachable only through the success edge of auth.CheckObjectAccess called for the same bucket and the same key(s)", 5)
	r.Rule("R-C10-2", "posix.PutObjectRetention overwrites an existing retention only on the edges where the stored mode is not COMPLIANCE and (not GOVERNANCE or bypass): the overwrite store is unreachable from the COMPLIANCE case edge, and from the GOVERNANCE case edge reachable only through the bypass edge", 2)
	r.Rule("R-C10-3", "posix.PutBucketVersioning stores 'suspended' only through the edge where no enabled object-lock configuration exists", 1)
	r.Rule("R-C10-4", "auth.CheckObjectAccess fails closed: a nil return is unreachable from the edges 'legal hold is on', 'retention is COMPLIANCE and unexpired', and 'GOVERNANCE without bypass'; with bypass only through VerifyBucketPolicy(BypassGovernanceRetention) success", 4)
	r.Rule("R-C10-5", "the governance-bypass flag handed to the backend/lock check is true only after the caller's bypass header was read, and in PutObjectRetention only after VerifyBucketPolicy(BypassGovernanceRetention) succeeded", 3)

	hs := s3Handlers(p)
	bcs := backendCalls(hs)

	// R-C10-1
	for _, bc := range bcs {
		row, ok := tAction[bc.method]
		if !ok || !row.destruct {
			continue
		}
		f := bc.fn
		coas := callsTo(f, fnCheckObjAccess)
		pos := p.Pos(bc.call.Pos())
		if !guardedBy(f, bc.call, coas) {
			r.Viol("R-C10-1", bc.key, pos, "destructive backend call "+bc.method+" is reachable without passing auth.CheckObjectAccess: an object under legal hold or retention can be replaced/removed")
			continue
		}
		// same bucket and same keys
		ar := argRoots(bc.call)
		okSame := false
		detail := ""
		for _, g := range coas {
			if !guardedBy(f, bc.call, []ssa.CallInstruction{g}) {
				continue
			}
			ga := callArgs(g)
			// (ctx, bucket, userAccess, objects, bypass, be)
			bk := callRootInstrs(Origins(ga[1], nil), fiberCtx+".Params", "bucket")
			sameB := false
			for c := range callRootInstrs(ar, fiberCtx+".Params", "bucket") {
				if bk[c] {
					sameB = true
				}
			}
			objRoots := Origins(ga[3], nil)
			// objects literal elements: look into the slice cell and struct fields
			for _, ov := range fieldSources(ga[3]) {
				objRoots = append(objRoots, deepRoots(ov)...)
			}
			sameK := false
			kc := callRootInstrs(objRoots, fiberCtx+".Params", "key")
			for c := range callRootInstrs(ar, fiberCtx+".Params", "key") {
				if kc[c] {
					sameK = true
				}
			}
			// batch: both take the same decoded list
			for _, rt := range objRoots {
				if rt.Kind == "call" && strings.HasSuffix(rt.Desc, "(&cell)") {
					for _, x := range ar {
						if x.Kind == "call" && x.Call == rt.Call {
							sameK = true
						}
					}
				}
			}
			if sameB && sameK {
				okSame = true
			} else {
				detail = "CheckObjectAccess is called for a different bucket or different keys than the destructive call (sameBucket=" + boolStr(sameB) + " sameKeys=" + boolStr(sameK) + ")"
			}
		}
		r.Check(okSame, "R-C10-1", bc.key, pos, "behind CheckObjectAccess for the same bucket and key(s)", detail)
	}

	c10Retention(p, r)
	c10Suspend(p, r)
	c10CheckFn(p, r)
	c10Bypass(p, r, hs)
}

func boolStr(b bool) string {
	if b {
		return "true"
	}
	return "false"
}

// deepRoots: origins of everything stored into the elements/fields reachable
// from a composite value (slice literal of structs with pointer fields).
func deepRoots(v ssa.Value) []Root {
	var out []Root
	seen := map[ssa.Value]bool{}
	var walk func(v ssa.Value, d int)
	walk = func(v ssa.Value, d int) {
		if v == nil || seen[v] || d > 6 {
			return
		}
		seen[v] = true
		out = append(out, Origins(v, nil)...)
		switch x := v.(type) {
		case *ssa.Slice:
			walk(x.X, d+1)
		case *ssa.Alloc:
			for _, ref := range *x.Referrers() {
				switch rr := ref.(type) {
				case *ssa.IndexAddr:
					walk(rr, d+1)
				case *ssa.FieldAddr:
					walk(rr, d+1)
				case *ssa.Store:
					if rr.Addr == x {
						walk(rr.Val, d+1)
					}
				}
			}
		case *ssa.IndexAddr:
			for _, ref := range *x.Referrers() {
				switch rr := ref.(type) {
				case *ssa.FieldAddr:
					walk(rr, d+1)
				case *ssa.Store:
					if rr.Addr == x {
						walk(rr.Val, d+1)
					}
				}
			}
		case *ssa.FieldAddr:
			for _, ref := range *x.Referrers() {
				if st, ok := ref.(*ssa.Store); ok && st.Addr == x {
					walk(st.Val, d+1)
				}
			}
		case *ssa.UnOp:
			walk(x.X, d+1)
		case *ssa.MakeInterface:
			walk(x.X, d+1)
		}
	}
	walk(v, 0)
	return out
}

// metaCalls: calls to a MetadataStorer method in f, with the constant name of the key argument.
type metaCall struct {
	call   ssa.CallInstruction
	method string
	keyArg string // name of the package-level constant / its value
}

func metaCallsIn(f *ssa.Function) []metaCall {
	var out []metaCall
	for _, c := range callsIn(f) {
		cc := c.Common()
		if !cc.IsInvoke() || typeStr(cc.Value.Type()) != "backend/meta.MetadataStorer" {
			continue
		}
		mc := metaCall{call: c, method: cc.Method.Name()}
		for _, a := range cc.Args {
			if s, ok := constString(a); ok {
				mc.keyArg = s
			}
		}
		if mc.keyArg == "" {
			// a key taken from a constant table (the call sits in a loop over {value, key} rows)
			if pp := programOf(f); pp != nil {
				expanded := false
				for _, a := range cc.Args {
					if typeStr(a.Type()) != "string" {
						continue
					}
					if ss, ok := stringSet(pp, a); ok {
						for _, s := range ss {
							m2 := mc
							m2.keyArg = s
							out = append(out, m2)
							expanded = true
						}
					}
				}
				if expanded {
					continue
				}
			}
		}
		out = append(out, mc)
	}
	return out
}

func c10Retention(p *Program, r *Report) {
	f := p.Func("(*backend/posix.Posix).PutObjectRetention")
	var stores []metaCall
	for _, mc := range metaCallsIn(f) {
		if mc.method == "StoreAttribute" {
			stores = append(stores, mc)
		}
	}
	if len(stores) == 0 {
		broken("R-C10-2: no StoreAttribute in posix.PutObjectRetention")
	}
	// the case edges of the stored mode
	var compliance, governance, bypass []condEdge
	for _, ce := range condEdgesOf(f) {
		if ce.atoms["field:Mode"] && ce.atoms[`const:"COMPLIANCE"`] && ce.isEqNeq {
			compliance = append(compliance, ce)
		}
		if ce.atoms["field:Mode"] && ce.atoms[`const:"GOVERNANCE"`] && ce.isEqNeq {
			governance = append(governance, ce)
		}
		if ce.atoms["param:bypass"] {
			bypass = append(bypass, ce)
		}
	}
	pos := p.Pos(f.Pos())
	if len(compliance) == 0 {
		r.Viol("R-C10-2", fnName(f)+"/COMPLIANCE-case", pos, "the stored retention mode is never compared with COMPLIANCE: a compliance retention can be overwritten")
	}
	if len(governance) == 0 {
		r.Viol("R-C10-2", fnName(f)+"/GOVERNANCE-case", pos, "the stored retention mode is never compared with GOVERNANCE: a governance retention can be overwritten without bypass")
	}
	// the first-time store (no retention yet) is the one reachable when all mode tests are cut away:
	// a store that is reachable from a mode case edge is an overwrite.
	for _, ce := range compliance {
		reach := reachableFromEdge(f, ce.holds, nil)
		bad := false
		for _, st := range stores {
			if reach[st.call.Block()] {
				bad = true
			}
		}
		r.Check(!bad, "R-C10-2", fnName(f)+"/COMPLIANCE-case", p.Pos(ce.pos()), "no store reachable from the COMPLIANCE edge", "an existing COMPLIANCE retention can be overwritten: StoreAttribute is reachable from the COMPLIANCE case edge")
	}
	for _, ce := range governance {
		var cut []edge
		for _, b := range bypass {
			cut = append(cut, b.holds)
		}
		reach := reachableFromEdge(f, ce.holds, cut)
		bad := false
		for _, st := range stores {
			if reach[st.call.Block()] {
				bad = true
			}
		}
		r.Check(len(bypass) > 0 && !bad, "R-C10-2", fnName(f)+"/GOVERNANCE-case", p.Pos(ce.pos()), "store reachable from the GOVERNANCE edge only through bypass", "an existing GOVERNANCE retention can be overwritten without the bypass flag")
	}
	// the mode that is compared must be the stored one (origin: RetrieveAttribute(objectRetentionKey) decoded), not the request's
	for _, ce := range append(append([]condEdge{}, compliance...), governance...) {
		if ce.binop == nil {
			continue
		}
		okOrigin := false
		for _, side := range []ssa.Value{ce.binop.X, ce.binop.Y} {
			for _, rt := range Origins(side, nil) {
				if rt.Kind == "call" && strings.HasSuffix(rt.Desc, "(&cell)") && strings.Contains(rt.Desc, "json.Unmarshal") {
					// decoded from which bytes?
					for _, a := range callArgs(rt.Call) {
						for _, ar := range Origins(a, nil) {
							if ar.Kind == "call" && strings.HasSuffix(ar.Desc, ".RetrieveAttribute") {
								okOrigin = true
							}
						}
					}
				}
			}
		}
		r.Check(okOrigin, "R-C10-2", fnName(f)+"/mode-origin@"+constOfCond(ce), p.Pos(ce.pos()), "compared mode is the stored retention", "the mode compared is not the one decoded from the stored retention attribute")
	}
}

func constOfCond(ce condEdge) string {
	for a := range ce.atoms {
		if strings.HasPrefix(a, `const:"`) {
			return strings.Trim(strings.TrimPrefix(a, "const:"), `"`)
		}
	}
	return "?"
}

func c10Suspend(p *Program, r *Report) {
	f := p.Func("(*backend/posix.Posix).PutBucketVersioning")
	// the switch edge for Suspended
	var susp []condEdge
	for _, ce := range condEdgesOf(f) {
		if ce.atoms["param:status"] && ce.atoms[`const:"Suspended"`] && ce.isEqNeq {
			susp = append(susp, ce)
		}
	}
	key := fnName(f) + "/suspend-guard"
	if len(susp) == 0 {
		r.Viol("R-C10-3", key, p.Pos(f.Pos()), "no Suspended case found")
		return
	}
	// the store of the versioning attribute
	var store ssa.CallInstruction
	for _, mc := range metaCallsIn(f) {
		if mc.method == "StoreAttribute" {
			store = mc.call
		}
	}
	if store == nil {
		broken("R-C10-3: no StoreAttribute in PutBucketVersioning")
	}
	// from the Suspended edge the store must be reachable only through: lock configuration not found
	// (an errors.Is(err, ErrObjectLockConfigurationNotFound)-style edge, i.e. err != nil) or ObjectLockEnabled != Enabled
	var cut []edge
	lockConsulted := false
	for _, c := range callsIn(f) {
		if strings.HasSuffix(calleeName(c), ".GetObjectLockConfiguration") {
			lockConsulted = true
			_, nonNil := nilTestEdgesCall(c)
			cut = append(cut, nonNil...) // configuration absent (or error): no lock
		}
	}
	for _, ce := range condEdgesOf(f) {
		if ce.atoms["field:ObjectLockEnabled"] && ce.atoms[`const:"Enabled"`] && ce.isEqNeq {
			cut = append(cut, ce.fails)
		}
	}
	// the paths on which status is Suspended: every test of status against Suspended takes its holds edge, every
	// test against Enabled its fails edge (the tests may be repeated: a guard first, the value to store later).
	// None of them may reach the store without passing the lock test.
	for _, s := range susp {
		cut = append(cut, s.fails)
	}
	for _, ce := range condEdgesOf(f) {
		if ce.atoms["param:status"] && ce.atoms[`const:"Enabled"`] && ce.isEqNeq {
			cut = append(cut, ce.holds)
		}
	}
	ok := lockConsulted && !reachable(f, nil, cut)[store.Block()]
	r.Check(ok, "R-C10-3", key, p.Pos(store.Pos()), "suspend stored only when no enabled lock configuration exists", "versioning can be suspended on a bucket whose object-lock configuration is enabled (the store is reachable from the Suspended case without passing the lock test)")
}

// nilTestEdgesCall: edges on which the call's error result is nil / non-nil.
func nilTestEdgesCall(c ssa.CallInstruction) (nilE, nonNilE []edge) {
	for _, ev := range errValues(c) {
		a, b := nilTestEdges(ev)
		nilE = append(nilE, a...)
		nonNilE = append(nonNilE, b...)
	}
	return
}

func c10CheckFn(p *Program, r *Report) {
	f := p.Func(fnCheckObjAccess)
	nilSites := []retSite{}
	for _, s := range errReturnSites(f) {
		if isNilConst(s.val) {
			nilSites = append(nilSites, s)
		}
	}
	reachNil := func(from edge, cut []edge) bool {
		reach := reachableFromEdge(f, from, cut)
		for _, s := range nilSites {
			if s.pred != nil {
				if reach[s.pred] {
					return true
				}
			} else if s.reachedIn(reach) {
				return true
			}
		}
		return false
	}
	ces := condEdgesOf(f)
	// bypass policy success edges
	var polOK []edge
	for _, c := range callsTo(f, fnVerifyBucketPol) {
		isBypass := false
		for _, a := range callArgs(c) {
			if s, ok := constString(a); ok && s == "s3:BypassGovernanceRetention" {
				isBypass = true
			}
		}
		if isBypass {
			polOK = append(polOK, successEdges(c)...)
		}
	}
	n := map[string]int{}
	for _, ce := range ces {
		pos := p.Pos(ce.pos())
		switch {
		case ce.atoms[`const:"COMPLIANCE"`] && ce.isEqNeq:
			n["COMPLIANCE"]++
			k := fnName(f) + "/COMPLIANCE#" + itoa(n["COMPLIANCE"])
			r.Check(!reachNil(ce.holds, nil), "R-C10-4", k, pos, "COMPLIANCE edge reaches no nil return", "an unexpired COMPLIANCE retention does not refuse: a nil return is reachable from the COMPLIANCE case")
		case ce.atoms[`const:"GOVERNANCE"`] && ce.isEqNeq:
			n["GOVERNANCE"]++
			k := fnName(f) + "/GOVERNANCE#" + itoa(n["GOVERNANCE"])
			r.Check(len(polOK) > 0 && !reachNil(ce.holds, polOK), "R-C10-4", k, pos, "GOVERNANCE edge reaches nil only through the bypass policy verdict", "a GOVERNANCE retention can be passed without VerifyBucketPolicy(BypassGovernanceRetention) succeeding")
		}
	}
	// legal hold: the loaded status true edge
	lh := 0
	for _, ce := range ces {
		isStatus := false
		for _, rt := range Origins(ce.cond, nil) {
			if rt.Kind == "call" && strings.HasSuffix(rt.Desc, ".GetObjectLegalHold") {
				isStatus = true
			}
		}
		if !isStatus || ce.isEqNeq {
			continue
		}
		lh++
		r.Check(!reachNil(ce.holds, nil), "R-C10-4", fnName(f)+"/legal-hold#"+itoa(lh), p.Pos(ce.pos()), "legal-hold edge reaches no nil return", "an object under legal hold does not refuse: nil return reachable from the status==true edge")
	}
	if n["COMPLIANCE"] == 0 || n["GOVERNANCE"] == 0 || lh == 0 {
		r.Viol("R-C10-4", fnName(f)+"/cases", p.Pos(f.Pos()), "CheckObjectAccess lacks a COMPLIANCE, GOVERNANCE or legal-hold test (found "+itoa(n["COMPLIANCE"])+"/"+itoa(n["GOVERNANCE"])+"/"+itoa(lh)+")")
	}
	// every object of the list is examined: the retention and legal-hold lookups take the ranged element's key
	for _, name := range []string{"GetObjectRetention", "GetObjectLegalHold"} {
		found := false
		for _, c := range callsIn(f) {
			if isBackendCall(c) && c.Common().Method.Name() == name {
				for _, rt := range Origins(callArgs(c)[2], nil) {
					if rt.Kind == "elem" {
						found = true
					}
				}
			}
		}
		r.Check(found, "R-C10-4", fnName(f)+"/per-object:"+name, p.Pos(f.Pos()), "lookup keyed by each element of the object list", name+" is not looked up per element of the object list")
	}
}

func c10Bypass(p *Program, r *Report, hs []*ssa.Function) {
	// PutObjectRetention (controller): bypass argument true only behind the policy verdict
	n := 0
	for _, bc := range backendCalls(hs) {
		if bc.method != "PutObjectRetention" {
			continue
		}
		n++
		f := bc.fn
		bv := callArgs(bc.call)[4]
		// bypass may be true only with the bypass policy verdict: every value that can flow into the argument is
		// the constant false, the verdict itself (VerifyBucketPolicy(Bypass...) == nil), a value known false on the
		// edge it arrives by, or arrives only behind the verdict's success edge (or the root account's edge)
		var pol []edge
		verdict := map[ssa.Value]bool{}
		for _, c := range callsTo(f, fnVerifyBucketPol) {
			for _, a := range callArgs(c) {
				if s, ok := constString(a); ok && s == "s3:BypassGovernanceRetention" {
					pol = append(pol, successEdges(c)...)
					for _, ev := range errValues(c) {
						for _, al := range aliasesOf(ev) {
							verdict[al] = true
						}
					}
				}
			}
		}
		cut2 := append([]edge{}, pol...)
		for _, ce := range condEdgesOf(f) {
			if ce.atoms["call:"+fiberCtx+".Locals"] && ce.atoms["arg:isRoot"] {
				cut2 = append(cut2, ce.holds)
			}
		}
		ok := len(verdict) > 0
		detail := "no VerifyBucketPolicy(BypassGovernanceRetention) in the handler"
		behind := reachable(f, nil, cut2)
		for _, lf := range valueLeaves(bv, bc.call.Block()) {
			if b, isC := constBool(lf.val); isC && !b {
				continue
			}
			if bo, isBO := lf.val.(*ssa.BinOp); isBO && bo.Op == token.EQL {
				if (verdict[bo.X] && isNilConst(bo.Y)) || (verdict[bo.Y] && isNilConst(bo.X)) {
					continue
				}
			}
			if _, isC := constBool(lf.val); !isC && truthOnEdge(lf.val, lf.from, lf.to) < 0 {
				continue
			}
			if lf.from != nil && !behind[lf.from] {
				continue
			}
			// the edge it arrives by is itself a verdict (or root) edge
			onCut := false
			if lf.from != nil && lf.to != nil {
				all := true
				for i, sc := range lf.from.Succs {
					if sc != lf.to {
						continue
					}
					in := false
					for _, e := range cut2 {
						if e.from == lf.from && e.succ == i {
							in = true
						}
					}
					all = all && in
				}
				onCut = all
			}
			if onCut {
				continue
			}
			ok = false
			detail = "bypass can become true without the bypass policy verdict"
		}
		r.Check(ok, "R-C10-5", bc.key+".bypass", p.Pos(bc.call.Pos()), "bypass true only behind VerifyBucketPolicy(BypassGovernanceRetention)", detail)
	}
	if n == 0 {
		broken("R-C10-5: no PutObjectRetention backend call in handlers")
	}
	// delete paths: bypass handed to CheckObjectAccess derives from the request header (not a constant true)
	for _, h := range hs {
		for _, c := range callsTo(h, fnCheckObjAccess) {
			tgt := ""
			for _, bc := range backendCalls([]*ssa.Function{h}) {
				if (bc.method == "DeleteObject" || bc.method == "DeleteObjects") && guardedBy(h, bc.call, []ssa.CallInstruction{c}) {
					tgt = bc.method
				}
			}
			if tgt == "" {
				continue
			}
			bv := callArgs(c)[4]
			fromHdr := false
			constTrue := false
			for _, rt := range Origins(bv, &originOpts{extra: map[string][]int{"strings.EqualFold": nil}}) {
				if rt.Kind == "call" && rt.Desc == fiberCtx+".Get" {
					fromHdr = true
				}
				if rt.Kind == "const" && rt.Desc == "true" {
					constTrue = true
				}
			}
			r.Check(fromHdr && !constTrue, "R-C10-5", fnName(h)+"/CheckObjectAccess.bypass->"+tgt, p.Pos(c.Pos()), "bypass derives from the X-Amz-Bypass-Governance-Retention header", "delete path passes a bypass flag that does not derive from the request header (constant true bypasses GOVERNANCE for callers with the policy permission even without asking)")
		}
	}
}

// trueSites: blocks where a constant true flows into v (stores to its cell or phi edges).
func trueSites(v ssa.Value) []*ssa.BasicBlock {
	var out []*ssa.BasicBlock
	seen := map[ssa.Value]bool{}
	var walk func(v ssa.Value)
	walk = func(v ssa.Value) {
		if v == nil || seen[v] {
			return
		}
		seen[v] = true
		switch x := v.(type) {
		case *ssa.Phi:
			for i, e := range x.Edges {
				if b, ok := constBool(e); ok && b {
					out = append(out, x.Block().Preds[i])
				} else {
					walk(e)
				}
			}
		case *ssa.UnOp:
			if al, ok := x.X.(*ssa.Alloc); ok {
				for _, st := range storesTo(al) {
					if b, ok := constBool(st.Val); ok && b {
						out = append(out, st.Block())
					} else {
						walk(st.Val)
					}
				}
			}
		}
	}
	walk(v)
	return out
}

func controlsC10() []Control {
	return []Control{
		{Name: "DeleteActions: drop the error return after CheckObjectAccess", Rule: "R-C10-1", File: "s3api/controllers/base.go",
			Old: "err = auth.CheckObjectAccess(ctx.Context(), bucket, acct.Access, []types.ObjectIdentifier{{Key: &key, VersionId: &versionId}}, bypass, c.be)\n\tif err != nil {",
			New: "err = auth.CheckObjectAccess(ctx.Context(), bucket, acct.Access, []types.ObjectIdentifier{{Key: &key, VersionId: &versionId}}, bypass, c.be)\n\tif err != nil && c.debug {", Expect: "DeleteObject"},
		{Name: "revert fix fb67415: CopyObject without CheckObjectAccess", Rule: "R-C10-1", File: "s3api/controllers/base.go",
			Old: "\t\terr = auth.CheckObjectAccess(ctx.Context(), bucket, acct.Access, []types.ObjectIdentifier{{Key: &keyStart}}, true, c.be)\n\t\tif err != nil {\n\t\t\treturn SendXMLResponse(ctx, nil, err,\n\t\t\t\t&MetaOpts{\n\t\t\t\t\tLogger:      c.logger,\n\t\t\t\t\tMetricsMng:  c.mm,\n\t\t\t\t\tAction:      metrics.ActionCopyObject,\n\t\t\t\t\tBucketOwner: parsedAcl.Owner,\n\t\t\t\t})\n\t\t}\n\n\t\tres, err := c.be.CopyObject(",
			New: "\t\tres, err := c.be.CopyObject(", Expect: "CopyObject"},
		{Name: "PutObjectRetention: COMPLIANCE case falls through", Rule: "R-C10-2", File: "backend/posix/posix.go",
			Old: "\tcase types.ObjectLockRetentionModeCompliance:\n\t\treturn s3err.GetAPIError(s3err.ErrMethodNotAllowed)\n\t// To override governance", New: "\tcase types.ObjectLockRetentionModeCompliance:\n\t\tif !bypass {\n\t\t\treturn s3err.GetAPIError(s3err.ErrMethodNotAllowed)\n\t\t}\n\t// To override governance", Expect: "COMPLIANCE"},
		{Name: "PutObjectRetention handler: bypass kept when the policy denies", Rule: "R-C10-5", File: "s3api/controllers/base.go",
			Old: "\t\t\t\tif err := auth.VerifyBucketPolicy(policy, acct.Access, bucket, keyStart, auth.BypassGovernanceRetentionAction); err != nil {\n\t\t\t\t\tbypass = false\n\t\t\t\t}",
			New: "\t\t\t\tif err := auth.VerifyBucketPolicy(policy, acct.Access, bucket, keyStart, auth.BypassGovernanceRetentionAction); err != nil {\n\t\t\t\t\tbypass = c.debug\n\t\t\t\t}", Expect: ".bypass"},
		{Name: "PutObjectRetention handler: bypass kept when the policy cannot be read", Rule: "R-C10-5", File: "s3api/controllers/base.go",
			Old: "\t\t\tpolicy, err := c.be.GetBucketPolicy(ctx.Context(), bucket)\n\t\t\tif err != nil {\n\t\t\t\tbypass = false\n\t\t\t} else {\n\t\t\t\tif err := auth.VerifyBucketPolicy(policy, acct.Access, bucket, keyStart, auth.BypassGovernanceRetentionAction)",
			New: "\t\t\tpolicy, err := c.be.GetBucketPolicy(ctx.Context(), bucket)\n\t\t\tif err != nil {\n\t\t\t} else {\n\t\t\t\tif err := auth.VerifyBucketPolicy(policy, acct.Access, bucket, keyStart, auth.BypassGovernanceRetentionAction)", Expect: ".bypass"},
		{Name: "PutBucketVersioning: lock test dropped for Suspended", Rule: "R-C10-3", File: "backend/posix/posix.go",
			Old: "\t\t\tif lockStatus.ObjectLockEnabled == types.ObjectLockEnabledEnabled {\n\t\t\t\treturn s3err.GetAPIError(s3err.ErrSuspendedVersioningNotAllowed)\n\t\t\t}", New: "\t\t\t_ = lockStatus", Expect: "suspend-guard"},
		{Name: "CheckObjectAccess: legal hold only logged", Rule: "R-C10-4", File: "auth/object_lock.go",
			Old: "\t\tif checkLegalHold && *status {\n\t\t\treturn s3err.GetAPIError(s3err.ErrObjectLocked)\n\t\t}", New: "\t\tif checkLegalHold && *status && !bypass {\n\t\t\treturn s3err.GetAPIError(s3err.ErrObjectLocked)\n\t\t}", Expect: "legal-hold"},
		{Name: "DeleteObjects: key list of the lock check differs from the deleted list", Rule: "R-C10-1", File: "s3api/controllers/base.go",
			Old: "err = auth.CheckObjectAccess(ctx.Context(), bucket, acct.Access, dObj.Objects, bypass, c.be)", New: "err = auth.CheckObjectAccess(ctx.Context(), bucket, acct.Access, []types.ObjectIdentifier{}, bypass, c.be)", Expect: "DeleteObjects"},
	}
}
