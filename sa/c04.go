package main

import (
	"go/constant"
	"go/token"
	"go/types"
	"sort"
	"strings"

	"golang.org/x/tools/go/ssa"
)

func init() {
	register(&propCheck{id: "C04", run: runC04, controls: controlsC04})
}

// Packages that may touch the filesystem (frozen owner set, one reason each).
var fsOwners = map[string]string{
	"backend":           "path helpers (MkdirAll, MoveFile, Walk)",
	"backend/posix":     "the posix backend",
	"backend/meta":      "xattr / sidecar metadata stores",
	"backend/scoutfs":   "the scoutfs backend",
	"auth":              "iam_internal / iam_s3_object: fixed file names under the configured IAM directory",
	"s3log":             "configured audit log files",
	"s3event":           "configured event-filter file",
	"cmd/versitygw":     "command line: configured directories, test commands",
	"tests/integration": "test client",
	"debuglogger":       "stderr",
	"metrics":           "none expected",
	"backend/azure":     "none expected (blob API)",
}

var fsFuncPrefixes = []string{"os.", "syscall.", "golang.org/x/sys/unix.", "github.com/pkg/xattr.", "io/ioutil.", "path/filepath.Walk", "path/filepath.Glob", "(*os.File)."}

// os functions that do not take a client path
var fsHarmless = map[string]bool{
	"os.Getenv": true, "os.Exit": true, "os.Getpid": true, "os.Hostname": true, "os.Getuid": true, "os.Getgid": true, "os.Geteuid": true, "os.Getegid": true,
	"os.IsNotExist": true, "os.IsExist": true, "os.Environ": true, "os.LookupEnv": true, "os.Getwd": true, "os.Executable": true, "os.IsPermission": true,
	"syscall.Errno.Error": true, "os.NewSyscallError": true, "os.Setenv": true, "os.Unsetenv": true, "os.ExpandEnv": true, "os.TempDir": true, "os.UserHomeDir": true, "os.Getpagesize": true,
}

// T-PATHSLOT: names of backend parameters / input-struct fields that become path components in the posix backend.
var pathSlotFields = map[string]bool{"Bucket": true, "Key": true, "VersionId": true, "UploadId": true, "CopySource": true}
var pathSlotParams = map[string]bool{"bucket": true, "object": true, "key": true, "versionId": true, "uploadId": true}

func runC04(p *Program, r *Report) {
	r.Rule("R-C04-1", "layering: filesystem functions (os, syscall, x/sys/unix, pkg/xattr) are called only from the frozen owner packages; controllers, middlewares, utils, s3response, s3err never touch the filesystem", 5)
	r.Rule("R-C04-2", "the validators are validators: backend.IsOpaquePath / IsOpaqueId reject '.', '..' (and separators for ids); the values returned by backend.ParseCopySource are substrings of the validated value (no decoding after validation) and a nil error is reachable only through both validator edges; the copy source is consumed by backends only through ParseCopySource", 8)
	r.Rule("R-C04-3", "validation before the slot: every client-controlled string that a controller or middleware passes to a backend path slot (bucket, key, versionId, uploadId, copy source, batch keys) originates only from accessors whose value the URL-decoding middleware validated (route params, the three id queries), from the copy-source header (validated at ParseCopySource), or from a decoded list that was validated element-wise before the call", 60)
	r.Rule("R-C04-4", "the path validator is installed and fails closed: DecodeURL validates the decoded path and the id queries, its refusing edge reaches no ctx.Next(), and the path handed to the router is exactly the validated value; it is registered before every other middleware that calls the backend", 6)

	// R-C04-1
	pkgs := make([]string, 0, len(p.SSAPkg))
	for s := range p.SSAPkg {
		pkgs = append(pkgs, s)
	}
	sort.Strings(pkgs)
	nOwners := 0
	for _, pk := range pkgs {
		if pk == "." || strings.HasPrefix(pk, "tests/") {
			continue
		}
		var hits []string
		for _, f := range p.FuncsIn(pk) {
			for _, c := range callsIn(f) {
				n := calleeName(c)
				if n == "" || fsHarmless[n] || strings.HasSuffix(n, ".init") {
					continue
				}
				isFS := false
				for _, pre := range fsFuncPrefixes {
					if strings.HasPrefix(n, pre) {
						isFS = true
					}
				}
				if strings.HasPrefix(n, "(*os.File).") {
					// writing to os.Stderr/Stdout is not a filesystem path operation
					if rv := callRecv(c); rv != nil {
						for _, rt := range Origins(rv, nil) {
							if rt.Kind == "global" && (rt.Desc == "Stderr" || rt.Desc == "Stdout" || rt.Desc == "Stdin") {
								isFS = false
							}
						}
					}
				}
				if isFS {
					hits = append(hits, n+"@"+p.Pos(c.Pos()))
				}
			}
		}
		if _, owner := fsOwners[pk]; owner {
			nOwners++
			r.Ok("R-C04-1", "package:"+pk, pk, "owner ("+fsOwners[pk]+"), "+itoa(len(hits))+" filesystem call sites")
			continue
		}
		sort.Strings(hits)
		d := ""
		if len(hits) > 0 {
			d = hits[0]
		}
		r.Check(len(hits) == 0, "R-C04-1", "package:"+pk, pk, "no filesystem calls", "package "+pk+" calls the filesystem directly ("+d+"): client values can reach a path outside the backend's confinement")
	}
	// os.Chdir only in posix.New (all relative paths depend on it)
	for _, f := range p.FuncsIn("backend/posix", "backend/scoutfs", "backend", "backend/meta") {
		for _, c := range callsTo(f, "os.Chdir") {
			r.Check(fnName(f) == "backend/posix.New", "R-C04-1", fnName(f)+"/os.Chdir", p.Pos(c.Pos()), "working directory set once at start-up", "os.Chdir outside posix.New: every relative bucket path would resolve elsewhere")
		}
	}

	c04Validators(p, r)
	c04Decode(p, r)
	c04Slots(p, r)
}

// mentions: which of the constants occur in f, in the function literals it creates, and in the module functions it
// hands on as values or still calls (a predicate passed to slices.IndexFunc, a helper that was not inlined).
func mentions(f *ssa.Function, consts ...string) map[string]bool {
	out := map[string]bool{}
	seen := map[*ssa.Function]bool{}
	var visit func(f *ssa.Function, depth int)
	visit = func(f *ssa.Function, depth int) {
		if f == nil || seen[f] || depth > 3 || len(f.Blocks) == 0 {
			return
		}
		seen[f] = true
		for _, b := range f.Blocks {
			for _, in := range b.Instrs {
				for _, op := range in.Operands(nil) {
					if op == nil || *op == nil {
						continue
					}
					if s, ok := constString(*op); ok {
						for _, c := range consts {
							// a longer constant also counts when folded with what follows it ("X-Amz-Meta" + ".")
							if s == c || (len(c) >= 4 && strings.HasPrefix(s, c)) {
								out[c] = true
							}
						}
					}
					// a one-character constant may be written as a byte or rune ('/' in strings.IndexByte)
					if k, ok := (*op).(*ssa.Const); ok && k.Value != nil && k.Value.Kind() == constant.Int {
						if n, exact := constant.Int64Val(k.Value); exact {
							if bt, isB := k.Type().Underlying().(*types.Basic); isB && (bt.Kind() == types.Uint8 || bt.Kind() == types.Int32 || bt.Kind() == types.UntypedRune) {
								for _, c := range consts {
									if len(c) == 1 && int64(c[0]) == n {
										out[c] = true
									}
								}
							}
						}
					}
					switch g := (*op).(type) {
					case *ssa.Function:
						if g.Pkg != nil && g.Pkg == f.Pkg {
							visit(g, depth+1)
						}
					case *ssa.MakeClosure:
						if fn, ok := g.Fn.(*ssa.Function); ok {
							visit(fn, depth+1)
						}
					}
				}
			}
		}
	}
	visit(f, 0)
	return out
}

func c04Validators(p *Program, r *Report) {
	vp := p.Func("backend.IsOpaquePath")
	vi := p.Func("backend.IsOpaqueId")
	m := mentions(vp, ".", "..", "/")
	for _, c := range []string{".", "..", "/"} {
		r.Check(m[c], "R-C04-2", "backend.IsOpaquePath/mentions:"+c, p.Pos(vp.Pos()), "segment constant present", "IsOpaquePath never refers to "+strconvQuote(c)+": it cannot be rejecting that segment")
	}
	m = mentions(vi, ".", "..", "/")
	for _, c := range []string{".", "..", "/"} {
		r.Check(m[c], "R-C04-2", "backend.IsOpaqueId/mentions:"+c, p.Pos(vi.Pos()), "constant present", "IsOpaqueId never refers to "+strconvQuote(c))
	}
	// a comparison with ".." (or a switch case) has an edge that reaches only `return false`
	for _, f := range []*ssa.Function{vp, vi} {
		found := false
		for _, ce := range condEdgesOf(f) {
			if !(ce.isEqNeq && ce.atoms[`const:".."`]) {
				continue
			}
			found = true
			reach := reachableFromEdge(f, ce.holds, nil)
			bad := false
			for _, ret := range returnsOf(f) {
				if !reach[ret.Block()] {
					continue
				}
				if b, ok := constBool(ret.Results[0]); !ok || b {
					// a phi / computed result: look for a true site reachable
					for _, s := range trueSites(ret.Results[0]) {
						if reach[s] {
							bad = true
						}
					}
					if ok && b {
						bad = true
					}
				}
			}
			r.Check(!bad, "R-C04-2", fnName(f)+"/dotdot-rejected", p.Pos(ce.pos()), "equal to '..' leads only to false", fnName(f)+" can accept a value equal to '..'")
		}
		if !found {
			// the comparison sits in a predicate handed to slices.ContainsFunc / IndexFunc over the segments, and
			// the validator answers the negation of that search: `return !slices.ContainsFunc(segments, isDotSegment)`
			viaPred := false
			for _, c := range callsIn(f) {
				cn := calleeName(c)
				if !strings.HasPrefix(cn, "slices.ContainsFunc") || len(c.Common().Args) != 2 {
					continue
				}
				predTrueOnDotDot := false
				for _, g := range funcValuesOf(c.Common().Args[1]) {
					for _, ce := range condEdgesOf(g) {
						if ce.isEqNeq && ce.atoms[`const:".."`] {
							// on the edge "segment is '..'" the predicate cannot answer false
							reach := reachableFromEdge(g, ce.holds, nil)
							okP := true
							for _, ret := range returnsOf(g) {
								if !reach[ret.Block()] {
									continue
								}
								if b, isC := constBool(ret.Results[0]); isC && !b {
									okP = false
								}
							}
							if okP {
								predTrueOnDotDot = true
							}
						}
					}
					// `return seg == "." || seg == ".."` : the comparison is a value, not a branch
					for _, ret := range returnsOf(g) {
						if atomsOf(ret.Results[0])[`const:".."`] && len(condEdgesOf(g)) <= 1 {
							predTrueOnDotDot = true
						}
					}
				}
				if !predTrueOnDotDot {
					continue
				}
				// the search result is returned negated (or tested with the found edge leading to false only)
				cv, _ := c.(ssa.Value)
				for _, ret := range returnsOf(f) {
					if u, isU := ret.Results[0].(*ssa.UnOp); isU && u.Op == token.NOT && u.X == cv {
						viaPred = true
					}
				}
				for _, ce := range condEdgesOf(f) {
					if ce.cond == cv {
						reach := reachableFromEdge(f, ce.holds, nil)
						bad := false
						for _, ret := range returnsOf(f) {
							if reach[ret.Block()] {
								if b, isC := constBool(ret.Results[0]); !isC || b {
									bad = true
								}
							}
						}
						if !bad {
							viaPred = true
						}
					}
				}
			}
			if viaPred {
				r.Ok("R-C04-2", fnName(f)+"/dotdot-rejected", p.Pos(f.Pos()), "a segment equal to '..' is found by the predicate handed to slices.ContainsFunc and the validator answers the negation")
				continue
			}
			r.Viol("R-C04-2", fnName(f)+"/dotdot-rejected", p.Pos(f.Pos()), fnName(f)+" has no comparison with '..'")
		}
	}
	// ParseCopySource
	pc := p.Func("backend.ParseCopySource")
	var cut []edge
	nv := 0
	for _, ce := range condEdgesOf(pc) {
		if c, ok := ce.cond.(*ssa.Call); ok {
			n := calleeName(c)
			if n == "backend.IsOpaquePath" || n == "backend.IsOpaqueId" {
				nv++
				// each validator individually is required
				bad := false
				for _, s := range errReturnSites(pc) {
					if isNilConst(s.val) && siteReachable(pc, s, []edge{ce.holds}) {
						bad = true
					}
				}
				r.Check(!bad, "R-C04-2", fnName(pc)+"/requires:"+n[len("backend."):]+"#"+itoa(nv), p.Pos(ce.pos()), "nil error only when the validator accepted", "ParseCopySource can succeed without "+n+" accepting the value")
				cut = append(cut, ce.holds)
			}
		}
	}
	if nv < 2 {
		r.Viol("R-C04-2", fnName(pc)+"/validators", p.Pos(pc.Pos()), "ParseCopySource must validate the bucket/object path and the version id (found "+itoa(nv)+" validator tests)")
	}
	// returned strings are substrings of the parameter
	for _, ret := range returnsOf(pc) {
		if !isNilConst(ret.Results[len(ret.Results)-1]) {
			continue
		}
		for i := 0; i < 3; i++ {
			bad := ""
			for _, rt := range Origins(ret.Results[i], &originOpts{stop: map[string]bool{"fmt.Sprintf": true}}) {
				if rt.Kind == "via" {
					switch rt.Desc {
					case "strings.Cut", "strings.TrimPrefix", "strings.TrimSuffix", "strings.CutPrefix":
					default:
						bad = rt.Desc
					}
				}
				if rt.Kind == "call" && !strings.HasPrefix(rt.Desc, "builtin.") {
					bad = rt.Desc
				}
			}
			r.Check(bad == "", "R-C04-2", fnName(pc)+"/result#"+itoa(i)+":substring-of-validated", p.Pos(ret.Pos()), "substring of the validated header", "a value returned by ParseCopySource passes through "+bad+" after validation: what is used is not what was validated")
		}
	}
	// what the validators see covers what is returned: each returned string is cut out of a value that was itself
	// handed to a validator (validating a sibling piece, or only part of the header, validates nothing about the rest)
	{
		validated := map[ssa.Value]string{}
		for _, c := range callsTo(pc, "backend.IsOpaquePath", "backend.IsOpaqueId") {
			validated[callArgs(c)[0]] = calleeName(c)
		}
		for _, ret := range returnsOf(pc) {
			if !isNilConst(ret.Results[len(ret.Results)-1]) {
				continue
			}
			for i := 0; i < 3; i++ {
				anc := substrAncestors(ret.Results[i])
				by := ""
				for v := range anc {
					if n, ok := validated[v]; ok {
						by = n
					}
				}
				if c, isC := ret.Results[i].(*ssa.Const); isC && c.Value != nil {
					by = "constant"
				}
				r.Check(by != "", "R-C04-2", fnName(pc)+"/result#"+itoa(i)+":cut-from-a-validated-value", p.Pos(ret.Pos()), "validated by "+by, "result #"+itoa(i)+" of ParseCopySource is not cut out of a value that IsOpaquePath/IsOpaqueId examined (only a sibling part of the header is validated): a source bucket of '..' or a key with '..' segments reaches the backend path")
			}
		}
	}
	// backends consume CopySource only via ParseCopySource
	for _, pk := range []string{"backend/posix", "backend/scoutfs"} { // the filesystem backends
		if p.SSAPkg[pk] == nil {
			continue
		}
		for _, f := range p.FuncsIn(pk) {
			for _, b := range f.Blocks {
				for _, in := range b.Instrs {
					fa, ok := in.(*ssa.FieldAddr)
					if !ok || fieldName(fa.X.Type(), fa.Field) != "CopySource" {
						continue
					}
					okUse := true
					for _, ref := range *fa.Referrers() {
						ld, isLd := ref.(*ssa.UnOp)
						if !isLd {
							continue
						}
						for _, u := range transitiveUses(ld, 4) {
							if c, isC := u.(ssa.CallInstruction); isC {
								n := calleeName(c)
								if n != "backend.ParseCopySource" && !strings.HasPrefix(n, "fmt.") && n != pk+".getString" {
									okUse = false
								}
							}
						}
					}
					r.Check(okUse, "R-C04-2", fnName(f)+"/CopySource-use@"+p.Pos(fa.Pos()), p.Pos(fa.Pos()), "copy source consumed through ParseCopySource", "a backend uses input.CopySource without passing it through backend.ParseCopySource (the validation point)")
				}
			}
		}
	}
}

func strconvQuote(s string) string { return "\"" + s + "\"" }

// transitiveUses: instructions using v, following loads/extracts/conversions.
func transitiveUses(v ssa.Value, depth int) []ssa.Instruction {
	var out []ssa.Instruction
	if depth == 0 || v.Referrers() == nil {
		return nil
	}
	for _, ref := range *v.Referrers() {
		out = append(out, ref)
		switch x := ref.(type) {
		case *ssa.UnOp:
			out = append(out, transitiveUses(x, depth-1)...)
		case *ssa.Slice:
			out = append(out, transitiveUses(x, depth-1)...)
		case *ssa.Phi:
			out = append(out, transitiveUses(x, depth-1)...)
		case *ssa.MakeInterface:
			out = append(out, transitiveUses(x, depth-1)...)
		}
	}
	return out
}

func c04Decode(p *Program, r *Report) {
	f := p.Func(mwPkg + ".DecodeURL$1")
	nexts := callsTo(f, fiberCtx+".Next")
	// validators applied
	type vcall struct {
		ce   condEdge
		name string
		what string
	}
	var vs []vcall
	for _, ce := range condEdgesOf(f) {
		c, ok := ce.cond.(*ssa.Call)
		if !ok {
			continue
		}
		n := calleeName(c)
		if n != "backend.IsOpaquePath" && n != "backend.IsOpaqueId" {
			continue
		}
		what := ""
		var more []string
		for _, rt := range Origins(callArgs(c)[0], nil) {
			if rt.Kind == "call" && rt.Desc == fiberCtx+".Query" {
				if s, ok := constString(callArgs(rt.Call)[0]); ok {
					what = "query:" + s
				} else if ss, ok := stringSet(p, callArgs(rt.Call)[0]); ok {
					// one test applied to every name of a constant table
					for _, s := range ss {
						more = append(more, "query:"+s)
					}
				}
			}
			if (rt.Kind == "call" || rt.Kind == "via") && (rt.Desc == "net/url.PathUnescape" || rt.Desc == "net/url.QueryUnescape") {
				what = "path"
			}
		}
		vs = append(vs, vcall{ce, n, what})
		for _, m := range more {
			vs = append(vs, vcall{ce, n, m})
		}
	}
	want := map[string]string{"path": "backend.IsOpaquePath", "query:versionId": "backend.IsOpaqueId", "query:uploadId": "backend.IsOpaqueId", "query:bucket": "backend.IsOpaqueId"}
	keys := make([]string, 0, len(want))
	for k := range want {
		keys = append(keys, k)
	}
	sort.Strings(keys)
	for _, w := range keys {
		var found *vcall
		for i := range vs {
			if vs[i].what == w && vs[i].name == want[w] {
				found = &vs[i]
			}
		}
		if found == nil {
			r.Viol("R-C04-4", fnName(f)+"/validates:"+w, p.Pos(f.Pos()), "DecodeURL does not validate "+w+" with "+want[w])
			continue
		}
		// refusing edge reaches no Next
		reach := reachableFromEdge(f, found.ce.fails, nil)
		bad := false
		for _, nx := range nexts {
			if reach[nx.Block()] {
				bad = true
			}
		}
		r.Check(!bad, "R-C04-4", fnName(f)+"/validates:"+w, p.Pos(found.ce.pos()), "refused values never reach Next()", "a "+w+" value refused by "+want[w]+" can still reach ctx.Next()")
	}
	// the path given to the router is the validated one
	for _, c := range callsTo(f, fiberCtx+".Path") {
		a := callArgs(c)
		if len(a) == 0 || isNilConst(a[0]) {
			continue
		}
		setChain := map[string]bool{}
		for _, rt := range deepRoots(a[0]) {
			if (rt.Kind == "via" || rt.Kind == "call") && rt.Call != nil {
				setChain[rt.Desc+"@"+itoa(int(rt.Call.Pos()))] = true
			}
		}
		delete(setChain, "")
		valChain := map[string]bool{}
		for _, v := range vs {
			if v.what == "path" {
				cc := v.ce.cond.(*ssa.Call)
				for k := range chainSet(Origins(callArgs(cc)[0], nil)) {
					if !strings.HasPrefix(k, "strings.TrimPrefix@") {
						valChain[k] = true
					}
				}
			}
		}
		same := len(valChain) > 0
		for k := range setChain {
			if !valChain[k] {
				same = false
			}
		}
		for k := range valChain {
			if !setChain[k] {
				same = false
			}
		}
		r.Check(same, "R-C04-4", fnName(f)+"/Path<-validated", p.Pos(c.Pos()), "router path is the validated value", "the path handed to the router is not the value that was validated (decoded differently or decoded again): validated="+setStr(valChain)+" set="+setStr(setChain))
	}
	// unescape error fails closed
	for _, c := range callsTo(f, "net/url.PathUnescape", "net/url.QueryUnescape") {
		se := successEdges(c)
		bad := len(se) == 0
		for _, nx := range nexts {
			if reachable(f, nil, se)[nx.Block()] {
				bad = true
			}
		}
		r.Check(!bad, "R-C04-4", fnName(f)+"/unescape-error", p.Pos(c.Pos()), "undecodable paths are refused", "a path that cannot be decoded can still reach ctx.Next()")
	}
}

// slotValues: the string values a backend call receives in path slots: (slot name, value).
type slotVal struct {
	slot string
	val  ssa.Value
}

func slotValues(c ssa.CallInstruction) []slotVal {
	var out []slotVal
	sig := c.Common().Method.Type().(*types.Signature)
	args := c.Common().Args
	for i, a := range args {
		pname := ""
		if i < sig.Params().Len() {
			pname = sig.Params().At(i).Name()
		}
		if bt, ok := a.Type().Underlying().(*types.Basic); ok && bt.Info()&types.IsString != 0 {
			if pathSlotParams[pname] {
				out = append(out, slotVal{pname, a})
			}
			continue
		}
		fs, _ := litFields(a)
		for name, vs := range fs {
			if !pathSlotFields[name] {
				continue
			}
			for _, v := range vs {
				out = append(out, slotVal{name, v})
			}
		}
		// nested: Delete.Objects
		if vs, ok := fs["Delete"]; ok {
			for _, v := range vs {
				nfs, _ := litFields(v)
				for _, ov := range nfs["Objects"] {
					out = append(out, slotVal{"Objects", ov})
				}
			}
		}
	}
	return out
}

func c04Slots(p *Program, r *Report) {
	fns := append(append([]*ssa.Function{}, s3Handlers(p)...), adminHandlers(p)...)
	fns = append(fns, p.FuncsIn(mwPkg)...)
	// auth helpers that call the backend with values handed in by controllers are covered at their call sites (parameters)
	n := 0
	seenF := map[*ssa.Function]bool{}
	for _, top := range fns {
		for _, f := range withAnon(top) {
			if seenF[f] {
				continue
			}
			seenF[f] = true
			var cs []ssa.CallInstruction
			for _, c := range callsIn(f) {
				if isBackendCall(c) {
					cs = append(cs, c)
				}
			}
			keys := siteKeys(f, cs)
			for _, c := range cs {
				for _, sv := range slotValues(c) {
					n++
					ok, why := slotSafe(f, c, sv)
					r.Check(ok, "R-C04-3", keys[c]+":"+sv.slot, p.Pos(c.Pos()), why, "path slot "+sv.slot+" of "+c.Common().Method.Name()+" receives a client value that no validator has seen: "+why)
				}
			}
			// auth helpers receiving bucket/keys: CheckObjectAccess, VerifyObjectCopyAccess get values that are slots there too
			for _, c := range callsTo(f, fnCheckObjAccess, fnVerifyCopyAccess) {
				for i, a := range callArgs(c) {
					if calleeName(c) == fnCheckObjAccess && i == 3 {
						n++
						ok, why := slotSafe(f, c, slotVal{"Objects", a})
						r.Check(ok, "R-C04-3", fnName(f)+"/"+calleeName(c)+"@"+p.Pos(c.Pos())+":objects", p.Pos(c.Pos()), why, "the lock check looks up client keys that no validator has seen: "+why)
						continue
					}
					isSlot := (calleeName(c) == fnCheckObjAccess && i == 1) || (calleeName(c) == fnVerifyCopyAccess && i == 2)
					if bt, ok := a.Type().Underlying().(*types.Basic); ok && bt.Info()&types.IsString != 0 && isSlot {
						n++
						ok, why := slotSafe(f, c, slotVal{"arg" + itoa(i), a})
						if calleeName(c) == fnVerifyCopyAccess && i == 2 {
							ok, why = slotSafeCopy(a)
						}
						r.Check(ok, "R-C04-3", fnName(f)+"/"+calleeName(c)+"@"+p.Pos(c.Pos())+":arg"+itoa(i), p.Pos(c.Pos()), why, "an auth helper that calls the backend receives an unvalidated client value: "+why)
					}
				}
			}
		}
	}
	if n < 60 {
		broken("R-C04-3: only %d path-slot values enumerated", n)
	}
}

var validatedQueries = map[string]bool{"versionId": true, "uploadId": true, "bucket": true}

func slotSafeCopy(v ssa.Value) (bool, string) {
	for _, rt := range terminalRoots(Origins(v, nil)) {
		switch {
		case rt.Kind == "const":
		case rt.Kind == "call" && rt.Desc == fiberCtx+".Get" && hasConstArg(rt.Call, "X-Amz-Copy-Source"):
		case rt.Kind == "call" && strings.HasPrefix(rt.Desc, "builtin."):
		default:
			return false, rt.String()
		}
	}
	return true, "copy source header (validated where every backend parses it: ParseCopySource)"
}

func hasConstArg(c ssa.CallInstruction, s string) bool {
	for _, a := range callArgs(c) {
		if cs, ok := constString(a); ok && cs == s {
			return true
		}
	}
	return false
}

func slotSafe(f *ssa.Function, call ssa.CallInstruction, sv slotVal) (bool, string) {
	if sv.slot == "CopySource" {
		return slotSafeCopy(sv.val)
	}
	rs := Origins(sv.val, nil)
	if sv.slot == "Objects" {
		rs = append(rs, deepRoots(sv.val)...)
	}
	var desc []string
	for _, rt := range terminalRoots(rs) {
		switch {
		case rt.Kind == "const":
		case rt.Kind == "param":
			// helper functions: their callers are checked; handlers have only ctx / receiver
		case rt.Kind == "call" && strings.HasPrefix(rt.Desc, "builtin."):
		case rt.Kind == "call" && rt.Desc == fiberCtx+".Params":
		case rt.Kind == "call" && rt.Desc == fiberCtx+".Path":
		case rt.Kind == "call" && rt.Desc == fiberCtx+".Query":
			q := ""
			if s, ok := constString(callArgs(rt.Call)[0]); ok {
				q = s
			}
			if !validatedQueries[q] {
				return false, "ctx.Query(\"" + q + "\") is not validated by DecodeURL"
			}
		case rt.Kind == "call" && strings.HasSuffix(rt.Desc, "(&cell)"):
			// decoded request list: must be validated element-wise before the call
			if !validatedListBefore(f, call, rt.Call) {
				return false, "elements of the list decoded by " + rt.Desc + " are not validated (IsOpaquePath/IsOpaqueId loop) before the call"
			}
		case rt.Kind == "call" && (rt.Desc == "strconv.Itoa" || rt.Desc == "strconv.FormatInt"):
		default:
			return false, rt.String()
		}
		desc = append(desc, rt.String())
	}
	return true, "validated sources only"
}

// validatedListBefore: a loop before `call` applies IsOpaquePath (and IsOpaqueId) to elements of the list
// decoded by `dec`, and its refusing edge reaches no path to `call`.
func validatedListBefore(f *ssa.Function, call ssa.CallInstruction, dec ssa.CallInstruction) bool {
	okPath := false
	for _, ce := range condEdgesOf(f) {
		c, isC := ce.cond.(*ssa.Call)
		if !isC || calleeName(c) != "backend.IsOpaquePath" {
			continue
		}
		elem, same := false, false
		var elemBlocks []*ssa.BasicBlock
		for _, rt := range Origins(callArgs(c)[0], nil) {
			if rt.Kind == "elem" {
				elem = true
				if in, isIn := rt.Val.(ssa.Instruction); isIn && in.Block() != nil {
					elemBlocks = append(elemBlocks, in.Block())
				}
			}
			if rt.Kind == "call" && rt.Call == dec {
				same = true
			}
		}
		if !elem || !same {
			continue
		}
		if reachableFromEdge(f, ce.fails, nil)[call.Block()] {
			continue
		}
		// every element passes the validator: from the block that takes the element, the call is
		// unreachable unless the validator's accepting edge is taken
		skip := false
		for _, eb := range elemBlocks {
			if reachable(f, eb, []edge{ce.holds})[call.Block()] {
				skip = true
			}
		}
		if skip || len(elemBlocks) == 0 {
			continue
		}
		if mayPrecede(c, call) {
			okPath = true
		}
	}
	return okPath
}

func controlsC04() []Control {
	return []Control{
		{Name: "controller reads a file named by the key", Rule: "R-C04-1", File: "s3api/controllers/base.go",
			Old:  "\tpath := ctx.Path()\n\tif path[len(path)-1:] == \"/\" && key[len(key)-1:] != \"/\" {\n\t\tkey = key + \"/\"\n\t}\n\n\tif ctx.Request().URI().QueryArgs().Has(\"tagging\") {\n\t\terr := auth.VerifyAccess(ctx.Context(), c.be, auth.AccessOptions{\n\t\t\tReadonly:      c.readonly,\n\t\t\tAcl:           parsedAcl,\n\t\t\tAclPermission: auth.PermissionRead,",
			New:  "\tpath := ctx.Path()\n\tif path[len(path)-1:] == \"/\" && key[len(key)-1:] != \"/\" {\n\t\tkey = key + \"/\"\n\t}\n\tif b, err := os.ReadFile(key); err == nil && len(b) == 0 {\n\t\tkey = key + \"\"\n\t}\n\n\tif ctx.Request().URI().QueryArgs().Has(\"tagging\") {\n\t\terr := auth.VerifyAccess(ctx.Context(), c.be, auth.AccessOptions{\n\t\t\tReadonly:      c.readonly,\n\t\t\tAcl:           parsedAcl,\n\t\t\tAclPermission: auth.PermissionRead,",
			More: []Edit{{"s3api/controllers/base.go", "import (\n", "import (\n\t\"os\"\n"}}, Expect: "s3api/controllers"},
		{Name: "revert part of 18a6cbc: uploadId no longer validated", Rule: "R-C04-4", File: "s3api/middlewares/url-decoder.go",
			Old: "\t\t\t!backend.IsOpaqueId(ctx.Query(\"uploadId\")) ||\n", New: "", Expect: "uploadId"},
		{Name: "revert part of 18a6cbc: ParseCopySource without validation", Rule: "R-C04-2", File: "backend/common.go",
			Old: "\tif !IsOpaquePath(copySource) || !IsOpaqueId(versionId) {\n\t\treturn \"\", \"\", \"\", s3err.GetAPIError(s3err.ErrInvalidCopySource)\n\t}\n", New: "", Expect: "ParseCopySource"},
		{Name: "revert part of 18a6cbc: batch-delete keys not validated", Rule: "R-C04-3", File: "s3api/controllers/base.go",
			Old: "\t\tif !backend.IsOpaquePath(getstring(obj.Key)) || !backend.IsOpaqueId(getstring(obj.VersionId)) {", New: "\t\tif c.debug && (!backend.IsOpaquePath(getstring(obj.Key)) || !backend.IsOpaqueId(getstring(obj.VersionId))) {", Expect: "Objects"},
		{Name: "GetActions takes the version id from a header", Rule: "R-C04-3", File: "s3api/controllers/base.go",
			Old: "\tparsedAcl := ctx.Locals(\"parsedAcl\").(auth.ACL)\n\tversionId := ctx.Query(\"versionId\")\n\tif keyEnd != \"\" {", New: "\tparsedAcl := ctx.Locals(\"parsedAcl\").(auth.ACL)\n\tversionId := ctx.Get(\"X-Amz-Version-Id\", ctx.Query(\"versionId\"))\n\tif keyEnd != \"\" {", Expect: "VersionId"},
		{Name: "DecodeURL decodes the path a second time after validating", Rule: "R-C04-4", File: "s3api/middlewares/url-decoder.go",
			Old: "\t\tctx.Path(unescp)\n", New: "\t\tif again, err := url.PathUnescape(unescp); err == nil {\n\t\t\tunescp = again\n\t\t}\n\t\tctx.Path(unescp)\n", Expect: "Path<-validated"},
	}
}

// substrAncestors: v and the values it was cut out of (slicing, strings.Cut/TrimPrefix/TrimSuffix/CutPrefix, phis).
func substrAncestors(v ssa.Value) map[ssa.Value]bool {
	out := map[ssa.Value]bool{}
	var walk func(v ssa.Value)
	walk = func(v ssa.Value) {
		if v == nil || out[v] {
			return
		}
		out[v] = true
		switch x := v.(type) {
		case *ssa.Slice:
			walk(x.X)
		case *ssa.Phi:
			for _, e := range x.Edges {
				walk(e)
			}
		case *ssa.Extract:
			if c, ok := x.Tuple.(*ssa.Call); ok {
				switch calleeName(c) {
				case "strings.Cut", "strings.CutPrefix", "strings.CutSuffix":
					walk(c.Call.Args[0])
				}
			}
		case *ssa.Call:
			switch calleeName(x) {
			case "strings.TrimPrefix", "strings.TrimSuffix", "strings.TrimSpace", "strings.Trim", "strings.TrimLeft", "strings.TrimRight":
				walk(x.Call.Args[0])
			}
		case *ssa.UnOp:
			if al, ok := x.X.(*ssa.Alloc); ok && x.Op == token.MUL {
				for _, st := range storesTo(al) {
					walk(st.Val)
				}
			}
		}
	}
	walk(v)
	return out
}
