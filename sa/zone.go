package main

// A small forward abstract interpreter over the SSA form of loop-free integer code.
// Abstract domain: zones (difference-bound matrices) over "base symbols" (integer parameters,
// call results, phis); every other integer value is a linear expression over base symbols.
// Refinement on comparison edges; at control-flow merges the states are kept apart (trace
// partitioning: a bounded disjunction of zones, each with the linear expression every phi stands
// for on that trace) and are joined (element-wise max of bounds) once more than maxParts
// accumulate. No solver: obligations are linear inequalities answered from the difference bounds
// at the program point, so a "yes" is sound for every execution and a "no" names the inequality
// that is not implied.

import (
	"fmt"
	"go/constant"
	"go/token"
	"go/types"
	"math/big"
	"sort"
	"strings"

	"golang.org/x/tools/go/ssa"
)

type zone struct {
	n      int
	m      [][]*big.Int // m[i][j] bounds sym_i - sym_j from above; nil = +inf
	bottom bool
}

func newZone(n int) *zone {
	z := &zone{n: n, m: make([][]*big.Int, n)}
	for i := range z.m {
		z.m[i] = make([]*big.Int, n)
		z.m[i][i] = big.NewInt(0)
	}
	return z
}

func (z *zone) clone() *zone {
	c := newZone(z.n)
	c.bottom = z.bottom
	for i := range z.m {
		for j := range z.m[i] {
			if z.m[i][j] != nil {
				c.m[i][j] = new(big.Int).Set(z.m[i][j])
			}
		}
	}
	return c
}

// add sym_i - sym_j <= c
func (z *zone) add(i, j int, c *big.Int) {
	if z.m[i][j] == nil || c.Cmp(z.m[i][j]) < 0 {
		z.m[i][j] = new(big.Int).Set(c)
	}
}

func (z *zone) close() {
	if z.bottom {
		return
	}
	for k := 0; k < z.n; k++ {
		for i := 0; i < z.n; i++ {
			if z.m[i][k] == nil {
				continue
			}
			for j := 0; j < z.n; j++ {
				if z.m[k][j] == nil {
					continue
				}
				s := new(big.Int).Add(z.m[i][k], z.m[k][j])
				if z.m[i][j] == nil || s.Cmp(z.m[i][j]) < 0 {
					z.m[i][j] = s
				}
			}
		}
	}
	for i := 0; i < z.n; i++ {
		if z.m[i][i].Sign() < 0 {
			z.bottom = true
		}
	}
}

func joinZones(a, b *zone) *zone {
	if a == nil || a.bottom {
		return b
	}
	if b == nil || b.bottom {
		return a
	}
	c := newZone(a.n)
	for i := 0; i < a.n; i++ {
		for j := 0; j < a.n; j++ {
			if a.m[i][j] == nil || b.m[i][j] == nil {
				c.m[i][j] = nil
			} else if a.m[i][j].Cmp(b.m[i][j]) >= 0 {
				c.m[i][j] = new(big.Int).Set(a.m[i][j])
			} else {
				c.m[i][j] = new(big.Int).Set(b.m[i][j])
			}
		}
	}
	return c
}

// forget removes every constraint on sym i.
func (z *zone) forget(i int) {
	for j := 0; j < z.n; j++ {
		if j != i {
			z.m[i][j] = nil
			z.m[j][i] = nil
		}
	}
}

// lin: c + sum co[sym]*sym
type lin struct {
	c  *big.Int
	co map[int]int64
}

func linConst(c *big.Int) lin { return lin{c: new(big.Int).Set(c), co: map[int]int64{}} }
func linSym(i int) lin        { return lin{c: big.NewInt(0), co: map[int]int64{i: 1}} }
func (a lin) plus(b lin, sign int64) lin {
	r := lin{c: new(big.Int).Set(a.c), co: map[int]int64{}}
	for k, v := range a.co {
		r.co[k] = v
	}
	if sign > 0 {
		r.c.Add(r.c, b.c)
	} else {
		r.c.Sub(r.c, b.c)
	}
	for k, v := range b.co {
		r.co[k] += sign * v
		if r.co[k] == 0 {
			delete(r.co, k)
		}
	}
	return r
}

// upper returns an upper bound of the expression in z (nil = unbounded).
func (z *zone) upper(l lin) *big.Int {
	var pos, neg []int
	for k, v := range l.co {
		if v > 3 || v < -3 {
			return nil
		}
		for ; v > 0; v-- {
			pos = append(pos, k)
		}
		for ; v < 0; v++ {
			neg = append(neg, k)
		}
	}
	sort.Ints(pos)
	sort.Ints(neg)
	for len(pos) < len(neg) {
		pos = append(pos, 0)
	}
	for len(neg) < len(pos) {
		neg = append(neg, 0)
	}
	if len(pos) > 4 {
		return nil
	}
	var best *big.Int
	var rec func(i int, used []bool, acc *big.Int)
	rec = func(i int, used []bool, acc *big.Int) {
		if i == len(pos) {
			if best == nil || acc.Cmp(best) < 0 {
				best = new(big.Int).Set(acc)
			}
			return
		}
		for j := range neg {
			if used[j] || z.m[pos[i]][neg[j]] == nil {
				continue
			}
			used[j] = true
			rec(i+1, used, new(big.Int).Add(acc, z.m[pos[i]][neg[j]]))
			used[j] = false
		}
	}
	rec(0, make([]bool, len(neg)), new(big.Int).Set(l.c))
	return best
}

func (l lin) neg() lin { return linConst(big.NewInt(0)).plus(l, -1) }

// implied: l <= 0 holds in z
func (z *zone) implied(l lin) bool {
	if z.bottom {
		return true
	}
	u := z.upper(l)
	return u != nil && u.Sign() <= 0
}

// assume l <= 0 (only when it is a difference constraint; otherwise ignored, which is sound)
func (z *zone) assume(l lin) {
	var pos, neg = 0, 0
	np, nn := 0, 0
	for k, v := range l.co {
		switch v {
		case 1:
			pos = k
			np++
		case -1:
			neg = k
			nn++
		default:
			return
		}
	}
	if np > 1 || nn > 1 {
		return
	}
	// pos - neg + c <= 0  =>  pos - neg <= -c
	z.add(pos, neg, new(big.Int).Neg(l.c))
}

type zoneAI struct {
	p      *Program
	f      *ssa.Function
	syms   map[ssa.Value]int
	names  []string
	lins   map[ssa.Value]lin
	axioms func(v ssa.Value) (lo, hi *big.Int)
	in     map[*ssa.BasicBlock][]*part
	word   int
	joined bool
}

type part struct {
	z   *zone
	sub map[*ssa.Phi]lin
}

const maxParts = 64

var (
	bigMinI64 = new(big.Int).Neg(new(big.Int).Lsh(big.NewInt(1), 63))
	bigMaxI64 = new(big.Int).Sub(new(big.Int).Lsh(big.NewInt(1), 63), big.NewInt(1))
	bigMinI32 = big.NewInt(-1 << 31)
	bigMaxI32 = big.NewInt(1<<31 - 1)
)

func (a *zoneAI) typeBounds(t types.Type) (lo, hi *big.Int, ok bool) {
	b, isB := t.Underlying().(*types.Basic)
	if !isB {
		return nil, nil, false
	}
	switch b.Kind() {
	case types.Int64:
		return bigMinI64, bigMaxI64, true
	case types.Int:
		if a.word == 32 {
			return bigMinI32, bigMaxI32, true
		}
		return bigMinI64, bigMaxI64, true
	case types.Int32:
		return bigMinI32, bigMaxI32, true
	}
	return nil, nil, false
}

func (a *zoneAI) sym(v ssa.Value) int {
	if i, ok := a.syms[v]; ok {
		return i
	}
	i := len(a.names)
	a.syms[v] = i
	nm := v.Name()
	if pr, ok := v.(*ssa.Parameter); ok {
		nm = pr.Name()
	}
	if ex, ok := v.(*ssa.Extract); ok {
		if c, ok := ex.Tuple.(*ssa.Call); ok {
			cn := calleeName(c)
			nm = cn[strings.LastIndex(cn, ".")+1:] + "@L" + itoa(a.p.Fset.Position(c.Pos()).Line)
		}
	}
	if ph, ok := v.(*ssa.Phi); ok && ph.Comment != "" {
		nm = ph.Comment + "'"
	}
	a.names = append(a.names, nm)
	return i
}

func (a *zoneAI) linOf(v ssa.Value) (lin, bool) {
	if l, ok := a.lins[v]; ok {
		return l, true
	}
	if _, _, ok := a.typeBounds(v.Type()); !ok {
		if c, isC := v.(*ssa.Const); !isC || c.Value == nil || c.Value.Kind() != constant.Int {
			return lin{}, false
		}
	}
	var l lin
	switch x := v.(type) {
	case *ssa.Const:
		if x.Value == nil || x.Value.Kind() != constant.Int {
			return lin{}, false
		}
		bi, _ := new(big.Int).SetString(x.Value.ExactString(), 10)
		l = linConst(bi)
	case *ssa.BinOp:
		lx, okx := a.linOf(x.X)
		ly, oky := a.linOf(x.Y)
		switch {
		case x.Op == token.ADD && okx && oky:
			l = lx.plus(ly, 1)
		case x.Op == token.SUB && okx && oky:
			l = lx.plus(ly, -1)
		default:
			l = linSym(a.sym(v))
		}
	case *ssa.Convert:
		lo1, hi1, ok1 := a.typeBounds(x.X.Type())
		lo2, hi2, ok2 := a.typeBounds(x.Type())
		if lx, ok := a.linOf(x.X); ok && ok1 && ok2 && lo2.Cmp(lo1) <= 0 && hi2.Cmp(hi1) >= 0 {
			l = lx
		} else {
			l = linSym(a.sym(v))
		}
	case *ssa.ChangeType:
		if lx, ok := a.linOf(x.X); ok {
			l = lx
		} else {
			l = linSym(a.sym(v))
		}
	default:
		l = linSym(a.sym(v))
	}
	a.lins[v] = l
	return l, true
}

func isBackEdgeFree(f *ssa.Function) bool {
	state := map[*ssa.BasicBlock]int{}
	var dfs func(b *ssa.BasicBlock) bool
	dfs = func(b *ssa.BasicBlock) bool {
		state[b] = 1
		for _, s := range b.Succs {
			if state[s] == 1 {
				return false
			}
			if state[s] == 0 && !dfs(s) {
				return false
			}
		}
		state[b] = 2
		return true
	}
	return len(f.Blocks) == 0 || dfs(f.Blocks[0])
}

func topoBlocks(f *ssa.Function) []*ssa.BasicBlock {
	var order []*ssa.BasicBlock
	seen := map[*ssa.BasicBlock]bool{}
	var dfs func(b *ssa.BasicBlock)
	dfs = func(b *ssa.BasicBlock) {
		seen[b] = true
		for _, s := range b.Succs {
			if !seen[s] {
				dfs(s)
			}
		}
		order = append(order, b)
	}
	dfs(f.Blocks[0])
	for i, j := 0, len(order)-1; i < j; i, j = i+1, j-1 {
		order[i], order[j] = order[j], order[i]
	}
	return order
}

// runZone analyses f. axioms gives extra bounds for base symbols (nil = none).
func runZone(p *Program, f *ssa.Function, axioms func(v ssa.Value) (lo, hi *big.Int)) *zoneAI {
	if !isBackEdgeFree(f) {
		broken("zone analysis: %s has a loop (the interpreter handles loop-free code only)", fnName(f))
	}
	a := &zoneAI{p: p, f: f, syms: map[ssa.Value]int{}, names: []string{"0"}, lins: map[ssa.Value]lin{}, axioms: axioms, in: map[*ssa.BasicBlock][]*part{}, word: 64}
	if strings.HasSuffix(p.Config, "/386") || strings.HasSuffix(p.Config, "/arm") {
		a.word = 32
	}
	// pre-pass: register every integer value
	for _, prm := range f.Params {
		a.linOf(prm)
	}
	for _, b := range f.Blocks {
		for _, in := range b.Instrs {
			if v, ok := in.(ssa.Value); ok {
				a.linOf(v)
			}
			var ops []*ssa.Value
			for _, o := range in.Operands(ops) {
				if *o != nil {
					a.linOf(*o)
				}
			}
		}
	}
	n := len(a.names)
	top := newZone(n)
	for v, i := range a.syms {
		lo, hi, ok := a.typeBounds(v.Type())
		if ok {
			top.add(i, 0, hi)
			top.add(0, i, new(big.Int).Neg(lo))
		}
		if axioms != nil {
			if _, isPhi := v.(*ssa.Phi); !isPhi {
				alo, ahi := axioms(v)
				if alo != nil {
					top.add(0, i, new(big.Int).Neg(alo))
				}
				if ahi != nil {
					top.add(i, 0, ahi)
				}
			}
		}
	}
	top.close()
	order := topoBlocks(f)
	a.in[order[0]] = []*part{{z: top, sub: map[*ssa.Phi]lin{}}}
	for _, b := range order {
		if b == order[0] {
			continue
		}
		var parts []*part
		for _, pr := range b.Preds {
			for _, ps := range a.in[pr] {
				if es := a.edgeState(pr, b, ps); es != nil && !es.z.bottom {
					parts = append(parts, es)
				}
			}
		}
		if len(parts) > maxParts {
			parts = []*part{a.joinParts(parts)}
			a.joined = true
		}
		a.in[b] = parts
	}
	return a
}

// linIn: the linear expression of v on the trace described by sub.
func (a *zoneAI) linIn(v ssa.Value, sub map[*ssa.Phi]lin) (lin, bool) {
	switch x := v.(type) {
	case *ssa.Phi:
		if l, ok := sub[x]; ok {
			return l, true
		}
	case *ssa.BinOp:
		if x.Op == token.ADD || x.Op == token.SUB {
			if _, _, ok := a.typeBounds(x.Type()); ok {
				lx, okx := a.linIn(x.X, sub)
				ly, oky := a.linIn(x.Y, sub)
				if okx && oky {
					if x.Op == token.ADD {
						return lx.plus(ly, 1), true
					}
					return lx.plus(ly, -1), true
				}
			}
		}
	case *ssa.Convert:
		lo1, hi1, ok1 := a.typeBounds(x.X.Type())
		lo2, hi2, ok2 := a.typeBounds(x.Type())
		if ok1 && ok2 && lo2.Cmp(lo1) <= 0 && hi2.Cmp(hi1) >= 0 {
			return a.linIn(x.X, sub)
		}
	case *ssa.ChangeType:
		if l, ok := a.linIn(x.X, sub); ok {
			return l, true
		}
	}
	return a.linOf(v)
}

// edgeState: a trace of pred extended towards b: refined by the branch condition, phis of b bound
// to the expression they take on this edge.
func (a *zoneAI) edgeState(pr, b *ssa.BasicBlock, ps *part) *part {
	z := ps.z.clone()
	if ifi, ok := pr.Instrs[len(pr.Instrs)-1].(*ssa.If); ok && len(pr.Succs) == 2 && pr.Succs[0] != pr.Succs[1] {
		holds := pr.Succs[0] == b
		a.refine(z, ifi.Cond, holds, ps.sub)
		z.close()
		if z.bottom {
			return nil
		}
	}
	pidx := -1
	for i, q := range b.Preds {
		if q == pr {
			pidx = i
		}
	}
	sub := map[*ssa.Phi]lin{}
	for k, v := range ps.sub {
		sub[k] = v
	}
	for _, in := range b.Instrs {
		phi, ok := in.(*ssa.Phi)
		if !ok {
			break
		}
		if e, ok := a.linIn(phi.Edges[pidx], ps.sub); ok {
			sub[phi] = e
		}
	}
	return &part{z: z, sub: sub}
}

// joinParts: the sound fallback when too many traces accumulate: phis become symbols again, bounded
// by what each trace knows about the expression they stood for; zones are joined.
func (a *zoneAI) joinParts(parts []*part) *part {
	var acc *zone
	for _, pt := range parts {
		z := pt.z.clone()
		for phi, e := range pt.sub {
			si, ok := a.syms[phi]
			if !ok {
				continue
			}
			z.forget(si)
			if lo, hi, ok := a.typeBounds(phi.Type()); ok {
				z.add(si, 0, hi)
				z.add(0, si, new(big.Int).Neg(lo))
			}
			if hi := z.upper(e); hi != nil {
				z.add(si, 0, hi)
			}
			if lo := z.upper(e.neg()); lo != nil {
				z.add(0, si, lo)
			}
			if len(e.co) == 1 {
				for s2, co := range e.co {
					if co == 1 && s2 != si {
						z.add(si, s2, e.c)
						z.add(s2, si, new(big.Int).Neg(e.c))
					}
				}
			}
		}
		z.close()
		acc = joinZones(acc, z)
	}
	return &part{z: acc, sub: map[*ssa.Phi]lin{}}
}

// impliedAt: l(sub) <= 0 on every trace reaching b; returns the expression of the first trace that fails.
func (a *zoneAI) impliedAt(b *ssa.BasicBlock, mk func(sub map[*ssa.Phi]lin) (lin, bool)) (bool, string) {
	for _, pt := range a.in[b] {
		l, ok := mk(pt.sub)
		if !ok {
			return false, "not an integer expression"
		}
		if !pt.z.implied(l) {
			return false, a.show(l)
		}
	}
	return true, ""
}

func (a *zoneAI) valueOf(sym int) ssa.Value {
	for v, i := range a.syms {
		if i == sym {
			return v
		}
	}
	return nil
}

func (a *zoneAI) refine(z *zone, cond ssa.Value, holds bool, sub map[*ssa.Phi]lin) {
	switch c := cond.(type) {
	case *ssa.UnOp:
		if c.Op == token.NOT {
			a.refine(z, c.X, !holds, sub)
		}
	case *ssa.BinOp:
		lx, okx := a.linIn(c.X, sub)
		ly, oky := a.linIn(c.Y, sub)
		if !okx || !oky {
			return
		}
		d := lx.plus(ly, -1) // X - Y
		one := linConst(big.NewInt(1))
		op := c.Op
		if !holds {
			switch op {
			case token.LSS:
				op = token.GEQ
			case token.LEQ:
				op = token.GTR
			case token.GTR:
				op = token.LEQ
			case token.GEQ:
				op = token.LSS
			case token.EQL:
				op = token.NEQ
			case token.NEQ:
				op = token.EQL
			}
		}
		switch op {
		case token.LSS: // X - Y + 1 <= 0
			z.assume(d.plus(one, 1))
		case token.LEQ:
			z.assume(d)
		case token.GTR: // Y - X + 1 <= 0
			z.assume(d.neg().plus(one, 1))
		case token.GEQ:
			z.assume(d.neg())
		case token.EQL:
			z.assume(d)
			z.assume(d.neg())
		}
	}
}

func (a *zoneAI) show(l lin) string {
	var parts []string
	var ks []int
	for k := range l.co {
		ks = append(ks, k)
	}
	sort.Ints(ks)
	for _, k := range ks {
		v := l.co[k]
		switch v {
		case 1:
			parts = append(parts, "+"+a.names[k])
		case -1:
			parts = append(parts, "-"+a.names[k])
		default:
			parts = append(parts, fmt.Sprintf("%+d*%s", v, a.names[k]))
		}
	}
	if l.c.Sign() != 0 || len(parts) == 0 {
		parts = append(parts, fmt.Sprintf("%+d", l.c))
	}
	return strings.Join(parts, " ")
}

// overflowSites: every integer ADD/SUB of f whose result is not proven to stay within its type.
func (a *zoneAI) overflowSites() (total int, bad []string) {
	for _, b := range a.f.Blocks {
		if len(a.in[b]) == 0 {
			continue
		}
		for _, in := range b.Instrs {
			bo, ok := in.(*ssa.BinOp)
			if !ok || (bo.Op != token.ADD && bo.Op != token.SUB) {
				continue
			}
			lo, hi, ok := a.typeBounds(bo.Type())
			if !ok {
				continue
			}
			total++
			okUp, w1 := a.impliedAt(b, func(sub map[*ssa.Phi]lin) (lin, bool) {
				l, ok := a.linIn(bo, sub)
				return l.plus(linConst(hi), -1), ok
			})
			okDn, w2 := a.impliedAt(b, func(sub map[*ssa.Phi]lin) (lin, bool) {
				l, ok := a.linIn(bo, sub)
				if !ok {
					return l, false
				}
				return linConst(lo).plus(l, -1), ok
			})
			if !okUp || !okDn {
				bad = append(bad, a.p.Pos(bo.Pos())+": "+w1+w2+" <= 0 not implied")
			}
		}
	}
	return
}
