package main

// A small forward abstract interpreter over the SSA form of loop-free integer code.
// Abstract domain: zones (difference-bound matrices) over "base symbols" (integer parameters,
// call results, phis); every other integer value is a linear expression over base symbols.
// Refinement on comparison edges; at control-flow merges the states are kept apart (trace
// partitioning: a bounded disjunction of zones, each with the linear expression every phi stands
// for on that trace) and are joined (element-wise max of bounds) once more than maxParts
// accumulate. No solver: obligations are linear inequalities answered from the difference bounds
// at the program point, so a "yes" is sound for every execution and a "no" names the inequality
// that is not implied.

import (
	"fmt"
	"go/constant"
	"go/token"
	"go/types"
	"math/big"
	"sort"
	"strings"

	"golang.org/x/tools/go/ssa"
)

type zone struct {
	n      int
	m      [][]*big.Int // m[i][j] bounds sym_i - sym_j from above; nil = +inf
	bottom bool
}

func newZone(n int) *zone {
	z := &zone{n: n, m: make([][]*big.Int, n)}
	for i := range z.m {
		z.m[i] = make([]*big.Int, n)
		z.m[i][i] = big.NewInt(0)
	}
	return z
}

func (z *zone) clone() *zone {
	c := newZone(z.n)
	c.bottom = z.bottom
	for i := range z.m {
		for j := range z.m[i] {
			if z.m[i][j] != nil {
				c.m[i][j] = new(big.Int).Set(z.m[i][j])
			}
		}
	}
	return c
}

// add sym_i - sym_j <= c
func (z *zone) add(i, j int, c *big.Int) {
	if z.m[i][j] == nil || c.Cmp(z.m[i][j]) < 0 {
		z.m[i][j] = new(big.Int).Set(c)
	}
}

func (z *zone) close() {
	if z.bottom {
		return
	}
	for k := 0; k < z.n; k++ {
		for i := 0; i < z.n; i++ {
			if z.m[i][k] == nil {
				continue
			}
			for j := 0; j < z.n; j++ {
				if z.m[k][j] == nil {
					continue
				}
				s := new(big.Int).Add(z.m[i][k], z.m[k][j])
				if z.m[i][j] == nil || s.Cmp(z.m[i][j]) < 0 {
					z.m[i][j] = s
				}
			}
		}
	}
	for i := 0; i < z.n; i++ {
		if z.m[i][i].Sign() < 0 {
			z.bottom = true
		}
	}
}

func joinZones(a, b *zone) *zone {
	if a == nil || a.bottom {
		return b
	}
	if b == nil || b.bottom {
		return a
	}
	c := newZone(a.n)
	for i := 0; i < a.n; i++ {
		for j := 0; j < a.n; j++ {
			if a.m[i][j] == nil || b.m[i][j] == nil {
				c.m[i][j] = nil
			} else if a.m[i][j].Cmp(b.m[i][j]) >= 0 {
				c.m[i][j] = new(big.Int).Set(a.m[i][j])
			} else {
				c.m[i][j] = new(big.Int).Set(b.m[i][j])
			}
		}
	}
	return c
}

// forget removes every constraint on sym i.
func (z *zone) forget(i int) {
	for j := 0; j < z.n; j++ {
		if j != i {
			z.m[i][j] = nil
			z.m[j][i] = nil
		}
	}
}

// lin: c + sum co[sym]*sym
type lin struct {
	c  *big.Int
	co map[int]int64
}

func linConst(c *big.Int) lin { return lin{c: new(big.Int).Set(c), co: map[int]int64{}} }
func linSym(i int) lin        { return lin{c: big.NewInt(0), co: map[int]int64{i: 1}} }
func (a lin) plus(b lin, sign int64) lin {
	r := lin{c: new(big.Int).Set(a.c), co: map[int]int64{}}
	for k, v := range a.co {
		r.co[k] = v
	}
	if sign > 0 {
		r.c.Add(r.c, b.c)
	} else {
		r.c.Sub(r.c, b.c)
	}
	for k, v := range b.co {
		r.co[k] += sign * v
		if r.co[k] == 0 {
			delete(r.co, k)
		}
	}
	return r
}

// upper returns an upper bound of the expression in z (nil = unbounded).
func (z *zone) upper(l lin) *big.Int {
	var pos, neg []int
	for k, v := range l.co {
		if v > 3 || v < -3 {
			return nil
		}
		for ; v > 0; v-- {
			pos = append(pos, k)
		}
		for ; v < 0; v++ {
			neg = append(neg, k)
		}
	}
	sort.Ints(pos)
	sort.Ints(neg)
	for len(pos) < len(neg) {
		pos = append(pos, 0)
	}
	for len(neg) < len(pos) {
		neg = append(neg, 0)
	}
	if len(pos) > 4 {
		return nil
	}
	var best *big.Int
	var rec func(i int, used []bool, acc *big.Int)
	rec = func(i int, used []bool, acc *big.Int) {
		if i == len(pos) {
			if best == nil || acc.Cmp(best) < 0 {
				best = new(big.Int).Set(acc)
			}
			return
		}
		for j := range neg {
			if used[j] || z.m[pos[i]][neg[j]] == nil {
				continue
			}
			used[j] = true
			rec(i+1, used, new(big.Int).Add(acc, z.m[pos[i]][neg[j]]))
			used[j] = false
		}
	}
	rec(0, make([]bool, len(neg)), new(big.Int).Set(l.c))
	return best
}

func (l lin) neg() lin { return linConst(big.NewInt(0)).plus(l, -1) }

// implied: l <= 0 holds in z
func (z *zone) implied(l lin) bool {
	if z.bottom {
		return true
	}
	u := z.upper(l)
	return u != nil && u.Sign() <= 0
}

// assume l <= 0 (only when it is a difference constraint; otherwise ignored, which is sound)
func (z *zone) assume(l lin) {
	var pos, neg = 0, 0
	np, nn := 0, 0
	for k, v := range l.co {
		switch v {
		case 1:
			pos = k
			np++
		case -1:
			neg = k
			nn++
		default:
			return
		}
	}
	if np > 1 || nn > 1 {
		return
	}
	// pos - neg + c <= 0  =>  pos - neg <= -c
	z.add(pos, neg, new(big.Int).Neg(l.c))
}

type zoneAI struct {
	p     *Program
	f     *ssa.Function
	syms  map[ssa.Value]int
	names []string
	lins  map[ssa.Value]lin
	// configuration (set before run)
	axioms    func(v ssa.Value) (lo, hi *big.Int)                         // bounds of base symbols
	override  map[ssa.Value]lin                                           // values modelled by a given expression
	extraSyms []ssa.Value                                                 // synthetic symbols (keyed by a non-integer value)
	setup     func(a *zoneAI, top *zone)                                  // relational axioms
	boolFacts map[ssa.Value][]func(a *zoneAI) lin                         // l <= 0 facts assumed where a boolean value holds
	callFacts map[ssa.Instruction][]func(a *zoneAI, pt *part) (lin, bool) // l <= 0 facts assumed after an instruction
	in, out   map[*ssa.BasicBlock][]*part
	cells     map[*ssa.Alloc]bool // local integer variables whose address does not escape before the return
	word      int
	joined    bool
}

// part: one trace class: a zone, the expression each phi / loaded value stands for on it, and the
// content of the tracked local cells.
type part struct {
	z   *zone
	sub map[ssa.Value]lin
	mem map[*ssa.Alloc]lin
}

func (pt *part) clone() *part {
	c := &part{z: pt.z.clone(), sub: make(map[ssa.Value]lin, len(pt.sub)), mem: make(map[*ssa.Alloc]lin, len(pt.mem))}
	for k, v := range pt.sub {
		c.sub[k] = v
	}
	for k, v := range pt.mem {
		c.mem[k] = v
	}
	return c
}

const maxParts = 64

var (
	bigMinI64 = new(big.Int).Neg(new(big.Int).Lsh(big.NewInt(1), 63))
	bigMaxI64 = new(big.Int).Sub(new(big.Int).Lsh(big.NewInt(1), 63), big.NewInt(1))
)

// typeBounds: the interpreter tracks int64 values (offsets, lengths, sizes); everything else is opaque.
func (a *zoneAI) typeBounds(t types.Type) (lo, hi *big.Int, ok bool) {
	b, isB := t.Underlying().(*types.Basic)
	if !isB {
		return nil, nil, false
	}
	if b.Kind() == types.Int64 {
		return bigMinI64, bigMaxI64, true
	}
	return nil, nil, false
}

func (a *zoneAI) sym(v ssa.Value) int {
	if i, ok := a.syms[v]; ok {
		return i
	}
	i := len(a.names)
	a.syms[v] = i
	nm := v.Name()
	if pr, ok := v.(*ssa.Parameter); ok {
		nm = pr.Name()
	}
	if ex, ok := v.(*ssa.Extract); ok {
		if c, ok := ex.Tuple.(*ssa.Call); ok {
			cn := calleeName(c)
			nm = cn[strings.LastIndex(cn, ".")+1:] + "#" + itoa(ex.Index) + "@L" + itoa(a.p.Fset.Position(c.Pos()).Line)
		}
	}
	if c, ok := v.(*ssa.Call); ok {
		cn := calleeName(c)
		nm = cn[strings.LastIndex(cn, ".")+1:] + "@L" + itoa(a.p.Fset.Position(c.Pos()).Line)
	}
	if ph, ok := v.(*ssa.Phi); ok && ph.Comment != "" {
		nm = ph.Comment + "'"
	}
	a.names = append(a.names, nm)
	return i
}

func constBig(x *ssa.Const) (*big.Int, bool) {
	if x.Value == nil || x.Value.Kind() != constant.Int {
		return nil, false
	}
	bi, ok := new(big.Int).SetString(x.Value.ExactString(), 10)
	return bi, ok
}

// linOf: trace-independent expression of v (phis and loads are symbols).
func (a *zoneAI) linOf(v ssa.Value) (lin, bool) {
	if l, ok := a.override[v]; ok {
		return l, true
	}
	if l, ok := a.lins[v]; ok {
		return l, true
	}
	if c, isC := v.(*ssa.Const); isC {
		if bi, ok := constBig(c); ok {
			if _, _, okT := a.typeBounds(v.Type()); okT {
				return linConst(bi), true
			}
		}
		return lin{}, false
	}
	if _, _, ok := a.typeBounds(v.Type()); !ok {
		return lin{}, false
	}
	var l lin
	switch x := v.(type) {
	case *ssa.BinOp:
		lx, okx := a.linOf(x.X)
		ly, oky := a.linOf(x.Y)
		switch {
		case x.Op == token.ADD && okx && oky:
			l = lx.plus(ly, 1)
		case x.Op == token.SUB && okx && oky:
			l = lx.plus(ly, -1)
		default:
			l = linSym(a.sym(v))
		}
	case *ssa.ChangeType:
		if lx, ok := a.linOf(x.X); ok {
			l = lx
		} else {
			l = linSym(a.sym(v))
		}
	default:
		l = linSym(a.sym(v))
	}
	a.lins[v] = l
	return l, true
}

// linIn: the expression of v on the trace class pt.
func (a *zoneAI) linIn(v ssa.Value, pt *part) (lin, bool) {
	if pt != nil {
		if l, ok := pt.sub[v]; ok {
			return l, true
		}
	}
	if l, ok := a.override[v]; ok {
		return l, true
	}
	switch x := v.(type) {
	case *ssa.BinOp:
		if x.Op == token.ADD || x.Op == token.SUB {
			if _, _, ok := a.typeBounds(x.Type()); ok {
				lx, okx := a.linIn(x.X, pt)
				ly, oky := a.linIn(x.Y, pt)
				if okx && oky {
					if x.Op == token.ADD {
						return lx.plus(ly, 1), true
					}
					return lx.plus(ly, -1), true
				}
			}
		}
	case *ssa.ChangeType:
		if l, ok := a.linIn(x.X, pt); ok {
			return l, true
		}
	}
	return a.linOf(v)
}

func isBackEdgeFree(f *ssa.Function) bool {
	state := map[*ssa.BasicBlock]int{}
	var dfs func(b *ssa.BasicBlock) bool
	dfs = func(b *ssa.BasicBlock) bool {
		state[b] = 1
		for _, s := range b.Succs {
			if state[s] == 1 {
				return false
			}
			if state[s] == 0 && !dfs(s) {
				return false
			}
		}
		state[b] = 2
		return true
	}
	return len(f.Blocks) == 0 || dfs(f.Blocks[0])
}

func topoBlocks(f *ssa.Function) []*ssa.BasicBlock {
	var order []*ssa.BasicBlock
	seen := map[*ssa.BasicBlock]bool{}
	var dfs func(b *ssa.BasicBlock)
	dfs = func(b *ssa.BasicBlock) {
		seen[b] = true
		for _, s := range b.Succs {
			if !seen[s] {
				dfs(s)
			}
		}
		order = append(order, b)
	}
	dfs(f.Blocks[0])
	for i, j := 0, len(order)-1; i < j; i, j = i+1, j-1 {
		order[i], order[j] = order[j], order[i]
	}
	return order
}

func newZoneAI(p *Program, f *ssa.Function) *zoneAI {
	return &zoneAI{p: p, f: f, syms: map[ssa.Value]int{}, names: []string{"0"}, lins: map[ssa.Value]lin{}, override: map[ssa.Value]lin{},
		boolFacts: map[ssa.Value][]func(a *zoneAI) lin{}, callFacts: map[ssa.Instruction][]func(a *zoneAI, pt *part) (lin, bool){}, in: map[*ssa.BasicBlock][]*part{}, out: map[*ssa.BasicBlock][]*part{}, cells: map[*ssa.Alloc]bool{}, word: 64}
}

// runZone analyses f. axioms gives extra bounds for base symbols (nil = none).
func runZone(p *Program, f *ssa.Function, axioms func(v ssa.Value) (lo, hi *big.Int)) *zoneAI {
	a := newZoneAI(p, f)
	a.axioms = axioms
	a.run()
	return a
}

// trackableCell: a local int64 variable that is only stored to, loaded from, or whose address is
// put into a struct literal field in a block that returns (the output literal).
func trackableCell(al *ssa.Alloc) bool {
	if al.Referrers() == nil {
		return false
	}
	for _, ref := range *al.Referrers() {
		switch x := ref.(type) {
		case *ssa.UnOp:
			if x.Op != token.MUL {
				return false
			}
		case *ssa.Store:
			if x.Addr == ssa.Value(al) {
				continue
			}
			// address stored: only into a field of a literal, in a returning block
			if _, isFA := x.Addr.(*ssa.FieldAddr); !isFA {
				return false
			}
			if _, isRet := x.Block().Instrs[len(x.Block().Instrs)-1].(*ssa.Return); !isRet {
				return false
			}
		case *ssa.DebugRef:
		default:
			return false
		}
	}
	return true
}

func (a *zoneAI) run() {
	f := a.f
	if !isBackEdgeFree(f) {
		broken("zone analysis: %s has a loop (the interpreter handles loop-free code only)", fnName(f))
	}
	for _, v := range a.extraSyms {
		a.sym(v)
	}
	for _, prm := range f.Params {
		a.linOf(prm)
	}
	for _, b := range f.Blocks {
		for _, in := range b.Instrs {
			if al, ok := in.(*ssa.Alloc); ok {
				if pt, ok := al.Type().Underlying().(*types.Pointer); ok {
					if _, _, okT := a.typeBounds(pt.Elem()); okT && trackableCell(al) {
						a.cells[al] = true
					}
				}
			}
			if v, ok := in.(ssa.Value); ok {
				a.linOf(v)
			}
			var ops []*ssa.Value
			for _, o := range in.Operands(ops) {
				if *o != nil {
					a.linOf(*o)
				}
			}
		}
	}
	n := len(a.names)
	top := newZone(n)
	for v, i := range a.syms {
		if lo, hi, ok := a.typeBounds(v.Type()); ok {
			top.add(i, 0, hi)
			top.add(0, i, new(big.Int).Neg(lo))
		}
		if a.axioms != nil {
			if _, isPhi := v.(*ssa.Phi); !isPhi {
				alo, ahi := a.axioms(v)
				if alo != nil {
					top.add(0, i, new(big.Int).Neg(alo))
				}
				if ahi != nil {
					top.add(i, 0, ahi)
				}
			}
		}
	}
	if a.setup != nil {
		a.setup(a, top)
	}
	top.close()
	order := topoBlocks(f)
	for _, b := range order {
		var parts []*part
		if b == order[0] {
			parts = []*part{{z: top, sub: map[ssa.Value]lin{}, mem: map[*ssa.Alloc]lin{}}}
		} else {
			seen := map[string]bool{}
			for _, pr := range b.Preds {
				for _, ps := range a.out[pr] {
					if ps.z.bottom {
						continue
					}
					es := a.edgeState(pr, b, ps)
					if es == nil || es.z.bottom {
						continue
					}
					k := a.partKey(es)
					if seen[k] {
						continue
					}
					seen[k] = true
					parts = append(parts, es)
				}
			}
			if len(parts) > maxParts {
				parts = []*part{a.joinParts(parts)}
				a.joined = true
			}
		}
		a.in[b] = parts
		var outs []*part
		for _, pt := range parts {
			outs = append(outs, a.transfer(b, pt)...)
		}
		a.out[b] = outs
	}
}

func (a *zoneAI) partKey(pt *part) string {
	var sb strings.Builder
	for i := range pt.z.m {
		for j := range pt.z.m[i] {
			if pt.z.m[i][j] == nil {
				sb.WriteString("~,")
			} else {
				sb.WriteString(pt.z.m[i][j].String())
				sb.WriteByte(',')
			}
		}
	}
	var ks []string
	for v, l := range pt.sub {
		ks = append(ks, v.Name()+"="+a.show(l))
	}
	for v, l := range pt.mem {
		ks = append(ks, "*"+v.Name()+"="+a.show(l))
	}
	sort.Strings(ks)
	sb.WriteString(strings.Join(ks, ";"))
	return sb.String()
}

// transfer: the effect of the instructions of b on one trace class (stores to and loads from the
// tracked local cells, and the builtins min/max of two integers, which split the class by which operand is the
// result; everything else is expression-valued SSA and needs no state).
func (a *zoneAI) transfer(b *ssa.BasicBlock, in *part) []*part {
	parts := []*part{in}
	owned := []bool{false}
	own := func(i int) *part {
		if !owned[i] {
			parts[i] = parts[i].clone()
			owned[i] = true
		}
		return parts[i]
	}
	for _, ins := range b.Instrs {
		if fs := a.callFacts[ins]; len(fs) > 0 {
			for i := range parts {
				pt := own(i)
				for _, mk := range fs {
					if l, ok := mk(a, pt); ok {
						pt.z.assume(l)
					}
				}
				pt.z.close()
			}
		}
		switch x := ins.(type) {
		case *ssa.Store:
			if al, ok := x.Addr.(*ssa.Alloc); ok && a.cells[al] {
				for i := range parts {
					pt := own(i)
					if l, ok := a.linIn(x.Val, pt); ok {
						pt.mem[al] = l
					} else {
						delete(pt.mem, al)
					}
				}
			}
		case *ssa.UnOp:
			if al, ok := x.X.(*ssa.Alloc); ok && x.Op == token.MUL && a.cells[al] {
				for i := range parts {
					pt := own(i)
					if l, ok := pt.mem[al]; ok {
						pt.sub[x] = l
					} else if stored := a.everStored(al, pt); !stored {
						pt.sub[x] = linConst(big.NewInt(0)) // zero value of a fresh local
					}
				}
			}
		case *ssa.Call:
			bi, ok := x.Call.Value.(*ssa.Builtin)
			if !ok || (bi.Name() != "min" && bi.Name() != "max") || len(x.Call.Args) != 2 {
				break
			}
			if _, _, okT := a.typeBounds(x.Type()); !okT {
				break
			}
			var next []*part
			var nown []bool
			for i := range parts {
				pt := parts[i]
				l0, ok0 := a.linIn(x.Call.Args[0], pt)
				l1, ok1 := a.linIn(x.Call.Args[1], pt)
				if !ok0 || !ok1 {
					next, nown = append(next, pt), append(nown, owned[i])
					continue
				}
				for k := 0; k < 2; k++ {
					np := pt.clone()
					small, large := l0, l1
					if k == 1 {
						small, large = l1, l0
					}
					np.z.assume(small.plus(large, -1)) // small - large <= 0
					np.z.close()
					if np.z.bottom {
						continue
					}
					if bi.Name() == "min" {
						np.sub[x] = small
					} else {
						np.sub[x] = large
					}
					next, nown = append(next, np), append(nown, true)
				}
			}
			parts, owned = next, nown
		}
	}
	return parts
}

// everStored: a cell with no entry in mem is zero only if no store can have happened; a store whose
// value was not an integer expression deletes the entry, so distinguish by scanning the stores.
func (a *zoneAI) everStored(al *ssa.Alloc, pt *part) bool {
	for _, ref := range *al.Referrers() {
		if st, ok := ref.(*ssa.Store); ok && st.Addr == ssa.Value(al) {
			if _, ok := a.linOf(st.Val); !ok {
				return true
			}
		}
	}
	// all stores have integer expressions: absence from mem means none executed on this trace
	return false
}

// edgeState: a trace class of pred extended towards b: refined by the branch condition, phis of b
// bound to the expression they take on this edge.
func (a *zoneAI) edgeState(pr, b *ssa.BasicBlock, ps *part) *part {
	np := ps.clone()
	if ifi, ok := pr.Instrs[len(pr.Instrs)-1].(*ssa.If); ok && len(pr.Succs) == 2 && pr.Succs[0] != pr.Succs[1] {
		holds := pr.Succs[0] == b
		a.refine(np.z, ifi.Cond, holds, ps)
		np.z.close()
		if np.z.bottom {
			return nil
		}
	}
	pidx := -1
	for i, q := range b.Preds {
		if q == pr {
			pidx = i
		}
	}
	for _, in := range b.Instrs {
		phi, ok := in.(*ssa.Phi)
		if !ok {
			break
		}
		if e, ok := a.linIn(phi.Edges[pidx], ps); ok {
			np.sub[phi] = e
		}
	}
	return np
}

// joinParts: the sound fallback when too many trace classes accumulate: substituted values become
// symbols again, bounded by what each class knows about the expression they stood for.
func (a *zoneAI) joinParts(parts []*part) *part {
	var acc *zone
	for _, pt := range parts {
		z := pt.z.clone()
		for v, e := range pt.sub {
			si, ok := a.syms[v]
			if !ok {
				continue
			}
			z.forget(si)
			if lo, hi, ok := a.typeBounds(v.Type()); ok {
				z.add(si, 0, hi)
				z.add(0, si, new(big.Int).Neg(lo))
			}
			if hi := z.upper(e); hi != nil {
				z.add(si, 0, hi)
			}
			if nlo := z.upper(e.neg()); nlo != nil {
				z.add(0, si, nlo)
			}
			if len(e.co) == 1 {
				for s2, co := range e.co {
					if co == 1 && s2 != si {
						z.add(si, s2, e.c)
						z.add(s2, si, new(big.Int).Neg(e.c))
					}
				}
			}
		}
		z.close()
		acc = joinZones(acc, z)
	}
	return &part{z: acc, sub: map[ssa.Value]lin{}, mem: map[*ssa.Alloc]lin{}}
}

// impliedAt: l <= 0 on every trace class leaving b; returns the expression of the first that fails.
func (a *zoneAI) impliedAt(b *ssa.BasicBlock, mk func(pt *part) (lin, bool)) (bool, string) {
	for _, pt := range a.out[b] {
		if pt.z.bottom {
			continue
		}
		l, ok := mk(pt)
		if !ok {
			return false, "not an integer expression"
		}
		if !pt.z.implied(l) {
			return false, a.show(l)
		}
	}
	return true, ""
}

// equalAt: the two expressions are the same linear form on every trace class leaving b.
func (a *zoneAI) equalAt(b *ssa.BasicBlock, x, y func(pt *part) (lin, bool)) (bool, string) {
	for _, pt := range a.out[b] {
		if pt.z.bottom {
			continue
		}
		lx, ok1 := x(pt)
		ly, ok2 := y(pt)
		if !ok1 || !ok2 {
			return false, "not an integer expression"
		}
		d := lx.plus(ly, -1)
		if !(pt.z.implied(d) && pt.z.implied(d.neg())) {
			return false, a.show(lx) + " vs " + a.show(ly)
		}
	}
	return true, ""
}

func (a *zoneAI) refine(z *zone, cond ssa.Value, holds bool, pt *part) {
	if holds {
		for _, mk := range a.boolFacts[cond] {
			z.assume(mk(a))
		}
	}
	switch c := cond.(type) {
	case *ssa.UnOp:
		if c.Op == token.NOT {
			a.refine(z, c.X, !holds, pt)
		} else if c.Op == token.MUL {
			// a boolean loaded from a local: not tracked
		}
	case *ssa.BinOp:
		lx, okx := a.linIn(c.X, pt)
		ly, oky := a.linIn(c.Y, pt)
		if !okx || !oky {
			return
		}
		d := lx.plus(ly, -1) // X - Y
		one := linConst(big.NewInt(1))
		op := c.Op
		if !holds {
			switch op {
			case token.LSS:
				op = token.GEQ
			case token.LEQ:
				op = token.GTR
			case token.GTR:
				op = token.LEQ
			case token.GEQ:
				op = token.LSS
			case token.EQL:
				op = token.NEQ
			case token.NEQ:
				op = token.EQL
			}
		}
		switch op {
		case token.LSS: // X - Y + 1 <= 0
			z.assume(d.plus(one, 1))
		case token.LEQ:
			z.assume(d)
		case token.GTR: // Y - X + 1 <= 0
			z.assume(d.neg().plus(one, 1))
		case token.GEQ:
			z.assume(d.neg())
		case token.EQL:
			z.assume(d)
			z.assume(d.neg())
		}
	}
}

func (a *zoneAI) show(l lin) string {
	var parts []string
	var ks []int
	for k := range l.co {
		ks = append(ks, k)
	}
	sort.Ints(ks)
	for _, k := range ks {
		v := l.co[k]
		switch v {
		case 1:
			parts = append(parts, "+"+a.names[k])
		case -1:
			parts = append(parts, "-"+a.names[k])
		default:
			parts = append(parts, fmt.Sprintf("%+d*%s", v, a.names[k]))
		}
	}
	if l.c.Sign() != 0 || len(parts) == 0 {
		parts = append(parts, fmt.Sprintf("%+d", l.c))
	}
	return strings.Join(parts, " ")
}

// overflowSites: every int64 ADD/SUB of f whose result is not proven to stay within its type.
func (a *zoneAI) overflowSites() (total int, bad []string) {
	for _, b := range a.f.Blocks {
		if len(a.out[b]) == 0 {
			continue
		}
		for _, in := range b.Instrs {
			bo, ok := in.(*ssa.BinOp)
			if !ok || (bo.Op != token.ADD && bo.Op != token.SUB) {
				continue
			}
			lo, hi, ok := a.typeBounds(bo.Type())
			if !ok {
				continue
			}
			total++
			okUp, w1 := a.impliedAt(b, func(pt *part) (lin, bool) {
				l, ok := a.linIn(bo, pt)
				if !ok {
					return l, false
				}
				return l.plus(linConst(hi), -1), ok
			})
			okDn, w2 := a.impliedAt(b, func(pt *part) (lin, bool) {
				l, ok := a.linIn(bo, pt)
				if !ok {
					return l, false
				}
				return linConst(lo).plus(l, -1), ok
			})
			if !okUp || !okDn {
				bad = append(bad, a.p.Pos(bo.Pos())+": "+w1+w2+" <= 0 not implied")
			}
		}
	}
	return
}
