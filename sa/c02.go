package main

import (
	"go/token"
	"strings"

	"golang.org/x/tools/go/ssa"
)

func init() {
	register(&propCheck{id: "C02", run: runC02, controls: controlsC02})
}

const (
	mwPkg    = "s3api/middlewares"
	utilsPkg = "s3api/utils"
)

func runC02(p *Program, r *Report) {
	r.Rule("R-C02-1", "middleware order: in s3api.New and NewAdminServer the authentication middlewares are registered with app.Use before any route handler (only exception: the GET health probe), DecodeURL before them, VerifyMD5Body and AclParser before the routes", 20)
	r.Rule("R-C02-2", "every exit of the auth middlewares is a verdict: ctx.Next() is reachable only through CheckValidSignature/CheckPresignedSignature success, the deferred (BIG) branch that installs the Auth reader, or the frozen shortcuts; account lookup, date/expiry validation and chunk-reader construction errors are tested and fail closed", 12)
	r.Rule("R-C02-3", "deferred requests reach only draining handlers: in every handler that a deferred-authentication (BIG) request can reach, each backend/IAM call reachable without an edge that implies 'not BIG' is PutObject/UploadPart receiving Locals(\"body-reader\") as Body", 20)
	r.Rule("R-C02-4", "draining backends commit only after end-of-stream: in posix PutObject/UploadPart every persistent effect is reachable only through the success edge of an io.Copy/io.ReadAll that reads Body (through EOF-transparent wrappers only) to its end", 10)
	r.Rule("R-C02-5", "no reader layer swallows the verdict: the auth readers return the inner io.EOF only after the signature check succeeded; chunk readers return a literal io.EOF only after the inner reader was read to its end (drain success or an EOF-witness field set from the inner reader's EOF)", 5)

	c02Order(p, r)
	c02Middleware(p, r)
	big := c02BigAtoms(p, r)
	c02Handlers(p, r, big)
	c02Drain(p, r)
	c02Readers(p, r)
}

// ---- R-C02-1 ---------------------------------------------------------------------

func c02Order(p *Program, r *Report) {
	tab := routeTable(p)
	type srv struct {
		fn   string
		need []string // middlewares that must precede every route
	}
	for _, s := range []srv{
		{"s3api.New", []string{mwPkg + ".DecodeURL", mwPkg + ".VerifyPresignedV4Signature", mwPkg + ".VerifyV4Signature", mwPkg + ".VerifyMD5Body", mwPkg + ".AclParser"}},
		{"s3api.NewAdminServer", []string{mwPkg + ".DecodeURL", mwPkg + ".VerifyV4Signature", mwPkg + ".VerifyMD5Body", mwPkg + ".IsAdmin"}},
	} {
		flat := flattenRoutes(tab, s.fn)
		seen := map[string]bool{}
		order := []string{}
		nroutes := 0
		for _, e := range flat {
			if e.Kind == "use" && e.Cond == "" && e.Pattern == "" {
				for _, h := range e.Handlers {
					if !seen[h] {
						seen[h] = true
						order = append(order, h)
					}
				}
				continue
			}
			if e.Kind != "route" {
				continue
			}
			nroutes++
			key := s.fn + ":" + e.Method + " " + e.Pattern
			if e.Method == "GET" && strings.HasPrefix(e.Pattern, "<") && len(e.Handlers) == 1 && (e.Handlers[0] == "<closure>" || strings.HasPrefix(e.Handlers[0], "s3api.")) {
				// frozen exception: unauthenticated liveness probe, returns no data
				ok := c02HealthHarmless(p, e)
				r.Check(ok, "R-C02-1", key+":health", p.Pos(e.Pos), "exempt: health probe returns only a status", "the route registered ahead of authentication is not a bare status probe")
				continue
			}
			missing := []string{}
			for _, n := range s.need {
				if !seen[n] {
					missing = append(missing, n)
				}
			}
			r.Check(len(missing) == 0, "R-C02-1", key, p.Pos(e.Pos), "registered after "+strings.Join(s.need, ", "), "route is registered before middleware(s) "+strings.Join(missing, ", ")+": requests to it skip them")
		}
		if nroutes < 6 {
			broken("R-C02-1: only %d routes under %s", nroutes, s.fn)
		}
		// relative order of the middlewares themselves
		idx := map[string]int{}
		for i, h := range order {
			idx[h] = i + 1
		}
		for i := 0; i+1 < len(s.need); i++ {
			a, b := s.need[i], s.need[i+1]
			r.Check(idx[a] > 0 && idx[b] > 0 && idx[a] < idx[b], "R-C02-1", s.fn+":order:"+a[len(mwPkg)+1:]+"<"+b[len(mwPkg)+1:], "s3api", "in order", "middleware "+a+" must be registered before "+b)
		}
	}
}

// the health closure only calls ctx.SendStatus (the closure is found by the position of the function literal
// in the registration, wherever the registration was moved to)
func c02HealthHarmless(p *Program, e regEntry) bool {
	if len(e.Closures) == 0 && len(e.Handlers) == 1 {
		// a named function of the package as handler
		cl := p.FuncOpt(e.Handlers[0])
		if cl == nil || !isFiberHandlerSig(cl.Signature) {
			return false
		}
		for _, c := range callsIn(cl) {
			if calleeName(c) != fiberCtx+".SendStatus" {
				return false
			}
		}
		return true
	}
	if len(e.Closures) != 1 {
		return false
	}
	var visit func(f *ssa.Function) *ssa.Function
	visit = func(f *ssa.Function) *ssa.Function {
		if f.Pos() == e.Closures[0] {
			return f
		}
		for _, a := range f.AnonFuncs {
			if g := visit(a); g != nil {
				return g
			}
		}
		return nil
	}
	var cl *ssa.Function
	for _, f := range pkgFuncs(p.SSA, p.SSAPkg["s3api"]) {
		if g := visit(f); g != nil {
			cl = g
		}
	}
	if cl == nil || !isFiberHandlerSig(cl.Signature) {
		return false
	}
	for _, c := range callsIn(cl) {
		if calleeName(c) != fiberCtx+".SendStatus" {
			return false
		}
	}
	return true
}

// ---- R-C02-2 ---------------------------------------------------------------------

// eofConds: conditions that test an error against io.EOF; holds = "is EOF".
func isEOFCond(ce condEdge) bool {
	return ce.atoms["global:EOF"] && (ce.isEqNeq || ce.atoms["call:errors.Is"])
}

func bigCalls(f *ssa.Function) []condEdge {
	var out []condEdge
	for _, ce := range condEdgesOf(f) {
		if c, ok := ce.cond.(*ssa.Call); ok && calleeName(c) == utilsPkg+".IsBigDataAction" {
			out = append(out, ce)
		}
	}
	return out
}

// wrapCallsWith: where f installs a reader built by one of ctors as the request's body reader. The contract
// between the middlewares and the handlers is the context local "body-reader": an install is a
// ctx.Locals("body-reader", v) whose v comes from the constructor. Helpers around it (a wrapper taking a callback,
// a setter) are inlined by the normaliser, callbacks included, so the shape of the plumbing does not matter.
func wrapCallsWith(f *ssa.Function, ctors ...string) []ssa.CallInstruction {
	var out []ssa.CallInstruction
	for _, c := range callsTo(f, fiberCtx+".Locals") {
		args := callArgs(c)
		if len(args) < 2 {
			continue
		}
		if k, ok := constString(args[0]); !ok || k != "body-reader" {
			continue
		}
		good := false
		for _, v := range args[1:] {
			for _, rt := range Origins(v, nil) {
				if rt.Kind == "call" && contains(ctors, rt.Desc) {
					good = true
				}
				// the callback that builds the reader as a method value / named function of this package
				if cc, isCall := rt.Call.(*ssa.Call); isCall && rt.Kind == "call" {
					for _, m := range funcValuesOf(cc.Call.Value) {
						if m == nil || m.Pkg != f.Pkg || len(m.Blocks) == 0 {
							continue
						}
						for _, ic := range callsIn(m) {
							if contains(ctors, calleeName(ic)) {
								good = true
							}
						}
					}
				}
			}
		}
		if good {
			out = append(out, c)
		}
	}
	return out
}

func reachableAvoiding(f *ssa.Function, from *ssa.BasicBlock, cut []edge, avoid map[*ssa.BasicBlock]bool) map[*ssa.BasicBlock]bool {
	var c2 []edge
	c2 = append(c2, cut...)
	for _, b := range f.Blocks {
		for i, s := range b.Succs {
			if avoid[s] {
				c2 = append(c2, edge{b, i})
			}
		}
	}
	if from == nil && len(f.Blocks) > 0 {
		from = f.Blocks[0]
	}
	if from != nil && avoid[from] {
		return map[*ssa.BasicBlock]bool{}
	}
	return reachable(f, from, c2)
}

func c02Middleware(p *Program, r *Report) {
	// header middleware
	hf := p.Func(mwPkg + ".VerifyV4Signature$1")
	pf := p.Func(mwPkg + ".VerifyPresignedV4Signature$1")
	for _, mw := range []struct {
		f        *ssa.Function
		check    string
		ctor     string
		shortcut func(ce condEdge) bool
		required []string
	}{
		{hf, utilsPkg + ".CheckValidSignature", utilsPkg + ".NewAuthReader",
			func(ce condEdge) bool { // presigned request already authenticated: Locals("account").(auth.Account) ok
				if ex, ok := ce.cond.(*ssa.Extract); ok && ex.Index == 1 {
					if ta, ok := ex.Tuple.(*ssa.TypeAssert); ok {
						return hasCallRoot(Origins(ta.X, nil), fiberCtx+".Locals", "account")
					}
				}
				return false
			},
			[]string{"(" + mwPkg + ".accounts).getAccount", utilsPkg + ".ValidateDate", "time.Parse", utilsPkg + ".ParseAuthorization"}},
		{pf, utilsPkg + ".CheckPresignedSignature", utilsPkg + ".NewPresignedAuthReader",
			func(ce condEdge) bool { // not a presigned request: falls through to the header middleware
				return ce.isEqNeq && ce.atoms["arg:X-Amz-Signature"] && ce.atoms[`const:""`]
			},
			[]string{"(" + mwPkg + ".accounts).getAccount", utilsPkg + ".ParsePresignedURIParts"}},
	} {
		f := mw.f
		name := fnName(f)
		nexts := callsTo(f, fiberCtx+".Next")
		keys := siteKeys(f, nexts)
		if len(nexts) == 0 {
			r.Viol("R-C02-2", name+"/Next", p.Pos(f.Pos()), "no ctx.Next() in the middleware")
			continue
		}
		var cut []edge
		var shortcutE []edge
		for _, c := range callsTo(f, mw.check) {
			cut = append(cut, successEdges(c)...)
		}
		bigs := bigCalls(f)
		for _, b := range bigs {
			cut = append(cut, b.holds)
		}
		for _, ce := range condEdgesOf(f) {
			if mw.shortcut(ce) {
				shortcutE = append(shortcutE, ce.holds)
			}
		}
		var bigE []edge
		for _, b := range bigs {
			bigE = append(bigE, b.holds)
		}
		otherE := append(append([]edge{}, bigE...), shortcutE...)
		for _, nx := range nexts {
			ok, why := mustSucceedBefore(f, callsTo(f, mw.check), otherE, []*ssa.BasicBlock{nx.Block()})
			r.Check(ok, "R-C02-2", keys[nx]+":verdict", p.Pos(nx.Pos()), "Next() only after a verdict, the deferred branch or the frozen shortcut",
				"ctx.Next() is reachable without signature verification, without the deferred-authentication branch and without the frozen shortcut ("+why+"): an unverified request proceeds")
		}
		// the deferred branch installs the auth reader before Next
		wr := wrapCallsWith(f, mw.ctor)
		if len(bigs) == 0 {
			r.Viol("R-C02-2", name+"/deferred-branch", p.Pos(f.Pos()), "no IsBigDataAction branch")
		}
		for i, b := range bigs {
			avoid := map[*ssa.BasicBlock]bool{}
			for _, w := range wr {
				avoid[w.Block()] = true
			}
			reach := reachableAvoiding(f, b.holds.from.Succs[b.holds.succ], nil, avoid)
			bad := len(wr) == 0
			for _, nx := range nexts {
				if reach[nx.Block()] {
					bad = true
				}
			}
			r.Check(!bad, "R-C02-2", name+"/deferred-branch#"+itoa(i+1)+":installs-auth-reader", p.Pos(b.pos()), "deferred branch reaches Next only after wrapBodyReader("+mw.ctor+")",
				"the deferred-authentication branch can reach ctx.Next() without installing "+mw.ctor+" as body reader: nothing will ever verify the request")
		}
		// required validations fail closed and precede verdict/deferred branch
		for _, req := range mw.required {
			cs := callsTo(f, req)
			if len(cs) == 0 {
				r.Viol("R-C02-2", name+"/"+req, p.Pos(f.Pos()), "required validation "+req+" is no longer called")
				continue
			}
			var nb []*ssa.BasicBlock
			for _, nx := range nexts {
				nb = append(nb, nx.Block())
			}
			for _, c := range cs {
				ok, why := mustSucceedBefore(f, cs, shortcutE, nb)
				r.Check(ok, "R-C02-2", name+"/"+req+":fails-closed", p.Pos(c.Pos()), "Next() unreachable unless "+req+" succeeded", "ctx.Next() is reachable although "+req+" failed or its error is not tested ("+why+")")
			}
		}
	}
	// header middleware: region check, date equality and sha256 comparison fail closed:
	// their refusing edges reach no Next
	nexts := callsTo(hf, fiberCtx+".Next")
	n := 0
	var foundWhat []string
	for _, ce := range condEdgesOf(hf) {
		var refuse *edge
		what := ""
		switch {
		case ce.isEqNeq && ce.atoms["field:Region"] && !ce.atoms[`const:""`]:
			refuse, what = &ce.fails, "region-scope"
		case ce.isEqNeq && ce.atoms["field:Date"] && ce.atoms["arg:X-Amz-Date"]:
			refuse, what = &ce.fails, "credential-date"
		case ce.isEqNeq && ce.atoms["call:encoding/hex.EncodeToString"] && ce.atoms["arg:X-Amz-Content-Sha256"]:
			refuse, what = &ce.fails, "payload-sha256"
		case ce.isEqNeq && ce.atoms["arg:Authorization"] && ce.atoms[`const:""`] && !ce.atoms["call:strings.Split"]:
			refuse, what = &ce.holds, "authorization-present"
		case ce.isEqNeq && ce.atoms["arg:X-Amz-Date"] && ce.atoms[`const:""`] && !ce.atoms["field:Date"]:
			refuse, what = &ce.holds, "date-present"
		}
		if refuse == nil {
			continue
		}
		n++
		foundWhat = append(foundWhat, what)
		reach := reachableFromEdge(hf, *refuse, nil)
		bad := false
		for _, nx := range nexts {
			if reach[nx.Block()] {
				bad = true
			}
		}
		r.Check(!bad, "R-C02-2", fnName(hf)+"/refuses:"+what, p.Pos(ce.pos()), "refusing edge reaches no Next()", "the "+what+" mismatch edge can still reach ctx.Next()")
	}
	if n < 5 {
		r.Viol("R-C02-2", fnName(hf)+"/refusals", p.Pos(hf.Pos()), "expected the region, credential-date, payload-sha256, authorization-present and date-present tests in VerifyV4Signature, found "+itoa(n)+": "+strings.Join(foundWhat, ", "))
	}
	// chunk reader construction error (set inside the wrapBodyReader closure) is tested by the middleware
	c02ClosureErr(p, r, hf, utilsPkg+".NewChunkReader")
	c02ClosureErr(p, r, p.Func(mwPkg+".VerifyMD5Body$1"), utilsPkg+".NewHashReader")
	// streaming payloads get the chunk reader: the IsStreamingPayload branch installs it
	{
		var sp []condEdge
		for _, ce := range condEdgesOf(hf) {
			if c, ok := ce.cond.(*ssa.Call); ok && calleeName(c) == utilsPkg+".IsStreamingPayload" {
				sp = append(sp, ce)
			}
		}
		wr := wrapCallsWith(hf, utilsPkg+".NewChunkReader")
		ok := len(sp) > 0 && len(wr) > 0
		for _, s := range sp {
			avoid := map[*ssa.BasicBlock]bool{}
			for _, w := range wr {
				avoid[w.Block()] = true
			}
			reach := reachableAvoiding(hf, s.holds.from.Succs[s.holds.succ], nil, avoid)
			for _, nx := range nexts {
				if reach[nx.Block()] {
					ok = false
				}
			}
		}
		r.Check(ok, "R-C02-2", fnName(hf)+"/streaming-installs-chunk-reader", p.Pos(hf.Pos()), "streaming payload branch installs the chunk reader before Next()", "a streaming (aws-chunked) payload can reach ctx.Next() without the chunk reader that verifies chunk signatures")
	}
}

// c02ClosureErr: ctor is called in f or inside a closure of f (the callback of a body-reader wrapper); its error
// must reach a nil test in f whose non-nil edge reaches no ctx.Next(): directly, or through the local variable
// the closure stores it into.
// refusesByAssumption: with the loaded error assumed non-nil, no Next() is reachable from the load (the error is
// handed back through merged results of helpers and tested by their caller).
func refusesByAssumption(f *ssa.Function, ld ssa.Value, nexts []ssa.CallInstruction) bool {
	in, ok := ld.(ssa.Instruction)
	if !ok || len(nexts) == 0 {
		return false
	}
	var assumed []ssa.Value
	for _, a := range append(aliasesOf(ld), ld) {
		assumeTruth.Store(a, 1)
		assumed = append(assumed, a)
	}
	reach := reachable(f, in.Block(), nil)
	for _, a := range assumed {
		assumeTruth.Delete(a)
	}
	for _, nx := range nexts {
		if reach[nx.Block()] {
			return false
		}
	}
	return true
}

func c02ClosureErr(p *Program, r *Report, f *ssa.Function, ctor string) {
	key := fnName(f) + "/" + ctor + ":error-tested"
	found := false
	// f itself and the closures it creates (its own literals and those of helpers inlined into it)
	cls := []*ssa.Function{f}
	seenCl := map[*ssa.Function]bool{f: true}
	boundObj := map[*ssa.Function]ssa.Value{} // method value -> the object (address) it is bound to in f
	for _, b := range f.Blocks {
		for _, in := range b.Instrs {
			if mc, isMC := in.(*ssa.MakeClosure); isMC {
				if g, ok := mc.Fn.(*ssa.Function); ok && !seenCl[g] {
					seenCl[g] = true
					cls = append(cls, g)
				}
				// a method value standing where the function literal stood: the bound method, with the object
				// it is bound to
				for _, m := range funcValuesOf(mc) {
					if m != nil && !seenCl[m] && m.Pkg == f.Pkg && m.Signature.Recv() != nil && len(mc.Bindings) == 1 {
						seenCl[m] = true
						cls = append(cls, m)
						boundObj[m] = mc.Bindings[0]
					}
				}
			}
		}
	}
	nexts := callsTo(f, fiberCtx+".Next")
	refuses := func(v ssa.Value) bool {
		_, nonNil := nilTestEdges(v)
		if len(nonNil) == 0 {
			return false
		}
		for _, e := range nonNil {
			reach := reachableFromEdge(f, e, nil)
			for _, nx := range nexts {
				if reach[nx.Block()] {
					return false
				}
			}
		}
		return true
	}
	for _, cl := range cls {
		for _, c := range callsTo(cl, ctor) {
			found = true
			ok := false
			if cl == f {
				var nb []*ssa.BasicBlock
				for _, nx := range nexts {
					nb = append(nb, nx.Block())
				}
				if good, _ := noTargetAfterFailure(f, c, nb); good {
					ok = true
				}
			}
			for _, ev := range errValues(c) {
				if ev.Referrers() == nil {
					continue
				}
				for _, ref := range *ev.Referrers() {
					st, isSt := ref.(*ssa.Store)
					if !isSt || st.Val != ev {
						continue
					}
					// the cell in f: a local of f, or the variable the closure captured
					var cell ssa.Value
					switch ad := st.Addr.(type) {
					case *ssa.FieldAddr:
						// the method reports through a field of its receiver: the same field of the bound object in f
						if obj := boundObj[cl]; obj != nil && len(cl.Params) > 0 && ad.X == ssa.Value(cl.Params[0]) && obj.Referrers() != nil {
							for _, oref := range *obj.Referrers() {
								if fa2, isFA := oref.(*ssa.FieldAddr); isFA && fa2.Field == ad.Field && fa2.Referrers() != nil {
									for _, cref := range *fa2.Referrers() {
										if ld, isLd := cref.(*ssa.UnOp); isLd && ld.Op == token.MUL && refuses(ld) {
											ok = true
										}
									}
								}
							}
						}
					case *ssa.Alloc:
						if cl == f {
							cell = ad
						}
					case *ssa.FreeVar:
						for _, b := range f.Blocks {
							for _, in := range b.Instrs {
								if mc, isMC := in.(*ssa.MakeClosure); isMC && mc.Fn == cl {
									for i, fvv := range cl.FreeVars {
										if fvv == ad {
											cell = mc.Bindings[i]
										}
									}
								}
							}
						}
					}
					if cell == nil || cell.Referrers() == nil {
						continue
					}
					for _, cref := range *cell.Referrers() {
						if ld, isLd := cref.(*ssa.UnOp); isLd && ld.Op == token.MUL && (refuses(ld) || refusesByAssumption(f, ld, nexts)) {
							ok = true
						}
					}
				}
			}
			r.Check(ok, "R-C02-2", key, p.Pos(c.Pos()), "construction error is tested by the middleware", "the error of "+ctor+" built for the body reader is never tested by the middleware (shadowed or dropped): a nil reader can be installed and the request proceeds unverified")
		}
	}
	if !found {
		r.Viol("R-C02-2", key, p.Pos(f.Pos()), "no call to "+ctor+" in "+fnName(f)+" or its body-reader closures")
	}
}

// ---- R-C02-3 ---------------------------------------------------------------------

type bigAtoms struct {
	ok        bool
	query     map[string]bool // Has(LIT) => not BIG
	hdr       map[string]bool // Get(LIT) != "" => not BIG
	method    string
	needsKey  bool // third path segment must be non-empty
	minSegs   int64
	unclassed int
}

func c02BigAtoms(p *Program, r *Report) bigAtoms {
	f := p.Func(utilsPkg + ".IsBigDataAction")
	out := bigAtoms{query: map[string]bool{}, hdr: map[string]bool{}}
	// blocks returning constant true
	var trueBlocks []*ssa.BasicBlock
	for _, ret := range returnsOf(f) {
		trueBlocks = append(trueBlocks, trueSites(ret.Results[0])...)
		if b, ok := constBool(ret.Results[0]); ok && b {
			trueBlocks = append(trueBlocks, ret.Block())
		}
	}
	// `return !slices.ContainsFunc(table, QueryArgs().Has)`: true exactly when no listed sub-resource is present
	for _, ret := range returnsOf(f) {
		v := ret.Results[0]
		neg := false
		for {
			if u, ok := v.(*ssa.UnOp); ok && u.Op == token.NOT {
				v = u.X
				neg = !neg
				continue
			}
			break
		}
		if names, fn, _, ok := tableMembershipTest(p, v); ok && fn != nil && neg {
			isHas := false
			for _, g := range funcValuesOf(fn) {
				if strings.Contains(fnName(g), "fasthttp.Args).Has") {
					isHas = true
				}
			}
			if isHas {
				for _, q := range names {
					out.query[q] = true
				}
				trueBlocks = append(trueBlocks, ret.Block())
			}
		}
	}
	if len(trueBlocks) == 0 {
		r.Undecided("R-C02-3", "utils.IsBigDataAction/shape", p.Pos(f.Pos()), "cannot find where IsBigDataAction yields true")
		return out
	}
	reachTrue := func(cut []edge) bool {
		reach := reachable(f, nil, cut)
		for _, b := range trueBlocks {
			if reach[b] {
				return true
			}
		}
		return false
	}
	for _, ce := range condEdgesOf(f) {
		needHolds := !reachTrue([]edge{ce.holds})
		needFails := !reachTrue([]edge{ce.fails})
		if !needHolds && !needFails {
			continue // not a necessary condition of BIG
		}
		lits := []string{}
		for a := range ce.atoms {
			if strings.HasPrefix(a, "arg:") {
				lits = append(lits, strings.TrimPrefix(a, "arg:"))
			}
		}
		hasSet := []string(nil)
		if hc, isC := ce.cond.(*ssa.Call); isC && calleeName(hc) == "(*github.com/valyala/fasthttp.Args).Has" && len(lits) != 1 {
			// the excluded sub-resources as a constant table the test loops over
			if ss, ok := stringSet(p, callArgs(hc)[0]); ok {
				hasSet = ss
			}
		}
		switch {
		case ce.atoms["call:(*github.com/valyala/fasthttp.Args).Has"] && needFails && len(hasSet) > 0:
			for _, q := range hasSet {
				out.query[q] = true
			}
		case ce.atoms["call:(*github.com/valyala/fasthttp.Args).Has"] && needFails && len(lits) == 1:
			out.query[lits[0]] = true
		case ce.atoms["call:"+fiberCtx+".Get"] && ce.isEqNeq && ce.atoms[`const:""`] && needHolds && len(lits) == 1:
			out.hdr[lits[0]] = true
		case ce.atoms["call:"+fiberCtx+".Method"] && ce.isEqNeq && needHolds:
			for a := range ce.atoms {
				if strings.HasPrefix(a, `const:"`) {
					out.method = strings.Trim(strings.TrimPrefix(a, "const:"), `"`)
				}
			}
		case ce.atoms["call:strings.Split"] && ce.atoms["call:"+fiberCtx+".Path"] && ce.atoms["call:len"]:
			out.minSegs = 3 // value not needed beyond existence; the route filter uses needsKey
		case ce.atoms["call:strings.Split"] && ce.atoms["call:"+fiberCtx+".Path"] && ce.isEqNeq && ce.atoms[`const:""`] && ce.atoms["const:2"] && needFails:
			out.needsKey = true
		default:
			out.unclassed++
		}
	}
	out.ok = true
	pos := p.Pos(f.Pos())
	r.Check(out.method == "PUT", "R-C02-3", "utils.IsBigDataAction/method", pos, "deferred authentication only for PUT", "IsBigDataAction is no longer restricted to PUT (method atom "+out.method+"): other methods' handlers never drain the body")
	r.Check(out.needsKey, "R-C02-3", "utils.IsBigDataAction/object-path", pos, "requires a non-empty key segment", "IsBigDataAction does not require a non-empty third path segment: PUT /bucket/ reaches the bucket handlers with authentication deferred and never performed")
	return out
}

func c02Handlers(p *Program, r *Report, big bigAtoms) {
	if !big.ok {
		return
	}
	tab := routeTable(p)
	hs := map[string]*ssa.Function{}
	for _, h := range s3Handlers(p) {
		hs[fnName(h)] = h
	}
	for _, h := range adminHandlers(p) {
		hs[fnName(h)] = h
	}
	done := map[string]bool{}
	for _, srv := range []string{"s3api.New", "s3api.NewAdminServer"} {
		for _, e := range flattenRoutes(tab, srv) {
			if e.Kind != "route" {
				continue
			}
			for _, hn := range e.Handlers {
				h := hs[hn]
				if h == nil || done[hn+e.Pattern] {
					continue
				}
				done[hn+e.Pattern] = true
				key := e.Method + " " + e.Pattern + "->" + hn
				if big.method != "" && e.Method != big.method && e.Method != "ALL" {
					r.Ok("R-C02-3", key+":route", p.Pos(e.Pos), "method "+e.Method+" is never deferred")
					continue
				}
				// path atom: a pattern without a key segment cannot satisfy "third segment non-empty"
				segs := strings.Split(strings.Trim(e.Pattern, "/"), "/")
				if big.needsKey && len(segs) < 2 {
					r.Ok("R-C02-3", key+":route", p.Pos(e.Pos), "pattern has no key segment: never deferred")
					continue
				}
				c02Handler(p, r, h, key, big)
			}
		}
	}
}

// notBigEdges: edges of handler f on which the request is known not to be deferred.
func notBigEdges(f *ssa.Function, big bigAtoms) []edge {
	var out []edge
	for _, ce := range condEdgesOf(f) {
		// Has(LIT)
		if c, ok := ce.cond.(*ssa.Call); ok && calleeName(c) == "(*github.com/valyala/fasthttp.Args).Has" {
			if s, isS := constString(callArgs(c)[0]); isS && big.query[s] {
				out = append(out, ce.holds)
			}
			continue
		}
		// X == "" where X originates (substring-only) from ctx.Get(HDR)
		if ce.isEqNeq && ce.binop != nil && ce.atoms[`const:""`] {
			var x ssa.Value
			if s, ok := constString(ce.binop.Y); ok && s == "" {
				x = ce.binop.X
			} else if s, ok := constString(ce.binop.X); ok && s == "" {
				x = ce.binop.Y
			}
			if x == nil {
				continue
			}
			rs := terminalRoots(Origins(x, &originOpts{stop: map[string]bool{"fmt.Sprintf": true, "strings.Join": true}}))
			all := len(rs) > 0
			for _, rt := range rs {
				okR := false
				if rt.Kind == "call" && rt.Desc == fiberCtx+".Get" {
					if s, isS := constString(callArgs(rt.Call)[0]); isS && big.hdr[s] {
						okR = true
					}
				}
				if rt.Kind == "const" { // slice bounds etc.
					if _, isNum := constInt(rt.Val); isNum {
						okR = true
					}
				}
				if !okR {
					all = false
				}
			}
			if all {
				out = append(out, ce.fails) // X != ""
			}
		}
	}
	return out
}

var drainMethods = map[string]bool{"PutObject": true, "UploadPart": true}

func c02Handler(p *Program, r *Report, h *ssa.Function, key string, big bigAtoms) {
	cut := notBigEdges(h, big)
	reach := reachable(h, nil, cut)
	n := 0
	for _, c := range callsIn(h) {
		isBe, isIam := isBackendCall(c), isIAMCall(c)
		if !isBe && !isIam {
			continue
		}
		if !reach[c.Block()] {
			continue
		}
		n++
		m := c.Common().Method.Name()
		k := key + "/" + m + "@maybe-deferred#" + itoa(n)
		pos := p.Pos(c.Pos())
		if !isBe || !drainMethods[m] {
			r.Viol("R-C02-3", k, pos, "backend/IAM call "+m+" is reachable while the request may still be unauthenticated (deferred authentication) and it does not consume the body reader that carries the verdict")
			continue
		}
		// Body field <- Locals("body-reader")
		okBody := false
		desc := ""
		for _, a := range callArgs(c) {
			fs, _ := litFields(a)
			if fs == nil {
				continue
			}
			for _, v := range fs["Body"] {
				rs := Origins(v, nil)
				desc = rootsDesc(terminalRoots(rs))
				if hasCallRoot(rs, fiberCtx+".Locals", "body-reader") {
					okBody = true
				}
				// every other origin must be the frozen empty fallback
				for _, rt := range terminalRoots(rs) {
					if rt.Kind == "call" && rt.Desc == fiberCtx+".Locals" {
						continue
					}
					if rt.Kind == "call" && rt.Desc == "bytes.NewReader" {
						continue // fallback when no middleware installed a reader (unit tests); R-C02-2 shows the middleware always installs one for deferred requests
					}
					if rt.Kind == "const" {
						continue
					}
					okBody = false
				}
			}
		}
		r.Check(okBody, "R-C02-3", k, pos, m+" receives Locals(\"body-reader\") as Body", "draining call "+m+" does not receive the deferred-authentication reader as Body ("+desc+")")
	}
	if n == 0 {
		r.Ok("R-C02-3", key+":no-deferred-calls", p.Pos(h.Pos()), "no backend call reachable under deferred authentication")
	}
}

// ---- R-C02-4 ---------------------------------------------------------------------

var eofTransparent = map[string][]int{
	"io.TeeReader":              {0},
	utilsPkg + ".NewHashReader": {0},
}

var primitiveEffects = map[string]bool{
	"os.Mkdir": true, "os.MkdirAll": true, "os.Remove": true, "os.RemoveAll": true, "os.Rename": true, "os.Chown": true, "os.Lchown": true,
	"os.WriteFile": true, "os.Link": true, "os.Symlink": true, "os.Create": true, "os.Chmod": true, "os.Truncate": true,
	"backend.MkdirAll": true, "backend.MoveFile": true,
	"golang.org/x/sys/unix.Linkat": true, "golang.org/x/sys/unix.Unlink": true, "golang.org/x/sys/unix.Renameat": true,
	"syscall.Unlink": true, "syscall.Rename": true,
}

// frozen non-effects (temp file handling): unnamed or .sgwtmp temp, reclaimed by cleanup
var notEffects = map[string]string{
	"(*backend/posix.Posix).openTmpFile": "creates an unnamed (O_TMPFILE) or .sgwtmp temp file that is never listed and is reclaimed by cleanup()",
	"(*backend/posix.Posix).openMkTemp":  "same, fallback",
	"(*backend/posix.tmpfile).cleanup":   "releases the temp file",
	"(*backend/posix.tmpfile).falloc":    "preallocates the unpublished temp file",
}

// effectFuncs: posix/backend functions that (transitively, by static calls) perform a persistent effect.
func effectFuncs(p *Program) map[string]bool {
	eff := map[string]bool{}
	fns := p.FuncsIn("backend/posix", "backend", "backend/meta")
	byName := map[string]*ssa.Function{}
	for _, f := range fns {
		byName[fnName(f)] = f
	}
	changed := true
	for changed {
		changed = false
		for _, f := range fns {
			n := fnName(f)
			if eff[n] || notEffects[n] != "" {
				continue
			}
			for _, c := range callsIn(f) {
				if isEffectCall(c, eff) {
					eff[n] = true
					changed = true
					break
				}
			}
		}
	}
	return eff
}

func isEffectCall(c ssa.CallInstruction, eff map[string]bool) bool {
	n := calleeName(c)
	if notEffects[n] != "" {
		return false
	}
	if primitiveEffects[n] || eff[n] {
		return true
	}
	cc := c.Common()
	if cc.IsInvoke() && typeStr(cc.Value.Type()) == "backend/meta.MetadataStorer" {
		switch cc.Method.Name() {
		case "StoreAttribute", "DeleteAttribute", "DeleteAttributes":
			// path-addressed (nil *os.File) writes are effects on the published namespace
			if cc.Method.Name() != "StoreAttribute" {
				return true
			}
			if len(cc.Args) > 0 && isNilConst(cc.Args[0]) {
				return true
			}
		}
	}
	return false
}

// drainCalls: io.Copy / io.ReadAll calls in f whose source originates from `Body` of an input parameter
// through EOF-transparent wrappers only.
func drainCalls(f *ssa.Function) (good []ssa.CallInstruction, bad []string) {
	for _, c := range callsIn(f) {
		n := calleeName(c)
		var src ssa.Value
		switch n {
		case "io.Copy":
			src = callArgs(c)[1]
		case "io.ReadAll":
			src = callArgs(c)[0]
		case "io.CopyN", "io.CopyBuffer", "io.ReadFull", "io.ReadAtLeast":
			// reads a bounded amount: never observes the final EOF that carries the verdict
			a := callArgs(c)
			s := a[0]
			if n == "io.CopyN" || n == "io.CopyBuffer" {
				s = a[1]
			}
			if fromBody(s, true) {
				bad = append(bad, n+" reads the body without reading it to its end")
			}
			continue
		default:
			continue
		}
		if fromBody(src, false) {
			good = append(good, c)
		} else if fromBody(src, true) {
			bad = append(bad, n+" reads the body through a wrapper that hides the end of the stream (e.g. io.LimitReader)")
		}
	}
	return
}

// fromBody: v originates from a field named Body of a parameter; with loose=false only through
// EOF-transparent wrappers.
func fromBody(v ssa.Value, loose bool) bool {
	opts := &originOpts{extra: eofTransparent}
	if loose {
		ex := map[string][]int{}
		for k, vv := range eofTransparent {
			ex[k] = vv
		}
		for _, w := range []string{"io.LimitReader", "io.NewSectionReader", "bufio.NewReader", "bufio.NewReaderSize", "io.MultiReader", "io.NopCloser"} {
			ex[w] = []int{0}
		}
		opts = &originOpts{extra: ex}
	}
	rs := Origins(v, opts)
	has := false
	for _, rt := range rs {
		if rt.Kind == "field" && rt.Desc == "Body" {
			has = true
		}
	}
	if !has {
		return false
	}
	if loose {
		return true
	}
	// strict: every terminal root is the parameter (through Body) or a constructor in the transparent table
	for _, rt := range terminalRoots(rs) {
		switch rt.Kind {
		case "param", "const":
		case "call":
			return false
		default:
		}
	}
	return true
}

// isAttrStore: a StoreAttribute call on the metadata storer, whatever its file argument.
func isAttrStore(c ssa.CallInstruction) bool {
	cc := c.Common()
	return cc.IsInvoke() && typeStr(cc.Value.Type()) == "backend/meta.MetadataStorer" && cc.Method.Name() == "StoreAttribute"
}

// someStorerIgnoresFile: an implementation of MetadataStorer.StoreAttribute never looks at its *os.File parameter
// (the sidecar store addresses the attribute by bucket and object name): with that store configured a write
// "through the temp file's descriptor" lands on the published object's attributes at once.
func someStorerIgnoresFile(p *Program) bool {
	for _, f := range p.FuncsIn("backend/meta") {
		if f.Name() != "StoreAttribute" || f.Signature.Recv() == nil || len(f.Params) < 2 || len(f.Blocks) == 0 {
			continue
		}
		if refs := f.Params[1].Referrers(); refs == nil || len(*refs) == 0 {
			return true
		}
	}
	return false
}

func c02Drain(p *Program, r *Report) {
	eff := effectFuncs(p)
	pathAddressed := someStorerIgnoresFile(p)
	for _, name := range []string{"(*backend/posix.Posix).PutObject", "(*backend/posix.Posix).UploadPart"} {
		f := p.Func(name)
		good, bad := drainCalls(f)
		for i, b := range bad {
			r.Viol("R-C02-4", name+"/bounded-read#"+itoa(i+1), p.Pos(f.Pos()), b+": the deferred signature/integrity verdict is delivered only with the final io.EOF")
		}
		if len(good) == 0 {
			r.Viol("R-C02-4", name+"/drain", p.Pos(f.Pos()), "no io.Copy/io.ReadAll reads input.Body to its end")
			continue
		}
		var calls []ssa.CallInstruction
		for _, c := range callsIn(f) {
			if _, isCall := c.(*ssa.Call); !isCall {
				continue // deferred cleanup
			}
			if isEffectCall(c, eff) || (pathAddressed && isAttrStore(c)) {
				calls = append(calls, c)
			}
		}
		keys := siteKeys(f, calls)
		// a nil Body carries no deferred verdict: the `Body == nil` edge is a legitimate way past the drain
		var nilBody []edge
		for _, ce := range condEdgesOf(f) {
			if isNilTestOfField(ce, "Body") {
				nilBody = append(nilBody, ce.holds)
			}
		}
		for _, c := range calls {
			cut := append([]edge{}, nilBody...)
			for _, g := range good {
				cut = append(cut, successEdges(g)...)
			}
			ok := !reachable(f, nil, cut)[c.Block()]
			r.Check(ok, "R-C02-4", keys[c], p.Pos(c.Pos()), "effect only after the body was read to its end successfully",
				"persistent effect "+calleeName(c)+" is reachable before/without a successful full read of the request body: an unauthenticated (deferred) request changes storage")
		}
	}
}

// ---- R-C02-5 ---------------------------------------------------------------------

func c02Readers(p *Program, r *Report) {
	// auth readers: the inner EOF is passed on only after the check succeeded
	for _, rd := range []struct{ typ, check string }{
		{"AuthReader", "(*" + utilsPkg + ".AuthReader).validateSignature"},
		{"PresignedAuthReader", utilsPkg + ".CheckPresignedSignature"},
	} {
		f := p.Func("(*" + utilsPkg + "." + rd.typ + ").Read")
		var cut []edge
		neof := 0
		for _, ce := range condEdgesOf(f) {
			if isEOFCond(ce) {
				neof++
				cut = append(cut, ce.fails)
			}
		}
		for _, c := range callsTo(f, rd.check) {
			cut = append(cut, successEdges(c)...)
		}
		if neof == 0 || len(callsTo(f, rd.check)) == 0 {
			r.Viol("R-C02-5", fnName(f)+"/shape", p.Pos(f.Pos()), "the reader no longer tests the inner error for io.EOF or no longer calls "+rd.check)
			continue
		}
		n := 0
		for _, s := range errReturnSites(f) {
			if isNilConst(s.val) {
				continue
			}
			// returns of the inner reader's error
			inner := false
			for _, rt := range Origins(s.val, nil) {
				if rt.Kind == "call" && strings.HasSuffix(rt.Desc, ".Read") {
					inner = true
				}
			}
			if !inner {
				continue
			}
			n++
			r.Check(!siteReachable(f, s, cut), "R-C02-5", fnName(f)+"/inner-eof-return#"+itoa(n), p.Pos(s.ret.Pos()), "inner error returned only when it is not EOF or the signature check succeeded",
				"the inner reader's io.EOF can be returned without a successful "+rd.check+": the stream ends cleanly although the signature was never verified")
		}
		// on the EOF edge, a failing check is returned (not dropped)
		for _, c := range callsTo(f, rd.check) {
			ok, why := failsClosed(f, c)
			// failsClosed looks for nil returns; here the failure must not reach a return of the inner error either
			_, nonNil := nilTestEdgesCall(c)
			for _, e := range nonNil {
				reach := reachableFromEdge(f, e, nil)
				for _, s := range errReturnSites(f) {
					for _, rt := range Origins(s.val, nil) {
						if rt.Kind == "call" && strings.HasSuffix(rt.Desc, ".Read") && s.reachedIn(reach) {
							ok, why = false, "after a failed check the inner (EOF) error is returned instead of the verdict"
						}
					}
				}
			}
			r.Check(ok, "R-C02-5", fnName(f)+"/"+rd.check+":verdict-returned", p.Pos(c.Pos()), why, "a failed signature check is not returned to the consumer: "+why)
		}
	}
	// chunk readers: literal io.EOF only after the inner reader reached its end
	for _, typ := range []string{"ChunkReader", "UnsignedChunkReader"} {
		c02LiteralEOF(p, r, typ, "R-C02-5")
	}
}

// innerFieldOf: is v (a reader value) loaded from a field of the receiver (the wrapped reader)?
func isInnerReader(v ssa.Value) bool {
	for _, rt := range Origins(v, nil) {
		if rt.Kind == "field" && (rt.Desc == "r" || rt.Desc == "reader") {
			return true
		}
	}
	return false
}

// c02LiteralEOF applies the literal-EOF rule to all methods of utils.<typ>.
func c02LiteralEOF(p *Program, r *Report, typ, rule string) {
	ms := p.Methods(utilsPkg, typ)
	if len(ms) == 0 {
		broken("%s: no methods of %s.%s", rule, utilsPkg, typ)
	}
	// witness fields: bool fields of the reader whose every store is (err == io.EOF on the inner Read) or
	// the constant true guarded by a drain success / another witness.
	type storeSite struct {
		f  *ssa.Function
		st *ssa.Store
	}
	stores := map[string][]storeSite{}
	for _, m := range ms {
		for _, b := range m.Blocks {
			for _, in := range b.Instrs {
				st, ok := in.(*ssa.Store)
				if !ok {
					continue
				}
				fa, ok := st.Addr.(*ssa.FieldAddr)
				if !ok {
					continue
				}
				if bt, isB := st.Val.Type().Underlying().(interface{ Kind() interface{} }); isB && bt != nil {
					_ = bt
				}
				if st.Val.Type().String() != "bool" {
					continue
				}
				stores[fieldName(fa.X.Type(), fa.Field)] = append(stores[fieldName(fa.X.Type(), fa.Field)], storeSite{m, st})
			}
		}
	}
	drainEdges := func(f *ssa.Function) []edge {
		var out []edge
		for _, c := range callsIn(f) {
			n := calleeName(c)
			var src ssa.Value
			switch n {
			case "io.Copy":
				src = callArgs(c)[1]
			case "io.ReadAll":
				src = callArgs(c)[0]
			default:
				continue
			}
			if isInnerReader(src) {
				out = append(out, successEdges(c)...)
			}
		}
		return out
	}
	witness := map[string]bool{}
	for iter := 0; iter < 3; iter++ {
		for fld, sts := range stores {
			if witness[fld] {
				continue
			}
			all := len(sts) > 0
			for _, s := range sts {
				ok := false
				if bo, isBo := s.st.Val.(*ssa.BinOp); isBo && bo.Op == token.EQL {
					at := atomsOf(bo)
					if at["global:EOF"] {
						// the compared error is the inner reader's Read result
						for _, side := range []ssa.Value{bo.X, bo.Y} {
							for _, rt := range Origins(side, nil) {
								if rt.Kind == "call" && strings.HasSuffix(rt.Desc, ".Read") && isInnerReader(callRecv(rt.Call)) {
									ok = true
								}
							}
						}
					}
				}
				if b, isC := constBool(s.st.Val); isC {
					if !b {
						ok = true
					} else {
						cut := drainEdges(s.f)
						for _, ce := range condEdgesOf(s.f) {
							for w := range witness {
								if ce.atoms["field:"+w] && !ce.isEqNeq {
									cut = append(cut, ce.holds)
								}
							}
						}
						if len(cut) > 0 && !reachable(s.f, nil, cut)[s.st.Block()] {
							ok = true
						}
					}
				}
				if !ok {
					all = false
				}
			}
			if all {
				witness[fld] = true
			}
		}
	}
	n := 0
	for _, m := range ms {
		cut := drainEdges(m)
		for _, ce := range condEdgesOf(m) {
			for w := range witness {
				if ce.atoms["field:"+w] && !ce.isEqNeq && len(ce.atoms) <= 3 {
					cut = append(cut, ce.holds)
				}
			}
		}
		for _, s := range errReturnSites(m) {
			// literal io.EOF: a load of the global io.EOF
			lit := false
			if u, ok := s.val.(*ssa.UnOp); ok && u.Op == token.MUL {
				if g, ok := u.X.(*ssa.Global); ok && g.Name() == "EOF" && g.Pkg.Pkg.Path() == "io" {
					lit = true
				}
			}
			if !lit {
				continue
			}
			n++
			okSite := len(cut) > 0 && !siteReachable(m, s, cut)
			if !okSite {
				// the drain sits in a helper whose error is merged with others before it is tested: with the
				// drain assumed to have failed the EOF return is unreachable, and it cannot be reached around it
				var drains []ssa.CallInstruction
				for _, c := range callsIn(m) {
					switch calleeName(c) {
					case "io.Copy":
						if isInnerReader(callArgs(c)[1]) {
							drains = append(drains, c)
						}
					case "io.ReadAll":
						if isInnerReader(callArgs(c)[0]) {
							drains = append(drains, c)
						}
					}
				}
				var wcut []edge
				for _, ce := range condEdgesOf(m) {
					for w := range witness {
						if ce.atoms["field:"+w] && !ce.isEqNeq && len(ce.atoms) <= 3 {
							wcut = append(wcut, ce.holds)
						}
					}
				}
				tgt := s.ret.Block()
				if s.pred != nil {
					tgt = s.pred
				}
				if len(drains) > 0 {
					okSite, _ = mustSucceedBefore(m, drains, wcut, []*ssa.BasicBlock{tgt})
				}
			}
			r.Check(okSite, rule, fnName(m)+"/literal-EOF#"+itoa(n), p.Pos(s.ret.Pos()), "literal io.EOF only after the inner reader reached its end",
				"the reader ends the stream on its own (returns io.EOF) on a path where the wrapped reader was not read to its end: the wrapped auth reader's verdict is never observed")
		}
	}
	if n == 0 {
		r.Viol(rule, "(*"+utilsPkg+"."+typ+")/literal-EOF", "-", "no literal io.EOF return found in "+typ+" (anchor drift): the end-of-stream discipline cannot be checked")
	}
}

func controlsC02() []Control {
	return []Control{
		{Name: "revert fix d1e6ce0: IsBigDataAction without the key-segment test", Rule: "R-C02-3", File: "s3api/utils/utils.go",
			Old: "len(pathParts) >= 3 && pathParts[2] != \"\" {", New: "len(pathParts) >= 3 {", Expect: "object-path"},
		{Name: "IsBigDataAction: drop !Has(\"tagging\")", Rule: "R-C02-3", File: "s3api/utils/utils.go",
			Old: "if !ctx.Request().URI().QueryArgs().Has(\"tagging\") && ctx.Get(", New: "if ctx.Get(", Expect: "PutObjectTagging"},
		{Name: "revert part of d1e6ce0: retention no longer excluded", Rule: "R-C02-3", File: "s3api/utils/utils.go",
			Old: "!ctx.Request().URI().QueryArgs().Has(\"retention\") && ", New: "", Expect: "PutObjectRetention"},
		{Name: "VerifyV4Signature: ValidateDate error ignored", Rule: "R-C02-2", File: "s3api/middlewares/authentication.go",
			Old: "\t\terr = utils.ValidateDate(tdate)\n\t\tif err != nil {\n\t\t\treturn sendResponse(ctx, err, logger, mm)\n\t\t}", New: "\t\terr = utils.ValidateDate(tdate)\n\t\tif err != nil && debug {\n\t\t\treturn sendResponse(ctx, err, logger, mm)\n\t\t}", Expect: "ValidateDate"},
		{Name: "VerifyV4Signature: sha256 mismatch falls through", Rule: "R-C02-2", File: "s3api/middlewares/authentication.go",
			Old: "\t\t\tif hashPayload != hexPayload {\n\t\t\t\treturn sendResponse(", New: "\t\t\tif hashPayload != hexPayload && debug {\n\t\t\t\treturn sendResponse(", Expect: "payload-sha256"},
		{Name: "router.Init moved above the auth middlewares", Rule: "R-C02-1", File: "s3api/server.go",
			Old: "\t// Authentication middlewares\n\tapp.Use(middlewares.VerifyPresignedV4Signature(root, iam, l, mm, region, server.debug))", New: "\tserver.router.Init(app, be, iam, l, adminLogger, evs, mm, server.debug, server.readonly)\n\t// Authentication middlewares\n\tapp.Use(middlewares.VerifyPresignedV4Signature(root, iam, l, mm, region, server.debug))", Expect: "PUT /:bucket"},
		{Name: "revert fix d8e53d7: directory object created before the body is read", Rule: "R-C02-4", File: "backend/posix/posix.go",
			Old: "\t\tif po.Body != nil {\n\t\t\tn, err := io.Copy(io.Discard, po.Body)\n\t\t\tif err != nil {\n\t\t\t\treturn s3response.PutObjectOutput{}, fmt.Errorf(\"read object data: %w\", err)\n\t\t\t}\n\t\t\tif n != 0 {\n\t\t\t\treturn s3response.PutObjectOutput{}, s3err.GetAPIError(s3err.ErrDirectoryObjectContainsData)\n\t\t\t}\n\t\t}\n", New: "", Expect: "MkdirAll"},
		{Name: "posix.PutObject: link before the copy error is checked", Rule: "R-C02-4", File: "backend/posix/posix.go",
			Old: "\twritten, err := io.Copy(f, rdr)\n\tif err != nil {\n\t\tif errors.Is(err, syscall.EDQUOT) {\n\t\t\treturn s3response.PutObjectOutput{}, s3err.GetAPIError(s3err.ErrQuotaExceeded)\n\t\t}", New: "\twritten, err := io.Copy(f, rdr)\n\tif err != nil && written == 0 {\n\t\tif errors.Is(err, syscall.EDQUOT) {\n\t\t\treturn s3response.PutObjectOutput{}, s3err.GetAPIError(s3err.ErrQuotaExceeded)\n\t\t}", Expect: "link"},
		{Name: "revert fix a257669 (unsigned): synthetic EOF without draining", Rule: "R-C02-5", File: "s3api/utils/unsigned-chunk-reader.go",
			Old: "\tif _, err := io.Copy(io.Discard, ucr.reader); err != nil {\n\t\treturn 0, err\n\t}\n", New: "", Expect: "UnsignedChunkReader"},
		{Name: "AuthReader: verdict only logged", Rule: "R-C02-5", File: "s3api/utils/auth-reader.go",
			Old: "\t\tverr := ar.validateSignature()\n\t\tif verr != nil {\n\t\t\treturn n, verr\n\t\t}", New: "\t\tverr := ar.validateSignature()\n\t\tif verr != nil && ar.debug {\n\t\t\treturn n, verr\n\t\t}", Expect: "AuthReader"},
	}
}
