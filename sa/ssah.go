package main

import (
	"fmt"
	"go/constant"
	"go/token"
	"go/types"
	"sort"
	"strings"
	"sync"

	"golang.org/x/tools/go/ssa"
)

// ---- calls -------------------------------------------------------------

// calleeObj resolves a call to the *types.Func it names: static callee,
// interface method, or a bound method value. nil for dynamic calls of
// function values.
func calleeObj(c ssa.CallInstruction) *types.Func {
	cc := c.Common()
	if cc.IsInvoke() {
		return cc.Method
	}
	if f := cc.StaticCallee(); f != nil {
		if o, ok := f.Object().(*types.Func); ok {
			return o
		}
		// bound method closure / generic instance
		if f.Origin() != nil {
			if o, ok := f.Origin().Object().(*types.Func); ok {
				return o
			}
		}
	}
	return nil
}

func calleeName(c ssa.CallInstruction) string {
	// a function standing in for a renamed anchor answers to the reference name
	if f := c.Common().StaticCallee(); f != nil {
		if n, ok := renamedFns.Load(f); ok {
			return n.(string)
		}
	}
	if o := calleeObj(c); o != nil {
		return objName(o)
	}
	if f := c.Common().StaticCallee(); f != nil {
		return fnName(f)
	}
	return ""
}

// callArgs returns the arguments without the receiver.
func callArgs(c ssa.CallInstruction) []ssa.Value {
	cc := c.Common()
	if cc.IsInvoke() {
		return cc.Args
	}
	if f := cc.StaticCallee(); f != nil && f.Signature.Recv() != nil && len(cc.Args) > 0 {
		return cc.Args[1:]
	}
	return cc.Args
}

func callRecv(c ssa.CallInstruction) ssa.Value {
	cc := c.Common()
	if cc.IsInvoke() {
		return cc.Value
	}
	if f := cc.StaticCallee(); f != nil && f.Signature.Recv() != nil && len(cc.Args) > 0 {
		return cc.Args[0]
	}
	return nil
}

// withAnon: f and all nested closures.
func withAnon(f *ssa.Function) []*ssa.Function {
	return withAnonD(f, map[*ssa.Function]bool{})
}

func withAnonD(f *ssa.Function, seen map[*ssa.Function]bool) []*ssa.Function {
	if seen[f] {
		return nil
	}
	seen[f] = true
	out := []*ssa.Function{f}
	for _, a := range f.AnonFuncs {
		out = append(out, withAnonD(a, seen)...)
	}
	// a closure turned into a named type with a method, handed over as a method value (`v.wrap`): the bound
	// method of an unexported type of the same package stands where the function literal stood
	for _, b := range f.Blocks {
		for _, in := range b.Instrs {
			mc, ok := in.(*ssa.MakeClosure)
			if !ok {
				continue
			}
			g, isF := mc.Fn.(*ssa.Function)
			if !isF || g.Synthetic == "" || !strings.HasSuffix(g.Name(), "$bound") {
				continue
			}
			for _, m := range funcValuesOf(mc) {
				if m == nil || m.Pkg == nil || f.Pkg == nil || m.Pkg != f.Pkg || m.Signature.Recv() == nil || len(m.Blocks) == 0 {
					continue
				}
				if nt, isN := types.Unalias(derefType(m.Signature.Recv().Type())).(*types.Named); !isN || nt.Obj().Exported() {
					continue
				}
				out = append(out, withAnonD(m, seen)...)
			}
		}
	}
	return out
}

// callsIn lists call instructions (call, defer, go) of f itself, in block/instr order.
func callsIn(f *ssa.Function) []ssa.CallInstruction {
	var out []ssa.CallInstruction
	for _, b := range f.Blocks {
		for _, in := range b.Instrs {
			if c, ok := in.(ssa.CallInstruction); ok {
				out = append(out, c)
			}
		}
	}
	sort.SliceStable(out, func(i, j int) bool { return out[i].Pos() < out[j].Pos() })
	return out
}

func callsTo(f *ssa.Function, names ...string) []ssa.CallInstruction {
	var out []ssa.CallInstruction
	for _, c := range callsIn(f) {
		n := calleeName(c)
		for _, w := range names {
			if n == w {
				out = append(out, c)
			}
		}
	}
	return out
}

// siteKeys gives each call a structural key "<fn>/<callee>[<constant string arguments>]#<ordinal>": the ordinal
// counts calls with the same callee and the same constant arguments in source-position order, so that moving
// other calls of the same callee into (or out of) a helper does not renumber this one.
func siteKeys(f *ssa.Function, calls []ssa.CallInstruction) map[ssa.CallInstruction]string {
	all := append([]ssa.CallInstruction{}, callsIn(f)...)
	sort.SliceStable(all, func(i, j int) bool { return all[i].Pos() < all[j].Pos() })
	ord := map[string]int{}
	keys := map[ssa.CallInstruction]string{}
	for _, c := range all {
		n := calleeName(c) + callArgSig(c)
		ord[n]++
		keys[c] = fmt.Sprintf("%s/%s#%d", fnName(f), n, ord[n])
	}
	out := map[ssa.CallInstruction]string{}
	for _, c := range calls {
		out[c] = keys[c]
	}
	return out
}

// callArgSig: the constant string arguments of a call (attribute keys, header names), or a marker for a key that
// comes from an attribute listing.
func callArgSig(c ssa.CallInstruction) string {
	var parts []string
	for _, a := range c.Common().Args {
		if s, ok := constString(a); ok {
			if s == "" {
				continue
			}
			if len(s) > 40 {
				s = s[:40]
			}
			parts = append(parts, s)
			continue
		}
		if typeStr(a.Type()) == "string" {
			for _, rt := range Origins(a, nil) {
				if rt.Kind == "call" && strings.HasSuffix(rt.Desc, ".ListAttributes") {
					parts = append(parts, "<listed>")
					break
				}
			}
		}
	}
	if len(parts) == 0 {
		return ""
	}
	return "[" + strings.Join(parts, ",") + "]"
}

// ---- error results and success edges ------------------------------------

var errType = types.Universe.Lookup("error").Type()

func isErrorType(t types.Type) bool { return types.Identical(t, errType) }

// errValues returns the SSA values carrying the error result of call c.
func errValues(c ssa.CallInstruction) []ssa.Value {
	v := c.Value()
	if v == nil {
		return nil
	}
	sig := c.Common().Signature()
	res := sig.Results()
	if res.Len() == 0 {
		return nil
	}
	if res.Len() == 1 {
		if isErrorType(res.At(0).Type()) {
			return []ssa.Value{v}
		}
		return nil
	}
	var out []ssa.Value
	for _, r := range *v.Referrers() {
		if e, ok := r.(*ssa.Extract); ok && isErrorType(res.At(e.Index).Type()) {
			out = append(out, e)
		}
	}
	return out
}

// resultValues returns the values carrying result #idx of call c.
func resultValues(c ssa.CallInstruction, idx int) []ssa.Value {
	v := c.Value()
	if v == nil {
		return nil
	}
	res := c.Common().Signature().Results()
	if res.Len() == 1 {
		if idx == 0 {
			return []ssa.Value{v}
		}
		return nil
	}
	var out []ssa.Value
	for _, r := range *v.Referrers() {
		if e, ok := r.(*ssa.Extract); ok && e.Index == idx {
			out = append(out, e)
		}
	}
	return out
}

type edge struct {
	from *ssa.BasicBlock
	succ int
}

func isNilConst(v ssa.Value) bool {
	c, ok := v.(*ssa.Const)
	return ok && c.Value == nil
}

// aliasesOf follows a value forward through the shapes in which the code
// carries an error to its test: Phis whose operands are all that value,
// and store/load through a cell (Alloc) within one block when the variable
// is address-taken (captured by a closure).
func aliasesOf(v ssa.Value) []ssa.Value { return aliasesOfX(v, false) }

// aliasesOfX: with allowNil, a phi whose other edges are nil constants also counts (the merged result of an
// inlined helper that returns either the value or nil): on the non-nil edge of a test of that phi the value is
// the alias. Not valid for reasoning about the nil edge.
func aliasesOfX(v ssa.Value, allowNil bool) []ssa.Value {
	out := []ssa.Value{v}
	seen := map[ssa.Value]bool{v: true}
	for i := 0; i < len(out); i++ {
		cur := out[i]
		refs := cur.Referrers()
		if refs == nil {
			continue
		}
		for _, r := range *refs {
			switch r := r.(type) {
			case *ssa.Phi:
				all := true
				for _, e := range r.Edges {
					if !seen[e] && !(allowNil && isNilConst(e)) {
						all = false
					}
				}
				if all && !seen[r] {
					seen[r] = true
					out = append(out, r)
				}
			case *ssa.Store:
				if r.Val != cur {
					continue
				}
				// loads of the same cell later in the same block with no store in between
				blk := r.Block()
				after := false
				for _, in := range blk.Instrs {
					if in == r {
						after = true
						continue
					}
					if !after {
						continue
					}
					if st, ok := in.(*ssa.Store); ok && st.Addr == r.Addr {
						break
					}
					if ld, ok := in.(*ssa.UnOp); ok && ld.Op == token.MUL && ld.X == r.Addr && !seen[ld] {
						seen[ld] = true
						out = append(out, ld)
					}
				}
			case *ssa.ChangeInterface:
				if !seen[r] {
					seen[r] = true
					out = append(out, r)
				}
			}
		}
	}
	return out
}

// nilTestEdges: for value v (an error or pointer), the CFG edges on which v is
// known nil (nilEdges) and known non-nil (nonNilEdges), from `if v ==/!= nil`.
func nilTestEdges(v ssa.Value) (nilEdges, nonNilEdges []edge) {
	strict := map[ssa.Value]bool{}
	for _, a := range aliasesOf(v) {
		strict[a] = true
	}
	for _, a := range aliasesOfX(v, true) {
		refs := a.Referrers()
		if refs == nil {
			continue
		}
		for _, r := range *refs {
			b, ok := r.(*ssa.BinOp)
			if !ok || (b.Op != token.EQL && b.Op != token.NEQ) {
				continue
			}
			if !(b.X == a && isNilConst(b.Y)) && !(b.Y == a && isNilConst(b.X)) {
				continue
			}
			for _, br := range condBranches(b) {
				// br.trueSucc: edge taken when b is true
				if (b.Op == token.EQL) == br.whenTrue {
					if strict[a] {
						nilEdges = append(nilEdges, br.e)
					}
				} else {
					nonNilEdges = append(nonNilEdges, br.e)
				}
			}
		}
	}
	return
}

type condBranch struct {
	e        edge
	whenTrue bool
}

// condBranches finds the If instructions controlled by boolean value b
// (directly, or through `!b`) and returns both out-edges with their polarity.
func condBranches(b ssa.Value) []condBranch {
	var out []condBranch
	refs := b.Referrers()
	if refs == nil {
		return nil
	}
	for _, r := range *refs {
		switch r := r.(type) {
		case *ssa.If:
			out = append(out, condBranch{edge{r.Block(), 0}, true}, condBranch{edge{r.Block(), 1}, false})
		case *ssa.UnOp:
			if r.Op == token.NOT {
				for _, cb := range condBranches(r) {
					out = append(out, condBranch{cb.e, !cb.whenTrue})
				}
			}
		}
	}
	return out
}

// successEdges of a call: edges on which its error result is nil.
func successEdges(c ssa.CallInstruction) []edge {
	var out []edge
	for _, ev := range errValues(c) {
		ne, _ := nilTestEdges(ev)
		out = append(out, ne...)
	}
	return out
}

// reachable computes the blocks reachable from `from` (entry if nil) when the
// cut edges are removed. The traversal is edge-sensitive for one idiom: a block
// whose branch tests a phi of that block (directly, negated, or compared with
// nil / a boolean constant) is left only through the successor consistent with
// the value the phi takes on the edge it was entered by, when that value is
// known (a constant, a value that cannot be nil, or a value whose test decided
// the single edge into the predecessor). This is what the merged return of an
// inlined `if err := helper(); err != nil` looks like, and the source of the
// classic infeasible path through it.
func reachable(f *ssa.Function, from *ssa.BasicBlock, cut []edge) map[*ssa.BasicBlock]bool {
	return reachableVia(f, from, nil, cut)
}

// reachableVia: as reachable, the start block being entered from predecessor via (nil: no history).
func reachableVia(f *ssa.Function, from, via *ssa.BasicBlock, cut []edge) map[*ssa.BasicBlock]bool {
	cutset := map[edge]bool{}
	for _, e := range cut {
		cutset[e] = true
	}
	seen := map[*ssa.BasicBlock]bool{}
	if len(f.Blocks) == 0 {
		return seen
	}
	if from == nil {
		from = f.Blocks[0]
	}
	type st struct{ b, via, via2, via3 *ssa.BasicBlock }
	done := map[st]bool{}
	work := []st{{from, via, nil, nil}}
	done[work[0]] = true
	seen[from] = true
	for len(work) > 0 {
		cur := work[len(work)-1]
		work = work[:len(work)-1]
		b := cur.b
		okT, okF := true, true
		if cur.via != nil {
			okT, okF = feasibleSuccsH(b, []*ssa.BasicBlock{cur.via, cur.via2, cur.via3})
		}
		if aT, aF, decided := assumedSuccs(b); decided {
			okT, okF = okT && aT, okF && aF
		}
		for i, s := range b.Succs {
			if cutset[edge{b, i}] {
				continue
			}
			if len(b.Succs) == 2 && ((i == 0 && !okT) || (i == 1 && !okF)) {
				continue
			}
			n := st{s, b, cur.via, cur.via2}
			// longer history matters only while the blocks in between just merge values (phis and a jump);
			// one block more is always kept: a merged (bool, error) pair is tested in two consecutive blocks
			if !passThrough(b) {
				n.via3 = nil
			}
			if !done[n] {
				done[n] = true
				seen[s] = true
				work = append(work, n)
			}
		}
	}
	// Recover blocks are entered by panics, not by edges; they are reachable too.
	if f.Recover != nil && !seen[f.Recover] {
		seen[f.Recover] = true
	}
	return seen
}

// testedValue strips negations and comparisons with nil / boolean constants from a branch condition:
// cond is equivalent to (base is "truthy") == pos, where truthy means non-nil / true.
func testedValue(cond ssa.Value) (base ssa.Value, pos bool) {
	pos = true
	for depth := 0; depth < 6; depth++ {
		switch x := cond.(type) {
		case *ssa.UnOp:
			if x.Op == token.NOT {
				cond = x.X
				pos = !pos
				continue
			}
		case *ssa.BinOp:
			if x.Op == token.EQL || x.Op == token.NEQ {
				var other ssa.Value
				var c *ssa.Const
				if k, ok := x.Y.(*ssa.Const); ok {
					other, c = x.X, k
				} else if k, ok := x.X.(*ssa.Const); ok {
					other, c = x.Y, k
				}
				if c != nil {
					truthyConst := false
					known := false
					if c.Value == nil {
						truthyConst, known = false, true // nil
					} else if c.Value.Kind() == constant.Bool {
						truthyConst, known = constant.BoolVal(c.Value), true
					}
					if known {
						// other == c  <=> truthy(other) == truthyConst
						eq := x.Op == token.EQL
						if eq != truthyConst {
							pos = !pos
						}
						cond = other
						continue
					}
				}
			}
		}
		break
	}
	return cond, pos
}

// truthiness: 1 = known non-nil/true, -1 = known nil/false, 0 = unknown; `at` is the block the value flows out of.
func truthiness(v ssa.Value, at *ssa.BasicBlock) int { return truthinessD(v, at, 0) }

// assumeTruth: values assumed non-nil (+1) / nil (-1) for the duration of one query (set and cleared by the
// caller; the checker is single-threaded per program).
var assumeTruth sync.Map // ssa.Value -> int (values of different programs never collide; controls run in parallel)

func truthinessD(v ssa.Value, at *ssa.BasicBlock, depth int) int {
	if depth > 4 {
		return 0
	}
	if t, ok := assumeTruth.Load(v); ok {
		return t.(int)
	}
	switch x := v.(type) {
	case *ssa.Const:
		if x.Value == nil {
			return -1
		}
		if x.Value.Kind() == constant.Bool {
			if constant.BoolVal(x.Value) {
				return 1
			}
			return -1
		}
		return 0
	case *ssa.MakeInterface:
		return 1
	case *ssa.Call:
		switch calleeName(x) {
		case "fmt.Errorf", "errors.New":
			return 1
		}
		// a function of the module all of whose returns are non-nil errors (error constructors)
		if g := x.Call.StaticCallee(); g != nil && len(g.Blocks) > 0 && g.Signature.Results().Len() == 1 {
			all := true
			n := 0
			for _, b := range g.Blocks {
				if len(b.Instrs) == 0 {
					continue
				}
				if ret, ok := b.Instrs[len(b.Instrs)-1].(*ssa.Return); ok {
					n++
					if _, isMI := ret.Results[0].(*ssa.MakeInterface); !isMI {
						all = false
					}
				}
			}
			if all && n > 0 {
				return 1
			}
		}
	case *ssa.UnOp:
		// a package-level error variable that is set once, in the package initialiser, to a non-nil error
		if g, ok := x.X.(*ssa.Global); ok && x.Op == token.MUL && globalSetOnceNonNil(g) {
			return 1
		}
	case *ssa.Phi:
		// every incoming value has the same known truthiness
		if len(x.Edges) == len(x.Block().Preds) && len(x.Edges) > 0 {
			t0, uniform := 0, true
			for i, e := range x.Edges {
				if e == v {
					uniform = false
					break
				}
				var t int
				switch ev := e.(type) {
				case *ssa.Const, *ssa.MakeInterface, *ssa.Call:
					t = truthinessD(ev, nil, depth+1)
				default:
					t = truthinessD(e, x.Block().Preds[i], depth+1)
				}
				if t == 0 || (t0 != 0 && t != t0) {
					uniform = false
					break
				}
				t0 = t
			}
			if uniform {
				return t0
			}
			// mixed: a test of the phi on the way to `at` may still decide it (below)
		}
	}
	// decided by a test that guards the only way into `at` (a chain of single-predecessor blocks)
	for n := 0; at != nil && len(at.Preds) == 1 && n < 8; n++ {
		q := at.Preds[0]
		if len(q.Instrs) > 0 {
			if ifi, ok := q.Instrs[len(q.Instrs)-1].(*ssa.If); ok && len(q.Succs) == 2 && q.Succs[0] != q.Succs[1] {
				base, pos := testedValue(ifi.Cond)
				if base == v {
					onTrue := q.Succs[0] == at
					if onTrue == pos {
						return 1
					}
					return -1
				}
			}
		}
		at = q
	}
	return 0
}

// passThrough: a block that only merges values and jumps on (phis + one jump): the seam of an inlined return.
func passThrough(b *ssa.BasicBlock) bool {
	if len(b.Succs) != 1 {
		return false
	}
	for i, in := range b.Instrs {
		switch in.(type) {
		case *ssa.Phi:
		case *ssa.Jump:
			if i != len(b.Instrs)-1 {
				return false
			}
		default:
			return false
		}
	}
	return true
}

// resolveThrough: the value v (a phi edge taken when entering from hist[0]) followed back through phis of
// pass-through blocks along the path history; returns the value and the block it flows out of.
func resolveThrough(v ssa.Value, hist []*ssa.BasicBlock) (ssa.Value, *ssa.BasicBlock) {
	at := hist[0]
	for i := 0; i+1 < len(hist); i++ {
		phi, ok := v.(*ssa.Phi)
		if !ok || phi.Block() != hist[i] || hist[i+1] == nil || !passThrough(hist[i]) {
			break
		}
		idx, n := -1, 0
		for k, p := range hist[i].Preds {
			if p == hist[i+1] {
				idx = k
				n++
			}
		}
		if idx < 0 || n != 1 || idx >= len(phi.Edges) {
			break
		}
		v = phi.Edges[idx]
		at = hist[i+1]
	}
	return v, at
}

func feasibleSuccs(b, via *ssa.BasicBlock) (onTrue, onFalse bool) {
	return feasibleSuccsH(b, []*ssa.BasicBlock{via, nil, nil})
}

// feasibleSuccsH: which successors of b can be taken when b was entered along the path ... hist[1] -> hist[0] -> b.
func feasibleSuccsH(b *ssa.BasicBlock, hist []*ssa.BasicBlock) (onTrue, onFalse bool) {
	via := hist[0]
	if len(b.Instrs) == 0 || len(b.Succs) != 2 {
		return true, true
	}
	ifi, ok := b.Instrs[len(b.Instrs)-1].(*ssa.If)
	if !ok {
		return true, true
	}
	// an integer comparison that is decided by the value a phi of this block takes on the entering edge
	// (the first test of a range loop over a table of known, non-zero length is `0 < len`: the loop is entered)
	if bo, isBO := ifi.Cond.(*ssa.BinOp); isBO {
		if x, okx := evalIntOnEdge(bo.X, b, via, 0); okx {
			if y, oky := evalIntOnEdge(bo.Y, b, via, 0); oky {
				var res, known bool
				switch bo.Op {
				case token.LSS:
					res, known = x < y, true
				case token.LEQ:
					res, known = x <= y, true
				case token.GTR:
					res, known = x > y, true
				case token.GEQ:
					res, known = x >= y, true
				case token.EQL:
					res, known = x == y, true
				case token.NEQ:
					res, known = x != y, true
				}
				if known {
					return res, !res
				}
			}
		}
	}
	base, pos := testedValue(ifi.Cond)
	phi, ok := base.(*ssa.Phi)
	if !ok {
		return true, true
	}
	if phi.Block() != b {
		// a merged result tested a block or two after the merge (`exists, err := helper(); if err != nil {..};
		// if !exists {..}` after inlining): the walk came through the phi's block, the block before it on the
		// walk says which edge the phi took
		for k := 0; k+1 < len(hist); k++ {
			if hist[k] == nil || hist[k+1] == nil || hist[k] != phi.Block() {
				continue
			}
			pi, cnt := -1, 0
			for i, pr := range phi.Block().Preds {
				if pr == hist[k+1] {
					pi = i
					cnt++
				}
			}
			if pi < 0 || cnt != 1 || pi >= len(phi.Edges) {
				return true, true
			}
			ev := phi.Edges[pi]
			t := truthiness(ev, hist[k+1])
			if t == 0 {
				t = truthOnEdge(ev, hist[k+1], phi.Block())
			}
			if t == 0 {
				return true, true
			}
			condTrue := (t > 0) == pos
			return condTrue, !condTrue
		}
		return true, true
	}
	idx := -1
	n := 0
	for i, p := range b.Preds {
		if p == via {
			idx = i
			n++
		}
	}
	if idx < 0 || n != 1 || idx >= len(phi.Edges) {
		return true, true
	}
	ev, at := resolveThrough(phi.Edges[idx], hist)
	t := truthiness(ev, at)
	if t == 0 {
		// the entering edge itself may be a branch of a test of that value (`if err == nil {...}; if err != nil`)
		t = truthOnEdge(ev, via, b)
	}
	if t == 0 {
		return true, true
	}
	truthy := t > 0
	condTrue := truthy == pos
	return condTrue, !condTrue
}

// guardedBy: target is reachable from entry only through a success edge of
// at least one of the guard calls (alternatives are cut together).
func guardedBy(f *ssa.Function, target ssa.Instruction, guards []ssa.CallInstruction) bool {
	var cut []edge
	for _, g := range guards {
		if g.Parent() != f {
			continue
		}
		if _, isCall := g.(*ssa.Call); !isCall {
			continue // defer/go: result never tested
		}
		cut = append(cut, successEdges(g)...)
	}
	if len(cut) == 0 {
		return false
	}
	return !reachable(f, nil, cut)[target.Block()]
}

// reachableFromEdge: blocks reachable starting at the destination of edge e.
func reachableFromEdge(f *ssa.Function, e edge, cut []edge) map[*ssa.BasicBlock]bool {
	return reachable(f, e.from.Succs[e.succ], cut)
}

// instrIndex returns the index of an instruction in its block.
func instrIndex(in ssa.Instruction) int {
	for i, x := range in.Block().Instrs {
		if x == in {
			return i
		}
	}
	return -1
}

// mayPrecede: can instruction a execute before instruction b on some path (same function)?
func mayPrecede(a, b ssa.Instruction) bool {
	if a.Block() == b.Block() {
		if instrIndex(a) < instrIndex(b) {
			return true
		}
		// through a cycle
		for _, s := range a.Block().Succs {
			if reachable(a.Parent(), s, nil)[b.Block()] {
				return true
			}
		}
		return false
	}
	for _, s := range a.Block().Succs {
		if reachable(a.Parent(), s, nil)[b.Block()] {
			return true
		}
	}
	return false
}

// ---- constants -----------------------------------------------------------

func constString(v ssa.Value) (string, bool) {
	for {
		switch x := v.(type) {
		case *ssa.Const:
			if x.Value != nil && x.Value.Kind() == constant.String {
				return constant.StringVal(x.Value), true
			}
			return "", false
		case *ssa.ChangeType:
			v = x.X
		case *ssa.Convert:
			v = x.X
		case *ssa.MakeInterface:
			v = x.X
		default:
			return "", false
		}
	}
}

func constInt(v ssa.Value) (int64, bool) {
	for {
		switch x := v.(type) {
		case *ssa.Const:
			if x.Value != nil && x.Value.Kind() == constant.Int {
				i, ok := constant.Int64Val(x.Value)
				return i, ok
			}
			return 0, false
		case *ssa.ChangeType:
			v = x.X
		case *ssa.Convert:
			v = x.X
		default:
			return 0, false
		}
	}
}

func constBool(v ssa.Value) (bool, bool) {
	if c, ok := v.(*ssa.Const); ok && c.Value != nil && c.Value.Kind() == constant.Bool {
		return constant.BoolVal(c.Value), true
	}
	return false, false
}

// ---- origins (E-ORIG) ------------------------------------------------------

// Root is where a backward slice ends.
type Root struct {
	Kind string // const | param | call | global | field | elem | alloc | func | freevar | unknown
	Val  ssa.Value
	Desc string
	Call ssa.CallInstruction // Kind == call
	Idx  int                 // result index for calls
}

func (r Root) String() string { return r.Kind + ":" + r.Desc }

// propagators: calls through which a string value keeps its origin.
var propagators = map[string][]int{ // callee -> propagated arg indices (nil = all)
	"strings.Join":                nil,
	"strings.TrimPrefix":          {0},
	"strings.TrimSuffix":          {0},
	"strings.TrimSpace":           {0},
	"strings.Trim":                {0},
	"strings.TrimLeft":            {0},
	"strings.TrimRight":           {0},
	"strings.Clone":               {0},
	"strings.ToLower":             {0},
	"strings.ToUpper":             {0},
	"strings.ReplaceAll":          {0},
	"strings.Split":               {0},
	"strings.SplitN":              {0},
	"strings.Cut":                 {0},
	"strings.CutPrefix":           {0},
	"strings.CutSuffix":           {0},
	"strings.Fields":              {0},
	"strings.TrimFunc":            {0},
	"strings.Repeat":              {0},
	"strconv.Itoa":                {0},
	"strconv.FormatInt":           {0},
	"strconv.FormatUint":          {0},
	"strconv.Quote":               {0},
	"encoding/hex.EncodeToString": {0},
	"fmt.Appendf":                 nil,
	"fmt.Append":                  nil,
	"fmt.Sprintf":                 nil,
	"fmt.Sprint":                  nil,
	"path/filepath.Join":          nil,
	"path/filepath.Clean":         nil,
	"path/filepath.Dir":           nil,
	"path/filepath.Base":          nil,
	"path.Join":                   nil,
	"net/url.QueryUnescape":       {0},
	"net/url.PathUnescape":        {0},
	"backend.GetPtrFromString":    {0},
	"backend.GetStringPtr":        {0},
	"s3api/utils.GetStringPtr":    {0},
	"s3api/controllers.getstring": {0},
	"backend/posix.getString":     {0},
	"backend/scoutfs.getString":   {0},
}

type originOpts struct {
	// extra propagators for one query
	extra map[string][]int
	// stop at these callees even if propagators
	stop map[string]bool
}

// Origins computes the roots of v by a backward slice over SSA (flow-insensitive
// for cells: every store to a local cell is a possible origin).
func Origins(v ssa.Value, o *originOpts) []Root {
	w := &origWalker{seen: map[ssa.Value]bool{}, o: o}
	w.walk(v)
	return w.roots
}

type origWalker struct {
	seen  map[ssa.Value]bool
	roots []Root
	o     *originOpts
}

func (w *origWalker) root(r Root) { w.roots = append(w.roots, r) }

func (w *origWalker) walk(v ssa.Value) {
	if v == nil || w.seen[v] {
		return
	}
	w.seen[v] = true
	switch x := v.(type) {
	case *ssa.Const:
		d := "nil"
		if x.Value != nil {
			d = x.Value.ExactString()
		}
		w.root(Root{Kind: "const", Val: v, Desc: d})
	case *ssa.Parameter:
		w.root(Root{Kind: "param", Val: v, Desc: refParamName(x)})
	case *ssa.FreeVar:
		// resolve through the MakeClosure in the parent
		fn := x.Parent()
		idx := -1
		for i, fv := range fn.FreeVars {
			if fv == x {
				idx = i
			}
		}
		found := false
		if p := fn.Parent(); p != nil && idx >= 0 {
			for _, b := range p.Blocks {
				for _, in := range b.Instrs {
					if mc, ok := in.(*ssa.MakeClosure); ok && mc.Fn == fn {
						found = true
						w.walk(mc.Bindings[idx])
					}
				}
			}
		}
		if !found {
			w.root(Root{Kind: "freevar", Val: v, Desc: refFreeVarName(x)})
		}
	case *ssa.Phi:
		for _, e := range x.Edges {
			w.walk(e)
		}
	case *ssa.Extract:
		if c, ok := x.Tuple.(*ssa.Call); ok {
			w.call(c, x.Index, v)
		} else {
			// comma-ok forms: TypeAssert, Lookup, UnOp recv
			switch t := x.Tuple.(type) {
			case *ssa.TypeAssert:
				if x.Index == 0 {
					w.walk(t.X)
				} else {
					w.root(Root{Kind: "unknown", Val: v, Desc: "typeassert-ok"})
				}
			case *ssa.Lookup:
				if x.Index == 0 {
					w.root(Root{Kind: "elem", Val: v, Desc: "map-elem"})
					w.walk(t.X)
				} else {
					w.root(Root{Kind: "unknown", Val: v, Desc: "lookup-ok"})
				}
			default:
				w.root(Root{Kind: "unknown", Val: v, Desc: fmt.Sprintf("extract of %T", x.Tuple)})
			}
		}
	case *ssa.Call:
		w.call(x, 0, v)
	case *ssa.UnOp:
		if x.Op == token.MUL {
			w.load(x.X, v)
		} else {
			w.walk(x.X)
		}
	case *ssa.Alloc:
		// address of a local cell: its contents' origins
		w.cell(x)
	case *ssa.FieldAddr:
		w.load(x, v)
	case *ssa.IndexAddr:
		w.root(Root{Kind: "elem", Val: v, Desc: "index"})
		w.walk(x.X)
	case *ssa.MakeInterface:
		w.walk(x.X)
	case *ssa.ChangeType:
		w.walk(x.X)
	case *ssa.ChangeInterface:
		w.walk(x.X)
	case *ssa.Convert:
		w.walk(x.X)
	case *ssa.Slice:
		w.walk(x.X)
	case *ssa.TypeAssert:
		w.walk(x.X)
	case *ssa.BinOp:
		w.walk(x.X)
		w.walk(x.Y)
	case *ssa.Field:
		w.root(Root{Kind: "field", Val: v, Desc: fieldName(x.X.Type(), x.Field)})
		// a field of a local struct that was loaded whole (a struct argument after inlining): only what was
		// stored into that field
		if ld, ok := x.X.(*ssa.UnOp); ok && ld.Op == token.MUL {
			if al, ok := ld.X.(*ssa.Alloc); ok && al.Referrers() != nil {
				w.localField(al, x.Field, v, 0)
				return
			}
		}
		w.walk(x.X)
	case *ssa.Index:
		w.root(Root{Kind: "elem", Val: v, Desc: "index"})
		w.walk(x.X)
	case *ssa.Lookup:
		w.root(Root{Kind: "elem", Val: v, Desc: "map-elem"})
		w.walk(x.X)
	case *ssa.Global:
		w.root(Root{Kind: "global", Val: v, Desc: x.Name()})
	case *ssa.Function:
		w.root(Root{Kind: "func", Val: v, Desc: fnName(x)})
	case *ssa.MakeClosure:
		w.root(Root{Kind: "func", Val: v, Desc: fnName(x.Fn.(*ssa.Function))})
	case *ssa.MakeSlice, *ssa.MakeMap, *ssa.MakeChan:
		w.root(Root{Kind: "alloc", Val: v, Desc: "make"})
	case *ssa.Range, *ssa.Next:
		w.root(Root{Kind: "elem", Val: v, Desc: "range"})
	default:
		w.root(Root{Kind: "unknown", Val: v, Desc: fmt.Sprintf("%T", v)})
	}
}

func fieldName(t types.Type, i int) string {
	if p, ok := t.Underlying().(*types.Pointer); ok {
		t = p.Elem()
	}
	if s, ok := t.Underlying().(*types.Struct); ok && i < s.NumFields() {
		if nt, isN := types.Unalias(t).(*types.Named); isN {
			return refFieldName(nt, s, i)
		}
		return s.Field(i).Name()
	}
	return fmt.Sprintf("#%d", i)
}

func (w *origWalker) call(c *ssa.Call, idx int, v ssa.Value) {
	if b, ok := c.Call.Value.(*ssa.Builtin); ok {
		switch b.Name() {
		case "append", "min", "max":
			for _, a := range c.Call.Args {
				w.walk(a)
			}
			return
		}
		w.root(Root{Kind: "call", Val: v, Desc: "builtin." + b.Name(), Call: c, Idx: idx})
		return
	}
	n := calleeName(c)
	if w.o != nil && w.o.stop[n] {
		w.root(Root{Kind: "call", Val: v, Desc: n, Call: c, Idx: idx})
		return
	}
	args, ok := propagators[n]
	if !ok && w.o != nil {
		args, ok = w.o.extra[n]
	}
	if ok {
		// the propagator call itself is recorded too (rules may look for it)
		w.root(Root{Kind: "via", Val: v, Desc: n, Call: c, Idx: idx})
		a := callArgs(c)
		if args == nil {
			for _, x := range a {
				w.walk(x)
			}
		} else {
			for _, i := range args {
				if i < len(a) {
					w.walk(a[i])
				}
			}
		}
		return
	}
	w.root(Root{Kind: "call", Val: v, Desc: n, Call: c, Idx: idx})
}

// cell: origins of everything stored into a local cell (Alloc), including
// stores made in closures that capture it.
func (w *origWalker) cell(a *ssa.Alloc) {
	found := false
	for _, st := range storesTo(a) {
		found = true
		w.walk(st.Val)
	}
	// field-wise initialisation of a struct cell is handled by load(); a cell
	// that is only written through FieldAddr has no whole-value store.
	// variadic slices: new [n]T; IndexAddr stores
	for _, r := range *a.Referrers() {
		switch r := r.(type) {
		case *ssa.IndexAddr:
			for _, rr := range *r.Referrers() {
				if st, ok := rr.(*ssa.Store); ok && st.Addr == r {
					found = true
					w.walk(st.Val)
				}
			}
		case *ssa.FieldAddr:
			for _, rr := range *r.Referrers() {
				if st, ok := rr.(*ssa.Store); ok && st.Addr == r {
					found = true
					w.walk(st.Val)
				}
			}
		}
	}
	for _, c := range escapesTo(a) {
		// address passed to a call (e.g. xml.Unmarshal(body, &x)): the callee fills it
		w.root(Root{Kind: "call", Val: a, Desc: calleeName(c) + "(&cell)", Call: c, Idx: -1})
		found = true
	}
	if !found {
		w.root(Root{Kind: "const", Val: a, Desc: "zero"})
	}
}

// escapesTo: calls that receive the address of the cell (directly or boxed in an interface).
func escapesTo(a ssa.Value) []*ssa.Call {
	var out []*ssa.Call
	refs := a.Referrers()
	if refs == nil {
		return nil
	}
	for _, r := range *refs {
		switch r := r.(type) {
		case *ssa.Call:
			out = append(out, r)
		case *ssa.MakeInterface:
			out = append(out, escapesTo(r)...)
		case *ssa.ChangeType:
			out = append(out, escapesTo(r)...)
		}
	}
	return out
}

func storesTo(addr ssa.Value) []*ssa.Store {
	var out []*ssa.Store
	refs := addr.Referrers()
	if refs == nil {
		return nil
	}
	for _, r := range *refs {
		switch r := r.(type) {
		case *ssa.Store:
			if r.Addr == addr {
				out = append(out, r)
			}
		case *ssa.MakeClosure:
			// captured by reference: stores through the free variable
			fn := r.Fn.(*ssa.Function)
			for i, b := range r.Bindings {
				if b == addr && i < len(fn.FreeVars) {
					out = append(out, storesTo(fn.FreeVars[i])...)
				}
			}
		}
	}
	return out
}

// load: origins of *addr.
func (w *origWalker) load(addr ssa.Value, v ssa.Value) {
	switch a := addr.(type) {
	case *ssa.Alloc:
		w.cell(a)
	case *ssa.FreeVar:
		w.walk(a)
		// a freevar bound to a cell: walk() reaches the Alloc → cell()
	case *ssa.Global:
		w.root(Root{Kind: "global", Val: v, Desc: a.Name()})
	case *ssa.FieldAddr:
		base := a.X
		fname := fieldName(base.Type(), a.Field)
		if al, ok := base.(*ssa.Alloc); ok {
			w.root(Root{Kind: "field", Val: v, Desc: fname})
			w.localField(al, a.Field, v, 0)
			return
		}
		w.root(Root{Kind: "field", Val: v, Desc: fname})
		w.walk(base)
	case *ssa.IndexAddr:
		w.root(Root{Kind: "elem", Val: v, Desc: "index"})
		w.walk(a.X)
	default:
		w.walk(addr)
	}
}

// localField: what field i of the local struct cell al can hold: the values stored into that field; for a store of
// a whole struct, that struct's field i when it is a load of another local cell (a struct passed by value, also
// after inlining), otherwise everything the stored value comes from.
func (w *origWalker) localField(al *ssa.Alloc, i int, v ssa.Value, depth int) {
	found := false
	for _, r := range *al.Referrers() {
		if fa, ok := r.(*ssa.FieldAddr); ok && fa.Field == i {
			for _, st := range storesTo(fa) {
				found = true
				w.walk(st.Val)
			}
		}
	}
	// the struct values stored as a whole: a load of another local cell, or a merge of such (the result of an
	// inlined helper that returns the struct by value from several places)
	var whole func(sv ssa.Value, d int)
	seenPhi := map[*ssa.Phi]bool{}
	whole = func(sv ssa.Value, d int) {
		if ld, ok := sv.(*ssa.UnOp); ok && ld.Op == token.MUL && d < 5 {
			if al2, ok := ld.X.(*ssa.Alloc); ok && al2 != al && al2.Referrers() != nil {
				w.localField(al2, i, v, d+1)
				return
			}
		}
		if ph, ok := sv.(*ssa.Phi); ok && d < 5 && !seenPhi[ph] {
			seenPhi[ph] = true
			for _, e := range ph.Edges {
				whole(e, d+1)
			}
			return
		}
		if c, ok := sv.(*ssa.Const); ok && c.Value == nil {
			w.root(Root{Kind: "const", Val: v, Desc: "zero"})
			return
		}
		w.walk(sv)
	}
	for _, st := range storesTo(al) {
		found = true
		whole(st.Val, depth)
	}
	esc := false
	for _, c := range escapesTo(al) {
		esc = true
		w.root(Root{Kind: "call", Val: v, Desc: calleeName(c) + "(&cell)", Call: c, Idx: -1})
	}
	if !found && !esc {
		w.root(Root{Kind: "const", Val: v, Desc: "zero"})
	}
}

// rootsMatch: true if every non-"via"/"field"/"elem" root satisfies pred.
func terminalRoots(rs []Root) []Root {
	var out []Root
	for _, r := range rs {
		switch r.Kind {
		case "via", "field", "elem":
		default:
			out = append(out, r)
		}
	}
	return out
}

func rootsDesc(rs []Root) string {
	var s []string
	seen := map[string]bool{}
	for _, r := range rs {
		d := r.String()
		if r.Kind == "call" && r.Call != nil {
			for _, a := range callArgs(r.Call) {
				if cs, ok := constString(a); ok {
					d += fmt.Sprintf("(%q)", cs)
				}
			}
		}
		if !seen[d] {
			seen[d] = true
			s = append(s, d)
		}
	}
	sort.Strings(s)
	return strings.Join(s, ", ")
}

// hasCallRoot: some root is a call to callee with first const-string arg == arg (arg "" = any).
func hasCallRoot(rs []Root, callee, arg string) bool {
	for _, r := range rs {
		if (r.Kind == "call" || r.Kind == "via") && r.Desc == callee && r.Call != nil {
			if arg == "" {
				return true
			}
			for _, a := range callArgs(r.Call) {
				if cs, ok := constString(a); ok && cs == arg {
					return true
				}
			}
		}
	}
	return false
}

// ---- struct literal fields ---------------------------------------------------

// litFields: for a struct value built in place (SSA: Alloc + FieldAddr stores,
// then loaded or passed by address), map field name -> stored values.
func litFields(v ssa.Value) (map[string][]ssa.Value, *ssa.Alloc) {
	// unwrap load
	if u, ok := v.(*ssa.UnOp); ok && u.Op == token.MUL {
		v = u.X
	}
	if mi, ok := v.(*ssa.MakeInterface); ok {
		return litFields(mi.X)
	}
	al, ok := v.(*ssa.Alloc)
	if !ok {
		return nil, nil
	}
	out := map[string][]ssa.Value{}
	for _, r := range *al.Referrers() {
		if fa, ok := r.(*ssa.FieldAddr); ok {
			n := fieldName(al.Type(), fa.Field)
			for _, st := range storesTo(fa) {
				out[n] = append(out[n], st.Val)
			}
		}
	}
	return out, al
}

// litFieldsAt: as litFields, counting only the stores that can execute before the use (a struct that is built
// once and then has a field changed inside a loop holds the loop's value only at the uses the loop reaches).
func litFieldsAt(v ssa.Value, use ssa.Instruction) (map[string][]ssa.Value, *ssa.Alloc) {
	if u, ok := v.(*ssa.UnOp); ok && u.Op == token.MUL {
		v = u.X
	}
	if mi, ok := v.(*ssa.MakeInterface); ok {
		return litFieldsAt(mi.X, use)
	}
	al, ok := v.(*ssa.Alloc)
	if !ok {
		return nil, nil
	}
	out := map[string][]ssa.Value{}
	for _, r := range *al.Referrers() {
		if fa, ok := r.(*ssa.FieldAddr); ok {
			n := fieldName(al.Type(), fa.Field)
			for _, st := range storesTo(fa) {
				if use == nil || st.Parent() != use.Parent() || mayPrecede(st, use) {
					out[n] = append(out[n], st.Val)
				}
			}
		}
	}
	return out, al
}

// ---- condition atoms and region cuts ---------------------------------------

// atomsOf collects what a (condition) value is computed from: "field:NAME",
// "const:VALUE", "call:CALLEE", "param:NAME", "global:NAME", "arg:STRING" (constant string
// arguments of calls), walking through operators, loads and call arguments.
func atomsOf(v ssa.Value) map[string]bool {
	out := map[string]bool{}
	seen := map[ssa.Value]bool{}
	var walk func(v ssa.Value, depth int)
	walk = func(v ssa.Value, depth int) {
		if v == nil || seen[v] || depth > 12 {
			return
		}
		seen[v] = true
		switch x := v.(type) {
		case *ssa.Const:
			if x.Value != nil {
				out["const:"+x.Value.ExactString()] = true
			} else {
				out["const:nil"] = true
			}
		case *ssa.Field:
			out["field:"+fieldName(x.X.Type(), x.Field)] = true
			if isOwnReceiver(x.X) {
				out["param:"+fieldName(x.X.Type(), x.Field)] = true
			}
			if srcs := fieldSources(v); len(srcs) != 1 || srcs[0] != v {
				for _, sv := range srcs {
					walk(sv, depth+1)
				}
				return
			}
			walk(x.X, depth+1)
		case *ssa.Parameter:
			out["param:"+refParamName(x)] = true
		case *ssa.FreeVar:
			out["param:"+refFreeVarName(x)] = true
		case *ssa.Global:
			out["global:"+x.Name()] = true
		case *ssa.BinOp:
			out["op:"+x.Op.String()] = true
			walk(x.X, depth+1)
			walk(x.Y, depth+1)
		case *ssa.UnOp:
			if fa, isFA := x.X.(*ssa.FieldAddr); isFA && x.Op == token.MUL {
				if srcs := fieldSources(v); len(srcs) != 1 || srcs[0] != v {
					out["field:"+fieldName(fa.X.Type(), fa.Field)] = true
					for _, sv := range srcs {
						walk(sv, depth+1)
					}
					return
				}
			}
			walk(x.X, depth+1)
		case *ssa.FieldAddr:
			out["field:"+fieldName(x.X.Type(), x.Field)] = true
			// state a closure captured, moved into the fields of the handler object the method belongs to: a
			// field of the method's own receiver answers to the captured variable's name as well
			if isOwnReceiver(x.X) {
				out["param:"+fieldName(x.X.Type(), x.Field)] = true
			}
			walk(x.X, depth+1)
		case *ssa.Call:
			n := calleeName(x)
			if b, ok := x.Call.Value.(*ssa.Builtin); ok {
				n = b.Name()
			}
			out["call:"+n] = true
			for _, a := range x.Call.Args {
				if s, ok := constString(a); ok {
					out["arg:"+s] = true
				}
				walk(a, depth+1)
			}
			if x.Call.IsInvoke() {
				walk(x.Call.Value, depth+1)
			}
		case *ssa.Extract:
			out[fmt.Sprintf("extract:%d", x.Index)] = true
			walk(x.Tuple, depth+1)
		case *ssa.Phi:
			for _, e := range x.Edges {
				walk(e, depth+1)
			}
		case *ssa.Alloc:
			for _, st := range storesTo(x) {
				walk(st.Val, depth+1)
			}
		case *ssa.MakeInterface:
			walk(x.X, depth+1)
		case *ssa.ChangeType:
			walk(x.X, depth+1)
		case *ssa.Convert:
			walk(x.X, depth+1)
		case *ssa.TypeAssert:
			walk(x.X, depth+1)
		case *ssa.Slice:
			walk(x.X, depth+1)
		case *ssa.IndexAddr:
			walk(x.X, depth+1)
			walk(x.Index, depth+1)
		case *ssa.Index:
			walk(x.X, depth+1)
		case *ssa.Lookup:
			walk(x.X, depth+1)
			walk(x.Index, depth+1)
		}
	}
	walk(v, 0)
	return out
}

// isOwnReceiver: v is the receiver of the method it is used in, or a copy of it (a value receiver handed on to an
// inlined method of the same type).
func isOwnReceiver(v ssa.Value) bool {
	var fn *ssa.Function
	switch x := v.(type) {
	case *ssa.Parameter:
		fn = x.Parent()
	case ssa.Instruction:
		fn = x.Parent()
	}
	if fn == nil || fn.Signature.Recv() == nil || len(fn.Params) == 0 {
		return false
	}
	recv := fn.Params[0]
	if v == ssa.Value(recv) {
		return true
	}
	if !types.Identical(derefType(v.Type()), derefType(recv.Type())) {
		return false
	}
	rs := terminalRoots(Origins(v, nil))
	for _, rt := range rs {
		if rt.Kind != "param" || rt.Val != ssa.Value(recv) {
			return false
		}
	}
	return len(rs) > 0
}

func hasAll(m map[string]bool, keys ...string) bool {
	for _, k := range keys {
		if !m[k] {
			return false
		}
	}
	return true
}

// condEdge describes one If: the edge on which the (normalised) condition
// holds and the one on which it does not. A `!=` comparison or a `!x` is
// normalised to its positive form, so "holds" means X == Y / x is true.
type condEdge struct {
	ifi     *ssa.If
	cond    ssa.Value // normalised (innermost) condition
	atoms   map[string]bool
	holds   edge
	fails   edge
	isEqNeq bool
	binop   *ssa.BinOp
	viaPhi  bool // cond was reached through a phi of boolean constants and this value: only one side is exact
	exact   int  // with viaPhi: the successor index on which cond's truth is implied (-1: neither)
}

func condEdgesOf(f *ssa.Function) []condEdge {
	var out []condEdge
	for _, b := range f.Blocks {
		if len(b.Instrs) == 0 {
			continue
		}
		ifi, ok := b.Instrs[len(b.Instrs)-1].(*ssa.If)
		if !ok {
			continue
		}
		c := ifi.Cond
		pos := true
		viaPhi := false
		exact := -1
		for hops := 0; hops < 4; hops++ {
			if u, ok := c.(*ssa.UnOp); ok && u.Op == token.NOT {
				c = u.X
				pos = !pos
				continue
			}
			if fw := forwardFieldLoad(c); fw != nil {
				c = fw
				continue
			}
			// a boolean merged from constants and one computed value (the result of an inlined predicate that
			// returns false early and `a == b` otherwise): on the side the constants exclude, the condition is
			// the computed value
			if phi, ok := c.(*ssa.Phi); ok {
				var other ssa.Value
				n, allFalse, allTrue := 0, true, true
				for _, e := range phi.Edges {
					if k, isC := e.(*ssa.Const); isC && k.Value != nil && k.Value.Kind() == constant.Bool {
						if constant.BoolVal(k.Value) {
							allFalse = false
						} else {
							allTrue = false
						}
						continue
					}
					other = e
					n++
				}
				if n == 1 && len(phi.Edges) > 1 && (allFalse || allTrue) {
					// allFalse: phi true  => other true (exact on the holds side)
					// allTrue:  phi false => other false (exact on the fails side)
					c = other
					// the If's successor on which the phi has the value the constants exclude
					side := 0
					if allTrue {
						side = 1
					}
					if !pos {
						side = 1 - side
					}
					if viaPhi && exact != side {
						side = -1
					}
					exact = side
					viaPhi = true
					continue
				}
			}
			break
		}
		ce := condEdge{ifi: ifi, cond: c, viaPhi: viaPhi, exact: exact}
		if bo, ok := c.(*ssa.BinOp); ok {
			ce.binop = bo
			if bo.Op == token.NEQ {
				pos = !pos
				ce.isEqNeq = true
			} else if bo.Op == token.EQL {
				ce.isEqNeq = true
			}
		}
		ce.atoms = atomsOf(c)
		if pos {
			ce.holds, ce.fails = edge{b, 0}, edge{b, 1}
		} else {
			ce.holds, ce.fails = edge{b, 1}, edge{b, 0}
		}
		out = append(out, ce)
	}
	return out
}

func (ce condEdge) pos() token.Pos {
	if ce.cond != nil && ce.cond.Pos().IsValid() {
		return ce.cond.Pos()
	}
	if ce.binop != nil {
		for _, v := range []ssa.Value{ce.binop.X, ce.binop.Y} {
			if v.Pos().IsValid() {
				return v.Pos()
			}
		}
	}
	for _, in := range ce.ifi.Block().Instrs {
		if in.Pos().IsValid() {
			return in.Pos()
		}
	}
	return token.NoPos
}

// returnsOf lists Return instructions of f.
func returnsOf(f *ssa.Function) []*ssa.Return {
	var out []*ssa.Return
	for _, b := range f.Blocks {
		for _, in := range b.Instrs {
			if r, ok := in.(*ssa.Return); ok {
				out = append(out, r)
			}
		}
	}
	return out
}

// errorResultIdx: index of the (last) error result of f, or -1.
func errorResultIdx(sig *types.Signature) int {
	for i := sig.Results().Len() - 1; i >= 0; i-- {
		if isErrorType(sig.Results().At(i).Type()) {
			return i
		}
	}
	return -1
}

// nilReturnEdges: the (block, via-edge) places where f returns a nil error.
// A Return whose error operand is a Phi is split per incoming edge: the
// returned list contains, for every way to return nil, the set of edges to
// test: either the return block itself (from == nil edge) or the predecessor edge.
type retSite struct {
	ret  *ssa.Return
	pred *ssa.BasicBlock // non-nil: only when entered from this predecessor (phi edge)
	val  ssa.Value
	phiB *ssa.BasicBlock // the block of the (innermost) phi the value enters through
}

func errReturnSites(f *ssa.Function) []retSite {
	idx := errorResultIdx(f.Signature)
	if idx < 0 {
		return nil
	}
	var out []retSite
	for _, r := range returnsOf(f) {
		for _, s := range expandRetValue(r, r.Results[idx]) {
			// a phi edge whose value decides the test between it and the return (a helper's nil result
			// followed by `if err != nil { return err }`) is not a way to return that value
			if s.pred != nil && !flowsToReturn(f, s, nil) {
				continue
			}
			out = append(out, s)
		}
	}
	return out
}

// expandRetValue splits a returned value that is a phi (in the return block or in a block the return block
// is reached from, e.g. the merged result of an inlined helper) into one site per incoming edge, transitively;
// pred is the block the concrete value flows out of.
func expandRetValue(r *ssa.Return, v ssa.Value) []retSite {
	var out []retSite
	seen := map[*ssa.Phi]bool{}
	var rec func(v ssa.Value, pred, phiB *ssa.BasicBlock, depth int)
	rec = func(v ssa.Value, pred, phiB *ssa.BasicBlock, depth int) {
		if phi, ok := v.(*ssa.Phi); ok && depth < 5 && !seen[phi] && len(phi.Edges) == len(phi.Block().Preds) {
			seen[phi] = true
			for i, e := range phi.Edges {
				rec(e, phi.Block().Preds[i], phi.Block(), depth+1)
			}
			return
		}
		out = append(out, retSite{r, pred, v, phiB})
	}
	rec(v, nil, nil, 0)
	return out
}

// siteReachable: is the return site reachable from entry with the cut applied (for a value that enters
// through a phi: the block it flows out of is reachable, and the return is reachable from there)?
func siteReachable(f *ssa.Function, s retSite, cut []edge) bool {
	reach := reachable(f, nil, cut)
	if s.pred == nil {
		return reach[s.ret.Block()]
	}
	if !reach[s.pred] {
		return false
	}
	return flowsToReturn(f, s, cut)
}

// flowsToReturn: the value enters its phi along pred -> phiB and the return is reached from there without
// coming back to the phi's block (where the phi would take a new value).
func flowsToReturn(f *ssa.Function, s retSite, cut []edge) bool {
	if s.phiB == nil {
		return reachable(f, s.pred, cut)[s.ret.Block()]
	}
	cs := map[edge]bool{}
	for _, e := range cut {
		cs[e] = true
	}
	entered := false
	for i, su := range s.pred.Succs {
		if su == s.phiB && !cs[edge{s.pred, i}] {
			entered = true
		}
	}
	if !entered {
		return false
	}
	if s.phiB == s.ret.Block() {
		return true
	}
	type st struct{ b, via *ssa.BasicBlock }
	type item struct {
		st
		nils []ssa.Value // values known to be the site's nil on this walk (the phis it has flowed into)
	}
	done := map[st]bool{{s.phiB, s.pred}: true}
	var first []ssa.Value
	if isNilConst(s.val) {
		for _, in := range s.phiB.Instrs {
			ph, isPhi := in.(*ssa.Phi)
			if !isPhi {
				break
			}
			for i, pr := range s.phiB.Preds {
				if pr == s.pred && i < len(ph.Edges) && ph.Edges[i] == s.val {
					first = append(first, ph)
				}
			}
		}
	}
	work := []item{{st{s.phiB, s.pred}, first}}
	for len(work) > 0 {
		cur := work[len(work)-1]
		work = work[:len(work)-1]
		okT, okF := feasibleSuccs(cur.b, cur.via)
		// a test of a value that is the site's nil on this walk is decided, however many merges lie in between
		if len(cur.b.Succs) == 2 && len(cur.b.Instrs) > 0 && len(cur.nils) > 0 {
			if ifi, isIf := cur.b.Instrs[len(cur.b.Instrs)-1].(*ssa.If); isIf {
				base, pos := testedValue(ifi.Cond)
				for _, nv := range cur.nils {
					if base == nv {
						if pos {
							okT, okF = false, true
						} else {
							okT, okF = true, false
						}
					}
				}
			}
		}
		for i, su := range cur.b.Succs {
			if cs[edge{cur.b, i}] || su == s.phiB {
				continue
			}
			if len(cur.b.Succs) == 2 && ((i == 0 && !okT) || (i == 1 && !okF)) {
				continue
			}
			if su == s.ret.Block() {
				if len(cur.nils) == 0 || len(first) == 0 {
					return true
				}
				// the value returned on this edge must be the site's nil (or a nil of its own), not another
				// value merged in at the return block
				carried := false
				idx := errorResultIdx(f.Signature)
				if idx >= 0 && idx < len(s.ret.Results) {
					rv := s.ret.Results[idx]
					if ph, isPhi := rv.(*ssa.Phi); isPhi && ph.Block() == su {
						for k, pr := range su.Preds {
							if pr == cur.b && k < len(ph.Edges) {
								rv = ph.Edges[k]
							}
						}
					}
					if isNilConst(rv) {
						carried = true
					}
					for _, nv := range cur.nils {
						if rv == nv {
							carried = true
						}
					}
				} else {
					carried = true
				}
				if carried {
					return true
				}
				continue
			}
			n := st{su, cur.b}
			if !done[n] {
				done[n] = true
				nils := cur.nils
				// the nil flows on into the phis of su that take a known-nil value on this edge
				for _, in := range su.Instrs {
					ph, isPhi := in.(*ssa.Phi)
					if !isPhi {
						break
					}
					for k, pr := range su.Preds {
						if pr != cur.b || k >= len(ph.Edges) {
							continue
						}
						for _, nv := range cur.nils {
							if ph.Edges[k] == nv {
								nils = append(append([]ssa.Value{}, nils...), ph)
							}
						}
					}
				}
				work = append(work, item{n, nils})
			}
		}
	}
	return false
}

func isBuiltinCall(c ssa.CallInstruction, name string) bool {
	b, ok := c.Common().Value.(*ssa.Builtin)
	return ok && b.Name() == name
}

// ---- fail-closed primitive ---------------------------------------------------

// failsClosed: the error result of call c (in f) is tested, and from every edge on
// which it is non-nil no nil-error return of f is reachable (the failure is not
// swallowed). Returns ok and a reason.
func failsClosed(f *ssa.Function, c ssa.CallInstruction) (bool, string) {
	nilE, nonNilE := nilTestEdgesCall(c)
	if len(nilE)+len(nonNilE) == 0 {
		// the error may be returned directly (`return g()`): then it is propagated
		for _, ev := range errValues(c) {
			for _, s := range errReturnSites(f) {
				for _, a := range aliasesOf(ev) {
					if s.val == a {
						return true, "returned directly"
					}
				}
			}
		}
		// merged: the error flows into a phi that is tested (the result of an inlined helper): assume it
		// non-nil on the edge it enters the phi by and look for a nil return from there
		merged := false
		for _, ev := range errValues(c) {
			for _, a := range aliasesOf(ev) {
				if a.Referrers() == nil {
					continue
				}
				for _, ref := range *a.Referrers() {
					phi, ok := ref.(*ssa.Phi)
					if !ok || len(phi.Edges) != len(phi.Block().Preds) {
						continue
					}
					for i, e := range phi.Edges {
						if e != a {
							continue
						}
						merged = true
						assumeTruth.Store(a, 1)
						reach := reachableVia(f, phi.Block(), phi.Block().Preds[i], nil)
						assumeTruth.Delete(a)
						for _, s := range errReturnSites(f) {
							if !isNilConst(s.val) {
								continue
							}
							if (s.pred != nil && reach[s.pred]) || (s.pred == nil && reach[s.ret.Block()]) {
								return false, "a nil return is reachable after the call failed"
							}
						}
					}
				}
			}
		}
		if merged {
			return true, "merged result: failure reaches no nil return"
		}
		return false, "error result is never tested nor returned"
	}
	for _, e := range nonNilE {
		reach := reachableFromEdge(f, e, nil)
		for _, s := range errReturnSites(f) {
			if !isNilConst(s.val) {
				continue
			}
			if s.pred != nil {
				if reach[s.pred] {
					return false, "a nil return is reachable after the call failed"
				}
			} else if reach[s.ret.Block()] {
				return false, "a nil return is reachable after the call failed"
			}
		}
	}
	return true, "failure edge reaches no nil return"
}

// staticCallees: transitive closure of statically resolved callees within the module
// (plus UnmarshalJSON methods of types decoded by encoding/json.Unmarshal calls).
func staticCallees(p *Program, root *ssa.Function) map[string]bool {
	seen := map[string]bool{}
	var visit func(f *ssa.Function)
	visit = func(f *ssa.Function) {
		if f == nil || seen[fnName(f)] {
			return
		}
		seen[fnName(f)] = true
		if f.Blocks == nil {
			return
		}
		for _, fn := range withAnon(f) {
			for _, c := range callsIn(fn) {
				// functions handed over as values (method expressions given to a generic helper, callbacks) are
				// called by whoever receives them
				for _, a := range c.Common().Args {
					if _, isSig := a.Type().Underlying().(*types.Signature); !isSig {
						continue
					}
					for _, g := range funcValuesOf(a) {
						if g.Pkg != nil && strings.HasPrefix(g.Pkg.Pkg.Path(), modPath) {
							visit(g)
						}
					}
				}
				if sc := c.Common().StaticCallee(); sc != nil {
					if o := sc.Origin(); o != nil && sc.Pkg == nil && o.Pkg != nil && strings.HasPrefix(o.Pkg.Pkg.Path(), modPath) {
						visit(sc) // an instance of a generic function of the module
					}
					if sc.Pkg != nil && strings.HasPrefix(sc.Pkg.Pkg.Path(), modPath) {
						visit(sc)
					}
					if n := calleeName(c); n == "encoding/json.Unmarshal" || n == "encoding/xml.Unmarshal" {
						args := c.Common().Args
						if len(args) == 2 {
							for _, m := range decoderMethods(p, args[1], "") {
								visit(m)
							}
						}
					}
				}
			}
		}
	}
	visit(root)
	return seen
}

// decoderMethods: UnmarshalJSON methods of the pointed-to type and of the types of its
// (nested) fields / elements.
func decoderMethods(p *Program, arg ssa.Value, _ string) []*ssa.Function {
	if mi, ok := arg.(*ssa.MakeInterface); ok {
		arg = mi.X
	}
	var out []*ssa.Function
	seen := map[types.Type]bool{}
	var walk func(t types.Type, d int)
	walk = func(t types.Type, d int) {
		if t == nil || seen[t] || d > 6 {
			return
		}
		seen[t] = true
		for _, tt := range []types.Type{t, types.NewPointer(t)} {
			ms := p.SSA.MethodSets.MethodSet(tt)
			for i := 0; i < ms.Len(); i++ {
				if ms.At(i).Obj().Name() == "UnmarshalJSON" {
					if fn := p.SSA.MethodValue(ms.At(i)); fn != nil {
						out = append(out, fn)
					}
				}
			}
		}
		switch u := t.Underlying().(type) {
		case *types.Pointer:
			walk(u.Elem(), d+1)
		case *types.Struct:
			for i := 0; i < u.NumFields(); i++ {
				walk(u.Field(i).Type(), d+1)
			}
		case *types.Slice:
			walk(u.Elem(), d+1)
		case *types.Array:
			walk(u.Elem(), d+1)
		case *types.Map:
			walk(u.Key(), d+1)
			walk(u.Elem(), d+1)
		}
	}
	walk(arg.Type(), 0)
	return out
}

// isNilTestOfField: the condition is `X == nil` / `X != nil` where X is read directly from
// field `field` of a parameter (no call in between). holds = X == nil.
func isNilTestOfField(ce condEdge, field string) bool {
	if ce.binop == nil || !ce.isEqNeq {
		return false
	}
	var x ssa.Value
	if isNilConst(ce.binop.Y) {
		x = ce.binop.X
	} else if isNilConst(ce.binop.X) {
		x = ce.binop.Y
	} else {
		return false
	}
	has := false
	for _, rt := range Origins(x, &originOpts{stop: map[string]bool{}}) {
		switch rt.Kind {
		case "field":
			if rt.Desc == field {
				has = true
			}
		case "call", "via", "unknown", "global":
			return false
		}
	}
	return has
}

// stringSet: the constant strings v can be: a constant, a phi of such, or an element of a slice/array whose
// elements are all constants (a local literal, or a package-level table initialised with one and never stored to
// elsewhere). ok=false when the set cannot be enumerated.
func stringSet(p *Program, v ssa.Value) ([]string, bool) {
	seen := map[ssa.Value]bool{}
	out := map[string]bool{}
	ok := true
	var walk func(v ssa.Value)
	var elems func(arr ssa.Value)
	elems = func(arr ssa.Value) {
		if seen[arr] {
			return
		}
		seen[arr] = true
		switch x := arr.(type) {
		case *ssa.Slice:
			elems(x.X)
		case *ssa.Alloc:
			n := 0
			if x.Referrers() != nil {
				for _, ref := range *x.Referrers() {
					if ia, isIA := ref.(*ssa.IndexAddr); isIA {
						for _, st := range storesTo(ia) {
							n++
							walk(st.Val)
						}
					}
				}
			}
			if n == 0 {
				ok = false
			}
		case *ssa.Global:
			// the address of a package-level array (sliced in place: tbl[:])
			elems(&ssa.UnOp{Op: token.MUL, X: x})
		case *ssa.UnOp:
			if g, isG := x.X.(*ssa.Global); isG && x.Op == token.MUL {
				// the table's initialiser in the package init function(s); any other store makes it unknown
				n := 0
				for _, sp := range p.SSAPkg {
					if sp.Pkg != g.Pkg.Pkg {
						continue
					}
					for _, f := range pkgFuncs(p.SSA, sp) {
						for _, b := range f.Blocks {
							for _, in := range b.Instrs {
								if st, isSt := in.(*ssa.Store); isSt && st.Addr == ssa.Value(g) {
									if !strings.HasPrefix(f.Name(), "init") {
										ok = false
									}
									n++
									elems(st.Val)
								}
								// a package-level array is initialised element by element
								if ia, isIA := in.(*ssa.IndexAddr); isIA && ia.X == ssa.Value(g) {
									for _, st := range storesTo(ia) {
										if !strings.HasPrefix(f.Name(), "init") {
											ok = false
										}
										n++
										walk(st.Val)
									}
								}
							}
						}
					}
				}
				if n == 0 {
					ok = false
				}
				return
			}
			ok = false
		case *ssa.Phi:
			for _, e := range x.Edges {
				elems(e)
			}
		default:
			ok = false
		}
	}
	walk = func(v ssa.Value) {
		if seen[v] {
			return
		}
		seen[v] = true
		if s, isC := constString(v); isC {
			out[s] = true
			return
		}
		switch x := v.(type) {
		case *ssa.Phi:
			for _, e := range x.Edges {
				walk(e)
			}
		case *ssa.UnOp:
			if x.Op != token.MUL {
				ok = false
				return
			}
			switch a := x.X.(type) {
			case *ssa.IndexAddr:
				elems(a.X)
			case *ssa.FieldAddr:
				// a string field of a table row: rows are struct literals stored into the table's elements
				if ia, isIA := a.X.(*ssa.IndexAddr); isIA {
					rowFieldStrings(p, ia.X, a.Field, seen, out, &ok)
				} else if al, isAl := a.X.(*ssa.Alloc); isAl {
					fieldOfLocalStrings(p, al, a.Field, out, &ok)
				} else {
					ok = false
				}
			default:
				ok = false
			}
		case *ssa.Index:
			elems(x.X)
		case *ssa.Field:
			if ld, isLd := x.X.(*ssa.UnOp); isLd && ld.Op == token.MUL {
				if ia, isIA := ld.X.(*ssa.IndexAddr); isIA {
					rowFieldStrings(p, ia.X, x.Field, seen, out, &ok)
					return
				}
			}
			// a row of an array that is ranged over by value: Index(load(array cell), i).field
			if ix, isIx := x.X.(*ssa.Index); isIx {
				if ld, isLd := ix.X.(*ssa.UnOp); isLd && ld.Op == token.MUL {
					rowFieldStrings(p, ld.X, x.Field, seen, out, &ok)
					return
				}
			}
			ok = false
		case *ssa.ChangeType:
			walk(x.X)
		case *ssa.Convert:
			walk(x.X)
		default:
			ok = false
		}
	}
	switch v.Type().Underlying().(type) {
	case *types.Slice, *types.Array:
		elems(v) // the table as a whole (an argument of slices.Contains / ContainsFunc)
	default:
		walk(v)
	}
	var res []string
	for s := range out {
		res = append(res, s)
	}
	sort.Strings(res)
	return res, ok && len(res) > 0
}

// tableMembershipTest: cond is slices.Contains(tbl, x) / slices.ContainsFunc(tbl, f) / slices.Index*(…) >= 0 over a
// constant table of strings: the strings and, for the Func forms, the function value tested with.
func tableMembershipTest(p *Program, cond ssa.Value) (names []string, fn ssa.Value, subject ssa.Value, ok bool) {
	c, isCall := cond.(*ssa.Call)
	if !isCall || len(c.Call.Args) != 2 {
		return nil, nil, nil, false
	}
	n := calleeName(c)
	if i := strings.Index(n, "["); i > 0 {
		n = n[:i]
	}
	switch n {
	case "slices.Contains":
		subject = c.Call.Args[1]
	case "slices.ContainsFunc":
		fn = c.Call.Args[1]
	default:
		return nil, nil, nil, false
	}
	ss, okS := stringSet(p, c.Call.Args[0])
	if !okS {
		return nil, nil, nil, false
	}
	return ss, fn, subject, true
}

// rowFieldStrings: constants that field #fld of the struct elements of a table can hold (local literal, or a
// package-level table initialised in init), following whole-struct copies through local struct variables.
func rowFieldStrings(p *Program, tbl ssa.Value, fld int, seen map[ssa.Value]bool, out map[string]bool, ok *bool) {
	n := 0
	visited := map[ssa.Value]bool{}
	var structVal func(v ssa.Value, depth int)  // a struct value
	var structAddr func(a ssa.Value, depth int) // the address of a struct
	var tableElems func(t ssa.Value, depth int) // a slice/array (value or address) of structs
	structAddr = func(a ssa.Value, depth int) {
		if a == nil || depth > 10 || visited[a] {
			return
		}
		visited[a] = true
		switch x := a.(type) {
		case *ssa.Alloc:
			if x.Referrers() == nil {
				return
			}
			for _, ref := range *x.Referrers() {
				switch r := ref.(type) {
				case *ssa.Store:
					if r.Addr == ssa.Value(x) {
						structVal(r.Val, depth+1)
					}
				case *ssa.FieldAddr:
					if r.Field == fld {
						for _, st := range storesTo(r) {
							if s, isC := constString(st.Val); isC {
								out[s] = true
								n++
							} else {
								*ok = false
							}
						}
					}
				}
			}
		case *ssa.IndexAddr:
			tableElems(x.X, depth+1)
		default:
			*ok = false
		}
	}
	structVal = func(v ssa.Value, depth int) {
		if v == nil || depth > 10 {
			return
		}
		switch x := v.(type) {
		case *ssa.UnOp:
			if x.Op == token.MUL {
				structAddr(x.X, depth+1)
				return
			}
		case *ssa.Phi:
			for _, e := range x.Edges {
				structVal(e, depth+1)
			}
			return
		}
		*ok = false
	}
	tableElems = func(t ssa.Value, depth int) {
		if t == nil || depth > 10 || visited[t] {
			return
		}
		visited[t] = true
		switch x := t.(type) {
		case *ssa.Slice:
			tableElems(x.X, depth+1)
		case *ssa.Phi:
			for _, e := range x.Edges {
				tableElems(e, depth+1)
			}
		case *ssa.Alloc: // the backing array
			if x.Referrers() == nil {
				return
			}
			for _, ref := range *x.Referrers() {
				ia, isIA := ref.(*ssa.IndexAddr)
				if !isIA {
					continue
				}
				for _, st := range storesTo(ia) {
					structVal(st.Val, depth+1)
				}
				if ia.Referrers() != nil {
					for _, r2 := range *ia.Referrers() {
						if fa, isFA := r2.(*ssa.FieldAddr); isFA && fa.Field == fld {
							for _, st := range storesTo(fa) {
								if s, isC := constString(st.Val); isC {
									out[s] = true
									n++
								} else {
									*ok = false
								}
							}
						}
					}
				}
			}
		case *ssa.UnOp:
			if g, isG := x.X.(*ssa.Global); isG && x.Op == token.MUL {
				for _, sp := range p.SSAPkg {
					if sp.Pkg != g.Pkg.Pkg {
						continue
					}
					for _, f := range pkgFuncs(p.SSA, sp) {
						for _, b := range f.Blocks {
							for _, in := range b.Instrs {
								if st, isSt := in.(*ssa.Store); isSt && st.Addr == ssa.Value(g) {
									if !strings.HasPrefix(f.Name(), "init") {
										*ok = false
									}
									tableElems(st.Val, depth+1)
								}
							}
						}
					}
				}
				return
			}
			*ok = false
		default:
			*ok = false
		}
	}
	tableElems(tbl, 0)
	if n == 0 {
		*ok = false
	}
}

// fieldOfLocalStrings: constants that field #fld of the local struct variable al can hold.
func fieldOfLocalStrings(p *Program, al *ssa.Alloc, fld int, out map[string]bool, ok *bool) {
	// reuse the table walker: a local struct is a one-row table reached through its stores
	n := len(out)
	if al.Referrers() == nil {
		*ok = false
		return
	}
	for _, ref := range *al.Referrers() {
		switch r := ref.(type) {
		case *ssa.Store:
			if r.Addr != ssa.Value(al) {
				continue
			}
			if ld, isLd := r.Val.(*ssa.UnOp); isLd && ld.Op == token.MUL {
				switch a := ld.X.(type) {
				case *ssa.IndexAddr:
					rowFieldStrings(p, a.X, fld, nil, out, ok)
				case *ssa.Alloc:
					fieldOfLocalStrings(p, a, fld, out, ok)
				default:
					*ok = false
				}
			} else if ix, isIx := r.Val.(*ssa.Index); isIx {
				// an element of an array ranged over by value: Index(load(array cell), i)
				if ld, isLd := ix.X.(*ssa.UnOp); isLd && ld.Op == token.MUL {
					rowFieldStrings(p, ld.X, fld, nil, out, ok)
				} else {
					*ok = false
				}
			} else {
				*ok = false
			}
		case *ssa.FieldAddr:
			if r.Field == fld {
				for _, st := range storesTo(r) {
					if s, isC := constString(st.Val); isC {
						out[s] = true
					} else {
						*ok = false
					}
				}
			}
		}
	}
	if len(out) == n {
		*ok = false
	}
}

// forwardFieldLoad: v is a load of a boolean struct field that this function assigns exactly once, before the
// load, with no call in between that receives the struct (so nothing else can have changed it): the stored
// value. Otherwise nil. (`cr.isEOF = err == io.EOF; ...; if cr.isEOF` tests err == io.EOF.)
func forwardFieldLoad(v ssa.Value) ssa.Value {
	ld, ok := v.(*ssa.UnOp)
	if !ok || ld.Op != token.MUL {
		return nil
	}
	fa, ok := ld.X.(*ssa.FieldAddr)
	if !ok {
		return nil
	}
	if b, isB := ld.Type().Underlying().(*types.Basic); !isB || b.Kind() != types.Bool {
		return nil
	}
	f := ld.Parent()
	if f == nil {
		return nil
	}
	var store *ssa.Store
	n := 0
	for _, b := range f.Blocks {
		for _, in := range b.Instrs {
			st, ok := in.(*ssa.Store)
			if !ok {
				continue
			}
			fa2, ok := st.Addr.(*ssa.FieldAddr)
			if !ok || fa2.Field != fa.Field || fa2.X != fa.X {
				continue
			}
			n++
			store = st
		}
	}
	if n != 1 || !mayPrecede(store, ld) || mayPrecede(ld, store) {
		return nil
	}
	// no call that is handed the struct between the store and the load
	for _, b := range f.Blocks {
		for _, in := range b.Instrs {
			c, ok := in.(ssa.CallInstruction)
			if !ok {
				continue
			}
			gets := false
			for _, a := range c.Common().Args {
				if a == fa.X {
					gets = true
				}
			}
			if c.Common().IsInvoke() && c.Common().Value == fa.X {
				gets = true
			}
			if gets && mayPrecede(store, c) && mayPrecede(c, ld) {
				return nil
			}
		}
	}
	return store.Val
}

// evalIntOnEdge: the integer value of v in block b when b was entered from via, if it is determined by constants,
// by the entering edge of a phi of b, and by the lengths of arrays / literal-backed slices.
func evalIntOnEdge(v ssa.Value, b, via *ssa.BasicBlock, depth int) (int64, bool) {
	if depth > 6 {
		return 0, false
	}
	switch x := v.(type) {
	case *ssa.Const:
		if x.Value != nil && x.Value.Kind() == constant.Int {
			if n, ok := constant.Int64Val(x.Value); ok {
				return n, true
			}
		}
	case *ssa.Phi:
		if x.Block() != b {
			return 0, false
		}
		idx, n := -1, 0
		for i, p := range b.Preds {
			if p == via {
				idx = i
				n++
			}
		}
		if idx < 0 || n != 1 || idx >= len(x.Edges) {
			return 0, false
		}
		if c, ok := x.Edges[idx].(*ssa.Const); ok && c.Value != nil && c.Value.Kind() == constant.Int {
			if n, ok := constant.Int64Val(c.Value); ok {
				return n, true
			}
		}
	case *ssa.BinOp:
		if x.Op == token.ADD || x.Op == token.SUB {
			l, okl := evalIntOnEdge(x.X, b, via, depth+1)
			r, okr := evalIntOnEdge(x.Y, b, via, depth+1)
			if okl && okr {
				if x.Op == token.ADD {
					return l + r, true
				}
				return l - r, true
			}
		}
	case *ssa.Call:
		if bi, ok := x.Call.Value.(*ssa.Builtin); ok && bi.Name() == "len" && len(x.Call.Args) == 1 {
			switch a := x.Call.Args[0].(type) {
			case *ssa.Slice:
				if a.Low == nil && a.High == nil && a.Max == nil {
					if pt, ok := a.X.Type().Underlying().(*types.Pointer); ok {
						if at, ok := pt.Elem().Underlying().(*types.Array); ok {
							return at.Len(), true
						}
					}
				}
			case *ssa.Const:
				if a.Value != nil && a.Value.Kind() == constant.String {
					return int64(len(constant.StringVal(a.Value))), true
				}
			}
		}
	}
	return 0, false
}

// reachedIn: the return site is reached given the set of reachable blocks: for a value entering through a phi,
// the block it flows out of must be reachable and the value must flow on to the return.
func (s retSite) reachedIn(reach map[*ssa.BasicBlock]bool) bool {
	if s.pred == nil {
		return reach[s.ret.Block()]
	}
	return reach[s.pred] && reach[s.ret.Block()] && flowsToReturn(s.ret.Parent(), s, nil)
}

type valueLeaf struct {
	val  ssa.Value
	from *ssa.BasicBlock // the block the value flows out of (the use's block for a non-phi value)
	to   *ssa.BasicBlock // the block of the phi it flows into (nil for a non-phi value)
}

// truthOnEdge: is v known true/non-nil (+1) or false/nil (-1) when control passes from block from to block to?
func truthOnEdge(v ssa.Value, from, to *ssa.BasicBlock) int {
	if from == nil {
		return 0
	}
	if to != nil && len(from.Instrs) > 0 && len(from.Succs) == 2 && from.Succs[0] != from.Succs[1] {
		if ifi, ok := from.Instrs[len(from.Instrs)-1].(*ssa.If); ok {
			base, pos := testedValue(ifi.Cond)
			if base == v {
				if (from.Succs[0] == to) == pos {
					return 1
				}
				return -1
			}
		}
	}
	return truthiness(v, from)
}

// valueLeaves splits a value that is a phi (transitively) into the values that flow in on each edge.
func valueLeaves(v ssa.Value, at *ssa.BasicBlock) []valueLeaf {
	var out []valueLeaf
	seen := map[*ssa.Phi]bool{}
	var rec func(v ssa.Value, from, to *ssa.BasicBlock, depth int)
	rec = func(v ssa.Value, from, to *ssa.BasicBlock, depth int) {
		if phi, ok := v.(*ssa.Phi); ok && depth < 5 && !seen[phi] && len(phi.Edges) == len(phi.Block().Preds) {
			seen[phi] = true
			for i, e := range phi.Edges {
				rec(e, phi.Block().Preds[i], phi.Block(), depth+1)
			}
			return
		}
		out = append(out, valueLeaf{v, from, to})
	}
	rec(v, at, nil, 0)
	return out
}

// funcValuesOf: the functions a function-typed value may denote, found structurally: a function, a closure (a bound
// method's wrapper is replaced by the method), the results of a statically resolved call that returns such a value,
// phis and conversions of these.
func funcValuesOf(v ssa.Value) []*ssa.Function {
	var out []*ssa.Function
	seen := map[ssa.Value]bool{}
	add := func(g *ssa.Function) {
		// `x.m` as a value: a synthetic wrapper that calls the method
		// `x.m` / `T.m` as a value: a synthetic wrapper that calls the method
		for _, suf := range []string{"$bound", "$thunk"} {
			if g.Synthetic != "" && strings.HasSuffix(g.Name(), suf) && len(g.Blocks) > 0 {
				for _, c := range callsIn(g) {
					if sc := c.Common().StaticCallee(); sc != nil && sc.Name() == strings.TrimSuffix(g.Name(), suf) {
						g = sc
						break
					}
				}
			}
		}
		for _, h := range out {
			if h == g {
				return
			}
		}
		out = append(out, g)
	}
	var walk func(v ssa.Value, depth int)
	walk = func(v ssa.Value, depth int) {
		if v == nil || seen[v] || depth > 6 {
			return
		}
		seen[v] = true
		switch x := v.(type) {
		case *ssa.Function:
			add(x)
		case *ssa.MakeClosure:
			if g, ok := x.Fn.(*ssa.Function); ok {
				add(g)
			}
		case *ssa.ChangeType:
			walk(x.X, depth+1)
		case *ssa.MakeInterface:
			walk(x.X, depth+1)
		case *ssa.Phi:
			for _, e := range x.Edges {
				walk(e, depth+1)
			}
		case *ssa.UnOp:
			if x.Op == token.MUL {
				if al, ok := x.X.(*ssa.Alloc); ok {
					for _, st := range storesTo(al) {
						walk(st.Val, depth+1)
					}
				}
			}
		case *ssa.Call:
			if g := x.Call.StaticCallee(); g != nil && len(g.Blocks) > 0 {
				for _, ret := range returnsOf(g) {
					for _, rv := range ret.Results {
						if _, isSig := rv.Type().Underlying().(*types.Signature); isSig {
							walk(rv, depth+1)
						}
					}
				}
			}
		case *ssa.Extract:
			if c, ok := x.Tuple.(*ssa.Call); ok {
				if g := c.Call.StaticCallee(); g != nil && len(g.Blocks) > 0 {
					for _, ret := range returnsOf(g) {
						if x.Index < len(ret.Results) {
							walk(ret.Results[x.Index], depth+1)
						}
					}
				}
			}
		}
	}
	walk(v, 0)
	return out
}

// storedToField: is v (or a value it is computed from by conversions) the value some store in f puts into a
// struct field of that name? (`sig := compute(); x.prev = sig; if sig != x.parsed` compares what `x.prev` holds.)
func storedToField(f *ssa.Function, v ssa.Value, field string) bool {
	for _, b := range f.Blocks {
		for _, in := range b.Instrs {
			st, ok := in.(*ssa.Store)
			if !ok {
				continue
			}
			fa, ok := st.Addr.(*ssa.FieldAddr)
			if !ok || fieldName(fa.X.Type(), fa.Field) != field {
				continue
			}
			for _, a := range aliasesOf(v) {
				if st.Val == a {
					return true
				}
			}
		}
	}
	return false
}

// ---- verdict closure -------------------------------------------------------------------------------------
//
// A function "succeeds only through a verdict" when every nil-error return of it is unreachable once the
// accepting edges of the verdict tests in it, and the success edges of its calls to other such functions, are
// cut (or when its error is directly the error of such a function). The set is found by name-free fixpoint
// over the given functions, so the rules built on it do not care how the verdict is split into helpers.
type verdictSet struct {
	cut  map[*ssa.Function][]edge // accepting edges per member
	site map[*ssa.Function][]condEdge
}

func (vs *verdictSet) has(f *ssa.Function) bool { _, ok := vs.cut[f]; return ok }

// cutsIn: the edges of f (member or not) that lie behind a verdict: its own accepting edges and the success edges of
// its calls to members.
func (vs *verdictSet) cutsIn(f *ssa.Function, accept func(*ssa.Function, condEdge) bool) (cut []edge, direct []ssa.Value) {
	for _, ce := range condEdgesOf(f) {
		if accept(f, ce) {
			cut = append(cut, ce.holds)
		}
	}
	for _, c := range callsIn(f) {
		g := c.Common().StaticCallee()
		if g == nil || !vs.has(g) {
			continue
		}
		if _, isCall := c.(*ssa.Call); !isCall {
			continue
		}
		cut = append(cut, successEdges(c)...)
		for _, ev := range errValues(c) {
			direct = append(direct, aliasesOf(ev)...)
		}
	}
	return
}

func verdictClosure(funcs []*ssa.Function, accept func(*ssa.Function, condEdge) bool) *verdictSet {
	vs := &verdictSet{cut: map[*ssa.Function][]edge{}, site: map[*ssa.Function][]condEdge{}}
	for changed := true; changed; {
		changed = false
		for _, f := range funcs {
			if vs.has(f) || len(f.Blocks) == 0 {
				continue
			}
			res := f.Signature.Results()
			if res.Len() == 0 || !isErrorType(res.At(res.Len()-1).Type()) {
				continue
			}
			cut, direct := vs.cutsIn(f, accept)
			isDirect := false
			ok := true
			for _, s := range errReturnSites(f) {
				for _, d := range direct {
					if s.val == d {
						isDirect = true
					}
				}
				if isNilConst(s.val) && (len(cut) == 0 || siteReachable(f, s, cut)) {
					ok = false
				}
			}
			if ok && (len(cut) > 0 || isDirect) {
				vs.cut[f] = cut
				for _, ce := range condEdgesOf(f) {
					if accept(f, ce) {
						vs.site[f] = append(vs.site[f], ce)
					}
				}
				changed = true
			}
		}
	}
	return vs
}

// sectionCall: a call in f that opens a window (offset, length) over a file: io.NewSectionReader itself, or a
// module function that hands two of its own parameters unchanged to one (a constructor wrapping the reader).
type sectionCall struct {
	call        ssa.CallInstruction
	off, length ssa.Value
}

func sectionWrapperParams(g *ssa.Function, depth int) (offIdx, lenIdx int, ok bool) {
	if g == nil || len(g.Blocks) == 0 || depth > 2 {
		return 0, 0, false
	}
	pidx := func(v ssa.Value) int {
		for i, prm := range g.Params {
			if v == ssa.Value(prm) {
				return i
			}
		}
		return -1
	}
	for _, c := range callsIn(g) {
		var o, l ssa.Value
		if calleeName(c) == "io.NewSectionReader" {
			a := callArgs(c)
			o, l = a[1], a[2]
		} else if h := c.Common().StaticCallee(); h != nil && h != g {
			if oi, li, ok2 := sectionWrapperParams(h, depth+1); ok2 {
				a := c.Common().Args
				if oi < len(a) && li < len(a) {
					o, l = a[oi], a[li]
				}
			}
		}
		if o == nil {
			continue
		}
		oi, li := pidx(o), pidx(l)
		if oi >= 0 && li >= 0 {
			return oi, li, true
		}
	}
	return 0, 0, false
}

func sectionCallsIn(f *ssa.Function) []sectionCall {
	var out []sectionCall
	for _, c := range callsIn(f) {
		if calleeName(c) == "io.NewSectionReader" {
			a := callArgs(c)
			out = append(out, sectionCall{c, a[1], a[2]})
			continue
		}
		g := c.Common().StaticCallee()
		if g == nil || g.Pkg == nil || !strings.HasPrefix(g.Pkg.Pkg.Path(), modPath) {
			continue
		}
		if oi, li, ok := sectionWrapperParams(g, 0); ok {
			a := c.Common().Args // includes the receiver for methods, as g.Params does
			if oi < len(a) && li < len(a) {
				out = append(out, sectionCall{c, a[oi], a[li]})
			}
		}
	}
	return out
}

// leafOnlyBehind: can the leaf value arrive (at the phi it flows into, or at its use) only after passing one of
// the cut edges?
func leafOnlyBehind(f *ssa.Function, lf valueLeaf, cut []edge) bool {
	if lf.from == nil {
		return false
	}
	if !reachable(f, nil, cut)[lf.from] {
		return true
	}
	if lf.to == nil {
		return false
	}
	all := false
	for i, sc := range lf.from.Succs {
		if sc != lf.to {
			continue
		}
		in := false
		for _, e := range cut {
			if e.from == lf.from && e.succ == i {
				in = true
			}
		}
		if !in {
			return false
		}
		all = true
	}
	return all
}

// fieldSources: for a value read from a field of a local struct cell (directly or through whole-struct copies of
// other local cells, as a struct argument looks after inlining), the values that were stored into that field;
// otherwise the value itself.
func fieldSources(v ssa.Value) []ssa.Value {
	var al *ssa.Alloc
	idx := -1
	switch x := v.(type) {
	case *ssa.UnOp:
		if x.Op == token.MUL {
			if fa, ok := x.X.(*ssa.FieldAddr); ok {
				if a, ok := fa.X.(*ssa.Alloc); ok {
					al, idx = a, fa.Field
				}
			}
		}
	case *ssa.Field:
		if ld, ok := x.X.(*ssa.UnOp); ok && ld.Op == token.MUL {
			if a, ok := ld.X.(*ssa.Alloc); ok {
				al, idx = a, x.Field
			}
		}
	}
	if al == nil {
		return []ssa.Value{v}
	}
	var out []ssa.Value
	var rec func(al *ssa.Alloc, depth int)
	rec = func(al *ssa.Alloc, depth int) {
		if al.Referrers() == nil || depth > 4 {
			return
		}
		for _, r := range *al.Referrers() {
			if fa, ok := r.(*ssa.FieldAddr); ok && fa.Field == idx {
				for _, st := range storesTo(fa) {
					out = append(out, fieldSources(st.Val)...)
				}
			}
		}
		// whole-struct stores: a load of another cell, or a merge of such (an inlined helper that returns the
		// struct by value from several places)
		seenPhi := map[*ssa.Phi]bool{}
		var whole func(sv ssa.Value, d int)
		whole = func(sv ssa.Value, d int) {
			if d > 5 {
				return
			}
			if ld, ok := sv.(*ssa.UnOp); ok && ld.Op == token.MUL {
				if al2, ok := ld.X.(*ssa.Alloc); ok && al2 != al {
					rec(al2, depth+1)
				}
				return
			}
			if ph, ok := sv.(*ssa.Phi); ok && !seenPhi[ph] {
				seenPhi[ph] = true
				for _, e := range ph.Edges {
					whole(e, d+1)
				}
			}
		}
		for _, st := range storesTo(al) {
			whole(st.Val, 0)
		}
	}
	rec(al, 0)
	if len(out) == 0 {
		return []ssa.Value{v}
	}
	return out
}

var globalNonNilCache sync.Map // *ssa.Global -> bool

// globalSetOnceNonNil: the only store to g in its package is in the package initialiser and stores a value that
// cannot be nil (errors.New, fmt.Errorf, a MakeInterface).
func globalSetOnceNonNil(g *ssa.Global) bool {
	if v, ok := globalNonNilCache.Load(g); ok {
		return v.(bool)
	}
	res := false
	if g.Pkg != nil {
		n, good := 0, 0
		var scan func(f *ssa.Function)
		scan = func(f *ssa.Function) {
			for _, b := range f.Blocks {
				for _, in := range b.Instrs {
					if st, ok := in.(*ssa.Store); ok && st.Addr == ssa.Value(g) {
						n++
						if f.Name() == "init" && f.Parent() == nil {
							switch v := st.Val.(type) {
							case *ssa.MakeInterface:
								good++
							case *ssa.Call:
								if cn := calleeName(v); cn == "errors.New" || cn == "fmt.Errorf" {
									good++
								}
							}
						}
					}
				}
			}
			for _, a := range f.AnonFuncs {
				scan(a)
			}
		}
		for _, m := range g.Pkg.Members {
			if f, ok := m.(*ssa.Function); ok {
				scan(f)
			}
		}
		prog := g.Pkg.Prog
		for _, m := range g.Pkg.Members {
			if t, ok := m.(*ssa.Type); ok {
				for _, tt := range []types.Type{t.Type(), types.NewPointer(t.Type())} {
					ms := prog.MethodSets.MethodSet(tt)
					for i := 0; i < ms.Len(); i++ {
						if f := prog.MethodValue(ms.At(i)); f != nil && f.Pkg == g.Pkg {
							scan(f)
						}
					}
				}
			}
		}
		res = n == 1 && good == 1
	}
	globalNonNilCache.Store(g, res)
	return res
}

// assumedSuccs: a branch that tests a value under an assumption (assumeTruth) directly is left only through the
// successor that agrees with it.
func assumedSuccs(b *ssa.BasicBlock) (onTrue, onFalse, decided bool) {
	if len(b.Instrs) == 0 || len(b.Succs) != 2 {
		return true, true, false
	}
	ifi, ok := b.Instrs[len(b.Instrs)-1].(*ssa.If)
	if !ok {
		return true, true, false
	}
	base, pos := testedValue(ifi.Cond)
	t, ok := assumeTruth.Load(base)
	if !ok {
		return true, true, false
	}
	condTrue := (t.(int) > 0) == pos
	return condTrue, !condTrue, true
}

// mustSucceedBefore: no target is reached unless one of the calls succeeded (or one of the other edges was taken):
// (i) with the calls' blocks removed (and the other edges cut) no target is reachable; (ii) from a call whose error
// is assumed non-nil no target is reachable. Unlike cutting the success edges of a direct nil test, this does not
// care whether the error is tested where it is produced or after it was merged into the result of a helper.
func mustSucceedBefore(f *ssa.Function, calls []ssa.CallInstruction, other []edge, targets []*ssa.BasicBlock) (bool, string) {
	if len(calls) == 0 {
		return false, "no such call"
	}
	avoid := map[*ssa.BasicBlock]bool{}
	for _, c := range calls {
		avoid[c.Block()] = true
	}
	reach := reachableAvoiding(f, nil, other, avoid)
	for _, t := range targets {
		if reach[t] {
			return false, "reachable without passing the call"
		}
	}
	for _, c := range calls {
		if ok, why := noTargetAfterFailure(f, c, targets); !ok {
			return false, why
		}
	}
	return true, ""
}

// noTargetAfterFailure: from call c, with its error result assumed non-nil, no target block is reachable.
func noTargetAfterFailure(f *ssa.Function, c ssa.CallInstruction, targets []*ssa.BasicBlock) (bool, string) {
	evs := errValues(c)
	if len(evs) == 0 {
		return false, "the call has no error result"
	}
	var assumed []ssa.Value
	for _, ev := range evs {
		for _, a := range aliasesOf(ev) {
			assumeTruth.Store(a, 1)
			assumed = append(assumed, a)
		}
	}
	r2 := reachable(f, c.Block(), nil)
	for _, a := range assumed {
		assumeTruth.Delete(a)
	}
	for _, t := range targets {
		if r2[t] {
			return false, "reachable after the call failed"
		}
	}
	return true, ""
}
