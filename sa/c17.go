package main

import (
	"go/types"
	"strings"

	"golang.org/x/tools/go/ssa"
)

func init() {
	register(&propCheck{id: "C17", run: runC17, controls: controlsC17})
}

func isMutexCall(c ssa.CallInstruction, names ...string) bool {
	n := calleeName(c)
	for _, w := range names {
		if n == "(*sync.RWMutex)."+w || n == "(*sync.Mutex)."+w {
			return true
		}
	}
	return false
}

// heldAt: a call to one of lockNames on a mutex precedes `target` on every path from entry
// (must-pass), and no non-deferred unlock may run between them.
func lockHeldAt(f *ssa.Function, target ssa.Instruction, lockNames, unlockNames []string) (bool, string) {
	var locks, unlocks []ssa.CallInstruction
	for _, c := range callsIn(f) {
		if _, isCall := c.(*ssa.Call); !isCall {
			continue
		}
		if isMutexCall(c, lockNames...) {
			locks = append(locks, c)
		}
		if isMutexCall(c, unlockNames...) {
			unlocks = append(unlocks, c)
		}
	}
	if len(locks) == 0 {
		return false, "no " + strings.Join(lockNames, "/") + " call in the function"
	}
	// must pass: with the lock blocks removed (or lock after target in the same block) target unreachable
	avoid := map[*ssa.BasicBlock]bool{}
	same := false
	for _, l := range locks {
		if l.Block() == target.Block() {
			if instrIndex(l) < instrIndex(target) {
				same = true
			}
			continue
		}
		avoid[l.Block()] = true
	}
	if !same && reachableAvoiding(f, nil, nil, avoid)[target.Block()] {
		return false, "the call is reachable on a path that does not take the lock"
	}
	for _, u := range unlocks {
		for _, l := range locks {
			if mayPrecede(l, u) && mayPrecede(u, target) {
				return false, "the lock may be released before the call"
			}
		}
	}
	// released on all exits: a deferred unlock exists
	deferred := false
	for _, c := range callsIn(f) {
		if _, isDefer := c.(*ssa.Defer); isDefer && isMutexCall(c, unlockNames...) {
			deferred = true
		}
	}
	if !deferred && len(unlocks) == 0 {
		return false, "the lock is never released"
	}
	return true, "lock taken on every path before the call"
}

func runC17(p *Program, r *Report) {
	r.Rule("R-C17-1", "the account store is serialised: every call to storeIAM happens with the receiver's write lock held, every call to getIAM/readIAMData with at least the read lock, and the lock is released by a deferred unlock", 5)
	r.Rule("R-C17-2", "cached copies are complete: every keyed auth.Account literal in the IAM cache that is built from another Account sets all fields of the struct", 1)
	r.Rule("R-C17-3", "write-through order: in IAMCache Create/Delete/Update the cache mutation is reachable only through the service call's success edge, and the service failure is returned", 3)
	r.Rule("R-C17-4", "no lost-update window between the service and the cache: an IAMCache method that calls the service and then inserts into the cache holds a lock across both that Delete/Update also hold", 2)
	r.Rule("R-C17-5", "every request looks the account up: accounts.getAccount calls iam.GetUserAccount for every non-root key (no memoisation) and is the only producer of Locals(\"account\")", 3)
	r.Rule("R-C17-6", "read-modify-write under the lock: the update closure handed to storeIAM computes the new store content from its own data parameter; it captures only the method's parameters (no state read before the write lock was taken)", 3)
	r.Rule("R-C17-7", "the store file is replaced atomically: storeIAM writes the new content through writeTempFile (temp file + rename), and a failing update or write restores the previous content", 3)

	// R-C17-1 / R-C17-6
	ms := p.Methods("auth", "IAMServiceInternal")
	nStore := 0
	for _, m := range ms {
		for _, c := range callsIn(m) {
			switch calleeName(c) {
			case "(*auth.IAMServiceInternal).storeIAM":
				nStore++
				ok, why := lockHeldAt(m, c, []string{"Lock"}, []string{"Unlock"})
				r.Check(ok, "R-C17-1", fnName(m)+"/storeIAM:write-locked", p.Pos(c.Pos()), why, "storeIAM is called without the write lock: "+why)
				// closure argument
				args := callArgs(c)
				arg0 := args[0]
				if ct, isCT := arg0.(*ssa.ChangeType); isCT {
					arg0 = ct.X
				}
				if mc, isMC := arg0.(*ssa.MakeClosure); isMC {
					bad := ""
					var chk func(mc *ssa.MakeClosure, depth int)
					chk = func(mc *ssa.MakeClosure, depth int) {
						for _, b := range mc.Bindings {
							for _, rt := range terminalRoots(Origins(b, nil)) {
								// a captured function literal is judged by what it captures in turn
								if inner, isMC := rt.Val.(*ssa.MakeClosure); isMC && rt.Kind == "func" && depth < 3 {
									chk(inner, depth+1)
									continue
								}
								if fn, isFn := rt.Val.(*ssa.Function); isFn && rt.Kind == "func" && fn.Parent() == nil {
									continue // a top-level function captures nothing
								}
								if rt.Kind != "param" && rt.Kind != "const" {
									bad = rt.String()
								}
							}
						}
					}
					chk(mc, 0)
					r.Check(bad == "", "R-C17-6", fnName(m)+"/update-closure:captures-only-params", p.Pos(c.Pos()), "closure captures only method parameters", "the update closure uses state computed before the write lock was taken ("+bad+"): a concurrent update between that read and the locked write is lost")
					// the closure parses its own data parameter
					cl := mc.Fn.(*ssa.Function)
					if fs := funcValuesOf(mc); len(fs) == 1 {
						cl = fs[0] // a method value: the bound method itself
					}
					parsed := false
					for _, cc := range callsTo(cl, "auth.parseIAM") {
						for _, rt := range terminalRoots(Origins(callArgs(cc)[0], nil)) {
							if rt.Kind == "param" {
								parsed = true
							}
						}
					}
					r.Check(parsed, "R-C17-6", fnName(m)+"/update-closure:parses-current-data", p.Pos(c.Pos()), "closure parses the data it is given", "the update closure does not derive the new content from the store data it is handed under the lock")
				} else {
					r.Undecided("R-C17-6", fnName(m)+"/update-closure", p.Pos(c.Pos()), "storeIAM argument is not a closure literal")
				}
			case "(*auth.IAMServiceInternal).getIAM", "(*auth.IAMServiceInternal).readIAMData":
				if m.Name() == "getIAM" {
					continue // helper: its callers are checked
				}
				ok, why := lockHeldAt(m, c, []string{"RLock", "Lock"}, []string{"RUnlock", "Unlock"})
				r.Check(ok, "R-C17-1", fnName(m)+"/"+calleeName(c)[len("(*auth.IAMServiceInternal)."):]+":read-locked", p.Pos(c.Pos()), why, "the account store is read without a lock: "+why)
			}
		}
	}
	if nStore < 1 {
		broken("R-C17-1: only %d storeIAM call sites found", nStore)
	}

	// R-C17-7
	sf := p.Func("(*auth.IAMServiceInternal).storeIAM")
	wt := callsTo(sf, "(*auth.IAMServiceInternal).writeTempFile")
	r.Check(len(wt) == 1, "R-C17-7", fnName(sf)+"/writeTempFile", p.Pos(sf.Pos()), "new content written through writeTempFile", "storeIAM no longer writes the new content through the temp-file-and-rename helper")
	for _, c := range wt {
		ok, why := failsClosed(sf, c)
		r.Check(ok, "R-C17-7", fnName(sf)+"/writeTempFile:error-returned", p.Pos(c.Pos()), why, "a failed write of the account store is reported as success: "+why)
		// content originates from the update callback
		okO := false
		for _, rt := range Origins(callArgs(c)[0], nil) {
			if rt.Kind == "param" || (rt.Kind == "call" && rt.Call != nil && rt.Call.Common().StaticCallee() == nil && !rt.Call.Common().IsInvoke()) {
				okO = true
			}
		}
		r.Check(okO, "R-C17-7", fnName(sf)+"/writeTempFile:content<-update", p.Pos(c.Pos()), "content is the update callback's result", "the content written is not the update callback's result")
	}
	wf := p.Func("(*auth.IAMServiceInternal).writeTempFile")
	hasTemp, hasRename := len(callsTo(wf, "os.CreateTemp")) > 0, len(callsTo(wf, "os.Rename")) > 0
	r.Check(hasTemp && hasRename, "R-C17-7", fnName(wf)+"/temp+rename", p.Pos(wf.Pos()), "CreateTemp then Rename", "writeTempFile no longer replaces the store by rename of a temp file")
	for _, c := range callsTo(wf, "os.Rename") {
		ok, why := failsClosed(wf, c)
		r.Check(ok, "R-C17-7", fnName(wf)+"/rename:error-returned", p.Pos(c.Pos()), why, "a failed rename is not reported: "+why)
	}

	c17Cache(p, r)
	c17Lookup(p, r)
}

func c17Cache(p *Program, r *Report) {
	// R-C17-2: Account literals in iam_cache.go
	pk := p.Pkg("auth")
	acct, _ := pk.Types.Scope().Lookup("Account").Type().Underlying().(*types.Struct)
	if acct == nil {
		broken("auth.Account is not a struct")
	}
	n := 0
	for _, m := range append(p.Methods("auth", "IAMCache"), methodsOfType(p, "auth", c17CacheType(p))...) {
		for _, b := range m.Blocks {
			for _, in := range b.Instrs {
				al, ok := in.(*ssa.Alloc)
				if !ok || !strings.HasSuffix(typeStr(al.Type()), "auth.Account") {
					continue
				}
				fs, _ := litFields(al)
				if len(fs) == 0 {
					continue
				}
				// built from another account: some field originates from a parameter's field
				fromOther := false
				for _, vs := range fs {
					for _, v := range vs {
						for _, rt := range Origins(v, nil) {
							if rt.Kind == "field" {
								fromOther = true
							}
						}
					}
				}
				if !fromOther {
					continue
				}
				n++
				var missing []string
				for i := 0; i < acct.NumFields(); i++ {
					if _, set := fs[acct.Field(i).Name()]; !set {
						missing = append(missing, acct.Field(i).Name())
					}
				}
				r.Check(len(missing) == 0, "R-C17-2", fnName(m)+"/Account-literal#"+itoa(n), p.Pos(al.Pos()), "all fields copied", "the cached copy of the account drops field(s) "+strings.Join(missing, ", "))
			}
		}
	}
	if n == 0 {
		r.Viol("R-C17-2", "auth.IAMCache/Account-literal", "auth/iam_cache.go", "no Account copy literal found in the cache (anchor drift)")
	}
	// R-C17-3 / R-C17-4
	isSvc := func(c ssa.CallInstruction) bool { return isIAMCall(c) }
	// a cache mutator is a method of the cache type that writes its map (whatever it is called): an insertion
	// if it can store an entry without having found one, a plain mutation (update in place, delete) otherwise
	cacheT := c17CacheType(p)
	isCacheMut := func(c ssa.CallInstruction) (bool, bool) { // (mutation, insertion)
		g := c.Common().StaticCallee()
		if g == nil || g.Signature.Recv() == nil || cacheT == nil || !types.Identical(derefType(g.Signature.Recv().Type()), cacheT) {
			return false, false
		}
		var found []edge
		for _, ce := range condEdgesOf(g) {
			if ex, ok := ce.cond.(*ssa.Extract); ok && ex.Index == 1 {
				if lk, ok := ex.Tuple.(*ssa.Lookup); ok && lk.CommaOk {
					found = append(found, ce.holds)
				}
			}
		}
		live := reachable(g, nil, found)
		mut, ins := false, false
		for _, b := range g.Blocks {
			for _, in := range b.Instrs {
				switch x := in.(type) {
				case *ssa.MapUpdate:
					mut = true
					if len(found) == 0 || live[b] {
						ins = true
					}
				case *ssa.Call:
					if isBuiltinCall(x, "delete") {
						mut = true
					}
				}
			}
		}
		return mut, ins
	}
	for _, name := range []string{"CreateAccount", "DeleteUserAccount", "UpdateUserAccount", "GetUserAccount"} {
		m := p.Func("(*auth.IAMCache)." + name)
		var svc, muts, inserts []ssa.CallInstruction
		for _, c := range callsIn(m) {
			if isSvc(c) {
				svc = append(svc, c)
			}
			if mut, ins := isCacheMut(c); mut {
				muts = append(muts, c)
				if ins {
					inserts = append(inserts, c)
				}
			}
		}
		if name != "GetUserAccount" {
			if len(svc) == 0 || len(muts) == 0 {
				r.Viol("R-C17-3", fnName(m)+"/write-through", p.Pos(m.Pos()), "the method no longer calls both the service and the cache")
				continue
			}
			for i, mu := range muts {
				r.Check(guardedBy(m, mu, svc), "R-C17-3", fnName(m)+"/cache-mutation#"+itoa(i+1), p.Pos(mu.Pos()), "cache changed only after the service acknowledged", "the cache is changed before / without the service call having succeeded: a concurrent lookup re-caches the old state, or a failed change is cached")
			}
			for _, s := range svc {
				ok, why := failsClosed(m, s)
				r.Check(ok, "R-C17-3", fnName(m)+"/service-error-returned", p.Pos(s.Pos()), why, "a failed service call is reported as success: "+why)
			}
			// every nil return passes the cache mutation
			avoid := map[*ssa.BasicBlock]bool{}
			for _, mu := range muts {
				avoid[mu.Block()] = true
			}
			bad := false
			reach := reachableAvoiding(m, nil, nil, avoid)
			for _, s := range errReturnSites(m) {
				if isNilConst(s.val) && s.reachedIn(reach) {
					bad = true
				}
			}
			r.Check(!bad, "R-C17-3", fnName(m)+"/success-updates-cache", p.Pos(m.Pos()), "every success exit passed the cache mutation", "the method can return success without updating the cache: the old state keeps being served")
		}
		if len(inserts) > 0 && len(svc) > 0 {
			// one lock across both
			held := false
			for _, in := range inserts {
				if ok, _ := lockHeldAt(m, in, []string{"Lock"}, []string{"Unlock"}); ok {
					for _, s := range svc {
						if ok2, _ := lockHeldAt(m, s, []string{"Lock"}, []string{"Unlock"}); ok2 {
							held = true
						}
					}
				}
			}
			r.Check(held, "R-C17-4", fnName(m)+"/service-then-cache-insert:unlocked", p.Pos(inserts[0].Pos()), "one lock spans the service call and the cache insert", "the service call and the cache insert are not covered by one lock: a Delete/Update acknowledged in between is overwritten by the stale insert")
		}
	}
}

func c17Lookup(p *Program, r *Report) {
	g := p.Func("(" + mwPkg + ".accounts).getAccount")
	var iam []ssa.CallInstruction
	for _, c := range callsIn(g) {
		if isIAMCall(c) && c.Common().Method.Name() == "GetUserAccount" {
			iam = append(iam, c)
		}
	}
	if len(iam) == 0 {
		r.Viol("R-C17-5", fnName(g)+"/lookup", p.Pos(g.Pos()), "getAccount no longer asks the IAM service")
		return
	}
	// on the non-root edge every return is the IAM call's result
	var root []edge
	for _, ce := range condEdgesOf(g) {
		// the root test: the access key parameter against the configured root account's Access
		if ce.isEqNeq && ce.binop != nil && ce.atoms["field:Access"] {
			isRootAccess := func(v ssa.Value) bool {
				var st types.Type
				switch x := v.(type) {
				case *ssa.UnOp:
					if fa, ok := x.X.(*ssa.FieldAddr); ok {
						st = fa.X.Type()
					}
				case *ssa.Field:
					st = x.X.Type()
				}
				if st == nil {
					return false
				}
				if pt, ok := st.Underlying().(*types.Pointer); ok {
					st = pt.Elem()
				}
				nt, ok := types.Unalias(st).(*types.Named)
				return ok && nt.Obj().Name() == "RootUserConfig"
			}
			_, px := ce.binop.X.(*ssa.Parameter)
			_, py := ce.binop.Y.(*ssa.Parameter)
			if (px && isRootAccess(ce.binop.Y)) || (py && isRootAccess(ce.binop.X)) {
				root = append(root, ce.holds)
			}
		}
	}
	bad := len(root) == 0
	reach := reachable(g, nil, root)
	for _, ret := range returnsOf(g) {
		if !reach[ret.Block()] {
			continue
		}
		fromIAM := false
		for _, rt := range Origins(ret.Results[0], nil) {
			if rt.Kind == "call" && rt.Call == iam[0] {
				fromIAM = true
			}
		}
		if !fromIAM {
			bad = true
		}
	}
	r.Check(!bad, "R-C17-5", fnName(g)+"/non-root<-iam", p.Pos(g.Pos()), "every non-root lookup is answered by iam.GetUserAccount", "a non-root access key can be answered without asking the IAM service (memoised or synthesised account)")
	// the argument is the requested key
	okArg := false
	// (the function's string parameter: the same one the root test compares)
	for _, rt := range terminalRoots(Origins(callArgs(iam[0])[0], nil)) {
		if prm, isP := rt.Val.(*ssa.Parameter); rt.Kind == "param" && isP && prm.Parent() == g {
			if bt, isB := prm.Type().Underlying().(*types.Basic); isB && bt.Kind() == types.String {
				okArg = true
			}
		}
	}
	r.Check(okArg, "R-C17-5", fnName(g)+"/lookup-key", p.Pos(iam[0].Pos()), "looked up by the presented access key", "the IAM lookup is not keyed by the presented access key")
	// producers of Locals("account", v)
	n := 0
	for _, f := range p.FuncsIn(mwPkg, ctrlPkg, "s3api") {
		for _, c := range callsTo(f, fiberCtx+".Locals") {
			a := callArgs(c)
			if s, ok := constString(a[0]); !ok || s != "account" || len(a) < 2 {
				continue
			}
			// variadic: second arg is a slice of values
			vals := deepRoots(a[1])
			if len(vals) == 0 {
				continue
			}
			setter := false
			fromGet := false
			for _, rt := range vals {
				if rt.Kind == "call" && rt.Desc == "("+mwPkg+".accounts).getAccount" {
					fromGet = true
				}
				if rt.Kind != "const" || rt.Desc != "nil" {
					setter = true
				}
			}
			if !setter {
				continue
			}
			// a getter call passes an empty variadic (nil slice)
			if isNilConst(a[1]) {
				continue
			}
			n++
			r.Check(fromGet, "R-C17-5", fnName(f)+"/Locals(account)#"+itoa(n), p.Pos(c.Pos()), "account <- getAccount", "Locals(\"account\") is set from something other than accounts.getAccount")
		}
	}
	if n < 2 {
		r.Viol("R-C17-5", "Locals(account)/producers", "-", "expected the two auth middlewares to set Locals(\"account\"), found "+itoa(n))
	}
}

func controlsC17() []Control {
	return []Control{
		{Name: "internal DeleteUserAccount without the lock", Rule: "R-C17-1", File: "auth/iam_internal.go",
			Old: "func (s *IAMServiceInternal) DeleteUserAccount(access string) error {\n\ts.Lock()\n\tdefer s.Unlock()\n", New: "func (s *IAMServiceInternal) DeleteUserAccount(access string) error {\n", Expect: "DeleteUserAccount"},
		{Name: "revert fix cddd907: cached account without uid/gid", Rule: "R-C17-2", File: "auth/iam_cache.go",
			Old: "\t\tUserID:  account.UserID,\n\t\tGroupID: account.GroupID,\n", New: "", Expect: "Account-literal"},
		{Name: "IAMCache.DeleteUserAccount: cache dropped before the service call", Rule: "R-C17-3", File: "auth/iam_cache.go",
			Old: "\terr := c.service.DeleteUserAccount(access)\n\tif err != nil {\n\t\treturn err\n\t}\n\n\tc.iamcache.Delete(access)\n\treturn nil", New: "\tc.iamcache.Delete(access)\n\terr := c.service.DeleteUserAccount(access)\n\tif err != nil {\n\t\treturn err\n\t}\n\n\treturn nil", Expect: "DeleteUserAccount"},
		{Name: "getAccount memoises the last account", Rule: "R-C17-5", File: "s3api/middlewares/authentication.go",
			Old: "\treturn a.iam.GetUserAccount(access)\n}", New: "\tif access == lastAccount.Access {\n\t\treturn lastAccount, nil\n\t}\n\tacc, err := a.iam.GetUserAccount(access)\n\tif err == nil {\n\t\tlastAccount = acc\n\t}\n\treturn acc, err\n}\n\nvar lastAccount auth.Account", Expect: "non-root"},
		{Name: "storeIAM writes the store file in place", Rule: "R-C17-7", File: "auth/iam_internal.go",
			Old: "\t\terr = s.writeTempFile(b)\n\t\tif err != nil {", New: "\t\terr = os.WriteFile(fname, b, iamMode)\n\t\tif err != nil {", Expect: "writeTempFile"},
	}
}

func derefType(t types.Type) types.Type {
	if pt, ok := t.Underlying().(*types.Pointer); ok {
		return pt.Elem()
	}
	return t
}

// c17CacheType: the type of the account cache, found by role: the struct type of package auth that a field of
// IAMCache points to and that holds a map (whatever the type and its fields are called).
func c17CacheType(p *Program) types.Type {
	pk := p.Pkg("auth")
	obj := pk.Types.Scope().Lookup("IAMCache")
	if obj == nil {
		return nil
	}
	st, ok := obj.Type().Underlying().(*types.Struct)
	if !ok {
		return nil
	}
	for i := 0; i < st.NumFields(); i++ {
		ft := derefType(st.Field(i).Type())
		fs, ok := ft.Underlying().(*types.Struct)
		if !ok {
			continue
		}
		if nt, isN := types.Unalias(ft).(*types.Named); !isN || nt.Obj().Pkg() != pk.Types {
			continue
		}
		for j := 0; j < fs.NumFields(); j++ {
			if _, isMap := fs.Field(j).Type().Underlying().(*types.Map); isMap {
				return ft
			}
		}
	}
	return nil
}

// methodsOfType: the module's methods whose receiver is t or *t.
func methodsOfType(p *Program, pkg string, t types.Type) []*ssa.Function {
	var out []*ssa.Function
	if t == nil {
		return out
	}
	for _, f := range p.FuncsIn(pkg) {
		if f.Parent() == nil && f.Signature.Recv() != nil && types.Identical(derefType(f.Signature.Recv().Type()), t) {
			out = append(out, f)
		}
	}
	return out
}
