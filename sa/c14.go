package main

import (
	"go/types"
	"sort"
	"strings"

	"golang.org/x/tools/go/ssa"
)

func init() {
	register(&propCheck{id: "C14", run: runC14, controls: controlsC14})
}

func runC14(p *Program, r *Report) {
	r.Rule("R-C14-1", "action tables agree: every auth.Action constant except s3:* is in supportedActionList; supportedObjectActionList is a subset of it; every action the gateway decides with (AccessOptions literals, VerifyBucketPolicy calls) is in supportedActionList; object/bucket classification agrees with the operation table (T-ACTION)", 40)
	r.Rule("R-C14-2", "a policy document is stored only after it was validated: be.PutBucketPolicy is reachable only through the success edge of auth.ValidatePolicyDocument applied to the same bytes and the route's bucket; ValidatePolicyDocument (transitively) runs Effect, Principals, Resources and Action validation and none of their failures is swallowed", 10)
	r.Rule("R-C14-3", "evaluation structure: in BucketPolicy.isAllowed the result can become true only on the (statement matches, Effect == Allow) edge and the (matches, Effect == Deny) edge reaches only `return false`; findMatch is the conjunction of principal, action and resource matches; VerifyBucketPolicy denies unless isAllowed", 5)

	// R-C14-1
	consts := pkgConstsOfType(p, "auth", "Action")
	supported := mapLiteralKeys(p, "auth", "supportedActionList")
	objActs := mapLiteralKeys(p, "auth", "supportedObjectActionList")
	names := make([]string, 0, len(consts))
	for n := range consts {
		names = append(names, n)
	}
	sort.Strings(names)
	for _, n := range names {
		v := consts[n]
		if v == "s3:*" {
			continue
		}
		r.Check(supported[v], "R-C14-1", "auth.supportedActionList∋"+n, "auth/bucket_policy_actions.go", "listed", "action constant "+n+" ("+v+") is missing from supportedActionList: a policy naming it is refused although the gateway may decide with it")
	}
	for v := range objActs {
		r.Check(supported[v], "R-C14-1", "auth.supportedObjectActionList⊆supported:"+v, "auth/bucket_policy_actions.go", "subset", "object action "+v+" is not in supportedActionList")
	}
	hs := s3Handlers(p)
	used := map[string]string{}
	for _, d := range decisions(hs) {
		acts, _ := constNames(p, first(d.fields["Action"]))
		for _, a := range acts {
			used[a] = p.Pos(d.call.Pos())
		}
	}
	for _, f := range p.FuncsIn(ctrlPkg, "auth", "s3api/middlewares") {
		for _, c := range callsTo(f, fnVerifyBucketPol) {
			args := callArgs(c)
			if acts, ok := constNames(p, args[len(args)-1]); ok {
				for _, a := range acts {
					used[a] = p.Pos(c.Pos())
				}
			}
		}
	}
	ua := make([]string, 0, len(used))
	for a := range used {
		ua = append(ua, a)
	}
	sort.Strings(ua)
	for _, a := range ua {
		r.Check(supported[a], "R-C14-1", "decided-with:"+a, used[a], "grantable by name", "the gateway decides with action "+a+" which no policy document may name (not in supportedActionList)")
	}
	// classification agreement with the operation table
	ms := make([]string, 0, len(tAction))
	for m := range tAction {
		ms = append(ms, m)
	}
	sort.Strings(ms)
	for _, m := range ms {
		row := tAction[m]
		for _, a := range row.actions {
			if !supported[a] {
				continue // e.g. s3:DeleteObjectVersion: admissible but not defined in the tree
			}
			r.Check(objActs[a] == row.object, "R-C14-1", "classification:"+m+"/"+a, "auth/bucket_policy_actions.go", "object/bucket kind agrees",
				"action "+a+" is classified "+kind(objActs[a])+"-level by supportedObjectActionList but operation "+m+" is "+kind(row.object)+"-level: action/resource kind validation and the decision disagree")
		}
	}

	// R-C14-2: controller
	for _, bc := range backendCalls(hs) {
		if bc.method != "PutBucketPolicy" {
			continue
		}
		f := bc.fn
		vs := callsTo(f, "auth.ValidatePolicyDocument")
		ok := guardedBy(f, bc.call, vs)
		r.Check(ok, "R-C14-2", bc.key+":validated", p.Pos(bc.call.Pos()), "behind ValidatePolicyDocument success", "a policy document reaches the backend without passing auth.ValidatePolicyDocument")
		for _, v := range vs {
			va, ba := callArgs(v), callArgs(bc.call)
			sameBytes := len(chainSet(Origins(va[0], nil))) > 0 && setStr(chainSet(Origins(va[0], nil))) == setStr(chainSet(Origins(ba[2], nil))) && hasCallRoot(Origins(va[0], nil), fiberCtx+".Body", "")
			r.Check(sameBytes, "R-C14-2", bc.key+":same-bytes", p.Pos(v.Pos()), "validated bytes are the stored bytes (ctx.Body())", "the document validated is not the document stored")
			bk := callRootInstrs(Origins(va[1], nil), fiberCtx+".Params", "bucket")
			same := false
			for c := range callRootInstrs(Origins(ba[1], nil), fiberCtx+".Params", "bucket") {
				if bk[c] {
					same = true
				}
			}
			r.Check(same, "R-C14-2", bc.key+":same-bucket", p.Pos(v.Pos()), "validated for the route's bucket", "the document is validated for a different bucket than it is stored on")
		}
	}
	// ValidatePolicyDocument reaches the validators
	vf := p.Func("auth.ValidatePolicyDocument")
	reach := staticCallees(p, vf)
	for _, want := range []string{"(auth.BucketPolicyAccessType).Validate", "(auth.Principals).Validate", "(auth.Resources).Validate", "(auth.Action).IsValid", "(auth.Action).IsObjectAction", "(auth.Resources).ContainsObjectPattern", "(auth.Resources).ContainsBucketPattern"} {
		r.Check(reach[want], "R-C14-2", "ValidatePolicyDocument=>"+want, p.Pos(vf.Pos()), "reached", "ValidatePolicyDocument no longer (transitively) calls "+want)
	}
	// the resource syntax check, by role: some function on the way tests the ARN prefix (whatever it is called)
	{
		arn, _ := pkgConstString(p, "auth", "ResourceArnPrefix")
		okArn := false
		for _, g := range p.FuncsIn("auth") {
			if reach[fnName(g)] && arn != "" && mentions(g, arn)[arn] {
				okArn = true
			}
		}
		r.Check(okArn, "R-C14-2", "ValidatePolicyDocument=>auth.isValidResource", p.Pos(vf.Pos()), "the resource ARN syntax check is reached", "ValidatePolicyDocument no longer (transitively) reaches a check of the resource ARN prefix")
	}
	// failures are not swallowed along the chain
	chain := map[string][]string{
		"auth.ValidatePolicyDocument":       {"encoding/json.Unmarshal", "(*auth.BucketPolicy).Validate"},
		"(*auth.BucketPolicy).Validate":     {"(*auth.BucketPolicyItem).Validate"},
		"(*auth.BucketPolicyItem).Validate": {"(auth.BucketPolicyAccessType).Validate", "(auth.Principals).Validate", "(auth.Resources).Validate"},
		"(auth.Actions).Add":                {"(auth.Action).IsValid"},
		"(auth.Resources).Add":              {},
		"(*auth.Actions).UnmarshalJSON":     {"(auth.Actions).Add"},
		"(*auth.Resources).UnmarshalJSON":   {"(auth.Resources).Add"},
	}
	fns := make([]string, 0, len(chain))
	for n := range chain {
		fns = append(fns, n)
	}
	sort.Strings(fns)
	for _, fnm := range fns {
		f := p.Func(fnm)
		for _, callee := range chain[fnm] {
			cs := callsTo(f, callee)
			if len(cs) == 0 {
				// the step handed as a function value to a helper that calls it (a generic decoder given the
				// method expression): the helper's call of its parameter and f's call of the helper both fail closed
				okVia, why := false, ""
				for _, c := range callsIn(f) {
					h := c.Common().StaticCallee()
					if h == nil || len(h.Blocks) == 0 {
						continue
					}
					for i, a := range c.Common().Args {
						if _, isSig := a.Type().Underlying().(*types.Signature); !isSig || i >= len(h.Params) {
							continue
						}
						for _, g := range funcValuesOf(a) {
							if fnName(g) != callee {
								continue
							}
							ok1, w1 := failsClosed(f, c)
							ok2, w2 := false, "the helper never calls the function it is given"
							for _, hc := range callsIn(h) {
								if hc.Common().Value == ssa.Value(h.Params[i]) {
									ok2, w2 = failsClosed(h, hc)
								}
							}
							okVia, why = ok1 && ok2, w1+"; "+w2
						}
					}
				}
				if okVia {
					r.Ok("R-C14-2", fnm+"->"+callee+":via-helper", p.Pos(f.Pos()), "called through a helper that is given the step as a function value; both calls fail closed")
					continue
				}
				if why != "" {
					r.Viol("R-C14-2", fnm+"->"+callee+":via-helper", p.Pos(f.Pos()), "the validation step "+callee+" is handed to a helper, but a failure is not propagated: "+why)
					continue
				}
				r.Viol("R-C14-2", fnm+"->"+callee, p.Pos(f.Pos()), "validation step "+callee+" is no longer called from "+fnm)
				continue
			}
			keys := siteKeys(f, cs)
			for _, c := range cs {
				ok, why := failsClosed(f, c)
				r.Check(ok, "R-C14-2", keys[c]+":fails-closed", p.Pos(c.Pos()), why, "a failing "+callee+" does not fail "+fnm+": "+why)
			}
		}
	}
	// kind mismatch and empty statement list are refused: the comparisons exist and their refusing edge reaches no nil return
	c14Refusals(p, r)
	c14Eval(p, r)
}

func kind(obj bool) string {
	if obj {
		return "object"
	}
	return "bucket"
}

func c14Refusals(p *Program, r *Report) {
	// ValidatePolicyDocument: len(policy.Statement) == 0 -> error
	vf := p.Func("auth.ValidatePolicyDocument")
	found := false
	for _, ce := range condEdgesOf(vf) {
		if ce.atoms["call:len"] && ce.atoms["field:Statement"] && ce.isEqNeq && ce.atoms["const:0"] {
			found = true
			bad := false
			reach := reachableFromEdge(vf, ce.holds, nil)
			for _, s := range errReturnSites(vf) {
				if isNilConst(s.val) && s.reachedIn(reach) {
					bad = true
				}
			}
			r.Check(!bad, "R-C14-2", "auth.ValidatePolicyDocument/empty-statement", p.Pos(ce.pos()), "empty statement list refused", "an empty Statement list is not refused")
		}
	}
	if !found {
		r.Viol("R-C14-2", "auth.ValidatePolicyDocument/empty-statement", p.Pos(vf.Pos()), "no test for an empty Statement list")
	}
	// BucketPolicyItem.Validate: action kind vs resource kind
	bf := p.Func("(*auth.BucketPolicyItem).Validate")
	var nm int
	for _, ce := range condEdgesOf(bf) {
		// conditions reading the ContainsObjectPattern / ContainsBucketPattern results
		isKind := false
		for _, rt := range Origins(ce.cond, nil) {
			if rt.Kind == "call" && (strings.HasSuffix(rt.Desc, ".ContainsObjectPattern") || strings.HasSuffix(rt.Desc, ".ContainsBucketPattern")) {
				isKind = true
			}
		}
		if !isKind {
			continue
		}
		nm++
		// the edge on which the pattern kind is absent (cond false for the contains-value) must reach no nil return
		e := ce.fails
		reach := reachableFromEdge(bf, e, nil)
		bad := false
		for _, s := range errReturnSites(bf) {
			if isNilConst(s.val) && (s.reachedIn(reach) && s.pred == nil || s.pred != nil && reach[s.pred]) {
				bad = true
			}
		}
		r.Check(!bad, "R-C14-2", "(*auth.BucketPolicyItem).Validate/kind-mismatch#"+itoa(nm), p.Pos(ce.pos()), "kind mismatch refused", "an action whose kind has no matching resource pattern is not refused")
	}
	if nm < 2 {
		r.Viol("R-C14-2", "(*auth.BucketPolicyItem).Validate/kind-mismatch", p.Pos(bf.Pos()), "action/resource kind agreement is not tested for both kinds (found "+itoa(nm)+" tests)")
	}
}

func c14Eval(p *Program, r *Report) {
	f := p.Func("(*auth.BucketPolicy).isAllowed")
	// the three matchers (the helper that combines them, whatever it is called, is inlined)
	matchers := []string{"(auth.Principals).Contains", "(auth.Actions).FindMatch", "(auth.Resources).FindMatch"}
	matchEdges := map[string][]edge{}
	for _, want := range matchers {
		for _, c := range callsTo(f, want) {
			if c.Value() == nil {
				continue
			}
			for _, cb := range condBranches(c.Value()) {
				if cb.whenTrue {
					matchEdges[want] = append(matchEdges[want], cb.e)
				}
			}
		}
	}
	var allow, deny []condEdge
	for _, ce := range condEdgesOf(f) {
		if ce.atoms["field:Effect"] && ce.atoms[`const:"Allow"`] && ce.isEqNeq {
			allow = append(allow, ce)
		}
		if ce.atoms["field:Effect"] && ce.atoms[`const:"Deny"`] && ce.isEqNeq {
			deny = append(deny, ce)
		}
	}
	pos := p.Pos(f.Pos())
	missing := ""
	for _, want := range matchers {
		if len(matchEdges[want]) == 0 {
			missing = want
		}
	}
	if missing != "" || len(allow) == 0 || len(deny) == 0 {
		r.Viol("R-C14-3", fnName(f)+"/shape", pos, "isAllowed lacks a test of "+missing+", an Effect==Allow case or an Effect==Deny case")
		return
	}
	var cutA []edge
	for _, a := range allow {
		cutA = append(cutA, a.holds)
	}
	// the evaluator answers with a bool or with an effect value: "allowing" is the constant true or the constant
	// "Allow", anything else that is a constant is a refusal
	allowing := func(v ssa.Value) (allow, known bool) {
		if b, ok := constBool(v); ok {
			return b, true
		}
		if sv, ok := constString(v); ok {
			return sv == "Allow", true
		}
		return false, false
	}
	sites := []*ssa.BasicBlock{}
	for _, ret := range returnsOf(f) {
		for _, lf := range valueLeaves(ret.Results[0], ret.Block()) {
			if a, known := allowing(lf.val); known && a && lf.from != nil {
				sites = append(sites, lf.from)
			}
		}
		for _, s := range trueSites(ret.Results[0]) { // stores of true into a result cell
			dup := false
			for _, q := range sites {
				dup = dup || q == s
			}
			if !dup {
				sites = append(sites, s)
			}
		}
	}
	// (a) the constant true reaches the result only through allow ∧ every matcher's true edge
	okA := len(sites) > 0
	for _, s := range sites {
		if reachable(f, nil, cutA)[s] {
			okA = false
		}
	}
	r.Check(okA, "R-C14-3", fnName(f)+"/true-only-on-allow-match", pos, "result becomes true only on an Allow statement", "isAllowed can yield true without a statement that has Effect Allow")
	for _, want := range matchers {
		ok := len(sites) > 0
		for _, s := range sites {
			if reachable(f, nil, matchEdges[want])[s] {
				ok = false
			}
		}
		r.Check(ok, "R-C14-3", fnName(f)+"/match-requires:"+want, pos, "required for a statement to apply", "a statement can make the result true without "+want+" being true (principal, action and resource must all match)")
	}
	// (b) deny edge reaches only `return false`, and sits under every matcher's true edge
	for i, d := range deny {
		reach := reachableFromEdge(f, d.holds, nil)
		ok := true
		for _, ret := range returnsOf(f) {
			if !reach[ret.Block()] {
				continue
			}
			if a, known := allowing(ret.Results[0]); !known || a {
				ok = false
			}
		}
		under := true
		for _, want := range matchers {
			if reachable(f, nil, matchEdges[want])[d.ifi.Block()] {
				under = false
			}
		}
		r.Check(ok && under, "R-C14-3", fnName(f)+"/deny-overrides#"+itoa(i+1), p.Pos(d.pos()), "a matching Deny returns false at once", "a matching Deny statement does not force the result false (deny no longer overrides allow), or a Deny applies without the statement matching")
	}
	// VerifyBucketPolicy: nil only when isAllowed is true
	vb := p.Func(fnVerifyBucketPol)
	var cut []edge
	for _, c := range callsTo(vb, "(*auth.BucketPolicy).isAllowed") {
		for _, cb := range condBranches(c.Value()) {
			if cb.whenTrue {
				cut = append(cut, cb.e)
			}
		}
		// an effect value: the edge on which it equals "Allow"
		for _, ce := range condEdgesOf(vb) {
			if !ce.isEqNeq || ce.binop == nil {
				continue
			}
			for _, pr := range [][2]ssa.Value{{ce.binop.X, ce.binop.Y}, {ce.binop.Y, ce.binop.X}} {
				if pr[0] == c.Value() {
					if sv, ok := constString(pr[1]); ok && sv == "Allow" {
						cut = append(cut, ce.holds)
					}
				}
			}
		}
	}
	bad := len(cut) == 0
	for _, s := range errReturnSites(vb) {
		if isNilConst(s.val) && siteReachable(vb, s, cut) {
			bad = true
		}
	}
	r.Check(!bad, "R-C14-3", fnName(vb)+"/nil-only-if-allowed", p.Pos(vb.Pos()), "nil only on isAllowed true", "VerifyBucketPolicy returns nil without isAllowed being true")
	// and the arguments are the caller/action/resource of this request
	for _, c := range callsTo(vb, "(*auth.BucketPolicy).isAllowed") {
		// the request's values reach isAllowed as arguments or as the fields of one struct argument
		var vals []ssa.Value
		for _, a := range callArgs(c) {
			if fs, _ := litFields(a); len(fs) > 0 {
				for _, vs := range fs {
					vals = append(vals, vs...)
				}
				continue
			}
			vals = append(vals, a)
		}
		rootedAt := func(v ssa.Value, name string) bool {
			for _, rt := range terminalRoots(Origins(v, nil)) {
				if rt.Kind == "param" && rt.Desc == name {
					return true
				}
			}
			return false
		}
		for _, w := range []string{"access", "action"} {
			ok := false
			for _, v := range vals {
				if rootedAt(v, w) && !rootedAt(v, "bucket") {
					ok = true
				}
			}
			r.Check(ok, "R-C14-3", fnName(vb)+"/isAllowed.arg:"+w, p.Pos(c.Pos()), "parameter "+w, "isAllowed is not evaluated for VerifyBucketPolicy's "+w+" parameter")
		}
		var resArg ssa.Value
		for _, v := range vals {
			if rootedAt(v, "bucket") && rootedAt(v, "object") {
				resArg = v
			}
		}
		r.Check(resArg != nil, "R-C14-3", fnName(vb)+"/isAllowed.arg:resource", p.Pos(c.Pos()), "resource built from bucket and object", "the resource string is not built from both the bucket and the object parameters")
		if resArg == nil {
			continue
		}
		// resource names are opaque strings: built by plain concatenation, never normalised
		norm := ""
		for _, rt := range Origins(resArg, nil) {
			if rt.Kind == "via" || rt.Kind == "call" {
				switch rt.Desc {
				case "path.Join", "path.Clean", "path/filepath.Join", "path/filepath.Clean", "strings.TrimSuffix", "strings.TrimPrefix", "strings.Trim", "strings.TrimRight", "strings.TrimLeft", "strings.ToLower", "strings.ToUpper", "strings.ReplaceAll", "net/url.PathUnescape", "net/url.QueryUnescape":
					norm = rt.Desc
				}
			}
		}
		r.Check(norm == "", "R-C14-3", fnName(vb)+"/resource-is-opaque", p.Pos(c.Pos()), "bucket + \"/\" + object, unmodified", "the resource string matched against policy patterns is normalised with "+norm+": keys with trailing '/', '//' or dot segments are matched as a different resource than the one the request names (a Deny on a prefix is bypassed)")
	}
}

func controlsC14() []Control {
	return []Control{
		{Name: "remove PutObjectRetentionAction from supportedActionList", Rule: "R-C14-1", File: "auth/bucket_policy_actions.go",
			Old: "\tPutObjectRetentionAction:               {},\n\tBypassGovernanceRetentionAction:        {},\n\tPutBucketOwnershipControlsAction:", New: "\tBypassGovernanceRetentionAction:        {},\n\tPutBucketOwnershipControlsAction:", Expect: "PutObjectRetentionAction"},
		{Name: "revert fix 2a8d1b3: GetBucketObjectLockConfiguration not grantable", Rule: "R-C14-1", File: "auth/bucket_policy_actions.go",
			Old: "\tGetBucketObjectLockConfigurationAction: {},\n", New: "", Expect: "GetBucketObjectLockConfiguration"},
		{Name: "PutBucketActions: policy stored before it is validated", Rule: "R-C14-2", File: "s3api/controllers/base.go",
			Old: "\t\terr = auth.ValidatePolicyDocument(ctx.Body(), bucket, c.iam)\n\t\tif err != nil {", New: "\t\terr = auth.ValidatePolicyDocument(ctx.Body(), bucket, c.iam)\n\t\tif err != nil && c.debug {", Expect: "PutBucketPolicy"},
		{Name: "BucketPolicyItem.Validate drops the Principals verdict", Rule: "R-C14-2", File: "auth/bucket_policy.go",
			Old: "\tif err := bpi.Principals.Validate(iam); err != nil {\n\t\treturn err\n\t}", New: "\tif err := bpi.Principals.Validate(iam); err != nil && iam == nil {\n\t\treturn err\n\t}", Expect: "Principals"},
		{Name: "VerifyBucketPolicy builds the resource with path.Join", Rule: "R-C14-3", File: "auth/bucket_policy.go",
			Old: "\tresource := bucket\n\tif object != \"\" {\n\t\tresource += \"/\" + object\n\t}\n", New: "\tresource := filepath.Join(bucket, object)\n", More: []Edit{{"auth/bucket_policy.go", "import (\n", "import (\n\t\"path/filepath\"\n"}}, Expect: "resource-is-opaque"},
		{Name: "isAllowed: Deny only clears the flag (later Allow wins)", Rule: "R-C14-3", File: "auth/bucket_policy.go",
			Old: "\t\t\tcase BucketPolicyAccessTypeDeny:\n\t\t\t\treturn false", New: "\t\t\tcase BucketPolicyAccessTypeDeny:\n\t\t\t\tisAllowed = false", Expect: "deny-overrides"},
		{Name: "findMatch ignores the resource", Rule: "R-C14-3", File: "auth/bucket_policy.go",
			Old: "bpi.Principals.Contains(principal) && bpi.Actions.FindMatch(action) && bpi.Resources.FindMatch(resource)", New: "bpi.Principals.Contains(principal) && bpi.Actions.FindMatch(action) && (bpi.Resources.FindMatch(resource) || len(bpi.Resources) > 0)", Expect: "Resources"},
		{Name: "object action list loses s3:PutObjectAcl (kind classification)", Rule: "R-C14-1", File: "auth/bucket_policy_actions.go",
			Old: "\tGetObjectAttributesAction:       {},\n\tPutObjectAclAction:              {},\n\tRestoreObjectAction:             {},", New: "\tGetObjectAttributesAction:       {},\n\tRestoreObjectAction:             {},", Expect: "classification"},
	}
}
