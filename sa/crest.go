package main

import (
	"go/token"
	"go/types"
	"os"
	"sort"
	"strings"

	"golang.org/x/tools/go/ssa"
)

func init() {
	register(&propCheck{id: "C07", run: runC07, controls: controlsC07})
	register(&propCheck{id: "C08", run: runC08, controls: controlsC08})
	register(&propCheck{id: "C09", run: runC09, controls: controlsC09})
	register(&propCheck{id: "C16", run: runC16, controls: controlsC16})
	register(&propCheck{id: "C01", run: runC01, controls: controlsC01})
	register(&propCheck{id: "C18", run: runC18, controls: controlsC18})
}

func pkgConstString(p *Program, pkg, name string) (string, bool) {
	pk := p.ByPath[pkg]
	if pk == nil {
		return "", false
	}
	if c, ok := pk.Types.Scope().Lookup(name).(*types.Const); ok {
		return strings.Trim(c.Val().ExactString(), `"`), true
	}
	// renamed: a constant of the package that is new relative to the reference tree and has the reference value
	if want, ok := theRefTable().Consts[pkg][name]; ok && os.Getenv("VGW_NORENAME") == "" {
		sc := pk.Types.Scope()
		for _, n := range sc.Names() {
			if _, known := theRefTable().Consts[pkg][n]; known {
				continue
			}
			if c, ok := sc.Lookup(n).(*types.Const); ok && strings.Trim(c.Val().ExactString(), `"`) == want {
				return want, true
			}
		}
	}
	return "", false
}

// ================================ C07 ================================

func runC07(p *Program, r *Report) {
	r.Rule("R-C07-1", "bookkeeping names are pruned at every walk: every call to backend.Walk / backend.WalkVersions passes a skipdirs list containing the temp-directory name under which that backend keeps its temp files and multipart uploads (posix and scoutfs agree on the name), and Walk/WalkVersions return fs.SkipDir for a name in skipdirs before any object is produced", 5)
	tmp, ok := pkgConstString(p, "backend/posix", "metaTmpDir")
	if !ok {
		broken("R-C07-1: backend/posix.metaTmpDir does not resolve")
	}
	if s2, ok := pkgConstString(p, "backend/scoutfs", "metaTmpDir"); ok {
		r.Check(s2 == tmp, "R-C07-1", "metaTmpDir:posix==scoutfs", "backend/scoutfs/scoutfs.go", "same temp directory name", "posix and scoutfs disagree on the temp directory name ("+tmp+" vs "+s2+"): one backend lists the other's bookkeeping files")
	}
	// the temp dir name is what openTmpFile / multipart paths use
	mp, _ := pkgConstString(p, "backend/posix", "metaTmpMultipartDir")
	r.Check(strings.HasPrefix(mp, tmp+"/"), "R-C07-1", "metaTmpMultipartDir-under-metaTmpDir", "backend/posix/posix.go", "multipart uploads live under the pruned directory", "the multipart directory ("+mp+") is not under the pruned temp directory ("+tmp+"): in-progress parts would be listed as objects")
	n := 0
	pkgs := []string{"backend/posix"}
	if p.SSAPkg["backend/scoutfs"] != nil {
		pkgs = append(pkgs, "backend/scoutfs")
	}
	for _, f := range p.FuncsIn(pkgs...) {
		cs := callsTo(f, "backend.Walk", "backend.WalkVersions")
		keys := siteKeys(f, cs)
		for _, c := range cs {
			n++
			a := callArgs(c)
			sk := a[len(a)-1]
			has := false
			for _, rt := range deepRoots(sk) {
				if rt.Kind == "const" && strings.Trim(rt.Desc, `"`) == tmp {
					has = true
				}
			}
			r.Check(has, "R-C07-1", keys[c]+":skipdirs", p.Pos(c.Pos()), "skipdirs contains "+tmp, "the listing walk does not prune the temp directory "+tmp+": temp files and in-progress multipart parts show up as objects")
		}
	}
	if n < 5 {
		broken("R-C07-1: only %d Walk call sites", n)
	}
	// R-C07-2: V2 listing resumes after the LATER of start-after and the continuation token
	r.Rule("R-C07-2", "pagination resumes without loss: in ListObjectsV2 the marker handed to the walk depends on both start-after and the continuation token and is chosen by an ordering comparison (or max) of the two", 1)
	lv := []string{posixP + "ListObjectsV2"}
	if p.SSAPkg["backend/scoutfs"] != nil {
		lv = append(lv, "(*backend/scoutfs.ScoutFS).ListObjectsV2")
	}
	for _, name := range lv {
		f := p.Func(name)
		for _, c := range callsTo(f, "backend.Walk") {
			a := callArgs(c)
			sa, ct := false, false
			for _, rt := range Origins(a[4], nil) {
				if rt.Kind == "field" && rt.Desc == "StartAfter" {
					sa = true
				}
				if rt.Kind == "field" && rt.Desc == "ContinuationToken" {
					ct = true
				}
			}
			cmpd := false
			for _, b := range f.Blocks {
				for _, in := range b.Instrs {
					var x, y ssa.Value
					switch v := in.(type) {
					case *ssa.BinOp:
						switch v.Op {
						case token.GTR, token.LSS, token.GEQ, token.LEQ:
							x, y = v.X, v.Y
						}
					case *ssa.Call:
						if bi, ok := v.Call.Value.(*ssa.Builtin); ok && bi.Name() == "max" && len(v.Call.Args) == 2 {
							x, y = v.Call.Args[0], v.Call.Args[1]
						}
					}
					if x == nil {
						continue
					}
					has := func(v ssa.Value, fld string) bool {
						for _, rt := range Origins(v, nil) {
							if rt.Kind == "field" && rt.Desc == fld {
								return true
							}
						}
						return false
					}
					if (has(x, "StartAfter") && has(y, "ContinuationToken")) || (has(y, "StartAfter") && has(x, "ContinuationToken")) {
						cmpd = true
					}
				}
			}
			r.Check(sa && ct && cmpd, "R-C07-2", name+"/marker=max(start-after,token)", p.Pos(c.Pos()), "marker is the later of start-after and continuation token", "the listing marker is not the later of start-after and the continuation token: a paginator that sends both (as SDKs do) repeats a page forever or skips keys")
		}
	}
	// Walk / WalkVersions: the skipdirs test returns SkipDir before getObj is called
	for _, outerName := range []string{"backend.Walk", "backend.WalkVersions"} {
		cbs := walkCallbacks(p.Func(outerName))
		if len(cbs) == 0 {
			r.Viol("R-C07-1", outerName+"/walk-callback", p.Pos(p.Func(outerName).Pos()), "no function literal is handed to fs.WalkDir (anchor drift)")
			continue
		}
		f := cbs[0]
		name := outerName + "$callback"
		var skip []condEdge
		for _, ce := range condEdgesOf(f) {
			if c, ok := ce.cond.(*ssa.Call); ok && isSkipdirsTest(c) {
				skip = append(skip, ce)
			}
		}
		ok := len(skip) > 0
		for _, ce := range skip {
			// holds edge reaches only a return of fs.SkipDir
			reach := reachableFromEdge(f, ce.holds, nil)
			for _, ret := range returnsOf(f) {
				if !reach[ret.Block()] {
					continue
				}
				isSkip := false
				for _, rt := range Origins(ret.Results[0], nil) {
					if rt.Kind == "global" && rt.Desc == "SkipDir" {
						isSkip = true
					}
				}
				if !isSkip {
					ok = false
				}
			}
			// and every dynamic call of the object producer (a parameter/free variable function) is after the test: not reachable when the fails edge is cut
			for _, c := range callsIn(f) {
				if c.Common().StaticCallee() == nil && !c.Common().IsInvoke() {
					if reachable(f, nil, []edge{ce.fails})[c.Block()] {
						if _, isB := c.Common().Value.(*ssa.Builtin); !isB {
							ok = false
						}
					}
				}
			}
		}
		r.Check(ok, "R-C07-1", name+"/prunes-before-producing", p.Pos(f.Pos()), "skipdirs test returns fs.SkipDir before any object is produced", "the walk callback does not prune names in skipdirs before producing objects")
	}
}

func controlsC07() []Control {
	return []Control{
		{Name: "posix.ListObjectsV2 passes an empty skipdirs", Rule: "R-C07-1", File: "backend/posix/posix.go",
			Old: "\t\tp.fileToObj(bucket, fetchOwner), []string{metaTmpDir})", New: "\t\tp.fileToObj(bucket, fetchOwner), []string{})", Expect: "ListObjectsV2"},
		{Name: "Walk: skipdirs test only for directories after the prefix test", Rule: "R-C07-1", File: "backend/walk.go",
			Old: "\t\tif contains(d.Name(), skipdirs) {\n\t\t\treturn fs.SkipDir\n\t\t}\n\n\t\t// After this point, return skipflag instead of nil", New: "\t\tif contains(d.Name(), skipdirs) && d.IsDir() && prefix == \"\" {\n\t\t\treturn fs.SkipDir\n\t\t}\n\n\t\t// After this point, return skipflag instead of nil", Expect: "prunes-before-producing"},
	}
}

// ================================ C08 ================================

func runC08(p *Program, r *Report) {
	r.Rule("R-C08-1", "siblings agree on where an upload lives: create, upload-part, upload-part-copy, list-parts, complete, abort and the upload-id helpers all locate the upload under metaTmpMultipartDir / sha256(key) / uploadId with the key taken unmodified from the request", 8)
	r.Rule("R-C08-2", "completion validates before it assembles: the listed ETag is compared with the stored part ETag, part numbers must increase, every part but the last must reach the minimum size; each comparison has an edge that only fails the request and the temp file for the object is opened only on the other edge; the object's ETag is backend.GetMultipartMD5 of the listed parts, whose suffix is the number of parts", 5)
	r.Rule("R-C08-3", "cleanup is scoped to the upload: every recursive removal in Complete/Abort names the upload-id directory (its path depends on the upload id), Abort removes only after the upload was found, and Complete's removal is behind link() success", 3)
	r.Rule("R-C08-4", "the object is assembled from the listed parts: the part file opened for copying is named by the listed part's PartNumber (not by its position in the list)", 1)

	sum := "crypto/sha256.Sum256"
	type fnReq struct{ name string }
	fns := []string{posixP + "CreateMultipartUpload", posixP + "UploadPart", posixP + "UploadPartCopy", posixP + "ListParts", posixP + "AbortMultipartUpload", posixP + "checkUploadIDExists", posixP + "retrieveUploadId", posixP + "CompleteMultipartUpload"}
	if p.SSAPkg["backend/scoutfs"] != nil {
		fns = append(fns, "(*backend/scoutfs.ScoutFS).checkUploadIDExists", "(*backend/scoutfs.ScoutFS).UploadPart", "(*backend/scoutfs.ScoutFS).CompleteMultipartUpload")
	}
	mpd, _ := pkgConstString(p, "backend/posix", "metaTmpMultipartDir")
	for _, name := range fns {
		f := p.Func(name)
		// the hashes that name the upload's directory: their value is joined below the multipart root (other
		// sha256 sums in these functions, e.g. of a copy source's key for its version directory, are not upload paths)
		var hs []ssa.CallInstruction
		for _, c := range callsTo(f, sum) {
			under := false
			for _, j := range callsTo(f, "path/filepath.Join") {
				hasSum, hasRoot := false, false
				for _, a := range j.Common().Args {
					for _, rt := range Origins(a, nil) {
						if rt.Kind == "call" && rt.Call == c.Value() {
							hasSum = true
						}
						if rt.Kind == "const" && strings.Trim(rt.Desc, `"`) == mpd {
							hasRoot = true
						}
					}
					if sl, ok := a.(*ssa.Slice); ok {
						_ = sl
					}
				}
				if hasSum && hasRoot {
					under = true
				}
			}
			if under {
				hs = append(hs, c)
			}
		}
		helper := callsTo(f, posixP+"checkUploadIDExists", "(*backend/scoutfs.ScoutFS).checkUploadIDExists", posixP+"retrieveUploadId")
		if len(hs) == 0 && len(helper) == 0 {
			r.Viol("R-C08-1", name+"/hash", p.Pos(f.Pos()), "the upload directory is not derived from sha256(key) (nor through checkUploadIDExists)")
			continue
		}
		for i, c := range hs {
			// argument: []byte(key) with key straight from the request (field Key / parameter object), no transformation
			bad := ""
			okSrc := false
			for _, rt := range Origins(callArgs(c)[0], nil) {
				switch {
				case rt.Kind == "field" && rt.Desc == "Key", rt.Kind == "param" && (rt.Desc == "object" || rt.Desc == "obj"):
					okSrc = true
				case rt.Kind == "via" || rt.Kind == "call":
					if rt.Desc != name[:strings.LastIndex(name, ".")+1]+"getString" && !strings.HasSuffix(rt.Desc, ".getString") {
						bad = rt.Desc
					}
				}
			}
			r.Check(okSrc && bad == "", "R-C08-1", name+"/sha256(key)#"+itoa(i+1), p.Pos(c.Pos()), "hash of the unmodified key", "the upload directory is hashed from something other than the unmodified request key ("+bad+"): this sibling looks for the upload somewhere else than the others")
		}
		// the multipart root constant is used (directly or via helper)
		m := mentions(f, mpd)
		r.Check(m[mpd] || len(helper) > 0, "R-C08-1", name+"/root", p.Pos(f.Pos()), "under "+mpd, "the upload is not located under "+mpd)
	}

	// R-C08-2 (the scoutfs backend has its own completion: sibling cross-check)
	completes := []string{posixP + "CompleteMultipartUpload"}
	if p.SSAPkg["backend/scoutfs"] != nil {
		completes = append(completes, "(*backend/scoutfs.ScoutFS).CompleteMultipartUpload")
	}
	for _, name := range completes {
		f := p.Func(name)
		var opens []ssa.CallInstruction
		for _, c := range callsIn(f) {
			if isOpenTmp(c) {
				opens = append(opens, c)
			}
		}
		if len(opens) == 0 {
			r.Viol("R-C08-2", name+"/openTmpFile", p.Pos(f.Pos()), "no openTmpFile (anchor drift)")
			continue
		}
		type cmp struct {
			id    string
			match func(ce condEdge) bool
			what  string
		}
		cmps := []cmp{
			{"etag", func(ce condEdge) bool {
				if !ce.isEqNeq || ce.binop == nil {
					return false
				}
				st, li := false, false
				for _, side := range []ssa.Value{ce.binop.X, ce.binop.Y} {
					for _, rt := range Origins(side, nil) {
						if rt.Kind == "call" && strings.HasSuffix(rt.Desc, ".RetrieveAttribute") && hasConstArg(rt.Call, "etag") {
							st = true
						}
						if rt.Kind == "field" && rt.Desc == "ETag" {
							li = true
						}
					}
				}
				return st && li
			}, "listed ETag == stored part ETag"},
			{"order", func(ce condEdge) bool {
				if ce.binop == nil || ce.isEqNeq {
					return false
				}
				switch ce.binop.Op {
				case token.LEQ, token.LSS, token.GTR, token.GEQ:
				default:
					return false
				}
				a := 0
				for _, side := range []ssa.Value{ce.binop.X, ce.binop.Y} {
					for _, rt := range Origins(side, nil) {
						if rt.Kind == "field" && rt.Desc == "PartNumber" {
							a++
							break
						}
					}
				}
				_, isConst := ce.binop.Y.(*ssa.Const)
				return a == 2 && !isConst
			}, "part numbers strictly increase"},
			{"minsize", func(ce condEdge) bool {
				if ce.binop == nil {
					return false
				}
				sz, mn := false, false
				for _, side := range []ssa.Value{ce.binop.X, ce.binop.Y} {
					for _, rt := range Origins(side, nil) {
						if rt.Kind == "call" && strings.HasSuffix(rt.Desc, ".Size") {
							sz = true
						}
					}
					if v, ok := constInt(side); ok && v == 5*1024*1024 {
						mn = true
					}
				}
				return sz && mn
			}, "non-final parts reach the minimum part size"},
		}
		for _, cm := range cmps {
			var found []condEdge
			for _, ce := range condEdgesOf(f) {
				if cm.match(ce) {
					found = append(found, ce)
				}
			}
			key := name + "/validates:" + cm.id
			if len(found) == 0 {
				r.Viol("R-C08-2", key, p.Pos(f.Pos()), "completion no longer checks that "+cm.what)
				continue
			}
			ok := false
			for _, ce := range found {
				rh := reachableFromEdge(f, ce.holds, nil)
				rf := reachableFromEdge(f, ce.fails, nil)
				oh, of := false, false
				for _, o := range opens {
					if rh[o.Block()] {
						oh = true
					}
					if rf[o.Block()] {
						of = true
					}
				}
				if oh != of { // exactly one edge can go on to assemble the object
					ok = true
				}
			}
			r.Check(ok, "R-C08-2", key, p.Pos(found[0].pos()), cm.what+": the failing edge cannot reach the assembly", "the check that "+cm.what+" no longer stops the completion: both outcomes go on to assemble the object")
		}
		// ETag from GetMultipartMD5(parts)
		okE := false
		for _, mc := range metaCallsIn(f) {
			if mc.method == "StoreAttribute" && mc.keyArg == "etag" {
				args := mc.call.Common().Args
				for _, rt := range Origins(args[len(args)-1], nil) {
					if rt.Kind == "call" && rt.Desc == "backend.GetMultipartMD5" {
						okE = true
					}
				}
			}
		}
		r.Check(okE, "R-C08-2", name+"/etag<-GetMultipartMD5", p.Pos(f.Pos()), "stored ETag is GetMultipartMD5(parts)", "the completed object's ETag is not computed by backend.GetMultipartMD5 from the listed parts")
	}
	multipartETagSuffix(p, r, "R-C08-2")

	// R-C08-3
	for _, name := range append(append([]string{}, completes...), posixP+"AbortMultipartUpload") {
		f := p.Func(name)
		n := 0
		for _, c := range callsTo(f, "os.RemoveAll") {
			n++
			dep := false
			for _, rt := range Origins(callArgs(c)[0], nil) {
				if (rt.Kind == "field" && rt.Desc == "UploadId") || (rt.Kind == "param" && rt.Desc == "uploadID") {
					dep = true
				}
			}
			r.Check(dep, "R-C08-3", name+"/RemoveAll#"+itoa(n)+":names-upload-id", p.Pos(c.Pos()), "recursive removal is scoped to the upload id", "a recursive removal does not depend on the upload id (it removes the per-key directory): other uploads in progress for the same key lose their parts")
			if strings.HasSuffix(name, "AbortMultipartUpload") {
				var st []ssa.CallInstruction
				for _, s := range callsTo(f, "os.Stat", posixP+"checkUploadIDExists") {
					st = append(st, s)
				}
				r.Check(guardedBy(f, c, st), "R-C08-3", name+"/RemoveAll#"+itoa(n)+":after-existence-test", p.Pos(c.Pos()), "abort removes only an upload that was found", "AbortMultipartUpload removes without having found the upload")
			}
		}
		if n == 0 {
			r.Viol("R-C08-3", name+"/RemoveAll", p.Pos(f.Pos()), "no cleanup of the upload directory")
		}
	}

	// R-C08-4
	for _, name := range completes {
		cf := p.Func(name)
		n := 0
		for _, c := range callsTo(cf, "os.Open") {
			n++
			okP := false
			for _, rt := range Origins(callArgs(c)[0], nil) {
				if rt.Kind == "field" && rt.Desc == "PartNumber" {
					okP = true
				}
			}
			r.Check(okP, "R-C08-4", fnName(cf)+"/os.Open#"+itoa(n)+":by-part-number", p.Pos(c.Pos()), "part file chosen by the listed PartNumber", "the part file that is copied is not chosen by the listed part's PartNumber: completing with a subset or sparse numbering assembles the wrong parts while the ETag describes the listed ones")
		}
		if n == 0 {
			r.Viol("R-C08-4", fnName(cf)+"/os.Open", p.Pos(cf.Pos()), "no part file is opened (anchor drift)")
		}
	}
}

func controlsC08() []Control {
	return []Control{
		{Name: "AbortMultipartUpload hashes the lower-cased key", Rule: "R-C08-1", File: "backend/posix/posix.go",
			Old: "\tsum := sha256.Sum256([]byte(object))\n\tobjdir := filepath.Join(bucket, metaTmpMultipartDir, fmt.Sprintf(\"%x\", sum))\n\n\t_, err = os.Stat(filepath.Join(objdir, uploadID))", New: "\tsum := sha256.Sum256([]byte(strings.ToLower(object)))\n\tobjdir := filepath.Join(bucket, metaTmpMultipartDir, fmt.Sprintf(\"%x\", sum))\n\n\t_, err = os.Stat(filepath.Join(objdir, uploadID))", Expect: "AbortMultipartUpload"},
		{Name: "CompleteMultipartUpload: minimum part size test removed", Rule: "R-C08-2", File: "backend/posix/posix.go",
			Old: "\t\tif i < last && fi.Size() < backend.MinPartSize {", New: "\t\tif i < last && fi.Size() < 0 {", Expect: "minsize"},
		{Name: "CompleteMultipartUpload: ETag mismatch only logged", Rule: "R-C08-2", File: "backend/posix/posix.go",
			Old: "\t\tif parts[i].ETag == nil || etag != *parts[i].ETag {\n\t\t\treturn nil, s3err.GetAPIError(s3err.ErrInvalidPart)\n\t\t}", New: "\t\tif parts[i].ETag == nil {\n\t\t\treturn nil, s3err.GetAPIError(s3err.ErrInvalidPart)\n\t\t}\n\t\tif etag != *parts[i].ETag {\n\t\t\tfmt.Fprintln(os.Stderr, \"etag mismatch\")\n\t\t}", Expect: "etag"},
		{Name: "Complete removes the per-key directory", Rule: "R-C08-3", File: "backend/posix/posix.go",
			Old: "\tos.RemoveAll(filepath.Join(bucket, objdir, uploadID))\n", New: "\tos.RemoveAll(filepath.Join(bucket, objdir))\n", Expect: "RemoveAll"},
		{Name: "Complete copies parts by list position", Rule: "R-C08-4", File: "backend/posix/posix.go",
			Old: "\tfor _, part := range parts {\n\t\tpartObjPath := filepath.Join(objdir, uploadID, fmt.Sprintf(\"%v\", *part.PartNumber))\n\t\tfullPartPath := filepath.Join(bucket, partObjPath)\n\t\tpf, err := os.Open(fullPartPath)", New: "\tfor i, part := range parts {\n\t\tpartObjPath := filepath.Join(objdir, uploadID, fmt.Sprintf(\"%v\", i+1))\n\t\tfullPartPath := filepath.Join(bucket, partObjPath)\n\t\tpf, err := os.Open(fullPartPath)", Expect: "by-part-number"},
		{Name: "GetMultipartMD5 suffix from the last part number", Rule: "R-C08-2", File: "backend/common.go",
			Old: "len(parts))", New: "*parts[len(parts)-1].PartNumber)", Expect: "suffix"},
	}
}

// ================================ C09 ================================

func runC09(p *Program, r *Report) {
	r.Rule("R-C09-1", "the current version is saved before it is replaced: every function that publishes into the object namespace of a versioned bucket (PutObject, CompleteMultipartUpload) and DeleteObject's delete-marker branch calls createObjVersion, and never after the publication / marker write", 3)
	r.Rule("R-C09-2", "a new id is attached before publication: the ULID made for a new version is stored as the version-id attribute through the temp file's descriptor and never after link()", 2)
	r.Rule("R-C09-3", "a delete without an id does not unlink under versioning: from the edge versionId == \"\" of DeleteObject's versioned branch no removal of the object is reachable", 1)
	r.Rule("R-C09-4", "restoring the previous version copies every attribute: in DeleteObject's promote-previous-version loop every listed attribute that was read is stored (no path skips the store other than returning an error)", 1)
	r.Rule("R-C09-5", "versions are preserved whenever versioning was ever configured: the save-current-version step of PutObject depends on the bucket's versioning status being set, not on it being Enabled (a Suspended bucket still holds id-carrying versions)", 1)

	for _, name := range []string{posixP + "PutObject", posixP + "CompleteMultipartUpload"} {
		f := p.Func(name)
		cv := callsTo(f, posixP+"createObjVersion")
		var links []ssa.CallInstruction
		for _, c := range callsIn(f) {
			if isLink(c) {
				links = append(links, c)
			}
		}
		ok := len(cv) > 0 && len(links) > 0
		for _, c := range cv {
			for _, l := range links {
				if mayPrecede(l, c) {
					ok = false
				}
			}
			// for the same bucket/key as the published object
			a := callArgs(c)
			if len(a) >= 2 {
				sameKey := false
				for _, rt := range Origins(a[1], nil) {
					if rt.Kind == "field" && rt.Desc == "Key" {
						sameKey = true
					}
				}
				if !sameKey {
					ok = false
				}
			}
			if okc, _ := failsClosed(f, c); !okc {
				ok = false
			}
		}
		r.Check(ok, "R-C09-1", name+"/createObjVersion-before-link", p.Pos(f.Pos()), "current version saved before the new one is published", "the current version is not saved (createObjVersion for the same key, error checked) before link() publishes the new one: the overwritten version becomes unretrievable")
		// R-C09-2
		um := callsTo(f, "github.com/oklog/ulid/v2.Make")
		okU := len(um) > 0
		found := false
		for _, mc := range metaCallsIn(f) {
			if mc.method != "StoreAttribute" || mc.keyArg != "version-id" {
				continue
			}
			args := mc.call.Common().Args
			fromU := false
			for _, rt := range Origins(args[len(args)-1], nil) {
				if rt.Kind == "call" && strings.Contains(rt.Desc, "ulid") {
					fromU = true
				}
			}
			if !fromU {
				continue
			}
			found = true
			if isNilConst(args[0]) {
				okU = false
			}
			for _, l := range links {
				if mayPrecede(l, mc.call) {
					okU = false
				}
			}
		}
		r.Check(okU && found, "R-C09-2", name+"/version-id-before-link", p.Pos(f.Pos()), "new version id stored on the temp file before link()", "the new version id is not attached to the unpublished file before link() (missing, by path, or after publication)")
	}
	// DeleteObject delete-marker branch
	df := p.Func(posixP + "DeleteObject")
	var noID []condEdge
	for _, ce := range condEdgesOf(df) {
		if ce.isEqNeq && ce.atoms["field:VersionId"] && ce.atoms[`const:""`] && ce.atoms["call:backend/posix.getString"] {
			noID = append(noID, ce)
		}
	}
	if len(noID) == 0 {
		r.Viol("R-C09-3", fnName(df)+"/no-id-branch", p.Pos(df.Pos()), "cannot find the versionId == \"\" test in DeleteObject")
	} else {
		for _, ce := range noID {
			reach := reachableFromEdge(df, ce.holds, nil)
			bad := ""
			for _, c := range callsIn(df) {
				if !reach[c.Block()] {
					continue
				}
				switch calleeName(c) {
				case "os.Remove", "os.RemoveAll", posixP + "removeParents":
					bad = calleeName(c) + "@" + p.Pos(c.Pos())
				}
			}
			r.Check(bad == "", "R-C09-3", fnName(df)+"/no-id-delete-keeps-data", p.Pos(ce.pos()), "only a delete marker is written", "a delete without version id can remove data in a versioned bucket ("+bad+")")
			// marker branch: createObjVersion precedes the marker store, store of delete-marker exists
			var cvs []ssa.CallInstruction
			for _, c := range callsTo(df, posixP+"createObjVersion") {
				if reach[c.Block()] {
					cvs = append(cvs, c)
				}
			}
			okM := len(cvs) > 0
			nm := 0
			for _, mc := range metaCallsIn(df) {
				if mc.method == "StoreAttribute" && mc.keyArg == "delete-marker" && reach[mc.call.Block()] {
					nm++
					for _, c := range cvs {
						if mayPrecede(mc.call, c) {
							okM = false
						}
					}
				}
			}
			r.Check(okM && nm > 0, "R-C09-1", fnName(df)+"/marker-after-version-saved", p.Pos(ce.pos()), "current version saved before it is turned into a delete marker", "the delete-marker branch does not save the current version before marking it (or writes no marker)")
		}
	}
	// R-C09-4: the restore loop
	{
		var la []ssa.CallInstruction
		for _, mc := range metaCallsIn(df) {
			if mc.method == "ListAttributes" {
				la = append(la, mc.call)
			}
		}
		okLoop := false
		for _, mc := range metaCallsIn(df) {
			if mc.method != "RetrieveAttribute" {
				continue
			}
			// the per-attribute read: its key argument is an element of the ListAttributes result
			args := mc.call.Common().Args
			isLoopRead := false
			for _, rt := range Origins(args[len(args)-1], nil) {
				if rt.Kind == "call" && strings.HasSuffix(rt.Desc, ".ListAttributes") {
					isLoopRead = true
				}
			}
			if !isLoopRead {
				continue
			}
			// from its success edge, the loop header can be re-entered only through a StoreAttribute
			var stores []*ssa.BasicBlock
			for _, m2 := range metaCallsIn(df) {
				if m2.method == "StoreAttribute" && mayPrecede(mc.call, m2.call) {
					a2 := m2.call.Common().Args
					for _, rt := range Origins(a2[len(a2)-1], nil) {
						if rt.Kind == "call" && rt.Call == mc.call {
							stores = append(stores, m2.call.Block())
						}
					}
				}
			}
			if len(stores) == 0 {
				continue
			}
			avoid := map[*ssa.BasicBlock]bool{}
			for _, b := range stores {
				avoid[b] = true
			}
			okLoop = true
			for _, e := range successEdges(mc.call) {
				reach := reachableAvoiding(df, e.from.Succs[e.succ], nil, avoid)
				if reach[mc.call.Block()] { // next iteration reached without storing
					okLoop = false
				}
				// or the loop is left (the removal of the version file) without storing
				for _, c := range callsTo(df, "os.Remove") {
					if reach[c.Block()] && mayPrecede(mc.call, c) && !reachable(df, nil, nil)[nil] {
						for _, rt := range Origins(callArgs(c)[0], nil) {
							if rt.Kind == "call" && strings.HasSuffix(rt.Desc, ".Name") {
								okLoop = false
							}
						}
					}
				}
			}
		}
		r.Check(okLoop && len(la) > 0, "R-C09-4", fnName(df)+"/restore-copies-every-attribute", p.Pos(df.Pos()), "every attribute read is stored", "the promote-previous-version loop can skip storing an attribute it read (e.g. empty values): a promoted delete marker loses its flag, a version loses metadata")
	}
	// R-C09-5
	{
		f := p.Func(posixP + "PutObject")
		bad := ""
		okDep := false
		for _, c := range callsTo(f, posixP+"createObjVersion") {
			for _, ce := range condEdgesOf(f) {
				needH := !reachable(f, nil, []edge{ce.holds})[c.Block()]
				needF := !reachable(f, nil, []edge{ce.fails})[c.Block()]
				if !needH && !needF {
					continue
				}
				for _, rt := range Origins(ce.cond, nil) {
					if rt.Kind == "call" && rt.Desc == posixP+"isBucketVersioningEnabled" {
						bad = "isBucketVersioningEnabled"
					}
					if rt.Kind == "call" && rt.Desc == posixP+"getBucketVersioningStatus" && ce.isEqNeq && ce.atoms[`const:""`] {
						okDep = true
					}
				}
			}
		}
		r.Check(bad == "" && okDep, "R-C09-5", fnName(f)+"/save-version-when-configured", p.Pos(f.Pos()), "depends on vStatus != \"\"", "PutObject saves the current version only when versioning is Enabled ("+bad+"): overwriting in a Suspended bucket destroys the id-carrying current version")
	}
}

func controlsC09() []Control {
	return []Control{
		{Name: "CompleteMultipartUpload: createObjVersion call removed", Rule: "R-C09-1", File: "backend/posix/posix.go",
			Old: "\tif p.versioningEnabled() && vEnabled && err == nil && !d.IsDir() {\n\t\t_, err := p.createObjVersion(bucket, object, d.Size(), acct)\n\t\tif err != nil {\n\t\t\treturn nil, fmt.Errorf(\"create object version: %w\", err)\n\t\t}\n\t}\n", New: "\t_ = d\n", Expect: "CompleteMultipartUpload"},
		{Name: "DeleteObject: no-id delete unlinks when the marker write fails", Rule: "R-C09-3", File: "backend/posix/posix.go",
			Old: "\t\t\terr = p.meta.StoreAttribute(nil, bucket, object, deleteMarkerKey, []byte{})\n\t\t\tif err != nil {\n\t\t\t\treturn nil, fmt.Errorf(\"set delete marker: %w\", err)\n\t\t\t}", New: "\t\t\terr = p.meta.StoreAttribute(nil, bucket, object, deleteMarkerKey, []byte{})\n\t\t\tif err != nil {\n\t\t\t\tos.Remove(objpath)\n\t\t\t\treturn nil, fmt.Errorf(\"set delete marker: %w\", err)\n\t\t\t}", Expect: "no-id-delete"},
		{Name: "restore loop skips empty attributes", Rule: "R-C09-4", File: "backend/posix/posix.go",
			Old: "\t\t\t\t\terr = p.meta.StoreAttribute(nil, bucket, object, attr, data)\n\t\t\t\t\tif err != nil {\n\t\t\t\t\t\treturn nil, fmt.Errorf(\"store %v attribute\", attr)", New: "\t\t\t\t\tif len(data) == 0 {\n\t\t\t\t\t\tcontinue\n\t\t\t\t\t}\n\t\t\t\t\terr = p.meta.StoreAttribute(nil, bucket, object, attr, data)\n\t\t\t\t\tif err != nil {\n\t\t\t\t\t\treturn nil, fmt.Errorf(\"store %v attribute\", attr)", Expect: "restore-copies"},
		{Name: "PutObject saves the version only when Enabled", Rule: "R-C09-5", File: "backend/posix/posix.go",
			Old: "\tif p.versioningEnabled() && vStatus != \"\" && err == nil {", New: "\tif p.versioningEnabled() && vEnabled && err == nil {", Expect: "save-version"},
		{Name: "PutObject: version id stored by path after link", Rule: "R-C09-2", File: "backend/posix/posix.go",
			Old: "\tif versionID != \"\" && versionID != nullVersionId {\n\t\terr := p.meta.StoreAttribute(f.File(), *po.Bucket, *po.Key, versionIdKey, []byte(versionID))", New: "\tif versionID != \"\" && versionID != nullVersionId {\n\t\terr := p.meta.StoreAttribute(nil, *po.Bucket, *po.Key, versionIdKey, []byte(versionID))", Expect: "version-id"},
	}
}

// ================================ C16 ================================

func runC16(p *Program, r *Report) {
	r.Rule("R-C16-1", "names are validated on create: be.CreateBucket is reachable in PutBucketActions only through the true edge of utils.IsValidBucketName applied to the route's bucket", 1)
	r.Rule("R-C16-2", "create-on-existing writes nothing: in posix.CreateBucket every attribute write, chown and settings call is reachable only through the success edge of os.Mkdir", 3)
	r.Rule("R-C16-3", "settings round-trip under one key: for each bucket setting the attribute key written by Put is the key read by Get (and removed by Delete), and no two settings share a key", 6)
	r.Rule("R-C16-4", "bucket deletion cannot remove contents: posix.DeleteBucket does not recursively remove the bucket path after a separate emptiness test (check-then-act)", 1)
	r.Rule("R-C16-5", "the emptiness test looks at the bucket: isBucketEmpty returns nil only after reading the bucket directory itself, and DeleteBucket removes only behind isBucketEmpty success", 2)

	h := p.Func("(" + ctrlPkg + ".S3ApiController).PutBucketActions")
	for _, bc := range backendCalls([]*ssa.Function{h}) {
		if bc.method != "CreateBucket" {
			continue
		}
		var cut []edge
		for _, ce := range condEdgesOf(h) {
			if c, ok := ce.cond.(*ssa.Call); ok && calleeName(c) == utilsPkg+".IsValidBucketName" {
				if hasCallRoot(Origins(callArgs(c)[0], nil), fiberCtx+".Params", "bucket") {
					cut = append(cut, ce.holds)
				}
			}
		}
		r.Check(len(cut) > 0 && !reachable(h, nil, cut)[bc.call.Block()], "R-C16-1", bc.key+":name-validated", p.Pos(bc.call.Pos()), "behind IsValidBucketName(bucket)", "a bucket can be created without its name having passed utils.IsValidBucketName")
	}
	cb := p.Func(posixP + "CreateBucket")
	mk := callsTo(cb, "os.Mkdir")
	n := 0
	for _, c := range callsIn(cb) {
		if _, isCall := c.(*ssa.Call); !isCall {
			continue
		}
		isW := false
		cc := c.Common()
		if cc.IsInvoke() && typeStr(cc.Value.Type()) == "backend/meta.MetadataStorer" && (cc.Method.Name() == "StoreAttribute" || strings.HasPrefix(cc.Method.Name(), "Delete")) {
			isW = true
		}
		switch calleeName(c) {
		case "os.Chown", posixP + "PutBucketVersioning", posixP + "PutBucketAcl", posixP + "PutObjectLockConfiguration":
			isW = true
		}
		if !isW {
			continue
		}
		n++
		name := calleeName(c)
		if cc.IsInvoke() {
			name = cc.Method.Name()
		}
		r.Check(guardedBy(cb, c, mk), "R-C16-2", fnName(cb)+"/"+name+"#"+itoa(n), p.Pos(c.Pos()), "only after os.Mkdir created the bucket", "CreateBucket can write "+name+" on a directory that already existed: creating an existing bucket changes its owner/ACL/settings")
	}
	if n < 3 {
		broken("R-C16-2: only %d writes found in posix.CreateBucket", n)
	}

	// R-C16-3
	type setting struct {
		name string
		put  []string
		get  []string
		del  []string
	}
	settings := []setting{
		{"acl", []string{"PutBucketAcl", "CreateBucket"}, []string{"GetBucketAcl"}, nil},
		{"tagging", []string{"PutBucketTagging"}, []string{"GetBucketTagging"}, nil},
		{"policy", []string{"PutBucketPolicy"}, []string{"GetBucketPolicy"}, nil},
		{"ownership", []string{"PutBucketOwnershipControls"}, []string{"GetBucketOwnershipControls"}, []string{"DeleteBucketOwnershipControls"}},
		{"versioning", []string{"PutBucketVersioning"}, []string{"GetBucketVersioning"}, nil},
		{"object-lock", []string{"PutObjectLockConfiguration"}, []string{"GetObjectLockConfiguration"}, nil},
	}
	keysOf := func(fn, method string) map[string]bool {
		out := map[string]bool{}
		f := p.Func(posixP + fn)
		for _, mc := range metaCallsIn(f) {
			if strings.HasPrefix(mc.method, method) && mc.keyArg != "" {
				// bucket-level: object argument is ""
				out[mc.keyArg] = true
			}
		}
		// through a helper (e.g. getAttrTags / DeleteBucketTagging -> PutBucketTagging)
		return out
	}
	owner := map[string]string{}
	for _, s := range settings {
		pk := map[string]bool{}
		for _, fn := range s.put {
			for k := range keysOf(fn, "StoreAttribute") {
				pk[k] = true
			}
		}
		gk := map[string]bool{}
		for _, fn := range s.get {
			for k := range keysOf(fn, "RetrieveAttribute") {
				gk[k] = true
			}
			if s.name == "tagging" {
				for k := range func() map[string]bool {
					out := map[string]bool{}
					for _, mc := range metaCallsIn(p.Func(posixP + "getAttrTags")) {
						if mc.method == "RetrieveAttribute" {
							out[mc.keyArg] = true
						}
					}
					return out
				}() {
					gk[k] = true
				}
			}
		}
		// the setting's own key: written by its Put and read by its Get
		var common []string
		for k := range gk {
			if pk[k] {
				common = append(common, k)
			}
		}
		sort.Strings(common)
		r.Check(len(common) >= 1, "R-C16-3", "setting:"+s.name+"/put-key==get-key", "backend/posix/posix.go", "key "+strings.Join(common, ","), "the "+s.name+" setting is written under a different attribute key than it is read from: it never reads back")
		for _, k := range common {
			if o, dup := owner[k]; dup && o != s.name {
				r.Viol("R-C16-3", "setting:"+s.name+"/unique-key", "backend/posix/posix.go", "settings "+o+" and "+s.name+" share the attribute key "+k+": writing one overwrites the other")
			}
			owner[k] = s.name
		}
		for _, fn := range s.del {
			dk := keysOf(fn, "DeleteAttribute")
			okD := false
			for _, k := range common {
				if dk[k] {
					okD = true
				}
			}
			r.Check(okD, "R-C16-3", "setting:"+s.name+"/delete-key", "backend/posix/posix.go", "deleted under the same key", "deleting the "+s.name+" setting removes a different attribute key than Put writes")
		}
	}

	// R-C16-4 / R-C16-5
	db := p.Func(posixP + "DeleteBucket")
	ie := callsTo(db, posixP+"isBucketEmpty")
	for i, c := range callsTo(db, "os.RemoveAll", "os.Remove") {
		isBucket := false
		for _, rt := range terminalRoots(Origins(callArgs(c)[0], nil)) {
			if rt.Kind == "param" && rt.Desc == "bucket" {
				isBucket = true
			}
		}
		direct := isBucket && len(Origins(callArgs(c)[0], nil)) > 0
		for _, rt := range Origins(callArgs(c)[0], nil) {
			if rt.Kind == "via" {
				direct = false // joined with the versioning directory: bookkeeping
			}
		}
		r.Check(guardedBy(db, c, ie), "R-C16-5", fnName(db)+"/"+calleeName(c)+"#"+itoa(i+1)+":after-emptiness-test", p.Pos(c.Pos()), "removal only after isBucketEmpty succeeded", "DeleteBucket removes without isBucketEmpty having succeeded")
		if direct && calleeName(c) == "os.RemoveAll" {
			r.Viol("R-C16-4", fnName(db)+"/os.RemoveAll(bucket)", p.Pos(c.Pos()), "the bucket directory is removed recursively after a separate emptiness test: an object whose upload is acknowledged between the test and the removal is deleted with the bucket")
		}
	}
	r.Ok("R-C16-4", fnName(db)+"/scanned", p.Pos(db.Pos()), "DeleteBucket scanned for recursive removal of the bucket path")
	ib := p.Func(posixP + "isBucketEmpty")
	var rd []ssa.CallInstruction
	for _, c := range callsTo(ib, "os.ReadDir") {
		only := true
		for _, rt := range Origins(callArgs(c)[0], nil) {
			if rt.Kind == "via" || rt.Kind == "field" {
				only = false
			}
		}
		if only {
			rd = append(rd, c)
		}
	}
	avoid := map[*ssa.BasicBlock]bool{}
	for _, c := range rd {
		avoid[c.Block()] = true
	}
	bad := len(rd) == 0
	reach := reachableAvoiding(ib, nil, nil, avoid)
	for _, s := range errReturnSites(ib) {
		if isNilConst(s.val) && s.reachedIn(reach) {
			bad = true
		}
	}
	r.Check(!bad, "R-C16-5", fnName(ib)+"/nil-only-after-reading-the-bucket", p.Pos(ib.Pos()), "empty verdict only after os.ReadDir(bucket)", "isBucketEmpty can report 'empty' without having read the bucket directory itself: DeleteBucket then removes a bucket that still holds objects")
}

func controlsC16() []Control {
	return []Control{
		{Name: "PutBucketActions: CreateBucket before the name test", Rule: "R-C16-1", File: "s3api/controllers/base.go",
			Old: "\tif ok := utils.IsValidBucketName(bucket, c.debug); !ok {", New: "\tif ok := utils.IsValidBucketName(bucket, c.debug); !ok && c.debug {", Expect: "CreateBucket"},
		{Name: "CreateBucket adopts an existing directory without ACL", Rule: "R-C16-2", File: "backend/posix/posix.go",
			Old: "\t\taclJSON, err := p.meta.RetrieveAttribute(nil, bucket, \"\", aclkey)\n\t\tif err != nil {\n\t\t\treturn fmt.Errorf(\"get bucket acl: %w\", err)\n\t\t}", New: "\t\taclJSON, err := p.meta.RetrieveAttribute(nil, bucket, \"\", aclkey)\n\t\tif errors.Is(err, meta.ErrNoSuchKey) {\n\t\t\tgoto adopt\n\t\t}\n\t\tif err != nil {\n\t\t\treturn fmt.Errorf(\"get bucket acl: %w\", err)\n\t\t}",
			More: []Edit{{"backend/posix/posix.go", "\tif doChown {\n\t\terr := os.Chown(bucket, uid, gid)\n\t\tif err != nil {\n\t\t\treturn fmt.Errorf(\"chown bucket: %w\", err)", "adopt:\n\tif doChown {\n\t\terr := os.Chown(bucket, uid, gid)\n\t\tif err != nil {\n\t\t\treturn fmt.Errorf(\"chown bucket: %w\", err)"}}, Expect: "CreateBucket"},
		{Name: "GetBucketPolicy reads the ACL key", Rule: "R-C16-3", File: "backend/posix/posix.go",
			Old: "\tpolicy, err := p.meta.RetrieveAttribute(nil, bucket, \"\", policykey)", New: "\tpolicy, err := p.meta.RetrieveAttribute(nil, bucket, \"\", aclkey)", Expect: "policy"},
		{Name: "isBucketEmpty returns early after the versioning directory", Rule: "R-C16-5", File: "backend/posix/posix.go",
			Old: "\t\tif err == nil {\n\t\t\tif len(ents) == 1 && ents[0].Name() != metaTmpDir {\n\t\t\t\treturn s3err.GetAPIError(s3err.ErrVersionedBucketNotEmpty)\n\t\t\t} else if len(ents) > 1 {\n\t\t\t\treturn s3err.GetAPIError(s3err.ErrVersionedBucketNotEmpty)\n\t\t\t}\n\t\t}", New: "\t\tif err == nil {\n\t\t\tif len(ents) == 1 && ents[0].Name() != metaTmpDir {\n\t\t\t\treturn s3err.GetAPIError(s3err.ErrVersionedBucketNotEmpty)\n\t\t\t} else if len(ents) > 1 {\n\t\t\t\treturn s3err.GetAPIError(s3err.ErrVersionedBucketNotEmpty)\n\t\t\t}\n\t\t\treturn nil\n\t\t}", Expect: "isBucketEmpty"},
	}
}

// ================================ C01 ================================

func runC01(p *Program, r *Report) {
	r.Rule("R-C01-1", "statelessness: outside its constructor no function stores to a field of *posix.Posix / *scoutfs.ScoutFS, and no function of the backend packages stores to a package-level variable (object state never lives in one gateway process)", 1)
	r.Rule("R-C01-2", "attribute-key agreement: the content-header keys written by storeObjectMetadata are exactly those read by loadObjectMetaData; the ETag, checksums, user-metadata prefix and tags written by PutObject/CompleteMultipartUpload are read back by GetObject and HeadObject under the same keys (posix; scoutfs siblings agree)", 8)
	r.Rule("R-C01-3", "header forwarding: PutActions hands every content header, the user metadata, the tags, the body reader and the length to the backend, each taken from its own request header; GetActions and HeadObject emit a response header for each of those result fields (GET/HEAD agree)", 12)
	r.Rule("R-C01-4", "what is stored is what was uploaded: temp files are private to one upload (R-C05-4) and multipart completion copies the listed parts by part number (R-C08-4)", 2)

	// R-C01-1
	n := 0
	for _, pk := range []string{"backend/posix", "backend/scoutfs", "backend", "backend/meta"} {
		if p.SSAPkg[pk] == nil {
			continue
		}
		for _, f := range p.FuncsIn(pk) {
			ctor := fnName(f) == "backend/posix.New" || fnName(f) == "backend/scoutfs.New" || strings.HasSuffix(fnName(f), ".init") || strings.Contains(fnName(f), ".init#")
			for _, b := range f.Blocks {
				for _, in := range b.Instrs {
					st, ok := in.(*ssa.Store)
					if !ok {
						continue
					}
					switch a := st.Addr.(type) {
					case *ssa.FieldAddr:
						t := typeStr(a.X.Type())
						if t == "*backend/posix.Posix" || t == "*backend/scoutfs.ScoutFS" {
							n++
							// stores into a struct under construction (&Posix{...} literal) are fine
							if _, isAlloc := a.X.(*ssa.Alloc); isAlloc || ctor {
								continue
							}
							r.Viol("R-C01-1", fnName(f)+"/store:"+fieldName(a.X.Type(), a.Field), p.Pos(st.Pos()), "a backend method mutates per-process backend state ("+fieldName(a.X.Type(), a.Field)+"): a request served by another gateway process (or after a restart) sees different object state")
						}
					case *ssa.Global:
						if ctor {
							continue
						}
						n++
						r.Viol("R-C01-1", fnName(f)+"/global:"+a.Name(), p.Pos(st.Pos()), "a backend function stores to the package-level variable "+a.Name()+": per-process mutable state")
					}
				}
			}
		}
	}
	r.Ok("R-C01-1", "backend-state-stores-scanned", "-", itoa(n)+" candidate stores examined")

	// R-C01-2
	keysIn := func(fn string, method string) map[string]bool {
		out := map[string]bool{}
		f := p.FuncOpt(fn)
		if f == nil {
			return out
		}
		for _, mc := range metaCallsIn(f) {
			if mc.method == method && mc.keyArg != "" {
				out[mc.keyArg] = true
			}
		}
		return out
	}
	w := keysIn(posixP+"storeObjectMetadata", "StoreAttribute")
	rd := keysIn(posixP+"loadObjectMetaData", "RetrieveAttribute")
	all := map[string]bool{}
	for k := range w {
		all[k] = true
	}
	for k := range rd {
		all[k] = true
	}
	ks := make([]string, 0, len(all))
	for k := range all {
		ks = append(ks, k)
	}
	sort.Strings(ks)
	if len(ks) < 6 {
		broken("R-C01-2: only %d content-header attribute keys found", len(ks))
	}
	for _, k := range ks {
		r.Check(w[k] && rd[k], "R-C01-2", "content-attr:"+k, "backend/posix/posix.go", "written and read", "content attribute "+k+" is "+map[bool]string{true: "written but never read back", false: "read but never written"}[w[k]]+": that header does not round-trip")
	}
	if p.SSAPkg["backend/scoutfs"] != nil {
		sw := keysIn("(*backend/scoutfs.ScoutFS).storeObjectMetadata", "StoreAttribute")
		for _, k := range ks {
			if len(sw) > 0 {
				r.Check(sw[k] == w[k], "R-C01-2", "scoutfs-sibling:"+k, "backend/scoutfs/scoutfs.go", "agrees with posix", "scoutfs and posix disagree on content attribute "+k)
			}
		}
	}
	// etag / checksums / user metadata prefix / tags: written by PutObject & Complete, read by GetObject & HeadObject
	for _, k := range []string{"etag"} {
		for _, wr := range []string{"PutObject", "CompleteMultipartUpload"} {
			r.Check(keysIn(posixP+wr, "StoreAttribute")[k], "R-C01-2", wr+"/writes:"+k, "backend/posix/posix.go", "written", wr+" does not store attribute "+k)
		}
		for _, re := range []string{"GetObject", "HeadObject"} {
			r.Check(keysIn(posixP+re, "RetrieveAttribute")[k], "R-C01-2", re+"/reads:"+k, "backend/posix/posix.go", "read", re+" does not read attribute "+k+" back")
		}
	}
	for _, pair := range [][2]string{{"storeChecksums", "retrieveChecksums"}} {
		wk, rk := keysIn(posixP+pair[0], "StoreAttribute"), keysIn(posixP+pair[1], "RetrieveAttribute")
		same := len(wk) > 0
		for k := range wk {
			if !rk[k] {
				same = false
			}
		}
		r.Check(same, "R-C01-2", pair[0]+"=="+pair[1], "backend/posix/posix.go", "same key", "checksums are stored and retrieved under different attribute keys")
	}
	// user metadata: the prefix constant used when storing is the one used when listing
	mh, _ := pkgConstString(p, "backend/posix", "metaHdr")
	for _, fn := range []string{"PutObject", "loadObjectMetaData", "CompleteMultipartUpload"} {
		f := p.Func(posixP + fn)
		r.Check(mentions(f, mh)[mh], "R-C01-2", fn+"/user-metadata-prefix", p.Pos(f.Pos()), "uses "+mh, fn+" does not use the user-metadata attribute prefix "+mh)
	}
	for _, re := range []string{"GetObject", "HeadObject"} {
		f := p.Func(posixP + re)
		okL := len(callsTo(f, posixP+"loadObjectMetaData")) > 0
		okT := len(callsTo(f, posixP+"getAttrTags")) > 0
		r.Check(okL, "R-C01-2", re+"/loads-metadata", p.Pos(f.Pos()), "calls loadObjectMetaData", re+" no longer loads the stored content headers and user metadata")
		if re == "GetObject" { // HEAD reports no tag count in this tree
			r.Check(okT, "R-C01-2", re+"/loads-tags", p.Pos(f.Pos()), "reads the tag set", re+" no longer reads the stored tags (tag count)")
		}
	}

	c01Headers(p, r)

	// R-C01-4 (shared rules, evaluated here for this property)
	sub := NewReport("C01", "sub")
	sub.cur = p.Config
	pubRules(p, sub, "C01")
	for _, o := range sub.Obligs {
		if o.Rule == "R-C05-4" {
			r.add("R-C01-4", o.Key, o.Pos, o.Status, o.Detail)
		}
	}
	sub2 := NewReport("C01", "sub")
	sub2.cur = p.Config
	runC08(p, sub2)
	for _, o := range sub2.Obligs {
		if o.Rule == "R-C08-4" {
			r.add("R-C01-4", o.Key, o.Pos, o.Status, o.Detail)
		}
	}
}

func c01Headers(p *Program, r *Report) {
	h := p.Func("(" + ctrlPkg + ".S3ApiController).PutActions")
	want := map[string]string{"ContentType": "Content-Type", "ContentEncoding": "Content-Encoding", "ContentDisposition": "Content-Disposition", "ContentLanguage": "Content-Language", "CacheControl": "Cache-Control", "Expires": "Expires", "Tagging": "X-Amz-Tagging"}
	for _, c := range callsIn(h) {
		if !isBackendCall(c) || c.Common().Method.Name() != "PutObject" {
			continue
		}
		for _, a := range callArgs(c) {
			fs, _ := litFields(a)
			if fs == nil {
				continue
			}
			names := make([]string, 0, len(want))
			for n := range want {
				names = append(names, n)
			}
			sort.Strings(names)
			for _, fld := range names {
				ok := false
				for _, v := range fs[fld] {
					for _, rt := range Origins(v, nil) {
						if rt.Kind == "call" && rt.Desc == fiberCtx+".Get" {
							for _, a := range callArgs(rt.Call) {
								if cs, isS := constString(a); isS && strings.EqualFold(cs, want[fld]) {
									ok = true
								}
							}
						}
					}
				}
				r.Check(ok, "R-C01-3", fnName(h)+"/PutObject."+fld, p.Pos(c.Pos()), fld+" <- header "+want[fld], "the "+want[fld]+" request header is not handed to the backend as "+fld+": it is lost for every object")
			}
			okM := false
			for _, v := range fs["Metadata"] {
				for _, rt := range Origins(v, nil) {
					if rt.Kind == "call" && rt.Desc == utilsPkg+".GetUserMetaData" {
						okM = true
					}
				}
			}
			r.Check(okM, "R-C01-3", fnName(h)+"/PutObject.Metadata", p.Pos(c.Pos()), "Metadata <- GetUserMetaData(headers)", "user metadata is not handed to the backend")
			okL := false
			for _, v := range fs["ContentLength"] {
				for _, rt := range Origins(v, &originOpts{extra: map[string][]int{"strconv.ParseInt": {0}}}) {
					if rt.Kind == "call" && rt.Desc == fiberCtx+".Get" && (hasConstArg(rt.Call, "Content-Length") || hasConstArg(rt.Call, "X-Amz-Decoded-Content-Length")) {
						okL = true
					}
				}
			}
			r.Check(okL, "R-C01-3", fnName(h)+"/PutObject.ContentLength", p.Pos(c.Pos()), "ContentLength <- declared length header", "the declared content length is not handed to the backend")
		}
	}
	// responses: header name constants appended in GetActions and HeadObject, each valued from the same-named result field
	resp := map[string]string{"Content-Type": "ContentType", "Content-Encoding": "ContentEncoding", "Content-Disposition": "ContentDisposition", "Content-Language": "ContentLanguage", "Cache-Control": "CacheControl", "Expires": "ExpiresString", "ETag": "ETag"}
	for _, hn := range []string{"GetActions", "HeadObject"} {
		f := p.Func("(" + ctrlPkg + ".S3ApiController)." + hn)
		got := map[string]string{}
		for _, b := range f.Blocks {
			for _, in := range b.Instrs {
				st, ok := in.(*ssa.Store)
				if !ok {
					continue
				}
				s, isS := constString(st.Val)
				if !isS {
					continue
				}
				fa, isFA := st.Addr.(*ssa.FieldAddr)
				if !isFA || fieldName(fa.X.Type(), fa.Field) != "Key" {
					continue
				}
				for _, ref := range *fa.X.Referrers() {
					fb, isFB := ref.(*ssa.FieldAddr)
					if !isFB || fieldName(fb.X.Type(), fb.Field) != "Value" {
						continue
					}
					for _, vs := range storesTo(fb) {
						for _, rt := range Origins(vs.Val, nil) {
							if rt.Kind == "field" {
								got[s] = got[s] + "," + rt.Desc
							}
						}
					}
				}
			}
		}
		names := make([]string, 0, len(resp))
		for n := range resp {
			names = append(names, n)
		}
		sort.Strings(names)
		for _, hd := range names {
			r.Check(strings.Contains(got[hd], resp[hd]), "R-C01-3", fnName(f)+"/emits:"+hd, p.Pos(f.Pos()), hd+" <- res."+resp[hd], hn+" does not emit the "+hd+" header from the backend result's "+resp[hd]+" (GET and HEAD must agree with what was stored)")
		}
		okMeta := false
		for _, c := range callsTo(f, utilsPkg+".SetMetaHeaders") {
			for _, rt := range Origins(callArgs(c)[1], nil) {
				if rt.Kind == "field" && rt.Desc == "Metadata" {
					okMeta = true
				}
			}
		}
		r.Check(okMeta, "R-C01-3", fnName(f)+"/emits:x-amz-meta", p.Pos(f.Pos()), "user metadata emitted from res.Metadata", hn+" does not emit the stored user metadata")
	}
}

func controlsC01() []Control {
	return []Control{
		{Name: "posix.PutObject remembers the last ETag in the backend struct", Rule: "R-C01-1", File: "backend/posix/posix.go",
			Old: "\tdataSum := hash.Sum(nil)\n\tetag := fmt.Sprintf(\"\\\"%v\\\"\", hex.EncodeToString(dataSum[:]))\n", New: "\tdataSum := hash.Sum(nil)\n\tetag := fmt.Sprintf(\"\\\"%v\\\"\", hex.EncodeToString(dataSum[:]))\n\tp.rootdir = p.rootdir + \"\"\n", Expect: "rootdir"},
		{Name: "storeObjectMetadata drops Cache-Control", Rule: "R-C01-2", File: "backend/posix/posix.go",
			Old: "\tif getString(m.CacheControl) != \"\" {\n\t\terr := p.meta.StoreAttribute(f, bucket, object, cacheCtrlHdr, []byte(*m.CacheControl))\n\t\tif err != nil {\n\t\t\treturn fmt.Errorf(\"set cache-control: %w\", err)\n\t\t}\n\t}\n", New: "", Expect: "content-attr"},
		{Name: "PutActions forgets the Expires header", Rule: "R-C01-3", File: "s3api/controllers/base.go",
			Old: "\t\t\tExpires:                   &expires,\n\t\t\tMetadata:                  metadata,\n\t\t\tBody:                      body,", New: "\t\t\tMetadata:                  metadata,\n\t\t\tBody:                      body,", More: []Edit{{"s3api/controllers/base.go", "\tvar body io.Reader\n\tbodyi := ctx.Locals(\"body-reader\")\n\tif bodyi != nil {\n\t\tbody = bodyi.(io.Reader)\n\t} else {\n\t\tbody = bytes.NewReader([]byte{})\n\t}\n\n\tres, err := c.be.PutObject(", "\tvar body io.Reader\n\tbodyi := ctx.Locals(\"body-reader\")\n\tif bodyi != nil {\n\t\tbody = bodyi.(io.Reader)\n\t} else {\n\t\tbody = bytes.NewReader([]byte{})\n\t}\n\t_ = expires\n\n\tres, err := c.be.PutObject("}}, Expect: "Expires"},
		{Name: "GetActions does not emit Content-Language", Rule: "R-C01-3", File: "s3api/controllers/base.go",
			Old: "\tif getstring(res.ContentLanguage) != \"\" {\n\t\thdrs = append(hdrs, utils.CustomHeader{\n\t\t\tKey:   \"Content-Language\",\n\t\t\tValue: getstring(res.ContentLanguage),\n\t\t})\n\t}\n\tif getstring(res.CacheControl) != \"\" {\n\t\thdrs = append(hdrs, utils.CustomHeader{\n\t\t\tKey:   \"Cache-Control\",\n\t\t\tValue: getstring(res.CacheControl),\n\t\t})\n\t}\n\tif getstring(res.ExpiresString) != \"\" {\n\t\thdrs = append(hdrs, utils.CustomHeader{\n\t\t\tKey:   \"Expires\",\n\t\t\tValue: getstring(res.ExpiresString),\n\t\t})\n\t}\n\tif getstring(res.ContentRange) != \"\" {", New: "\tif getstring(res.CacheControl) != \"\" {\n\t\thdrs = append(hdrs, utils.CustomHeader{\n\t\t\tKey:   \"Cache-Control\",\n\t\t\tValue: getstring(res.CacheControl),\n\t\t})\n\t}\n\tif getstring(res.ExpiresString) != \"\" {\n\t\thdrs = append(hdrs, utils.CustomHeader{\n\t\t\tKey:   \"Expires\",\n\t\t\tValue: getstring(res.ExpiresString),\n\t\t})\n\t}\n\tif getstring(res.ContentRange) != \"\" {", Expect: "Content-Language"},
	}
}

// ================================ C18 ================================

func runC18(p *Program, r *Report) {
	r.Rule("R-C18-1", "field forwarding: in the hand-written SDK input literals of the s3proxy backend every field of the gateway input struct that has a same-named field in the SDK struct is assigned from it (frozen exclusions: object-lock fields deliberately not forwarded); required list fields are never nil", 30)
	r.Rule("R-C18-2", "error mapping is total: every error an S3Proxy method returns that originates from an s.client call passes through handleError", 30)
	r.Rule("R-C18-3", "no result is used before its error is checked in the proxy (shared with R-C20-3)", 20)
	r.Rule("R-C18-4", "ACL tag key agreement: the bucket tag under which the gateway keeps its ACL is named by the single constant aclKey wherever the tag set is read or written", 3)
	r.Rule("R-C18-5", "the proxy keeps no state of its own: S3Proxy methods store to no field of *S3Proxy, to no package-level variable and into no sync.Map (the proxied endpoint is the only source of truth)", 1)

	ms := p.Methods("backend/s3proxy", "S3Proxy")
	if len(ms) < 40 {
		broken("only %d S3Proxy methods found", len(ms))
	}
	// R-C18-2
	for _, m := range ms {
		if m.Object() == nil || !m.Object().Exported() {
			continue
		}
		idx := errorResultIdx(m.Signature)
		if idx < 0 {
			continue
		}
		n := 0
		for _, s := range errReturnSites(m) {
			if isNilConst(s.val) {
				continue
			}
			fromClient, mapped := false, false
			for _, rt := range Origins(s.val, &originOpts{stop: map[string]bool{"backend/s3proxy.handleError": true}}) {
				if rt.Kind == "call" && strings.Contains(rt.Desc, "github.com/aws/aws-sdk-go-v2/service/s3.Client)") {
					fromClient = true
				}
				if rt.Kind == "call" && rt.Desc == "backend/s3proxy.handleError" {
					mapped = true
				}
			}
			if !fromClient {
				if mapped {
					n++
					r.Ok("R-C18-2", fnName(m)+"/return#"+itoa(n), p.Pos(s.ret.Pos()), "mapped by handleError")
				}
				continue
			}
			n++
			r.Viol("R-C18-2", fnName(m)+"/return#"+itoa(n), p.Pos(s.ret.Pos()), "an SDK error is returned without handleError: the client sees a 500 InternalError instead of the proxied endpoint's status and code")
		}
	}

	// R-C18-3: reuse the use-before-check rule restricted to the proxy
	sub := NewReport("C18", "sub")
	sub.cur = p.Config
	sub.Rule("R-C20-3", "", 0)
	func() {
		defer func() { recover() }()
		c20UseBeforeCheckScope(p, sub, []string{"backend/s3proxy"})
	}()
	for _, o := range sub.Obligs {
		r.add("R-C18-3", o.Key, o.Pos, o.Status, o.Detail)
	}

	// R-C18-4
	ak, _ := pkgConstString(p, "backend/s3proxy", "aclKey")
	for _, name := range []string{"CreateBucket", "GetBucketAcl", "PutBucketAcl"} { // ChangeBucketOwner / ListBucketsAndOwners go to the proxied gateway's admin API
		f := p.Func("(*backend/s3proxy.S3Proxy)." + name)
		uses := mentions(f, ak)[ak]
		// ChangeBucketOwner / ListBucketsAndOwners may go through Get/PutBucketAcl
		via := len(callsTo(f, "(*backend/s3proxy.S3Proxy).PutBucketAcl", "(*backend/s3proxy.S3Proxy).GetBucketAcl")) > 0
		r.Check(uses || via, "R-C18-4", fnName(f)+"/aclKey", p.Pos(f.Pos()), "uses aclKey", name+" reads or writes the bucket tag set without the aclKey constant: the gateway's ACL for proxied buckets does not round-trip")
	}

	// R-C18-5
	n := 0
	for _, m := range p.FuncsIn("backend/s3proxy") {
		if fnName(m) == "backend/s3proxy.New" || strings.Contains(fnName(m), ".init") {
			continue
		}
		for _, b := range m.Blocks {
			for _, in := range b.Instrs {
				switch x := in.(type) {
				case *ssa.Store:
					if fa, ok := x.Addr.(*ssa.FieldAddr); ok && typeStr(fa.X.Type()) == "*backend/s3proxy.S3Proxy" {
						if _, isAlloc := fa.X.(*ssa.Alloc); !isAlloc {
							n++
							r.Viol("R-C18-5", fnName(m)+"/store:"+fieldName(fa.X.Type(), fa.Field), p.Pos(x.Pos()), "the proxy keeps state in its own struct: results can differ from the proxied endpoint")
						}
					}
					if g, ok := x.Addr.(*ssa.Global); ok {
						n++
						r.Viol("R-C18-5", fnName(m)+"/global:"+g.Name(), p.Pos(x.Pos()), "the proxy keeps state in a package-level variable")
					}
				case ssa.CallInstruction:
					cn := calleeName(x)
					if strings.HasPrefix(cn, "(*sync.Map).") && (strings.HasSuffix(cn, "Store") || strings.HasSuffix(cn, "LoadOrStore") || strings.HasSuffix(cn, "Swap")) {
						n++
						r.Viol("R-C18-5", fnName(m)+"/"+cn, p.Pos(x.Pos()), "the proxy caches data in a sync.Map: a change made directly at (or through another gateway to) the proxied endpoint is not seen")
					}
				case *ssa.MapUpdate:
					// maps reachable from the receiver
					for _, rt := range Origins(x.Map, nil) {
						if rt.Kind == "field" && len(m.Params) > 0 {
							for _, tr := range terminalRoots(Origins(x.Map, nil)) {
								if tr.Kind == "param" && tr.Val == m.Params[0] {
									n++
									r.Viol("R-C18-5", fnName(m)+"/map:"+rt.Desc, p.Pos(x.Pos()), "the proxy caches data in a map held by the backend struct")
								}
							}
						}
					}
				}
			}
		}
	}
	r.Ok("R-C18-5", "s3proxy-state-scanned", "backend/s3proxy", itoa(n)+" state mutations found")

	c18Forwarding(p, r)
}

// frozen exclusions of R-C18-1: gateway-input field -> reason it is deliberately not forwarded
var c18Exclude = map[string]string{
	"ObjectLockLegalHoldStatus": "object lock is enforced by the gateway, not forwarded",
	"ObjectLockMode":            "object lock is enforced by the gateway, not forwarded",
	"ObjectLockRetainUntilDate": "object lock is enforced by the gateway, not forwarded",
}

func c18Forwarding(p *Program, r *Report) {
	n := 0
	for _, m := range p.Methods("backend/s3proxy", "S3Proxy") {
		if m.Object() == nil || !m.Object().Exported() || len(m.Params) < 3 {
			continue
		}
		// gateway input: a struct (value) parameter from s3response
		var in *ssa.Parameter
		var inT *types.Struct
		for _, prm := range m.Params[2:] {
			if st, ok := prm.Type().Underlying().(*types.Struct); ok && strings.HasPrefix(typeStr(prm.Type()), "s3response.") {
				in, inT = prm, st
			}
		}
		if in == nil {
			continue
		}
		// SDK input literals built in this method
		for _, b := range m.Blocks {
			for _, ins := range b.Instrs {
				al, ok := ins.(*ssa.Alloc)
				if !ok {
					continue
				}
				pt, ok := al.Type().Underlying().(*types.Pointer)
				if !ok {
					continue
				}
				st, ok := pt.Elem().Underlying().(*types.Struct)
				if !ok || !strings.Contains(typeStr(pt.Elem()), "aws-sdk-go-v2/service/s3.") || !strings.HasSuffix(typeStr(pt.Elem()), "Input") {
					continue
				}
				fs, _ := litFields(al)
				if len(fs) < 3 {
					continue
				}
				for i := 0; i < inT.NumFields(); i++ {
					fn := inT.Field(i).Name()
					has := false
					for j := 0; j < st.NumFields(); j++ {
						if st.Field(j).Name() == fn && st.Field(j).Exported() {
							has = true
						}
					}
					if !has || c18Exclude[fn] != "" {
						continue
					}
					n++
					ok := false
					for _, v := range fs[fn] {
						for _, rt := range Origins(v, &originOpts{extra: map[string][]int{"time.Parse": {1}}}) {
							if rt.Kind == "field" && rt.Desc == fn {
								ok = true
							}
						}
					}
					r.Check(ok, "R-C18-1", fnName(m)+"/"+typeStr(pt.Elem())[strings.LastIndex(typeStr(pt.Elem()), ".")+1:]+"."+fn, p.Pos(al.Pos()), "forwarded from input."+fn, "the proxy does not forward input."+fn+" to the proxied request: the result differs from talking to the endpoint directly")
				}
			}
		}
	}
	if n < 30 {
		broken("R-C18-1: only %d forwardable fields enumerated", n)
	}
	// required list fields never nil: TagSet of Tagging literals
	for _, name := range []string{"PutObjectTagging", "PutBucketAcl", "CreateBucket", "ChangeBucketOwner"} {
		f := p.Func("(*backend/s3proxy.S3Proxy)." + name)
		k := 0
		for _, b := range f.Blocks {
			for _, ins := range b.Instrs {
				st, ok := ins.(*ssa.Store)
				if !ok {
					continue
				}
				fa, ok := st.Addr.(*ssa.FieldAddr)
				if !ok || fieldName(fa.X.Type(), fa.Field) != "TagSet" {
					continue
				}
				k++
				nilPossible := mayBeNilSlice(st.Val, map[ssa.Value]bool{})
				if name == "PutObjectTagging" {
					r.Check(!nilPossible, "R-C18-1", fnName(f)+"/TagSet#"+itoa(k)+":non-nil", p.Pos(st.Pos()), "TagSet is always an allocated (possibly empty) list", "Tagging.TagSet can be nil for an empty tag map: the SDK refuses the request client-side, while the endpoint itself accepts an empty tag set and clears the tags")
				}
			}
		}
		if name == "PutObjectTagging" {
			// at the SDK call the TagSet field has been stored with a non-nil list on every path
			avoid := map[*ssa.BasicBlock]bool{}
			var first []ssa.Instruction
			for _, b := range f.Blocks {
				for _, ins := range b.Instrs {
					if st, ok := ins.(*ssa.Store); ok {
						if fa, ok := st.Addr.(*ssa.FieldAddr); ok && fieldName(fa.X.Type(), fa.Field) == "TagSet" && !mayBeNilSlice(st.Val, map[ssa.Value]bool{}) {
							avoid[b] = true
							first = append(first, st)
						}
					}
				}
			}
			for _, c := range callsIn(f) {
				if strings.HasSuffix(calleeName(c), "s3.Client).PutObjectTagging") {
					reach := reachableAvoiding(f, nil, nil, avoid)
					sameBlockOK := false
					for _, st := range first {
						if st.Block() == c.Block() && instrIndex(st) < instrIndex(c) {
							sameBlockOK = true
						}
					}
					r.Check(len(first) > 0 && (!reach[c.Block()] || sameBlockOK), "R-C18-1", fnName(f)+"/TagSet:set-on-every-path", p.Pos(c.Pos()), "TagSet initialised before the request on every path", "Tagging.TagSet stays nil when the tag map is empty: the SDK refuses the request client-side, while the endpoint itself accepts an empty tag set and clears the tags")
				}
			}
		}
	}
}

// mayBeNilSlice: can the slice value be nil? (literal / make / append of something non-nil are not)
func mayBeNilSlice(v ssa.Value, seen map[ssa.Value]bool) bool {
	if v == nil || seen[v] {
		return false
	}
	seen[v] = true
	switch x := v.(type) {
	case *ssa.Const:
		return x.Value == nil
	case *ssa.Slice, *ssa.MakeSlice:
		return false
	case *ssa.Phi:
		for _, e := range x.Edges {
			if mayBeNilSlice(e, seen) {
				return true
			}
		}
		return false
	case *ssa.Call:
		if b, ok := x.Call.Value.(*ssa.Builtin); ok && b.Name() == "append" {
			// append(s, elems...) with at least one element is non-nil; otherwise as s
			if len(x.Call.Args) > 1 {
				if sl, ok := x.Call.Args[1].(*ssa.Slice); ok {
					if _, isAlloc := sl.X.(*ssa.Alloc); isAlloc {
						return false
					}
				}
			}
			return mayBeNilSlice(x.Call.Args[0], seen)
		}
		return false
	case *ssa.UnOp:
		if fa, ok := x.X.(*ssa.FieldAddr); ok {
			// stores to the same field of the same base
			any := false
			nilp := false
			if fa.X.Referrers() != nil {
				for _, ref := range *fa.X.Referrers() {
					if fb, ok := ref.(*ssa.FieldAddr); ok && fb.Field == fa.Field {
						for _, st := range storesTo(fb) {
							any = true
							if mayBeNilSlice(st.Val, seen) {
								nilp = true
							}
						}
					}
				}
			}
			return nilp || !any
		}
		if al, ok := x.X.(*ssa.Alloc); ok {
			sts := storesTo(al)
			if len(sts) == 0 {
				return true // zero value
			}
			for _, st := range sts {
				if mayBeNilSlice(st.Val, seen) {
					return true
				}
			}
			return false
		}
		return false
	}
	return false
}

func controlsC18() []Control {
	return []Control{
		{Name: "s3proxy PutObject drops Metadata", Rule: "R-C18-1", File: "backend/s3proxy/s3.go",
			Old: "\t\tExpires:                   expire,\n\t\tMetadata:                  input.Metadata,\n", New: "\t\tExpires:                   expire,\n", Expect: "Metadata"},
		{Name: "s3proxy DeleteBucket returns the raw SDK error", Rule: "R-C18-2", File: "backend/s3proxy/s3.go",
			Old: "func (s *S3Proxy) DeleteBucket(ctx context.Context, bucket string) error {\n\t_, err := s.client.DeleteBucket(ctx, &s3.DeleteBucketInput{\n\t\tBucket: &bucket,\n\t})\n\treturn handleError(err)", New: "func (s *S3Proxy) DeleteBucket(ctx context.Context, bucket string) error {\n\t_, err := s.client.DeleteBucket(ctx, &s3.DeleteBucketInput{\n\t\tBucket: &bucket,\n\t})\n\treturn err", Expect: "DeleteBucket"},
		{Name: "revert fix c423892: GetBucketVersioning uses the result first", Rule: "R-C18-3", File: "backend/s3proxy/s3.go",
			Old: "\t\tBucket: &bucket,\n\t})\n\tif err != nil {\n\t\treturn s3response.GetBucketVersioningOutput{}, handleError(err)\n\t}\n", New: "\t\tBucket: &bucket,\n\t})\n", Expect: "GetBucketVersioning"},
		{Name: "s3proxy PutObjectTagging: nil TagSet for an empty tag map", Rule: "R-C18-1", File: "backend/s3proxy/s3.go",
			Old: "\ttagging := &types.Tagging{\n\t\tTagSet: []types.Tag{},\n\t}", New: "\ttagging := &types.Tagging{}", Expect: "TagSet"},
	}
}

// walkCallbacks: the function literals of outer that are handed to fs.WalkDir.
func walkCallbacks(outer *ssa.Function) []*ssa.Function {
	var out []*ssa.Function
	for _, c := range callsTo(outer, "io/fs.WalkDir") {
		for _, a := range callArgs(c) {
			v := a
			if ct, ok := v.(*ssa.ChangeType); ok {
				v = ct.X
			}
			if mc, ok := v.(*ssa.MakeClosure); ok {
				if g, ok := mc.Fn.(*ssa.Function); ok {
					out = append(out, g)
				}
			}
		}
	}
	return out
}

// isSkipdirsTest: contains(x, skipdirs) of the backend package or slices.Contains(skipdirs, x), with skipdirs the
// parameter (or captured variable) of that name.
func isSkipdirsTest(c *ssa.Call) bool {
	cn := calleeName(c)
	if cn != "backend.contains" && !strings.HasPrefix(cn, "slices.Contains") {
		return false
	}
	// slices.ContainsFunc(segments, func(dir) bool { return <skipdirs test>(dir) })
	if strings.HasPrefix(cn, "slices.ContainsFunc") && len(c.Call.Args) == 2 {
		for _, g := range funcValuesOf(c.Call.Args[1]) {
			for _, c2 := range callsIn(g) {
				if cc, ok := c2.(*ssa.Call); ok && isSkipdirsTest(cc) {
					return true
				}
			}
		}
	}
	for _, a := range c.Call.Args {
		for _, rt := range Origins(a, nil) {
			if (rt.Kind == "param" || rt.Kind == "freevar") && rt.Desc == "skipdirs" {
				return true
			}
		}
		if atomsOf(a)["param:skipdirs"] {
			return true
		}
	}
	return false
}

// multipartETagSuffix: the "-N" of a multipart ETag is the number of listed parts.
func multipartETagSuffix(p *Program, r *Report, rule string) {
	gm := p.Func("backend.GetMultipartMD5")
	// the returned string is built (fmt.Sprintf, strconv.Itoa + concatenation, ...) from len() of the parts parameter
	okLen := false
	lenOfParts := func(v ssa.Value) bool {
		for _, rt := range deepRoots(v) {
			if rt.Kind == "call" && rt.Desc == "builtin.len" && rt.Call != nil {
				for _, a := range callArgs(rt.Call) {
					for _, r2 := range terminalRoots(Origins(a, nil)) {
						if r2.Kind == "param" {
							return true
						}
					}
				}
			}
		}
		return false
	}
	for _, c := range callsTo(gm, "fmt.Sprintf") {
		for _, a := range callArgs(c)[1:] {
			if lenOfParts(a) {
				okLen = true
			}
		}
	}
	for _, c := range callsTo(gm, "strconv.Itoa", "strconv.FormatInt") {
		if lenOfParts(callArgs(c)[0]) {
			for _, ret := range returnsOf(gm) {
				for _, rt := range Origins(ret.Results[0], &originOpts{extra: map[string][]int{"strconv.Itoa": nil, "strconv.FormatInt": nil}}) {
					if (rt.Kind == "call" || rt.Kind == "via") && rt.Call == c {
						okLen = true
					}
				}
			}
		}
	}
	r.Check(okLen, rule, "backend.GetMultipartMD5/suffix<-len(parts)", p.Pos(gm.Pos()), "ETag suffix is the number of parts", "the multipart ETag suffix is not the number of listed parts")
	// every way the function returns: each returned string is built from the number of parts (a special case
	// for one part, or for none, that leaves the suffix out is not the S3 multipart ETag)
	for i, ret := range returnsOf(gm) {
		if len(ret.Results) == 0 {
			continue
		}
		for j, lf := range valueLeaves(ret.Results[0], ret.Block()) {
			has := false
			for _, rt := range Origins(lf.val, &originOpts{extra: map[string][]int{"strconv.Itoa": nil, "strconv.FormatInt": nil}}) {
				if (rt.Kind == "call" || rt.Kind == "via") && rt.Call != nil {
					switch rt.Desc {
					case "fmt.Sprintf":
						for _, a := range callArgs(rt.Call)[1:] {
							if lenOfParts(a) {
								has = true
							}
						}
					case "strconv.Itoa", "strconv.FormatInt":
						if lenOfParts(callArgs(rt.Call)[0]) {
							has = true
						}
					}
				}
			}
			r.Check(has, rule, "backend.GetMultipartMD5/return#"+itoa(i+1)+"."+itoa(j+1)+":suffix", p.Pos(ret.Pos()), "this result carries the number of parts", "one way GetMultipartMD5 returns does not put the number of parts into the ETag (a special case, e.g. for a single part): an object completed that way has no S3 multipart ETag")
		}
	}
}
