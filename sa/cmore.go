package main

import (
	"fmt"
	"go/token"
	"go/types"
	"math/big"
	"os"
	"sort"
	"strings"

	"golang.org/x/tools/go/ssa"
)

// Rules added after the third (unseen) batch of seeded changes. Each is a structural necessary
// condition that the first pass did not state; DESIGN.md §5.2 lists which change motivated which rule.

var extraControls = map[string][]Control{}

func controlsOf(id string) []Control {
	var out []Control
	if registry[id].controls != nil {
		out = append(out, registry[id].controls()...)
	}
	return append(out, extraControls[id]...)
}

func init() {
	extraRules["C01"] = append(extraRules["C01"], moreBufioAlias, moreETagProvenance)
	extraRules["C12"] = append(extraRules["C12"], moreBufioAlias)
	extraRules["C03"] = append(extraRules["C03"], moreCopySourceMustStore)
	extraRules["C13"] = append(extraRules["C13"], func(p *Program, r *Report) {
		moreRangeArith(p, r, "R-C13-5", "backend.ParseGetObjectRange", 2)
	})
	extraRules["C08"] = append(extraRules["C08"], func(p *Program, r *Report) {
		moreRangeArith(p, r, "R-C08-5", "backend.ParseCopySourceRange", -1)
	})
	extraRules["C02"] = append(extraRules["C02"], runTimeRules("C02", "R-C02-6"))
	extraRules["C10"] = append(extraRules["C10"], runTimeRules("C10", "R-C10-8"))
	extraRules["C17"] = append(extraRules["C17"], runTimeRules("C17", "R-C17-9"))
	extraRules["C13"] = append(extraRules["C13"], moreRangeConsumers)
	extraRules["C08"] = append(extraRules["C08"], moreCopyRangeConsumer)
	extraRules["C07"] = append(extraRules["C07"], moreWalkMarker, moreWalkAppends)
	extraRules["C12"] = append(extraRules["C12"], moreStashOnce)
	extraRules["C03"] = append(extraRules["C03"], moreWildcardOnlyForStar)
	extraRules["C14"] = append(extraRules["C14"], moreWildcardOnlyForStar)
	extraRules["C05"] = append(extraRules["C05"], moreHelperAttrWrites)
	extraRules["C11"] = append(extraRules["C11"], moreHelperAttrWrites, moreDeleteOrder, moreUploadIdsAreDirs)
	extraRules["C08"] = append(extraRules["C08"], moreUploadIdsAreDirs)
	extraRules["C06"] = append(extraRules["C06"], moreC06Chunk)
	extraRules["C09"] = append(extraRules["C09"], moreCopyEveryAttribute)
	extraRules["C10"] = append(extraRules["C10"], moreLockLoop, moreRetentionSameTarget)
	extraRules["C17"] = append(extraRules["C17"], moreStoreRollback)
	extraRules["C20"] = append(extraRules["C20"], moreStoreRollback, moreLoggerLocals)
	extraRules["C18"] = append(extraRules["C18"], moreProxyOutputs, moreProxyAclErrors)

	extraControls["C01"] = []Control{
		{Name: "PutObject: MD5 taken over the body before the checksum wrappers, copy reads another chain", Rule: "R-C01-5", File: "backend/posix/posix.go",
			Old: "\thash := md5.New()\n\trdr := io.TeeReader(po.Body, hash)\n\n\thashConfigs := []hashConfig{", New: "\thash := md5.New()\n\t_ = io.TeeReader(po.Body, hash)\n\trdr := po.Body\n\n\thashConfigs := []hashConfig{", Expect: "PutObject"},
		{Name: "UploadPart: ETag from a SHA-256 of the part", Rule: "R-C01-5", File: "backend/posix/posix.go",
			Old: "\thash := md5.New()\n\ttr := io.TeeReader(r, hash)", New: "\thash := sha256.New()\n\ttr := io.TeeReader(r, hash)", Expect: "UploadPart"},
		{Name: "UploadPartCopy: digest finalised before the copy", Rule: "R-C01-5", File: "backend/posix/posix.go",
			Old: "\thash := md5.New()\n\ttr := io.TeeReader(rdr, hash)\n", New: "\thash := md5.New()\n\ttr := io.TeeReader(rdr, hash)\n\tearlySum := hash.Sum(nil)\n",
			More: []Edit{{"backend/posix/posix.go", "\tdataSum := hash.Sum(nil)\n\tetag := hex.EncodeToString(dataSum)\n\terr = p.meta.StoreAttribute(f.File(), *upi.Bucket, partPath, etagkey, []byte(etag))", "\tetag := hex.EncodeToString(earlySum)\n\terr = p.meta.StoreAttribute(f.File(), *upi.Bucket, partPath, etagkey, []byte(etag))"}}, Expect: "UploadPartCopy"},
	}
	extraControls["C02"] = []Control{
		{Name: "presigned expiry comparison reversed", Rule: "R-C02-6", File: "s3api/utils/presign-auth-reader.go",
			Old: "\tif passed > exp {", New: "\tif passed < exp {", Expect: "direction"},
		{Name: "request date window checked on one side only", Rule: "R-C02-6", File: "s3api/utils/utils.go",
			Old: "\tif diff > timeExpirationSec || diff < -timeExpirationSec {", New: "\tif diff < -timeExpirationSec {", Expect: "both-sides"},
		{Name: "presigned expiry computed as date minus now", Rule: "R-C02-6", File: "s3api/utils/presign-auth-reader.go",
			Old: "\tpassed := int(now.Sub(date).Seconds())", New: "\tpassed := int(date.Sub(now).Seconds())", Expect: "direction"},
	}
	extraControls["C12"] = []Control{
		{Name: "unsigned reader returns early on a full buffer, stash left in place", Rule: "R-C12-7", File: "s3api/utils/unsigned-chunk-reader.go",
			Old: "\t\t\tucr.offset = 0\n\t\t\treturn dataRead, nil\n\t\t}\n\t}\n",
			New: "\t\t\tucr.offset = 0\n\t\t\treturn dataRead, nil\n\t\t}\n\t\tif ucr.offset == len(p) {\n\t\t\tucr.offset = 0\n\t\t\treturn len(p), nil\n\t\t}\n\t}\n", Expect: "stash"},
		{Name: "unsigned reader serves small chunks from bufio's own buffer", Rule: "R-C12-6", File: "s3api/utils/unsigned-chunk-reader.go",
			Old: "\t\tvar buf bytes.Buffer\n\t\t_, err = io.CopyN(&buf, rdr, chunkSize)\n\t\tif err != nil {\n\t\t\tif err == io.EOF {\n\t\t\t\t// the stream ended inside the chunk\n\t\t\t\treturn 0, io.ErrUnexpectedEOF\n\t\t\t}\n\t\t\treturn 0, err\n\t\t}\n\t\tpayload := buf.Bytes()\n",
			New: "\t\t_ = rdr\n\t\tpayload, err := ucr.reader.Peek(int(chunkSize))\n\t\tif err != nil {\n\t\t\treturn 0, io.ErrUnexpectedEOF\n\t\t}\n\t\tucr.hasher.Write(payload)\n\t\tucr.reader.Discard(int(chunkSize))\n", Expect: "Peek"},
	}
	extraControls["C13"] = []Control{
		{Name: "revert fix 8b5c3e3: directory object range parsed against the inode size", Rule: "R-C13-6", File: "backend/posix/posix.go",
			Old: "\tobjSize := fi.Size()\n\tif fi.IsDir() {\n\t\t// directory objects are always 0 len\n\t\tobjSize = 0\n\t}\n\n\tstartOffset, length, isValid, err := backend.ParseGetObjectRange(objSize, *input.Range)\n\tif err != nil {\n\t\treturn nil, err\n\t}\n",
			New: "\tobjSize := fi.Size()\n\tstartOffset, length, isValid, err := backend.ParseGetObjectRange(objSize, *input.Range)\n\tif err != nil {\n\t\treturn nil, err\n\t}\n\n\tif fi.IsDir() {\n\t\t// directory objects are always 0 len\n\t\tobjSize = 0\n\t\tlength = 0\n\t}\n", Expect: "first<=last"},
		{Name: "Content-Range last position off by one", Rule: "R-C13-6", File: "backend/posix/posix.go",
			Old: "\t\t\tstartOffset, startOffset+length-1, objSize)", New: "\t\t\tstartOffset, startOffset+length, objSize)", Expect: "last<total"},
		{Name: "GetObject body window one byte longer than Content-Length", Rule: "R-C13-6", File: "backend/posix/posix.go",
			Old: "\t\trdr := io.NewSectionReader(f, startOffset, length)", New: "\t\trdr := io.NewSectionReader(f, startOffset, length+1)", Expect: "n==length"},
		{Name: "range end clipped with > instead of >=", Rule: "R-C13-5", File: "backend/common.go",
			Old: "\tif endOffset >= size {\n\t\treturn startOffset, size - startOffset, true, nil\n\t}\n", New: "\tif endOffset > size {\n\t\tendOffset = size - 1\n\t}\n", Expect: "within-object"},
		{Name: "range length computed before clipping (wraps at MaxInt64)", Rule: "R-C13-5", File: "backend/common.go",
			Old: "\tif endOffset >= size {\n\t\treturn startOffset, size - startOffset, true, nil\n\t}\n\n\treturn startOffset, endOffset - startOffset + 1, true, nil", New: "\tlength := endOffset - startOffset + 1\n\tif remaining := size - startOffset; length > remaining {\n\t\tlength = remaining\n\t}\n\treturn startOffset, length, true, nil", Expect: "no-wraparound"},
		{Name: "start beyond the object accepted", Rule: "R-C13-5", File: "backend/common.go",
			Old: "\tif startOffset >= size {\n\t\treturn 0, 0, false, errInvalidRange\n\t}", New: "\tif startOffset > size {\n\t\treturn 0, 0, false, errInvalidRange\n\t}", Expect: "non-empty"},
	}
	extraControls["C08"] = []Control{
		{Name: "UploadPartCopy reads from offset start+1", Rule: "R-C08-6", File: "backend/posix/posix.go",
			Old: "\trdr := io.NewSectionReader(srcf, startOffset, length)", New: "\trdr := io.NewSectionReader(srcf, startOffset+1, length)", Expect: "offset==start"},
		{Name: "UploadPartCopy preallocates one byte more than it copies", Rule: "R-C08-6", File: "backend/posix/posix.go",
			Old: "\t\t*upi.Bucket, partPath, length, acct, doFalloc, p.forceNoTmpFile)", New: "\t\t*upi.Bucket, partPath, length+1, acct, doFalloc, p.forceNoTmpFile)", Expect: "size==length"},
		{Name: "revert fix d976847: open-ended copy range one byte too long", Rule: "R-C08-5", File: "backend/common.go",
			Old: "\tif bRange[1] == \"\" {\n\t\treturn startOffset, size - startOffset, nil\n\t}", New: "\tif bRange[1] == \"\" {\n\t\treturn startOffset, size - startOffset + 1, nil\n\t}", Expect: "within-object"},
	}
	extraControls["C07"] = []Control{
		{Name: "revert fix b73572c: walk root not compared with skipdirs", Rule: "R-C07-5", File: "backend/walk.go",
			Old: "\tfor _, dir := range strings.Split(root, \"/\") {\n\t\tif contains(dir, skipdirs) {\n\t\t\treturn WalkResults{}, nil\n\t\t}\n\t}\n", New: "", Expect: "root"},
		{Name: "revert fix 719a683: directory objects ignore the marker", Rule: "R-C07-6", File: "backend/walk.go",
			Old: "\t\t\t\t\tif !pastMarker {\n\t\t\t\t\t\tif path+\"/\" == marker {\n\t\t\t\t\t\t\tpastMarker = true\n\t\t\t\t\t\t\treturn skipflag\n\t\t\t\t\t\t}\n\t\t\t\t\t\tif path+\"/\" < marker {\n\t\t\t\t\t\t\treturn skipflag\n\t\t\t\t\t\t}\n\t\t\t\t\t}\n", New: "", Expect: "after-marker"},
		{Name: "revert fix 719a683: directory versions ignore the prefix", Rule: "R-C07-6", File: "backend/walk.go",
			Old: "\t\t\tif prefix != \"\" && !strings.HasPrefix(path+\"/\", prefix) {\n\t\t\t\treturn nil\n\t\t\t}\n\n\t\t\tres, err := getObj(", New: "\t\t\tres, err := getObj(", Expect: "has-prefix"},
		{Name: "Walk: stop comparing once the marker has been passed", Rule: "R-C07-3", File: "backend/walk.go",
			Old: "\t\tif !pastMarker {\n\t\t\tif path == marker {\n\t\t\t\tpastMarker = true\n\t\t\t\treturn skipflag\n\t\t\t}\n\t\t\tif path < marker {\n\t\t\t\treturn skipflag\n\t\t\t}\n\t\t}",
			New: "\t\tif !pastMarker {\n\t\t\tif path < marker {\n\t\t\t\treturn skipflag\n\t\t\t}\n\t\t\tpastMarker = true\n\t\t\tif path == marker {\n\t\t\t\treturn skipflag\n\t\t\t}\n\t\t}", Expect: "pastMarker"},
		{Name: "Walk: directories before the marker pruned by name", Rule: "R-C07-4", File: "backend/walk.go",
			Old: "\t\t\t// Don't recurse into subdirectories which contain the delimiter\n\t\t\t// after reaching the prefix\n\t\t\tif delimiter != \"\" &&\n\t\t\t\tstrings.HasPrefix(path+\"/\", prefix) &&\n\t\t\t\tstrings.Contains(strings.TrimPrefix(path+\"/\", prefix), delimiter) {\n\t\t\t\tskipflag = fs.SkipDir",
			New: "\t\t\tif !pastMarker && path < marker && !strings.HasPrefix(marker, path+\"/\") {\n\t\t\t\treturn fs.SkipDir\n\t\t\t}\n\t\t\t// Don't recurse into subdirectories which contain the delimiter\n\t\t\t// after reaching the prefix\n\t\t\tif delimiter != \"\" &&\n\t\t\t\tstrings.HasPrefix(path+\"/\", prefix) &&\n\t\t\t\tstrings.Contains(strings.TrimPrefix(path+\"/\", prefix), delimiter) {\n\t\t\t\tskipflag = fs.SkipDir", Expect: "directory"},
	}
	extraControls["C03"] = []Control{
		{Name: "copy source options overridden only for cross-bucket copies", Rule: "R-C03-4", File: "auth/acl.go",
			Old: "\tif err := VerifyAccess(ctx, be, AccessOptions{\n\t\tAcl:           srcBucketAcl,\n\t\tAclPermission: PermissionRead,\n\t\tIsRoot:        opts.IsRoot,\n\t\tAcc:           opts.Acc,\n\t\tBucket:        srcBucket,\n\t\tObject:        srcObject,\n\t\tAction:        GetObjectAction,\n\t}); err != nil {\n\t\treturn err\n\t}\n",
			New: "\tsrcOpts := opts\n\tsrcOpts.AclPermission = PermissionRead\n\tsrcOpts.Action = GetObjectAction\n\tsrcOpts.Acl = srcBucketAcl\n\tif srcBucket != opts.Bucket {\n\t\tsrcOpts.Bucket = srcBucket\n\t\tsrcOpts.Object = srcObject\n\t}\n\tif err := VerifyAccess(ctx, be, srcOpts); err != nil {\n\t\treturn err\n\t}\n", Expect: "source"},
	}
	extraControls["C14"] = []Control{
		{Name: "every action treated as a prefix pattern", Rule: "R-C14-4", File: "auth/bucket_policy_actions.go",
			Old: "\tif strings.HasSuffix(string(a), \"*\") {\n\t\tpattern := strings.TrimSuffix(string(a), \"*\")\n\t\treturn strings.HasPrefix(string(act), pattern)\n\t}\n\treturn false", New: "\tpattern := strings.TrimSuffix(string(a), \"*\")\n\treturn strings.HasPrefix(string(act), pattern)",
			More: []Edit{{"auth/bucket_policy_actions.go", "\t\tif strings.HasSuffix(string(act), \"*\") && act.WildCardMatch(action) {", "\t\tif act.WildCardMatch(action) {"}}, Expect: "WildCardMatch"},
	}
	extraControls["C05"] = []Control{
		{Name: "PutObject: content headers stored by path after link", Rule: "R-C05-3", File: "backend/posix/posix.go",
			Old: "\terr = p.storeObjectMetadata(f.File(), *po.Bucket, *po.Key, objectMetadata{\n\t\tContentType:        po.ContentType,\n\t\tContentEncoding:    po.ContentEncoding,\n\t\tContentLanguage:    po.ContentLanguage,\n\t\tContentDisposition: po.ContentDisposition,\n\t\tCacheControl:       po.CacheControl,\n\t\tExpires:            po.Expires,\n\t})\n\tif err != nil {\n\t\treturn s3response.PutObjectOutput{}, err\n\t}\n", New: "",
			More: []Edit{{"backend/posix/posix.go", "\t// Set object tagging\n\tif tags != nil {", "\terr = p.storeObjectMetadata(nil, *po.Bucket, *po.Key, objectMetadata{\n\t\tContentType:        po.ContentType,\n\t\tContentEncoding:    po.ContentEncoding,\n\t\tContentLanguage:    po.ContentLanguage,\n\t\tContentDisposition: po.ContentDisposition,\n\t\tCacheControl:       po.CacheControl,\n\t\tExpires:            po.Expires,\n\t})\n\tif err != nil {\n\t\treturn s3response.PutObjectOutput{}, err\n\t}\n\t// Set object tagging\n\tif tags != nil {"}}, Expect: "storeObjectMetadata"},
	}
	extraControls["C11"] = []Control{
		{Name: "DeleteObject removes the metadata before the data", Rule: "R-C11-5", File: "backend/posix/posix.go",
			Old: "\terr = os.Remove(objpath)\n\tif errors.Is(err, fs.ErrNotExist) {\n\t\treturn nil, s3err.GetAPIError(s3err.ErrNoSuchKey)\n\t}\n\tif errors.Is(err, syscall.ENOTEMPTY) {", New: "\tif !isDir {\n\t\tif err := p.meta.DeleteAttributes(bucket, object); err != nil {\n\t\t\treturn nil, fmt.Errorf(\"delete object attributes: %w\", err)\n\t\t}\n\t}\n\terr = os.Remove(objpath)\n\tif errors.Is(err, fs.ErrNotExist) {\n\t\treturn nil, s3err.GetAPIError(s3err.ErrNoSuchKey)\n\t}\n\tif errors.Is(err, syscall.ENOTEMPTY) {", Expect: "DeleteAttributes"},
		{Name: "ListMultipartUploads lists non-directory entries", Rule: "R-C11-6", File: "backend/posix/posix.go",
			Old: "\t\tfor _, upid := range upids {\n\t\t\tif !upid.IsDir() {\n\t\t\t\tcontinue\n\t\t\t}\n", New: "\t\tfor _, upid := range upids {\n", Expect: "ListMultipartUploads"},
	}
	extraControls["C09"] = []Control{
		{Name: "createObjVersion skips empty attributes", Rule: "R-C09-4", File: "backend/posix/posix.go",
			Old: "\t\terr = p.meta.StoreAttribute(f.File(), versionPath, \"\", attr, data)\n\t\tif err != nil {\n\t\t\treturn versionPath, fmt.Errorf(\"store %v attribute: %w\", attr, err)", New: "\t\tif len(data) == 0 {\n\t\t\tcontinue\n\t\t}\n\t\terr = p.meta.StoreAttribute(f.File(), versionPath, \"\", attr, data)\n\t\tif err != nil {\n\t\t\treturn versionPath, fmt.Errorf(\"store %v attribute: %w\", attr, err)", Expect: "createObjVersion"},
	}
	extraControls["C10"] = []Control{
		{Name: "CheckObjectAccess: retention applies once the date has passed", Rule: "R-C10-8", File: "auth/object_lock.go",
			Old: "\t\t\t\tif retention.RetainUntilDate.After(time.Now()) {", New: "\t\t\t\tif retention.RetainUntilDate.Before(time.Now()) {", Expect: "direction"},
		{Name: "retain-until date accepted only in the past", Rule: "R-C10-8", File: "auth/object_lock.go",
			Old: "\tif retention.RetainUntilDate.Before(time.Now()) {\n\t\treturn nil, s3err.GetAPIError(s3err.ErrPastObjectLockRetainDate)", New: "\tif retention.RetainUntilDate.After(time.Now()) {\n\t\treturn nil, s3err.GetAPIError(s3err.ErrPastObjectLockRetainDate)", Expect: "direction"},
		{Name: "CheckObjectAccess stops at the first missing key", Rule: "R-C10-6", File: "auth/object_lock.go",
			Old: "\t\tretentionData, err := be.GetObjectRetention(ctx, bucket, key, versionId)\n\t\tif errors.Is(err, s3err.GetAPIError(s3err.ErrNoSuchKey)) {\n\t\t\tcontinue\n\t\t}", New: "\t\tretentionData, err := be.GetObjectRetention(ctx, bucket, key, versionId)\n\t\tif errors.Is(err, s3err.GetAPIError(s3err.ErrNoSuchKey)) {\n\t\t\treturn nil\n\t\t}", Expect: "nil-inside-loop"},
		{Name: "PutObjectRetention reads the current version, writes the addressed one", Rule: "R-C10-7", File: "backend/posix/posix.go",
			Old: "\tobjectLockCfg, err := p.meta.RetrieveAttribute(nil, bucket, object, objectRetentionKey)\n\tif errors.Is(err, fs.ErrNotExist) || errors.Is(err, syscall.ENOTDIR) {\n\t\tif versionId != \"\" {\n\t\t\treturn s3err.GetAPIError(s3err.ErrInvalidVersionId)\n\t\t}\n\t\treturn s3err.GetAPIError(s3err.ErrNoSuchKey)\n\t}\n\tif errors.Is(err, meta.ErrNoSuchKey) {\n\t\terr := p.meta.StoreAttribute(nil, bucket, object, objectRetentionKey, retention)", New: "\tobjectLockCfg, err := p.meta.RetrieveAttribute(nil, origBucket, origObject, objectRetentionKey)\n\tif errors.Is(err, fs.ErrNotExist) || errors.Is(err, syscall.ENOTDIR) {\n\t\tif versionId != \"\" {\n\t\t\treturn s3err.GetAPIError(s3err.ErrInvalidVersionId)\n\t\t}\n\t\treturn s3err.GetAPIError(s3err.ErrNoSuchKey)\n\t}\n\tif errors.Is(err, meta.ErrNoSuchKey) {\n\t\terr := p.meta.StoreAttribute(nil, bucket, object, objectRetentionKey, retention)",
			More: []Edit{{"backend/posix/posix.go", "func (p *Posix) PutObjectRetention(_ context.Context, bucket, object, versionId string, bypass bool, retention []byte) error {\n", "func (p *Posix) PutObjectRetention(_ context.Context, bucket, object, versionId string, bypass bool, retention []byte) error {\n\torigBucket, origObject := bucket, object\n"}}, Expect: "same-target"},
	}
	extraControls["C17"] = []Control{
		{Name: "cache entries served only after they expired", Rule: "R-C17-9", File: "auth/iam_cache.go",
			Old: "\tif !ok || !v.exp.After(time.Now()) {", New: "\tif !ok || !v.exp.Before(time.Now()) {", Expect: "direction"},
		{Name: "cache entries never expire", Rule: "R-C17-9", File: "auth/iam_cache.go",
			Old: "\tif !ok || !v.exp.After(time.Now()) {", New: "\tif !ok {", Expect: "clock"},
		{Name: "storeIAM: rollback dropped on the refused-update path", Rule: "R-C17-8", File: "auth/iam_internal.go",
			Old: "\t\t\t// update failed, try to write old data back out\n\t\t\tos.WriteFile(fname, datacopy, iamMode)\n\t\t\treturn fmt.Errorf(\"update iam data: %w\", err)", New: "\t\t\treturn fmt.Errorf(\"update iam data: %w\", err)", Expect: "restores"},
		{Name: "storeIAM: rollback writes the (nil) update result", Rule: "R-C17-8", File: "auth/iam_internal.go",
			Old: "\t\t\t// update failed, try to write old data back out\n\t\t\tos.WriteFile(fname, datacopy, iamMode)\n\t\t\treturn fmt.Errorf(\"update iam data: %w\", err)", New: "\t\t\t// update failed, try to write old data back out\n\t\t\tos.WriteFile(fname, b, iamMode)\n\t\t\treturn fmt.Errorf(\"update iam data: %w\", err)", Expect: "restores"},
	}
	extraControls["C20"] = []Control{
		{Name: "revert fix: audit logger asserts Locals(startTime)", Rule: "R-C20-7", File: "s3log/file.go",
			Old: "\tstartTime, ok := ctx.Locals(\"startTime\").(time.Time)\n\tif !ok {\n\t\tstartTime = time.Now()\n\t}\n", New: "\tstartTime := ctx.Locals(\"startTime\").(time.Time)\n", Expect: "startTime"},
	}
	extraControls["C18"] = []Control{
		{Name: "s3proxy ListParts: next marker parsed from the request marker", Rule: "R-C18-6", File: "backend/s3proxy/s3.go",
			Old: "\tnpmn, err := strconv.Atoi(*output.NextPartNumberMarker)", New: "\tnpmn, err := strconv.Atoi(*output.PartNumberMarker)", Expect: "NextPartNumberMarker"},
		{Name: "s3proxy GetBucketAcl swallows by HTTP status", Rule: "R-C18-7", File: "backend/s3proxy/s3.go",
			Old: "\t\t\tif strings.Contains(ae.ErrorCode(), \"NoSuchTagSet\") {\n\t\t\t\treturn []byte{}, nil\n\t\t\t}\n\t\t\tif strings.Contains(ae.ErrorCode(), \"NotImplemented\") {\n\t\t\t\treturn []byte{}, nil\n\t\t\t}", New: "\t\t\tif len(ae.ErrorMessage()) > 0 {\n\t\t\t\treturn []byte{}, nil\n\t\t\t}", More: []Edit{{"backend/s3proxy/s3.go", "\t\"strings\"\n", "\t_ \"strings\"\n"}}, Expect: "GetBucketAcl"},
	}
	extraControls["C06"] = []Control{
		{Name: "signed reader: clean EOF on a chunk boundary", Rule: "R-C06-6", File: "s3api/utils/signed-chunk-reader.go",
			Old: "\tif err == io.EOF {\n\t\t// the stream ended before the final (zero sized) chunk\n\t\treturn n, io.ErrUnexpectedEOF\n\t}", New: "\tif err == io.EOF && cr.chunkDataLeft > 0 {\n\t\t// the stream ended before the final (zero sized) chunk\n\t\treturn n, io.ErrUnexpectedEOF\n\t}", Expect: "inner-eof-passed"},
	}
}

// ---- R-C12-6 / R-C01: slices handed out by bufio are not kept across the next read ----------

func moreBufioAlias(p *Program, r *Report) {
	rule := "R-C12-6"
	r.Rule(rule, "reader buffers are not aliased across reads: a slice returned by (*bufio.Reader).Peek / ReadSlice / ReadLine is not used after another read on the same bufio.Reader (its contents are only valid until the next read)", 0)
	n := 0
	for _, f := range p.FuncsIn(utilsPkg) {
		for _, c := range callsIn(f) {
			cn := calleeName(c)
			if cn != "(*bufio.Reader).Peek" && cn != "(*bufio.Reader).ReadSlice" && cn != "(*bufio.Reader).ReadLine" {
				continue
			}
			n++
			rv := callRecv(c)
			// values derived from the returned slice
			derived := map[ssa.Value]bool{}
			for _, v := range resultValues(c, 0) {
				derived[v] = true
			}
			for changed := true; changed; {
				changed = false
				for v := range derived {
					if v.Referrers() == nil {
						continue
					}
					for _, ref := range *v.Referrers() {
						switch x := ref.(type) {
						case *ssa.Slice:
							if !derived[x] {
								derived[x] = true
								changed = true
							}
						case *ssa.Phi:
							if !derived[x] {
								derived[x] = true
								changed = true
							}
						}
					}
				}
			}
			// later reads on the same reader
			var reads []ssa.CallInstruction
			for _, c2 := range callsIn(f) {
				if c2 == c {
					continue
				}
				n2 := calleeName(c2)
				onSame := false
				if rv2 := callRecv(c2); rv2 != nil && strings.HasPrefix(n2, "(*bufio.Reader).") && n2 != "(*bufio.Reader).Buffered" && n2 != "(*bufio.Reader).Discard" && n2 != "(*bufio.Reader).Size" {
					onSame = descOf(rv2) == descOf(rv)
				}
				// helper methods of the same reader type that read from it
				if strings.HasPrefix(n2, "(*"+utilsPkg+".") && (strings.Contains(n2, "readAndSkip") || strings.Contains(n2, "readTrailer") || strings.Contains(n2, "extractChunkSize")) {
					onSame = true
				}
				if n2 == "io.ReadFull" || n2 == "io.CopyN" || n2 == "io.Copy" {
					for _, a := range callArgs(c2) {
						if descOf(a) == descOf(rv) {
							onSame = true
						}
					}
				}
				if onSame && mayPrecede(c, c2) {
					reads = append(reads, c2)
				}
			}
			bad := ""
			for v := range derived {
				if v.Referrers() == nil {
					continue
				}
				for _, ref := range *v.Referrers() {
					if _, isSl := ref.(*ssa.Slice); isSl {
						continue
					}
					for _, rd := range reads {
						if ref != ssa.Instruction(rd) && mayPrecede(rd, ref) {
							bad = p.Pos(ref.Pos())
						}
					}
				}
			}
			r.Check(bad == "", rule, fnName(f)+"/"+cn[len("(*bufio.Reader)."):]+"#"+itoa(n), p.Pos(c.Pos()), "result consumed before the next read", "a slice returned by "+cn+" is still used (at "+bad+") after another read on the same bufio.Reader refilled its buffer: the bytes delivered are not the bytes of that chunk, while the checksum (taken earlier) still verifies")
		}
	}
	r.Ok(rule, "bufio-slices-scanned", utilsPkg, itoa(n)+" Peek/ReadSlice/ReadLine call sites")
}

// ---- R-C03-4: source decision fields are set on every path --------------------------------------

func moreCopySourceMustStore(p *Program, r *Report) {
	f := p.Func(fnVerifyCopyAccess)
	optsParam := f.Params[len(f.Params)-1]
	for _, c := range callsTo(f, fnVerifyAccess) {
		args := callArgs(c)
		opt := args[len(args)-1]
		fs, al := litFields(opt)
		if al == nil || len(fs) == 0 {
			continue
		}
		// inherits from opts as a whole?
		inherits := false
		for _, st := range storesTo(al) {
			for _, rt := range terminalRoots(Origins(st.Val, nil)) {
				if rt.Kind == "param" && rt.Val == optsParam {
					inherits = true
				}
			}
		}
		if !inherits {
			continue // a plain literal: every field is stored in the literal itself
		}
		for _, fld := range []string{"Bucket", "Object", "Action", "AclPermission", "Acl"} {
			avoid := map[*ssa.BasicBlock]bool{}
			same := false
			for _, ref := range *al.Referrers() {
				fa, ok := ref.(*ssa.FieldAddr)
				if !ok || fieldName(fa.X.Type(), fa.Field) != fld {
					continue
				}
				for _, st := range storesTo(fa) {
					if st.Block() == c.Block() && instrIndex(st) < instrIndex(c) {
						same = true
					}
					avoid[st.Block()] = true
				}
			}
			ok := same || (len(avoid) > 0 && !reachableAvoiding(f, nil, nil, avoid)[c.Block()])
			r.Check(ok, "R-C03-4", fnName(f)+"/source."+fld+":set-on-every-path", p.Pos(c.Pos()), "overridden on every path", "the source-side decision inherits the destination's "+fld+" on some path (the override is conditional): for those requests the s3:GetObject decision is taken on the destination instead of the copy source")
		}
	}
}

// ---- R-C14-4: prefix matching only for patterns that end in '*' ----------------------------------

func moreWildcardOnlyForStar(p *Program, r *Report) {
	rule := "R-C14-4"
	r.Rule(rule, "actions match by exact name, s3:* or a trailing-* prefix: prefix comparison of action names (strings.HasPrefix) is reachable only for patterns that end in '*' (tested in the function itself or at every call site)", 1)
	starEdges := func(f *ssa.Function) []edge {
		var out []edge
		for _, ce := range condEdgesOf(f) {
			if (ce.atoms["call:strings.HasSuffix"] && ce.atoms["arg:*"]) || (ce.atoms["call:strings.CutSuffix"] && ce.atoms["arg:*"] && ce.atoms["extract:1"]) || (ce.isEqNeq && ce.atoms["const:42"]) { // '*' == 42
				out = append(out, ce.holds)
			}
		}
		return out
	}
	check := func(name string) {
		f := p.Func(name)
		for i, c := range callsTo(f, "strings.HasPrefix") {
			if _, isConst := constString(callArgs(c)[1]); isConst {
				continue // the fixed "s3:" namespace test
			}
			se := starEdges(f)
			ok := len(se) > 0 && !reachable(f, nil, se)[c.Block()]
			if !ok {
				// guarded at every call site instead?
				sites := 0
				all := true
				for _, g := range p.FuncsIn("auth") {
					for _, cc := range callsTo(g, name) {
						sites++
						ge := starEdges(g)
						if len(ge) == 0 || reachable(g, nil, ge)[cc.Block()] {
							all = false
						}
					}
				}
				ok = sites > 0 && all
			}
			r.Check(ok, rule, name+"/HasPrefix#"+itoa(i+1), p.Pos(c.Pos()), "prefix match only behind a trailing-* test", "an action name is matched as a prefix without the pattern having been tested to end in '*': a statement naming s3:GetObject also grants s3:GetObjectTagging, s3:GetObjectAcl, ...")
		}
	}
	check("(auth.Action).WildCardMatch")
	check("(auth.Action).IsValid")
	check("(auth.Action).IsObjectAction")
}

// ---- R-C05-1/3 through helpers that forward a *os.File to StoreAttribute ---------------------------

// fileForwarders: posix functions with a *os.File parameter that reaches StoreAttribute's file argument.
// fileForwarders: the functions of the posix backend that hand a *os.File of their caller to StoreAttribute: a
// parameter, or a *os.File field of a struct parameter/receiver (a handle bundling file, bucket and key).
type fileForward struct {
	arg   int    // index into Common().Args (receiver included)
	field string // "" = the argument itself
}

func fileForwarders(p *Program) map[string]fileForward {
	out := map[string]fileForward{}
	for _, f := range p.FuncsIn("backend/posix") {
		if f.Parent() != nil {
			continue
		}
		for _, mc := range metaCallsIn(f) {
			if mc.method != "StoreAttribute" {
				continue
			}
			for _, rt := range Origins(mc.call.Common().Args[0], nil) {
				switch rt.Kind {
				case "param":
					for i, prm := range f.Params {
						if rt.Val == ssa.Value(prm) && typeStr(prm.Type()) == "*os.File" {
							out[fnName(f)] = fileForward{i, ""}
						}
					}
				case "field":
					// a *os.File field read from a struct parameter
					var base ssa.Value
					switch x := rt.Val.(type) {
					case *ssa.Field:
						base = x.X
					case *ssa.UnOp:
						if fa, ok := x.X.(*ssa.FieldAddr); ok {
							base = fa.X
						}
					case *ssa.FieldAddr:
						base = x.X
					}
					if base == nil || typeStr(rt.Val.Type()) != "*os.File" && !strings.HasSuffix(typeStr(rt.Val.Type()), "os.File") {
						continue
					}
					// the struct is the parameter itself (possibly spilled to a local cell), not something derived from it
					var direct func(v ssa.Value, d int) ssa.Value
					direct = func(v ssa.Value, d int) ssa.Value {
						if d > 3 {
							return nil
						}
						switch x := v.(type) {
						case *ssa.Parameter:
							return x
						case *ssa.UnOp:
							if x.Op == token.MUL {
								return direct(x.X, d+1)
							}
						case *ssa.Alloc:
							sts := storesTo(x)
							if len(sts) == 1 {
								return direct(sts[0].Val, d+1)
							}
						}
						return nil
					}
					if bp := direct(base, 0); bp != nil {
						for i, prm := range f.Params {
							if bp == ssa.Value(prm) {
								if _, isStruct := derefType(prm.Type()).Underlying().(*types.Struct); isStruct {
									out[fnName(f)] = fileForward{i, rt.Desc}
								}
							}
						}
					}
				}
			}
		}
	}
	return out
}

// structFieldAtCall: the values a field of a struct argument holds: from the literal it was built with, or from
// the literal a constructor it was obtained from returns (parameters of the constructor mapped to its arguments).
func structFieldAtCall(v ssa.Value, field string, depth int) []ssa.Value {
	if fs, _ := litFields(v); len(fs[field]) > 0 {
		return fs[field]
	}
	if depth > 2 {
		return nil
	}
	var c *ssa.Call
	switch x := v.(type) {
	case *ssa.Call:
		c = x
	case *ssa.UnOp:
		if al, ok := x.X.(*ssa.Alloc); ok {
			var out []ssa.Value
			for _, st := range storesTo(al) {
				out = append(out, structFieldAtCall(st.Val, field, depth+1)...)
			}
			return out
		}
	}
	if c == nil {
		return nil
	}
	g := c.Call.StaticCallee()
	if g == nil || len(g.Blocks) == 0 {
		return nil
	}
	var out []ssa.Value
	for _, ret := range returnsOf(g) {
		if len(ret.Results) == 0 {
			continue
		}
		for _, fv := range structFieldAtCall(ret.Results[0], field, depth+1) {
			mapped := false
			for i, prm := range g.Params {
				if fv == ssa.Value(prm) && i < len(c.Call.Args) {
					out = append(out, c.Call.Args[i])
					mapped = true
				}
			}
			if !mapped {
				out = append(out, fv)
			}
		}
	}
	return out
}

func moreHelperAttrWrites(p *Program, r *Report) {
	fw := fileForwarders(p)
	if len(fw) < 2 {
		broken("R-C05-1/3: expected storeObjectMetadata and storeChecksums to forward a *os.File to StoreAttribute, found %d forwarders", len(fw))
	}
	for _, pb := range publishers(p) {
		f := pb.f
		for _, c := range callsIn(f) {
			fwd, ok := fw[calleeName(c)]
			if !ok {
				continue
			}
			if _, isCall := c.(*ssa.Call); !isCall {
				continue
			}
			if fwd.arg >= len(c.Common().Args) {
				continue
			}
			fileArg := c.Common().Args[fwd.arg]
			if fwd.field != "" {
				vals := structFieldAtCall(fileArg, fwd.field, 0)
				if len(vals) != 1 {
					r.Undecided("R-C05-1", fnName(f)+"/"+calleeName(c)+":file", p.Pos(c.Pos()), "cannot tell which file the handle passed to "+calleeName(c)+" carries")
					continue
				}
				fileArg = vals[0]
			}
			before, after := false, false
			for _, l := range pb.links {
				if mayPrecede(c, l) {
					before = true
				}
				if mayPrecede(l, c) {
					after = true
				}
			}
			keys := siteKeys(f, []ssa.CallInstruction{c})
			short := calleeName(c)[strings.LastIndex(calleeName(c), ".")+1:]
			if before && !after {
				fromTmp := false
				for _, rt := range Origins(fileArg, nil) {
					if rt.Kind == "call" && strings.HasSuffix(rt.Desc, ".tmpfile).File") {
						fromTmp = true
					}
				}
				r.Check(fromTmp && !isNilConst(fileArg), "R-C05-1", keys[c]+":"+short, p.Pos(c.Pos()), "attributes written through the temp file's descriptor", short+" is called by path (nil file) before link(): the attributes land on the currently published object")
			}
			if after {
				r.Check(!isNilConst(fileArg) && !before, "R-C05-3", keys[c]+":after-link:"+short, p.Pos(c.Pos()), "not after publication", short+" writes attributes of the published object by path after link(): between the two a reader (or a crash) sees the new object without them")
			}
		}
	}
}

// ---- R-C11-5: delete removes the data before its metadata -----------------------------------------

func moreDeleteOrder(p *Program, r *Report) {
	rule := "R-C11-5"
	r.Rule(rule, "DeleteObject removes the object's data before its metadata: meta.DeleteAttributes is reachable only through the success edge of the os.Remove of the object path (with a sidecar metadata store the reverse order leaves a readable object without ETag/headers after a crash)", 1)
	f := p.Func(posixP + "DeleteObject")
	var rm []ssa.CallInstruction
	for _, c := range callsTo(f, "os.Remove") {
		rm = append(rm, c)
	}
	n := 0
	for _, mc := range metaCallsIn(f) {
		if mc.method != "DeleteAttributes" {
			continue
		}
		n++
		r.Check(guardedBy(f, mc.call, rm), rule, fnName(f)+"/DeleteAttributes#"+itoa(n), p.Pos(mc.call.Pos()), "metadata removed only after the data was removed", "the object's metadata is removed before (or without) its data having been removed: a crash in between leaves the key readable with its bytes but no ETag, content headers or user metadata")
	}
	if n == 0 {
		r.Viol(rule, fnName(f)+"/DeleteAttributes", p.Pos(f.Pos()), "DeleteObject no longer removes the object's metadata")
	}
}

// ---- R-C11-6 / C08: upload ids are directories -------------------------------------------------------

func moreUploadIdsAreDirs(p *Program, r *Report) {
	rule := "R-C11-6"
	r.Rule(rule, "leftover temp files are never listed as uploads: ListMultipartUploads appends an upload only when every directory entry it was derived from (the per-key directory and the upload-id entry) tested IsDir (the per-key directory also holds the named temp files of part uploads)", 2)
	f := p.Func(posixP + "ListMultipartUploads")
	isEntry := func(v ssa.Value) bool {
		return strings.HasSuffix(typeStr(types.Unalias(v.Type())), "fs.DirEntry")
	}
	n := 0
	for _, c := range callsIn(f) {
		if !isBuiltinCall(c, "append") || !strings.Contains(typeStr(c.Value().Type()), "s3response.Upload") {
			continue
		}
		// the collecting append sits in the loops over directory entries (the paging copy does not)
		entries := map[ssa.Value]token.Pos{}
		for _, c2 := range callsIn(f) {
			if c2.Common().IsInvoke() && c2.Common().Method.Name() == "Name" && isEntry(c2.Common().Value) {
				if reachable(f, c2.Block(), nil)[c.Block()] && reachable(f, c.Block(), nil)[c2.Block()] {
					if q, ok := entries[c2.Common().Value]; !ok || c2.Pos() < q {
						entries[c2.Common().Value] = c2.Pos()
					}
				}
			}
		}
		if len(entries) == 0 {
			continue
		}
		n++
		var ents []ssa.Value
		for ent := range entries {
			ents = append(ents, ent)
		}
		sort.Slice(ents, func(a, b int) bool { return entries[ents[a]] < entries[ents[b]] })
		for ei, ent := range ents {
			var dirE []edge
			for _, ce := range condEdgesOf(f) {
				if cc, ok := ce.cond.(*ssa.Call); ok && cc.Common().IsInvoke() && cc.Common().Method.Name() == "IsDir" && cc.Common().Value == ent {
					dirE = append(dirE, ce.holds)
				}
			}
			r.Check(len(dirE) > 0 && !reachable(f, nil, dirE)[c.Block()], rule, fnName(f)+"/append#"+itoa(n)+"/entry#"+itoa(ei+1)+".IsDir", p.Pos(c.Pos()), "only directory entries become uploads", "a non-directory entry of the multipart directory (a leftover temp file of a killed part upload) is listed as an in-progress upload")
		}
	}
	if n == 0 {
		r.Viol(rule, fnName(f)+"/append", p.Pos(f.Pos()), "cannot find where uploads are collected (anchor drift)")
	}
}

// ---- R-C06-6: chunk readers (shared with C12) ---------------------------------------------------------

func moreC06Chunk(p *Program, r *Report) {
	r.Rule("R-C06-6", "aws-chunked uploads commit only after every chunk/trailer verification and never on an early end of the stream (the rules of R-C12-1 and R-C12-5 evaluated for this property)", 8)
	sub := NewReport("C06", "sub")
	sub.cur = p.Config
	runC12(p, sub)
	for _, o := range sub.Obligs {
		if o.Rule == "R-C12-1" || o.Rule == "R-C12-5" {
			r.add("R-C06-6", o.Key, o.Pos, o.Status, o.Detail)
		}
	}
}

// ---- R-C09-4 generalised: every attribute-copy loop stores every attribute it read ---------------------

func moreCopyEveryAttribute(p *Program, r *Report) {
	for _, name := range []string{posixP + "createObjVersion"} {
		f := p.Func(name)
		ok := false
		for _, mc := range metaCallsIn(f) {
			if mc.method != "RetrieveAttribute" {
				continue
			}
			args := mc.call.Common().Args
			loop := false
			for _, rt := range Origins(args[len(args)-1], nil) {
				if rt.Kind == "call" && strings.HasSuffix(rt.Desc, ".ListAttributes") {
					loop = true
				}
			}
			if !loop {
				continue
			}
			avoid := map[*ssa.BasicBlock]bool{}
			for _, m2 := range metaCallsIn(f) {
				if m2.method != "StoreAttribute" {
					continue
				}
				a2 := m2.call.Common().Args
				for _, rt := range Origins(a2[len(a2)-1], nil) {
					if rt.Kind == "call" && rt.Call == mc.call {
						avoid[m2.call.Block()] = true
					}
				}
			}
			if len(avoid) == 0 {
				continue
			}
			ok = true
			for _, e := range successEdges(mc.call) {
				if reachableAvoiding(f, e.from.Succs[e.succ], nil, avoid)[mc.call.Block()] {
					ok = false
				}
				// leaving the loop towards link() without storing
				for _, c := range callsIn(f) {
					if isLink(c) && reachableAvoiding(f, e.from.Succs[e.succ], nil, avoid)[c.Block()] {
						// reaching link without passing a store for this attribute: only legal through the loop header (next iterations), which we excluded above
						hdr := mc.call.Block()
						av2 := map[*ssa.BasicBlock]bool{hdr: true}
						for b := range avoid {
							av2[b] = true
						}
						if reachableAvoiding(f, e.from.Succs[e.succ], nil, av2)[c.Block()] {
							ok = false
						}
					}
				}
			}
		}
		r.Check(ok, "R-C09-4", name+"/copies-every-attribute", p.Pos(f.Pos()), "every attribute read is stored on the version copy", "the version copy can skip an attribute it read (e.g. empty values): a superseded delete marker loses its flag, a saved version loses metadata")
	}
}

// ---- R-C10-6: the per-object lock loop allows nothing from inside the loop ------------------------------

func moreLockLoop(p *Program, r *Report) {
	rule := "R-C10-6"
	r.Rule(rule, "every listed object is examined: inside the per-object loop of auth.CheckObjectAccess no nil (allow) return is reachable; the verdict 'allowed' is only given after the loop has gone through the whole list", 1)
	f := p.Func(fnCheckObjAccess)
	// loop body blocks: blocks from which the per-object lookup call is reachable again (on a cycle with it)
	var anchor ssa.CallInstruction
	for _, c := range callsIn(f) {
		if isBackendCall(c) && c.Common().Method.Name() == "GetObjectRetention" {
			anchor = c
		}
	}
	if anchor == nil {
		r.Viol(rule, fnName(f)+"/loop", p.Pos(f.Pos()), "cannot find the per-object retention lookup")
		return
	}
	inLoop := map[*ssa.BasicBlock]bool{}
	for _, b := range f.Blocks {
		if reachable(f, anchor.Block(), nil)[b] && reachable(f, b, nil)[anchor.Block()] {
			inLoop[b] = true
		}
	}
	bad := ""
	for _, s := range errReturnSites(f) {
		if !isNilConst(s.val) {
			continue
		}
		// a return block is never on a cycle; it is "inside the loop" if one of its predecessors is a loop block
		// other than the loop header's exit
		for _, pr := range s.ret.Block().Preds {
			if s.pred != nil && pr != s.pred {
				continue
			}
			if !inLoop[pr] {
				continue
			}
			// the loop's normal exit: the predecessor is the header block (the one whose other successor is in the loop and which dominates the anchor)
			isHeader := false
			for _, su := range pr.Succs {
				if inLoop[su] && su != s.ret.Block() {
					// header candidates: block that decides between body and exit and precedes the anchor in the iteration
					if reachable(f, su, nil)[anchor.Block()] && !blockHasCalls(pr) {
						isHeader = true
					}
				}
			}
			if !isHeader {
				bad = p.Pos(s.ret.Pos())
			}
		}
	}
	r.Check(bad == "" && len(inLoop) > 0, rule, fnName(f)+"/nil-inside-loop", p.Pos(anchor.Pos()), "no allow verdict from inside the per-object loop", "CheckObjectAccess returns nil from inside the per-object loop (at "+bad+"): the objects after that entry in a batch are never checked for legal hold or retention")
}

func blockHasCalls(b *ssa.BasicBlock) bool {
	for _, in := range b.Instrs {
		if c, ok := in.(*ssa.Call); ok {
			if _, isB := c.Call.Value.(*ssa.Builtin); !isB {
				return true
			}
		}
	}
	return false
}

// ---- R-C10-7: the retention that is judged is the retention that is replaced -----------------------------

// sameReadValue: the same SSA value, or two reads of the same field of the same local struct (a resolved
// target kept in a small struct: t.bucket, t.object) whose stored values agree.
func sameReadValue(a, b ssa.Value) bool {
	if a == b {
		return true
	}
	if la, lb := loadedField(a), loadedField(b); la != "" && la == lb {
		return true
	}
	fa, okA := a.(*ssa.Field)
	fb, okB := b.(*ssa.Field)
	if okA && okB && fa.X == fb.X && fa.Field == fb.Field {
		return true
	}
	sa, sb := fieldSources(a), fieldSources(b)
	if len(sa) == 1 && len(sb) == 1 && (sa[0] != a || sb[0] != b) {
		return sa[0] == sb[0] || (sa[0] != a && sb[0] != b && sameReadValue(sa[0], sb[0]))
	}
	return false
}

func moreRetentionSameTarget(p *Program, r *Report) {
	rule := "R-C10-7"
	r.Rule(rule, "the overwrite rule is evaluated on the object that is written: in posix PutObjectRetention / PutObjectLegalHold the attribute read that feeds the decision and every store of that attribute address the same bucket/object values", 1)
	for _, w := range []struct{ fn, key string }{{"PutObjectRetention", "object-retention"}} {
		f := p.Func(posixP + w.fn)
		var reads, writes []ssa.CallInstruction
		for _, mc := range metaCallsIn(f) {
			if mc.keyArg != w.key {
				continue
			}
			if mc.method == "RetrieveAttribute" {
				reads = append(reads, mc.call)
			}
			if mc.method == "StoreAttribute" {
				writes = append(writes, mc.call)
			}
		}
		ok := len(reads) > 0 && len(writes) > 0
		for _, rd := range reads {
			for _, wr := range writes {
				ra, wa := rd.Common().Args, wr.Common().Args
				if !sameReadValue(ra[1], wa[1]) || !sameReadValue(ra[2], wa[2]) {
					ok = false
				}
			}
		}
		r.Check(ok, rule, fnName(f)+"/same-target", p.Pos(f.Pos()), "read and write address the same object", "the retention that is judged (COMPLIANCE/GOVERNANCE rule) is read from a different bucket/object path than the one that is overwritten: a protected older version's retention can be replaced while the rule looks at the current version")
	}
}

// ---- R-C17-8 / C20: the account store is put back on every refused update --------------------------------

func moreStoreRollback(p *Program, r *Report) {
	rule := "R-C17-8"
	r.Rule(rule, "the account store is put back when an update is refused or cannot be written: on the failure edges of the update callback and of writeTempFile, storeIAM rewrites the store file with the data it read (not with the update's result) before returning; otherwise the file it removed stays missing and every later request waits and fails", 2)
	f := p.Func("(*auth.IAMServiceInternal).storeIAM")
	var fails []struct {
		name string
		e    []edge
	}
	for _, c := range callsIn(f) {
		call, ok := c.(*ssa.Call)
		if !ok {
			continue
		}
		isUpdate := call.Common().StaticCallee() == nil && !call.Common().IsInvoke()
		if _, isB := call.Call.Value.(*ssa.Builtin); isB {
			isUpdate = false
		}
		isWrite := calleeName(c) == "(*auth.IAMServiceInternal).writeTempFile"
		if !isUpdate && !isWrite {
			continue
		}
		_, nn := nilTestEdgesCall(c)
		nm := "update-callback"
		if isWrite {
			nm = "writeTempFile"
		}
		fails = append(fails, struct {
			name string
			e    []edge
		}{nm, nn})
	}
	if len(fails) < 2 {
		r.Viol(rule, fnName(f)+"/failure-edges", p.Pos(f.Pos()), "cannot find the update callback and writeTempFile failure tests")
		return
	}
	var restores []ssa.CallInstruction
	for _, c := range callsTo(f, "os.WriteFile") {
		a := callArgs(c)
		// target: the store file name (not the backup), data: not the update's result
		isStore := false
		for _, rt := range Origins(a[0], nil) {
			if rt.Kind == "global" || rt.Kind == "const" {
				if strings.Contains(rt.Desc, "iamFile") || strings.Contains(rt.Desc, "users.json") {
					isStore = true
				}
			}
		}
		fromUpdate := false
		for _, rt := range Origins(a[1], nil) {
			if rt.Kind == "call" && rt.Call != nil && rt.Call.Common().StaticCallee() == nil && !rt.Call.Common().IsInvoke() {
				if _, isB := rt.Call.Common().Value.(*ssa.Builtin); !isB {
					fromUpdate = true
				}
			}
		}
		backup := false
		for _, rt := range Origins(a[0], nil) {
			if strings.Contains(rt.Desc, "iamBackupFile") || strings.Contains(rt.Desc, "backup") {
				backup = true
			}
		}
		if isStore && !backup && !fromUpdate {
			restores = append(restores, c)
		}
	}
	for _, fl := range fails {
		avoid := map[*ssa.BasicBlock]bool{}
		for _, c := range restores {
			avoid[c.Block()] = true
		}
		bad := len(fl.e) == 0 || len(restores) == 0
		for _, e := range fl.e {
			start := e.from.Succs[e.succ]
			if avoid[start] {
				continue
			}
			reach := reachableAvoiding(f, start, nil, avoid)
			for _, ret := range returnsOf(f) {
				if reach[ret.Block()] {
					bad = true
				}
			}
		}
		r.Check(!bad, rule, fnName(f)+"/"+fl.name+":restores-previous-content", p.Pos(f.Pos()), "failure path rewrites the store file with the data read", "when the "+fl.name+" fails, storeIAM returns without putting the previous content back (or writes the update's nil result): the store file stays removed/empty, acknowledged accounts are lost and every later request waits 30 s and fails")
	}
}

// ---- R-C20-7: loggers run before the producers of the Locals they read -------------------------------------

func moreLoggerLocals(p *Program, r *Report) {
	rule := "R-C20-7"
	r.Rule(rule, "code that runs on the error path of every middleware does not assume later middlewares ran: the audit loggers (s3log) and the response helpers read ctx.Locals only with the comma-ok form", 3)
	n := 0
	for _, pk := range []string{"s3log"} {
		for _, f := range p.FuncsIn(pk) {
			for _, b := range f.Blocks {
				for _, in := range b.Instrs {
					ta, ok := in.(*ssa.TypeAssert)
					if !ok {
						continue
					}
					c, isC := ta.X.(*ssa.Call)
					if !isC || calleeName(c) != fiberCtx+".Locals" {
						continue
					}
					key, _ := constString(callArgs(c)[0])
					n++
					r.Check(ta.CommaOk || localsAssertGuarded(f, ta, key), rule, fnName(f)+"/Locals("+key+")", p.Pos(ta.Pos()), "comma-ok assertion", "the logger asserts ctx.Locals(\""+key+"\") without comma-ok, but it also logs requests refused before the middleware that sets it ran (URL decoding): such a request panics and ends the process")
				}
			}
		}
	}
	for _, name := range []string{ctrlPkg + ".SendResponse", ctrlPkg + ".SendXMLResponse"} {
		f := p.Func(name)
		for _, b := range f.Blocks {
			for _, in := range b.Instrs {
				if ta, ok := in.(*ssa.TypeAssert); ok && !ta.CommaOk {
					if c, isC := ta.X.(*ssa.Call); isC && calleeName(c) == fiberCtx+".Locals" {
						n++
						r.Viol(rule, fnName(f)+"/Locals", p.Pos(ta.Pos()), "a response helper asserts a Local without comma-ok; it is called by every middleware's refusal path")
					}
				}
			}
		}
	}
	if n < 3 {
		broken("R-C20-7: only %d Locals reads found in the loggers", n)
	}
}

// ---- R-C18-6: proxied results forward same-named fields ----------------------------------------------------

func moreProxyOutputs(p *Program, r *Report) {
	rule := "R-C18-6"
	r.Rule(rule, "results are translated field by field: when an S3Proxy method builds a gateway result from an SDK output, a result field that has a same-named field in the SDK output is filled from that field (not from a neighbour)", 20)
	n := 0
	for _, m := range p.Methods("backend/s3proxy", "S3Proxy") {
		if m.Object() == nil || !m.Object().Exported() {
			continue
		}
		// SDK output value: result #0 of an s.client.X call
		var outs []ssa.CallInstruction
		for _, c := range callsIn(m) {
			if strings.Contains(calleeName(c), "aws-sdk-go-v2/service/s3.Client)") {
				outs = append(outs, c)
			}
		}
		if len(outs) != 1 {
			continue
		}
		ot := outs[0].Common().Signature().Results().At(0).Type()
		pt, ok := ot.Underlying().(*types.Pointer)
		if !ok {
			continue
		}
		ost, ok := pt.Elem().Underlying().(*types.Struct)
		if !ok {
			continue
		}
		sdkFields := map[string]bool{}
		for i := 0; i < ost.NumFields(); i++ {
			sdkFields[ost.Field(i).Name()] = true
		}
		for _, ret := range returnsOf(m) {
			if len(ret.Results) < 2 || !isNilConst(ret.Results[len(ret.Results)-1]) {
				continue
			}
			fs, al := litFields(ret.Results[0])
			if al == nil || !strings.HasPrefix(typeStr(al.Type()), "*s3response.") {
				continue
			}
			for fld, vs := range fs {
				if !sdkFields[fld] {
					continue
				}
				n++
				okF := false
				other := ""
				for _, v := range vs {
					for _, rt := range Origins(v, &originOpts{extra: map[string][]int{"strconv.Atoi": {0}, "strconv.ParseInt": {0}}}) {
						if rt.Kind == "field" {
							if rt.Desc == fld {
								okF = true
							} else if sdkFields[rt.Desc] {
								other = rt.Desc
							}
						}
					}
				}
				if !okF && other == "" {
					continue // computed value (e.g. converted list): not a neighbour mix-up
				}
				r.Check(okF, rule, fnName(m)+"/result."+fld, p.Pos(ret.Pos()), "from output."+fld, "result field "+fld+" is filled from the SDK output's "+other+" although the output has a field "+fld+": the client sees a different value than the proxied endpoint sent (e.g. pagination markers)")
			}
		}
	}
	if n < 20 {
		broken("R-C18-6: only %d result fields enumerated", n)
	}
}

// ---- R-C18-7: upstream errors swallowed by GetBucketAcl are named error codes -------------------------------

func moreProxyAclErrors(p *Program, r *Report) {
	rule := "R-C18-7"
	r.Rule(rule, "only 'no tag set' is read as 'no ACL': in S3Proxy.GetBucketAcl an upstream error is turned into an empty ACL only on an edge that depends on the error's code being NoSuchTagSet or NotImplemented; every other error (NoSuchBucket, AccessDenied) is returned", 1)
	f := p.Func("(*backend/s3proxy.S3Proxy).GetBucketAcl")
	var client ssa.CallInstruction
	for _, c := range callsIn(f) {
		if strings.HasSuffix(calleeName(c), "s3.Client).GetBucketTagging") {
			client = c
		}
	}
	if client == nil {
		r.Viol(rule, fnName(f)+"/GetBucketTagging", p.Pos(f.Pos()), "GetBucketAcl no longer reads the bucket tag set")
		return
	}
	_, nonNil := nilTestEdgesCall(client)
	var named []edge
	for _, ce := range condEdgesOf(f) {
		if ce.atoms["call:(github.com/aws/smithy-go.APIError).ErrorCode"] && (ce.atoms["arg:NoSuchTagSet"] || ce.atoms["arg:NotImplemented"] || ce.atoms[`const:"NoSuchTagSet"`] || ce.atoms[`const:"NotImplemented"`]) {
			named = append(named, ce.holds)
		}
	}
	bad := len(nonNil) == 0 || len(named) == 0
	for _, e := range nonNil {
		reach := reachableFromEdge(f, e, named)
		for _, s := range errReturnSites(f) {
			if isNilConst(s.val) && s.reachedIn(reach) {
				bad = true
			}
		}
	}
	r.Check(!bad, rule, fnName(f)+"/swallows-only-named-codes", p.Pos(client.Pos()), "empty ACL only for NoSuchTagSet / NotImplemented", "GetBucketAcl turns an upstream error into 'empty ACL' on an edge that does not depend on the NoSuchTagSet/NotImplemented error codes: a missing bucket (NoSuchBucket is a 404 too) is reported as existing with a root-owned ACL")
}

// localsAssertGuarded: the unchecked assertion sits behind the success edge of a comma-ok assertion
// (or type switch case) of the same Local to the same type.
func localsAssertGuarded(f *ssa.Function, ta *ssa.TypeAssert, key string) bool {
	var ok []edge
	for _, ce := range condEdgesOf(f) {
		ex, isEx := ce.cond.(*ssa.Extract)
		if !isEx || ex.Index != 1 {
			continue
		}
		t2, isTA := ex.Tuple.(*ssa.TypeAssert)
		if !isTA || !types.Identical(t2.AssertedType, ta.AssertedType) {
			continue
		}
		c, isC := t2.X.(*ssa.Call)
		if !isC || calleeName(c) != fiberCtx+".Locals" {
			continue
		}
		if k, _ := constString(callArgs(c)[0]); k == key {
			ok = append(ok, ce.holds)
		}
	}
	return len(ok) > 0 && !reachable(f, nil, ok)[ta.Block()]
}

// ---- R-C07-3 / R-C07-4: the marker in the walk --------------------------------------------------

func moreWalkMarker(p *Program, r *Report) {
	r.Rule("R-C07-3", "the walk keeps comparing with the marker until it has met it: fs.WalkDir visits the children of a directory d before siblings such as d-1 or d.txt that sort before d/, so 'past the marker' may only be latched where a path (or common prefix) equals the marker; every store of true to pastMarker is reachable only through the holds edge of an equality test that involves the marker", 4)
	r.Rule("R-C07-4", "a directory is compared with the marker in its key form: inside the directory branch of the walk callbacks (before path gets its trailing '/'), no comparison between the marker and the bare directory name is made (the keys below d all start with d+\"/\", which sorts after d. or d-)", 2)
	for _, w := range []struct{ fn, marker string }{{"backend.Walk", "marker"}, {"backend.WalkVersions", "keyMarker"}} {
		outer := p.Func(w.fn)
		fns := []*ssa.Function{outer}
		fns = append(fns, walkCallbacks(outer)...)
		nStores := 0
		for _, f := range fns {
			var eq []edge
			for _, ce := range condEdgesOf(f) {
				if ce.isEqNeq && ce.atoms["param:"+w.marker] {
					eq = append(eq, ce.holds)
				}
			}
			live := reachable(f, nil, eq)
			for _, b := range f.Blocks {
				for _, in := range b.Instrs {
					st, ok := in.(*ssa.Store)
					if !ok {
						continue
					}
					nm := ""
					switch a := st.Addr.(type) {
					case *ssa.FreeVar:
						nm = a.Name()
					case *ssa.Alloc:
						nm = a.Comment
					}
					if nm != "pastMarker" {
						continue
					}
					if bv, isB := constBool(st.Val); isB && !bv {
						continue
					}
					// `pastMarker := marker == ""` stores the outcome of an equality test on the marker itself
					if bo, isBO := st.Val.(*ssa.BinOp); isBO && bo.Op == token.EQL && atomsOf(bo)["param:"+w.marker] {
						nStores++
						r.Ok("R-C07-3", fnName(f)+"/pastMarker=(marker==...)#"+itoa(nStores), p.Pos(st.Pos()), "assigned the outcome of an equality test on the marker")
						continue
					}
					nStores++
					r.Check(!live[b], "R-C07-3", fnName(f)+"/pastMarker=true#"+itoa(nStores), p.Pos(st.Pos()), "latched only where something equals the marker", "pastMarker is set on a path that is not the equality-with-marker edge: once an entry greater than the marker was seen, entries visited later that sort at or before the marker (files next to a directory whose name they extend with a byte < '/') are listed again")
				}
			}
			if f == outer {
				continue
			}
			// R-C07-4
			var dirE []edge
			for _, ce := range condEdgesOf(f) {
				if cc, ok := ce.cond.(*ssa.Call); ok && cc.Common().IsInvoke() && cc.Common().Method.Name() == "IsDir" {
					dirE = append(dirE, ce.holds)
				}
			}
			if len(dirE) == 0 || len(f.Params) == 0 {
				r.Viol("R-C07-4", fnName(f)+"/directory-branch", p.Pos(f.Pos()), "cannot find the directory branch of the walk callback")
				continue
			}
			notDir := reachable(f, nil, dirE)
			pathParam := f.Params[0]
			bad := ""
			isMarker := func(v ssa.Value) bool { return atomsOf(v)["param:"+w.marker] }
			for _, b := range f.Blocks {
				if notDir[b] {
					continue
				}
				for _, in := range b.Instrs {
					switch x := in.(type) {
					case *ssa.BinOp:
						switch x.Op {
						case token.LSS, token.LEQ, token.GTR, token.GEQ, token.EQL, token.NEQ:
							if (x.X == ssa.Value(pathParam) && isMarker(x.Y)) || (x.Y == ssa.Value(pathParam) && isMarker(x.X)) {
								bad = p.Pos(x.Pos())
							}
						}
					case *ssa.Call:
						cn := calleeName(x)
						if cn == "strings.HasPrefix" || cn == "strings.Compare" || cn == "strings.HasSuffix" {
							a := x.Call.Args
							if (a[0] == ssa.Value(pathParam) && isMarker(a[1])) || (a[1] == ssa.Value(pathParam) && isMarker(a[0])) {
								bad = p.Pos(x.Pos())
							}
						}
					}
				}
			}
			r.Check(bad == "", "R-C07-4", fnName(f)+"/directory-vs-marker", p.Pos(f.Pos()), "no comparison of a bare directory name with the marker", "the directory branch compares the bare directory name with the marker (at "+bad+"): for a marker that extends the name with a byte < '/' the name sorts before the marker while every key below the directory sorts after it, so the subtree is dropped or kept wrongly")
		}
		if nStores < 2 {
			broken("R-C07-3: %s: only %d pastMarker latches found", w.fn, nStores)
		}
	}
}

// ---- R-C12-7: stashed bytes are delivered once -------------------------------------------------------

func moreStashOnce(p *Program, r *Report) {
	rule := "R-C12-7"
	r.Rule(rule, "buffered payload is delivered once: after a chunk reader copied its stash of undelivered bytes to the caller, no successful (nil error) return is reachable without the stash field having been overwritten; otherwise the next Read delivers the same bytes again while the checksum over the wire bytes still verifies", 2)
	n := 0
	for _, f := range p.FuncsIn(utilsPkg) {
		k := 0
		for _, c := range callsIn(f) {
			// the stash is consumed: copy(dst, stash), or joined in front of new bytes (slices.Concat(stash, ..),
			// append(stash, ..), bytes.Clone(stash))
			var cands []ssa.Value
			switch {
			case isBuiltinCall(c, "copy"):
				cands = []ssa.Value{callArgs(c)[1]}
			case isBuiltinCall(c, "append"):
				cands = callArgs(c)
			default:
				cn := calleeName(c)
				if i := strings.Index(cn, "["); i > 0 {
					cn = cn[:i]
				}
				if cn == "slices.Concat" || cn == "bytes.Join" {
					cands = variadicInts(c.Common().Args[len(c.Common().Args)-1])
				} else if cn == "bytes.Clone" || cn == "slices.Clone" {
					cands = callArgs(c)
				}
			}
			fld := ""
			var base ssa.Value
			var src ssa.Value
			for _, cand := range cands {
				if u, ok := cand.(*ssa.UnOp); ok {
					if fa, ok := u.X.(*ssa.FieldAddr); ok {
						fld = fieldName(fa.X.Type(), fa.Field)
						base = fa.X
						src = cand
					}
				}
			}
			if src == nil {
				continue
			}
			// the stash, by role: a []byte field of the reader (its receiver) that is the source of a copy
			if fld == "" || base == nil || typeStr(src.Type()) != "[]byte" {
				continue
			}
			if len(f.Params) == 0 || f.Signature.Recv() == nil {
				continue
			}
			isRecv := false
			for _, rt := range terminalRoots(Origins(base, nil)) {
				if rt.Kind == "param" && rt.Val == ssa.Value(f.Params[0]) {
					isRecv = true
				}
			}
			if !isRecv {
				continue
			}
			n++
			k++
			avoid := map[*ssa.BasicBlock]bool{}
			sameBlockAfter := false
			for _, b := range f.Blocks {
				for i, in := range b.Instrs {
					st, ok := in.(*ssa.Store)
					if !ok {
						continue
					}
					if fa, ok := st.Addr.(*ssa.FieldAddr); ok && fa.X == base && fieldName(fa.X.Type(), fa.Field) == fld {
						if b == c.Block() {
							if i > instrIndex(c) {
								sameBlockAfter = true
							}
							continue
						}
						avoid[b] = true
					}
				}
			}
			bad := ""
			if !sameBlockAfter {
				for si, su := range c.Block().Succs {
					_ = si
					reach := reachableAvoiding(f, su, nil, avoid)
					for _, s := range errReturnSites(f) {
						if !isNilConst(s.val) || !s.reachedIn(reach) {
							continue
						}
						if s.pred != nil && !reach[s.pred] && s.pred != c.Block() {
							continue
						}
						bad = p.Pos(s.ret.Pos())
					}
				}
			}
			r.Check(bad == "", rule, fnName(f)+"/copy(stash)#"+itoa(k), p.Pos(c.Pos()), "stash overwritten before every successful return", "after the stash was copied to the caller a successful return (at "+bad+") leaves the stash in place: the next Read delivers those bytes a second time and the stored object differs from the payload although every checksum verifies")
		}
	}
	if n < 2 {
		broken("R-C12-7: only %d copies from a stash field found", n)
	}
}

// ---- R-C13-5 / R-C08-5: range arithmetic by abstract interpretation -------------------------------------

// moreRangeArith runs the zone interpreter (zone.go) over a range parser and checks, at every return
// with a nil error, that the (start, length) pair lies inside [0,size] and that no arithmetic wraps.
func moreRangeArith(p *Program, r *Report, rule, fn string, validIdx int) {
	r.Rule(rule, "range arithmetic stays inside the object ("+fn+", zone abstract interpretation over all paths): at every successful return 0 <= start, start+length <= size, length >= 0 (>= 1 for a satisfiable range), and no int64 addition/subtraction on the way can wrap. Assumptions: size >= 0; a strconv.ParseInt result whose text provably contains no '-' (an element of strings.Split(x, \"-\"), the part before the separator of strings.Cut(x, \"-\"), or the part after it behind a strings.Contains(.., \"-\") refusal) is >= 0", 6)
	f := p.Func(fn)
	var size *ssa.Parameter
	for _, prm := range f.Params {
		if refParamName(prm) == "size" {
			size = prm
		}
	}
	if size == nil {
		r.Viol(rule, fn+"/size-parameter", p.Pos(f.Pos()), "the parser has no parameter named size")
		return
	}
	zero := big.NewInt(0)
	nAx := 0
	axioms := func(v ssa.Value) (lo, hi *big.Int) {
		if v == ssa.Value(size) {
			return zero, nil
		}
		ex, ok := v.(*ssa.Extract)
		if !ok || ex.Index != 0 {
			return nil, nil
		}
		c, ok := ex.Tuple.(*ssa.Call)
		if !ok || calleeName(c) != "strconv.ParseInt" {
			return nil, nil
		}
		// the text cannot contain a minus sign
		if !noDashText(f, c, c.Call.Args[0], map[ssa.Value]bool{}) {
			return nil, nil
		}
		nAx++
		return zero, nil
	}
	a := runZone(p, f, axioms)
	rets := returnsOf(f)
	sort.Slice(rets, func(i, j int) bool { return rets[i].Pos() < rets[j].Pos() })
	n := 0
	for i, ret := range rets {
		res := ret.Results
		if len(res) < 3 || !isNilConst(res[len(res)-1]) {
			continue
		}
		if len(a.out[ret.Block()]) == 0 {
			continue // unreachable
		}
		key := fn + "/return#" + itoa(i+1)
		if _, ok := a.linOf(res[0]); !ok {
			r.Viol(rule, key+":integer-results", p.Pos(ret.Pos()), "start/length are not integer expressions")
			continue
		}
		n++
		b := ret.Block()
		type sm = *part
		ok, w := a.impliedAt(b, func(sub sm) (lin, bool) {
			st, ok := a.linIn(res[0], sub)
			return st.neg(), ok
		})
		r.Check(ok, rule, key+":start>=0", p.Pos(ret.Pos()), "0 <= start on every trace", "start >= 0 is not implied at this return ("+w+" <= 0 fails)")
		ok, w = a.impliedAt(b, func(sub sm) (lin, bool) {
			st, ok1 := a.linIn(res[0], sub)
			ln, ok2 := a.linIn(res[1], sub)
			sz, _ := a.linOf(size)
			if !ok1 || !ok2 {
				return st, false
			}
			return st.plus(ln, 1).plus(sz, -1), true
		})
		r.Check(ok, rule, key+":within-object", p.Pos(ret.Pos()), "start+length <= size on every trace", "start+length <= size is not implied at this return (start+length-size = "+w+"): the reported length/Content-Range reaches past the end of the object (short body, zero padding or a position that does not exist)")
		strict := false
		if validIdx >= 0 {
			if bv, isB := constBool(res[validIdx]); isB && bv {
				strict = true
			}
		} else if _, isC := res[0].(*ssa.Const); !isC {
			strict = true
		}
		if strict {
			ok, w = a.impliedAt(b, func(sub sm) (lin, bool) {
				ln, ok := a.linIn(res[1], sub)
				return linConst(big.NewInt(1)).plus(ln, -1), ok
			})
			r.Check(ok, rule, key+":non-empty", p.Pos(ret.Pos()), "1 <= length on every trace", "a satisfiable range must contain at least one byte, but length >= 1 is not implied here (1-length = "+w+")")
		} else {
			ok, w = a.impliedAt(b, func(sub sm) (lin, bool) {
				ln, ok := a.linIn(res[1], sub)
				return ln.neg(), ok
			})
			r.Check(ok, rule, key+":length>=0", p.Pos(ret.Pos()), "0 <= length on every trace", "length >= 0 is not implied here (-length = "+w+")")
		}
	}
	total, bad := a.overflowSites()
	r.Check(len(bad) == 0, rule, fn+"/no-wraparound", p.Pos(f.Pos()), itoa(total)+" additions/subtractions proven in range", "an int64 expression may wrap around: "+strings.Join(bad, "; ")+" (for Range: bytes=0-9223372036854775807 the length becomes negative)")
	if a.joined {
		r.Ok(rule, fn+"/traces-joined", p.Pos(f.Pos()), "more than 64 traces: states were joined (less precise, still sound)")
	}
	if n < 1 {
		broken("%s: %s: no successful return found", rule, fn)
	}
	if nAx < 2 {
		// the offsets are not the results of strconv.ParseInt(.., 10, 64) any more (parsed unsigned and converted,
		// or parsed elsewhere): nothing bounds them, the window is not proven
		r.Viol(rule, fn+"/offsets-parsed-as-int64", p.Pos(f.Pos()), "the range offsets are not results of strconv.ParseInt(s, 10, 64) ("+itoa(nAx)+" recognised): a position parsed as an unsigned number and converted wraps to a negative offset for values >= 2^63, which passes the 'start beyond the object' test; offset and length are unproven")
	}
}

// ---- R-C13-6: the numbers the posix backend derives from the parsed range -------------------------------

type rangeModel struct {
	a      *zoneAI
	call   *ssa.Call
	sS, sE int
	sizeV  ssa.Value
	curLen func(pt *part) (lin, bool)
	cell   *ssa.Alloc
}

// modelRangeCall analyses f with the (proven, R-C13-5 / R-C08-5) postcondition of the range parser it
// calls: start is a symbol, length is (start+length) - start with 0 <= start <= start+length <= size,
// and start+1 <= start+length where the valid flag (result validIdx, if any) holds.
func modelRangeCall(p *Program, r *Report, rule string, f *ssa.Function, parser string, validIdx int) *rangeModel {
	cs := callsTo(f, parser)
	if len(cs) != 1 {
		r.Viol(rule, fnName(f)+"/"+parser, p.Pos(f.Pos()), "expected exactly one call of the range parser")
		return nil
	}
	c := cs[0].(*ssa.Call)
	ex := map[int]*ssa.Extract{}
	for _, ref := range *c.Referrers() {
		if e, ok := ref.(*ssa.Extract); ok {
			ex[e.Index] = e
		}
	}
	if ex[0] == nil || ex[1] == nil || (validIdx >= 0 && ex[validIdx] == nil) {
		r.Viol(rule, fnName(f)+"/parser-results", p.Pos(c.Pos()), "start, length or the valid flag of the parser is discarded")
		return nil
	}
	a := newZoneAI(p, f)
	m := &rangeModel{a: a, call: c, sS: a.sym(ex[0]), sE: a.sym(c), sizeV: callArgs(c)[0]}
	a.names[m.sE] = "start+length"
	a.names[m.sS] = "start"
	a.override[ex[1]] = linSym(m.sE).plus(linSym(m.sS), -1)
	zero := big.NewInt(0)
	a.axioms = func(v ssa.Value) (lo, hi *big.Int) {
		if v == ssa.Value(ex[0]) || v == ssa.Value(c) {
			return zero, nil
		}
		// os.FileInfo.Size of an existing file
		if cc, ok := v.(*ssa.Call); ok && cc.Common().IsInvoke() && cc.Common().Method.Name() == "Size" {
			return zero, nil
		}
		return nil, nil
	}
	a.setup = func(a *zoneAI, top *zone) { top.add(m.sS, m.sE, zero) }
	a.callFacts[c] = append(a.callFacts[c], func(a *zoneAI, pt *part) (lin, bool) {
		sz, ok := a.linIn(m.sizeV, pt)
		return linSym(m.sE).plus(sz, -1), ok // start+length <= size
	})
	if validIdx >= 0 {
		a.boolFacts[ex[validIdx]] = append(a.boolFacts[ex[validIdx]], func(a *zoneAI) lin {
			return linSym(m.sS).plus(linSym(m.sE), -1).plus(linConst(big.NewInt(1)), 1) // start+1 <= start+length
		})
	}
	a.run()
	for _, ref := range *ex[1].Referrers() {
		if st, ok := ref.(*ssa.Store); ok {
			if al, ok := st.Addr.(*ssa.Alloc); ok && a.cells[al] {
				m.cell = al
			}
		}
	}
	m.curLen = func(pt *part) (lin, bool) {
		if m.cell != nil {
			l, ok := pt.mem[m.cell]
			return l, ok
		}
		return a.linIn(ex[1], pt)
	}
	return m
}

// sectionReaderObligations: every io.NewSectionReader of f opens exactly the parsed window.
func (m *rangeModel) sectionReaderObligations(p *Program, r *Report, rule string, f *ssa.Function) int {
	a := m.a
	nSec := 0
	for _, sec := range sectionCallsIn(f) {
		nSec++
		sc := sec.call
		args := []ssa.Value{nil, sec.off, sec.length}
		key := fnName(f) + "/section-reader#" + itoa(nSec)
		ok1, w := a.equalAt(sc.Block(), func(pt *part) (lin, bool) { return a.linIn(args[1], pt) }, func(pt *part) (lin, bool) { return linSym(m.sS), true })
		r.Check(ok1, rule, key+":offset==start", p.Pos(sc.Pos()), "window starts at the parsed start", "the body window does not start at the parsed start ("+w+")")
		ok1, w = a.equalAt(sc.Block(), func(pt *part) (lin, bool) { return a.linIn(args[2], pt) }, m.curLen)
		r.Check(ok1, rule, key+":n==length", p.Pos(sc.Pos()), "window length is the parsed (reported) length", "the window length differs from the parsed length that is also reported / preallocated ("+w+")")
		ok1, w = a.impliedAt(sc.Block(), func(pt *part) (lin, bool) {
			o, k1 := a.linIn(args[1], pt)
			n, k2 := a.linIn(args[2], pt)
			sz, k3 := a.linIn(m.sizeV, pt)
			return o.plus(n, 1).plus(sz, -1), k1 && k2 && k3
		})
		r.Check(ok1, rule, key+":inside-object", p.Pos(sc.Pos()), "offset+n <= size on every trace", "the window can reach past the end of the object (offset+n-size = "+w+"): the section reader stops at EOF and fewer bytes than announced are delivered")
	}
	if nSec == 0 {
		r.Viol(rule, fnName(f)+"/section-reader", p.Pos(f.Pos()), "cannot find the section reader over the object file (anchor drift)")
	}
	if a.joined {
		r.Ok(rule, fnName(f)+"/traces-joined", p.Pos(f.Pos()), "more than 64 trace classes: states were joined (less precise, still sound)")
	}
	return nSec
}

func moreCopyRangeConsumer(p *Program, r *Report) {
	rule := "R-C08-6"
	r.Rule(rule, "a copied part is exactly the parsed source range (posix.UploadPartCopy, zone abstract interpretation with the parser's proven postcondition): the section reader over the source is opened at (start, length), inside the source object, and the temp file is preallocated with that same length", 4)
	f := p.Func(posixP + "UploadPartCopy")
	m := modelRangeCall(p, r, rule, f, "backend.ParseCopySourceRange", -1)
	if m == nil {
		return
	}
	m.sectionReaderObligations(p, r, rule, f)
	n := 0
	for _, oc := range callsTo(f, posixP+"openTmpFile") {
		n++
		args := callArgs(oc)
		var sizeArg ssa.Value
		for _, x := range args {
			if _, _, ok := m.a.typeBounds(x.Type()); ok {
				sizeArg = x
			}
		}
		if sizeArg == nil {
			r.Viol(rule, fnName(f)+"/openTmpFile#"+itoa(n)+":size", p.Pos(oc.Pos()), "openTmpFile takes no int64 size")
			continue
		}
		ok1, w := m.a.equalAt(oc.Block(), func(pt *part) (lin, bool) { return m.a.linIn(sizeArg, pt) }, m.curLen)
		r.Check(ok1, rule, fnName(f)+"/openTmpFile#"+itoa(n)+":size==length", p.Pos(oc.Pos()), "temp file preallocated with the parsed length", "the part's temp file is preallocated with a size different from the number of bytes copied ("+w+"): fallocate leaves a zero-filled tail in the stored part")
	}
	if n == 0 {
		r.Viol(rule, fnName(f)+"/openTmpFile", p.Pos(f.Pos()), "cannot find the temp file of the copied part (anchor drift)")
	}
}

// stripConvInt: v without a widening conversion (int64(x) of an int is the same number).
func stripConvInt(v ssa.Value) ssa.Value {
	return v
}

func moreRangeConsumers(p *Program, r *Report) {
	rule := "R-C13-6"
	r.Rule(rule, "Content-Range, Content-Length and the body window are the same interval (posix.GetObject, zone abstract interpretation with the parser's proven postcondition 0 <= start <= start+length <= size, length >= 1 when valid): the formatted numbers satisfy 0 <= first <= last < total, first is the parsed start, last-first+1 is the length reported as Content-Length, total is the size the range was parsed against, and the section reader is opened at (start, that length)", 6)
	f := p.Func(posixP + "GetObject")
	m := modelRangeCall(p, r, rule, f, "backend.ParseGetObjectRange", 2)
	if m == nil {
		return
	}
	a, sS, sizeV, curLen, lenCell := m.a, m.sS, m.sizeV, m.curLen, m.cell
	one := linConst(big.NewInt(1))
	// 1. the Content-Range numbers
	nFmt := 0
	type fmtSite struct {
		at   ssa.Instruction
		vals []ssa.Value
	}
	var sites []fmtSite
	for _, sc := range callsTo(f, "fmt.Sprintf") {
		fm, ok := constString(callArgs(sc)[0])
		if !ok || !strings.HasPrefix(fm, "bytes ") {
			continue
		}
		sites = append(sites, fmtSite{sc, variadicInts(callArgs(sc)[1])})
	}
	// the same header built by concatenation: "bytes " + FormatInt(a) + "-" + FormatInt(b) + "/" + FormatInt(c)
	for _, b := range f.Blocks {
		for _, in := range b.Instrs {
			bo, ok := in.(*ssa.BinOp)
			if !ok || bo.Op != token.ADD || typeStr(bo.Type()) != "string" {
				continue
			}
			top := true
			for _, ref := range *bo.Referrers() {
				if o, isBo := ref.(*ssa.BinOp); isBo && o.Op == token.ADD {
					top = false
				}
			}
			if !top {
				continue
			}
			var leaves []ssa.Value
			var flat func(v ssa.Value)
			flat = func(v ssa.Value) {
				if x, isBo := v.(*ssa.BinOp); isBo && x.Op == token.ADD {
					flat(x.X)
					flat(x.Y)
					return
				}
				leaves = append(leaves, v)
			}
			flat(bo)
			if len(leaves) == 0 {
				continue
			}
			if c0, isC := constString(leaves[0]); !isC || !strings.HasPrefix(c0, "bytes ") {
				continue
			}
			var vals []ssa.Value
			for _, lf := range leaves {
				if c, isCall := lf.(*ssa.Call); isCall {
					switch calleeName(c) {
					case "strconv.FormatInt", "strconv.Itoa", "strconv.FormatUint":
						vals = append(vals, stripConvInt(c.Call.Args[0]))
					}
				}
			}
			sites = append(sites, fmtSite{bo, vals})
		}
	}
	for _, site := range sites {
		sc, vals := site.at, site.vals
		if len(vals) != 3 {
			r.Viol(rule, fnName(f)+"/content-range:three-numbers", p.Pos(sc.Pos()), "the Content-Range format is not fed three integers")
			continue
		}
		nFmt++
		b := sc.Block()
		first := func(pt *part) (lin, bool) { return a.linIn(vals[0], pt) }
		last := func(pt *part) (lin, bool) { return a.linIn(vals[1], pt) }
		total := func(pt *part) (lin, bool) { return a.linIn(vals[2], pt) }
		key := fnName(f) + "/content-range#" + itoa(nFmt)
		ok1, w := a.impliedAt(b, func(pt *part) (lin, bool) { l, ok := first(pt); return l.neg(), ok })
		r.Check(ok1, rule, key+":0<=first", p.Pos(sc.Pos()), "first >= 0 on every trace", "first >= 0 is not implied ("+w+")")
		ok1, w = a.impliedAt(b, func(pt *part) (lin, bool) {
			l1, o1 := first(pt)
			l2, o2 := last(pt)
			return l1.plus(l2, -1), o1 && o2
		})
		r.Check(ok1, rule, key+":first<=last", p.Pos(sc.Pos()), "first <= last on every trace", "first <= last is not implied (first-last = "+w+"): a Content-Range whose last position precedes the first (e.g. \"bytes 0--1/0\") is sent with a 206")
		ok1, w = a.impliedAt(b, func(pt *part) (lin, bool) {
			l2, o2 := last(pt)
			l3, o3 := total(pt)
			return l2.plus(one, 1).plus(l3, -1), o2 && o3
		})
		r.Check(ok1, rule, key+":last<total", p.Pos(sc.Pos()), "last < total on every trace", "last < total is not implied (last+1-total = "+w+"): the Content-Range names a position that does not exist in the object")
		ok1, w = a.equalAt(b, first, func(pt *part) (lin, bool) { return linSym(sS), true })
		r.Check(ok1, rule, key+":first==start", p.Pos(sc.Pos()), "first is the parsed start", "the first position is not the parsed start ("+w+")")
		ok1, w = a.equalAt(b, func(pt *part) (lin, bool) {
			l1, o1 := first(pt)
			l2, o2 := last(pt)
			return l2.plus(l1, -1).plus(one, 1), o1 && o2
		}, curLen)
		r.Check(ok1, rule, key+":span==content-length", p.Pos(sc.Pos()), "last-first+1 is the reported length", "last-first+1 differs from the length reported as Content-Length ("+w+")")
		ok1, w = a.equalAt(b, total, func(pt *part) (lin, bool) { return a.linIn(sizeV, pt) })
		r.Check(ok1, rule, key+":total==parsed-size", p.Pos(sc.Pos()), "total is the size the range was parsed against", "the total in Content-Range is not the size the range was clipped to ("+w+"): for directory objects the range is parsed against the directory inode's size but reported against 0")
		if lenCell != nil {
			late := ""
			for _, ref := range *lenCell.Referrers() {
				if st, ok := ref.(*ssa.Store); ok && st.Addr == ssa.Value(lenCell) && mayPrecede(sc, st) {
					late = p.Pos(st.Pos())
				}
			}
			r.Check(late == "", rule, key+":length-final", p.Pos(sc.Pos()), "length is not changed after the header was formatted", "the length is assigned again (at "+late+") after Content-Range was formatted from it")
		}
	}
	if nFmt == 0 {
		r.Viol(rule, fnName(f)+"/content-range", p.Pos(f.Pos()), "cannot find where Content-Range is formatted (anchor drift)")
	}
	// 2. the body window
	m.sectionReaderObligations(p, r, rule, f)
}

// variadicInts: the int64 values packed into a ...any argument, by position.
func variadicInts(v ssa.Value) []ssa.Value {
	sl, ok := v.(*ssa.Slice)
	if !ok {
		return nil
	}
	al, ok := sl.X.(*ssa.Alloc)
	if !ok {
		return nil
	}
	out := map[int]ssa.Value{}
	for _, ref := range *al.Referrers() {
		ia, ok := ref.(*ssa.IndexAddr)
		if !ok {
			continue
		}
		idx, ok := constInt(ia.Index)
		if !ok {
			continue
		}
		for _, st := range storesTo(ia) {
			x := st.Val
			if mi, ok := x.(*ssa.MakeInterface); ok {
				x = mi.X
			}
			out[int(idx)] = x
		}
	}
	var res []ssa.Value
	for i := 0; i < len(out); i++ {
		if out[i] == nil {
			return nil
		}
		res = append(res, out[i])
	}
	return res
}

// ---- R-C01-5: the stored ETag is the MD5 of the bytes that were written ---------------------------------

// descNoZero: descOf without the zero value of an error path (a struct returned empty next to an error).
func descNoZero(v ssa.Value) string {
	var rs []Root
	for _, rt := range terminalRoots(Origins(v, nil)) {
		if rt.Kind == "const" && (rt.Desc == "zero" || rt.Desc == "nil") {
			continue
		}
		rs = append(rs, rt)
	}
	return rootsDesc(rs)
}

func moreETagProvenance(p *Program, r *Report) {
	rule := "R-C01-5"
	if r.Prop == "C08" {
		rule = "R-C08-9"
	}
	r.Rule(rule, "the ETag is the MD5 of the stored bytes: in posix PutObject, UploadPart and UploadPartCopy the value stored under the etag key is the hex form of Sum() of a hash made by md5.New(), that hash is the writer of an io.TeeReader, the reader copied into the temp file is that TeeReader (possibly wrapped by checksum readers that pass bytes through), and Sum() is taken only after the copy; the stored value has no other origin on any path", 3)
	etagKey, _ := pkgConstString(p, "backend/posix", "etagkey")
	through := &originOpts{extra: map[string][]int{"s3api/utils.NewHashReader": {0}, "encoding/hex.EncodeToString": {0}, "io.LimitReader": {0}}}
	for _, name := range []string{"PutObject", "UploadPart", "UploadPartCopy"} {
		f := p.Func(posixP + name)
		// the etag write that goes through the temp file
		var sums []ssa.CallInstruction
		var others []string
		nStores := 0
		for _, mc := range metaCallsIn(f) {
			if mc.method != "StoreAttribute" || mc.keyArg != etagKey || isNilConst(mc.call.Common().Args[0]) {
				continue
			}
			nStores++
			args := mc.call.Common().Args
			for _, rt := range Origins(args[len(args)-1], through) {
				if rt.Kind == "call" && rt.Call != nil && rt.Call.Common().IsInvoke() && rt.Call.Common().Method.Name() == "Sum" {
					sums = append(sums, rt.Call)
				} else if rt.Kind != "const" && rt.Kind != "via" {
					// every way the value is produced must be the digest: an ETag taken over from elsewhere
					// (the source object's attribute, a request field) on some path is not the MD5 of the bytes written
					others = append(others, rt.String())
				}
			}
		}
		if len(others) > 0 {
			r.Viol(rule, fnName(f)+"/etag:only-from-hash-sum", p.Pos(f.Pos()), "the ETag stored through the temp file is on some path not the digest of the copied bytes but "+strings.Join(others, ", ")+" (e.g. the source object's ETag, which for a multipart source is not an MD5): the completed object's ETag is then not the S3 multipart ETag of its parts")
		} else if nStores > 0 {
			r.Ok(rule, fnName(f)+"/etag:only-from-hash-sum", p.Pos(f.Pos()), "the stored ETag has no origin other than the digest")
		}
		key := fnName(f) + "/etag"
		if nStores == 0 || len(sums) == 0 {
			r.Viol(rule, key+":from-hash-sum", p.Pos(f.Pos()), "the ETag stored through the temp file is not derived from a hash's Sum()")
			continue
		}
		for i, sm := range sums {
			k := key + "#" + itoa(i+1)
			h := sm.Common().Value
			isMD5 := false
			for _, rt := range Origins(h, nil) {
				if rt.Kind == "call" && rt.Desc == "crypto/md5.New" {
					isMD5 = true
				} else if rt.Kind == "call" {
					isMD5 = isMD5 && false
				}
			}
			hashDesc := rootsDesc(terminalRoots(Origins(h, nil)))
			r.Check(isMD5 && !strings.Contains(strings.ReplaceAll(hashDesc, "crypto/md5.New", ""), ".New"), rule, k+":md5", p.Pos(sm.Pos()), "hash made by md5.New()", "the ETag is the digest of "+hashDesc+", not of md5.New(): clients and multipart completion compare ETags as MD5")
			// the TeeReader feeding this hash
			var tees []ssa.CallInstruction
			for _, tc := range callsTo(f, "io.TeeReader") {
				if descNoZero(callArgs(tc)[1]) == descNoZero(h) {
					tees = append(tees, tc)
				}
			}
			// the copy into the temp file
			fed := false
			var copies []ssa.CallInstruction
			for _, cc := range callsTo(f, "io.Copy") {
				toTmp := false
				for _, rt := range Origins(callArgs(cc)[0], nil) {
					if rt.Kind == "call" && strings.HasSuffix(rt.Desc, ".openTmpFile") {
						toTmp = true
					}
				}
				if !toTmp {
					continue
				}
				copies = append(copies, cc)
				for _, rt := range Origins(callArgs(cc)[1], through) {
					if rt.Kind == "call" {
						for _, tc := range tees {
							if rt.Call == tc {
								fed = true
							}
						}
					}
				}
			}
			if os.Getenv("VGW_DEBUG") != "" {
				fmt.Fprintf(os.Stderr, "%s %s: tees=%d copies=%d fed=%v hdesc=%s\n", rule, k, len(tees), len(copies), fed, descOf(h))
				for _, tc := range callsTo(f, "io.TeeReader") {
					fmt.Fprintf(os.Stderr, "   tee arg desc=%s\n", descOf(callArgs(tc)[1]))
				}
				for _, cc := range copies {
					fmt.Fprintf(os.Stderr, "   copy src roots=%s\n", rootsDesc(Origins(callArgs(cc)[1], through)))
				}
			}
			r.Check(len(tees) > 0 && fed, rule, k+":hash-sees-written-bytes", p.Pos(sm.Pos()), "the copied reader is the TeeReader of this hash", "the bytes copied into the temp file do not pass through the TeeReader that feeds the ETag's hash: the stored ETag is not the MD5 of the stored bytes")
			early := len(copies) == 0
			for _, cc := range copies {
				if !mayPrecede(cc, sm) || mayPrecede(sm, cc) {
					early = true
				}
			}
			r.Check(!early, rule, k+":sum-after-copy", p.Pos(sm.Pos()), "Sum() only after the copy", "the digest is finalised before (or without) the copy into the temp file: the ETag is the MD5 of a prefix (or of nothing)")
		}
	}
}

// ---- R-C07-5 / R-C07-6: what the walk may append, and where it may start ---------------------------------

func moreWalkAppends(p *Program, r *Report) {
	r.Rule("R-C07-5", "a listing cannot start inside the bookkeeping area: where the walk root is derived from the prefix (backend.Walk), a skipdirs test on the root's segments returns before fs.WalkDir; the callback only prunes entries it visits, so a root below .sgwtmp would list temp files and parts", 2)
	r.Rule("R-C07-6", "every key the walk reports has the prefix and lies after the marker: each append to the result list in the walk callbacks (files and explicit directory objects alike) is unreachable once the edges 'prefix is empty' / 'HasPrefix(key, prefix)' are cut, and unreachable once the edges 'already past the marker' / 'key >= marker' are cut", 4)
	for _, w := range []struct{ fn, marker string }{{"backend.Walk", "marker"}, {"backend.WalkVersions", "keyMarker"}} {
		outer := p.Func(w.fn)
		// R-C07-5
		for _, wc := range callsTo(outer, "io/fs.WalkDir") {
			rootArg := callArgs(wc)[1]
			if s, ok := constString(rootArg); ok {
				r.Ok("R-C07-5", w.fn+"/root", p.Pos(wc.Pos()), "the walk always starts at the bucket root ("+s+")")
				continue
			}
			fromPrefix := false
			for _, rt := range Origins(rootArg, nil) {
				if rt.Kind == "param" && rt.Desc == "prefix" {
					fromPrefix = true
				}
			}
			guarded := false
			for _, ce := range condEdgesOf(outer) {
				cc, ok := ce.cond.(*ssa.Call)
				if !ok || !isSkipdirsTest(cc) {
					continue
				}
				okArgs := false
				for _, a := range cc.Call.Args {
					for _, rt := range Origins(a, nil) {
						if rt.Kind == "param" && rt.Desc == "prefix" {
							okArgs = true
						}
					}
				}
				if okArgs && !reachableFromEdge(outer, ce.holds, nil)[wc.Block()] {
					guarded = true
				}
			}
			r.Check(!fromPrefix || guarded, "R-C07-5", w.fn+"/root", p.Pos(wc.Pos()), "root segments tested against skipdirs before the walk", "the walk root is cut from the prefix but never compared with skipdirs: ListObjects with prefix .sgwtmp/multipart/ lists the parts of uploads in progress (the callback prunes only entries it visits)")
		}
		// R-C07-6
		for _, f := range walkCallbacks(outer) {
			var pfxCut, mrkCut []edge
			for _, ce := range condEdgesOf(f) {
				switch c := ce.cond.(type) {
				case *ssa.BinOp:
					if ce.isEqNeq && ce.atoms["param:prefix"] && ce.atoms[`const:""`] {
						pfxCut = append(pfxCut, ce.holds)
					}
					if c.Op == token.LSS && atomsOf(c.Y)["param:"+w.marker] && !atomsOf(c.X)["param:"+w.marker] {
						mrkCut = append(mrkCut, ce.fails) // key >= marker
					}
					if c.Op == token.GTR && atomsOf(c.X)["param:"+w.marker] && !atomsOf(c.Y)["param:"+w.marker] {
						mrkCut = append(mrkCut, ce.fails)
					}
				case *ssa.Call:
					if calleeName(c) == "strings.HasPrefix" && atomsOf(c.Call.Args[1])["param:prefix"] && !atomsOf(c.Call.Args[0])["param:prefix"] {
						pfxCut = append(pfxCut, ce.holds)
					}
				case *ssa.UnOp:
					if fv, ok := c.X.(*ssa.FreeVar); ok && fv.Name() == "pastMarker" {
						mrkCut = append(mrkCut, ce.holds)
					}
				}
			}
			noPfx := reachable(f, nil, pfxCut)
			noMrk := reachable(f, nil, mrkCut)
			n := 0
			for _, c := range callsIn(f) {
				if !isBuiltinCall(c, "append") {
					continue
				}
				// the result list: the appended slice is stored back into a captured variable
				target := ""
				if c.Value() != nil && c.Value().Referrers() != nil {
					for _, ref := range *c.Value().Referrers() {
						if st, ok := ref.(*ssa.Store); ok {
							if fv, ok := st.Addr.(*ssa.FreeVar); ok {
								target = fv.Name()
							}
						}
					}
				}
				if target != "objects" && target != "delMarkers" {
					continue
				}
				n++
				key := fnName(f) + "/append(" + target + ")#" + itoa(n)
				r.Check(!noPfx[c.Block()], "R-C07-6", key+":has-prefix", p.Pos(c.Pos()), "only keys with the prefix", "an entry is appended on a path that never established that the key has the prefix (explicit directory objects above the prefix, e.g. zz/ for prefix zz/q, are listed)")
				r.Check(!noMrk[c.Block()], "R-C07-6", key+":after-marker", p.Pos(c.Pos()), "only keys after the marker", "an entry is appended on a path that never compared the key with the marker: explicit directory objects are listed again on every page, and a paginator with max-keys=1 never gets past the first one")
			}
			if n == 0 {
				r.Viol("R-C07-6", fnName(f)+"/append", p.Pos(f.Pos()), "cannot find where the walk collects its results (anchor drift)")
			}
		}
	}
}

// noDashText: the string v, used as the text of the ParseInt call use, cannot contain '-'.
func noDashText(f *ssa.Function, use ssa.Instruction, v ssa.Value, seen map[ssa.Value]bool) bool {
	if seen[v] {
		return true
	}
	seen[v] = true
	if s, ok := constString(v); ok {
		return !strings.Contains(s, "-")
	}
	switch x := v.(type) {
	case *ssa.Phi:
		for _, e := range x.Edges {
			if !noDashText(f, use, e, seen) {
				return false
			}
		}
		return len(x.Edges) > 0
	case *ssa.UnOp:
		if x.Op != token.MUL {
			return false
		}
		if ia, ok := x.X.(*ssa.IndexAddr); ok {
			if sp, ok := ia.X.(*ssa.Call); ok && calleeName(sp) == "strings.Split" {
				if sep, ok := constString(sp.Call.Args[1]); ok && sep == "-" {
					return true
				}
			}
		}
		return false
	case *ssa.Extract:
		cut, ok := x.Tuple.(*ssa.Call)
		if !ok || calleeName(cut) != "strings.Cut" {
			return false
		}
		if sep, ok := constString(cut.Call.Args[1]); !ok || sep != "-" {
			return false
		}
		if x.Index == 0 {
			return true // the part before the first separator
		}
		if x.Index != 1 {
			return false
		}
		// the part after it: only if the use is unreachable once the "contains no '-'" edges are cut
		var clean []edge
		for _, ce := range condEdgesOf(f) {
			cc, ok := ce.cond.(*ssa.Call)
			if !ok || calleeName(cc) != "strings.Contains" {
				continue
			}
			if sep, ok := constString(cc.Call.Args[1]); !ok || sep != "-" {
				continue
			}
			same := cc.Call.Args[0] == ssa.Value(x)
			if ph, ok := cc.Call.Args[0].(*ssa.Phi); ok {
				for _, e := range ph.Edges {
					if e == ssa.Value(x) {
						same = true
					}
				}
			}
			if same {
				clean = append(clean, ce.fails)
			}
		}
		if len(clean) > 0 && !reachable(f, nil, clean)[use.Block()] {
			return true
		}
		// or: the text that is cut holds exactly one separator (strings.Count(x, "-") == 1 guards the Cut)
		var once []edge
		for _, ce := range condEdgesOf(f) {
			if !ce.isEqNeq || ce.binop == nil {
				continue
			}
			for _, pr := range [][2]ssa.Value{{ce.binop.X, ce.binop.Y}, {ce.binop.Y, ce.binop.X}} {
				cnt, ok := pr[0].(*ssa.Call)
				if !ok || calleeName(cnt) != "strings.Count" {
					continue
				}
				if one, ok := constInt(pr[1]); !ok || one != 1 {
					continue
				}
				if sep, ok := constString(cnt.Call.Args[1]); !ok || sep != "-" {
					continue
				}
				if cnt.Call.Args[0] == cut.Call.Args[0] {
					once = append(once, ce.holds)
				}
			}
		}
		return len(once) > 0 && !reachable(f, nil, once)[cut.Block()]
	}
	return false
}

var _ = token.ADD
