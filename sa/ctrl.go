package main

import (
	"go/types"
	"sort"
	"strings"

	"golang.org/x/tools/go/ssa"
)

// Model of the controllers layer shared by C02, C03, C10, C14, C15, C19.

const ctrlPkg = "s3api/controllers"

// s3Handlers: route-handler methods of S3ApiController (signature func(*fiber.Ctx) error).
func s3Handlers(p *Program) []*ssa.Function {
	var out []*ssa.Function
	for _, f := range p.Methods(ctrlPkg, "S3ApiController") {
		if isFiberHandlerSig(f.Signature) {
			out = append(out, f)
		}
	}
	if len(out) < 10 {
		broken("only %d S3ApiController handlers found (expected >= 10)", len(out))
	}
	return out
}

func adminHandlers(p *Program) []*ssa.Function {
	var out []*ssa.Function
	for _, f := range p.Methods(ctrlPkg, "AdminController") {
		if isFiberHandlerSig(f.Signature) {
			out = append(out, f)
		}
	}
	return out
}

func isFiberHandlerSig(sig *types.Signature) bool {
	if sig.Params().Len() != 1 || sig.Results().Len() != 1 {
		return false
	}
	return typeStr(sig.Params().At(0).Type()) == "*github.com/gofiber/fiber/v2.Ctx" && isErrorType(sig.Results().At(0).Type())
}

func typeStr(t types.Type) string {
	return strings.ReplaceAll(types.TypeString(t, nil), modPath+"/", "")
}

// isBackendCall: an interface invoke on a value of named type backend.Backend.
func isBackendCall(c ssa.CallInstruction) bool {
	cc := c.Common()
	if !cc.IsInvoke() {
		return false
	}
	return typeStr(cc.Value.Type()) == "backend.Backend"
}

func isIAMCall(c ssa.CallInstruction) bool {
	cc := c.Common()
	return cc.IsInvoke() && typeStr(cc.Value.Type()) == "auth.IAMService"
}

type beCall struct {
	call   ssa.CallInstruction
	fn     *ssa.Function
	method string
	key    string
}

func backendCalls(fns []*ssa.Function) []beCall {
	var out []beCall
	for _, top := range fns {
		for _, f := range withAnon(top) {
			var cs []ssa.CallInstruction
			for _, c := range callsIn(f) {
				if isBackendCall(c) {
					cs = append(cs, c)
				}
			}
			keys := siteKeys(f, cs)
			for _, c := range cs {
				out = append(out, beCall{c, f, c.Common().Method.Name(), keys[c]})
			}
		}
	}
	return out
}

const (
	fnVerifyAccess     = "auth.VerifyAccess"
	fnVerifyCopyAccess = "auth.VerifyObjectCopyAccess"
	fnCheckObjAccess   = "auth.CheckObjectAccess"
	fnIsAdminOrOwner   = "auth.IsAdminOrOwner"
	fnVerifyBucketPol  = "auth.VerifyBucketPolicy"
)

// decision: a call to VerifyAccess / VerifyObjectCopyAccess with its AccessOptions literal.
type decision struct {
	call   ssa.CallInstruction
	fn     *ssa.Function
	kind   string
	fields map[string][]ssa.Value
	key    string
}

func decisions(fns []*ssa.Function) []decision {
	var out []decision
	for _, top := range fns {
		for _, f := range withAnon(top) {
			cs := callsTo(f, fnVerifyAccess, fnVerifyCopyAccess)
			keys := siteKeys(f, cs)
			for _, c := range cs {
				d := decision{call: c, fn: f, kind: calleeName(c), key: keys[c]}
				args := callArgs(c)
				opt := args[len(args)-1]
				d.fields, _ = litFieldsAt(opt, c)
				out = append(out, d)
			}
		}
	}
	return out
}

// constOf: the set of named constants / literal values a field value may take
// (through Phi); ok=false if some origin is not a constant.
func constNames(p *Program, v ssa.Value) ([]string, bool) {
	var names []string
	ok := true
	seen := map[ssa.Value]bool{}
	var walk func(v ssa.Value)
	walk = func(v ssa.Value) {
		if seen[v] {
			return
		}
		seen[v] = true
		switch x := v.(type) {
		case *ssa.Const:
			names = append(names, constLabel(p, x))
		case *ssa.Phi:
			for _, e := range x.Edges {
				walk(e)
			}
		case *ssa.ChangeType:
			walk(x.X)
		case *ssa.Convert:
			walk(x.X)
		default:
			// cell?
			rs := terminalRoots(Origins(v, nil))
			for _, r := range rs {
				if r.Kind == "const" {
					if c, isC := r.Val.(*ssa.Const); isC {
						names = append(names, constLabel(p, c))
						continue
					}
				}
				ok = false
			}
		}
	}
	walk(v)
	sort.Strings(names)
	return uniq(names), ok
}

func uniq(s []string) []string {
	var out []string
	for i, x := range s {
		if i == 0 || x != s[i-1] {
			out = append(out, x)
		}
	}
	return out
}

// constLabel: the value of a constant rendered as the string it denotes
// (auth.Action and auth.Permission are string types).
func constLabel(p *Program, c *ssa.Const) string {
	if c.Value == nil {
		return "nil"
	}
	if s, ok := constString(c); ok {
		return s
	}
	return c.Value.ExactString()
}

// pkgStringConsts: package-level constants of a named string type: name -> value.
func pkgConstsOfType(p *Program, pkg, typ string) map[string]string {
	out := map[string]string{}
	pk := p.Pkg(pkg)
	sc := pk.Types.Scope()
	for _, n := range sc.Names() {
		if c, ok := sc.Lookup(n).(*types.Const); ok {
			if nt, ok := c.Type().(*types.Named); ok && nt.Obj().Name() == typ && nt.Obj().Pkg() == pk.Types {
				out[n] = strings.Trim(c.Val().ExactString(), `"`)
			}
		}
	}
	return out
}

// guardsOf: decisions in the same function whose success edge cut makes target unreachable (individually).
func guardsOf(target ssa.Instruction, ds []decision) []decision {
	var out []decision
	for _, d := range ds {
		if d.fn != target.Parent() {
			continue
		}
		if guardedBy(d.fn, target, []ssa.CallInstruction{d.call}) {
			out = append(out, d)
		}
	}
	return out
}
