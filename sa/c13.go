package main

import (
	"strings"

	"golang.org/x/tools/go/ssa"
)

func init() {
	register(&propCheck{id: "C13", run: runC13, controls: controlsC13})
}

func runC13(p *Program, r *Report) {
	r.Rule("R-C13-1", "one source for length, range header and body window: in posix.GetObject the offset/length given to io.NewSectionReader, the ContentLength field and the numbers formatted into ContentRange all originate from the results of one backend.ParseGetObjectRange call; ContentRange is set only on the isValid edge", 5)
	r.Rule("R-C13-2", "206 is the backend's verdict: in GetActions the branch on which 206 reaches the response status depends on the backend result's ContentRange and on no request accessor (ctx.Get(\"Range\"))", 2)
	r.Rule("R-C13-3", "an invalid range is an error before any body: os.Open of the object is reachable only through the success edge of ParseGetObjectRange, and a 416 from the parser is not swallowed", 2)
	r.Rule("R-C13-4", "the response body window and headers are emitted from the backend result: GetActions streams res.Body with res.ContentLength and emits Content-Range from res.ContentRange", 3)

	f := p.Func("(*backend/posix.Posix).GetObject")
	prs := callsTo(f, "backend.ParseGetObjectRange")
	if len(prs) != 1 {
		r.Viol("R-C13-1", fnName(f)+"/ParseGetObjectRange", p.Pos(f.Pos()), "expected exactly one ParseGetObjectRange call in posix.GetObject, found "+itoa(len(prs)))
		return
	}
	pr := prs[0]
	fromResult := func(v ssa.Value, idx int) bool {
		for _, rt := range Origins(v, nil) {
			if rt.Kind == "call" && rt.Call == pr && rt.Idx == idx {
				return true
			}
		}
		return false
	}
	onlyParserOrConst := func(v ssa.Value, idxs ...int) (bool, string) {
		rs := terminalRoots(Origins(v, nil))
		for _, rt := range rs {
			if rt.Kind == "const" {
				continue // directory objects: length forced to 0
			}
			ok := false
			if rt.Kind == "call" && rt.Call == pr {
				for _, i := range idxs {
					if rt.Idx == i {
						ok = true
					}
				}
			}
			if !ok {
				return false, rootsDesc(rs)
			}
		}
		return len(rs) > 0, rootsDesc(rs)
	}
	// the parser is applied to the object's size and the request's Range
	pa := callArgs(pr)
	sizeOK := false
	for _, rt := range Origins(pa[0], nil) {
		if rt.Kind == "call" && strings.HasSuffix(rt.Desc, ".Size") {
			sizeOK = true
		}
	}
	r.Check(sizeOK, "R-C13-1", fnName(f)+"/parser.size<-stat", p.Pos(pr.Pos()), "size argument is the stat'ed object size", "ParseGetObjectRange is not applied to the object's stat size")
	rngOK := false
	for _, rt := range Origins(pa[1], nil) {
		if rt.Kind == "field" && rt.Desc == "Range" {
			rngOK = true
		}
	}
	r.Check(rngOK, "R-C13-1", fnName(f)+"/parser.range<-input.Range", p.Pos(pr.Pos()), "range argument is input.Range", "ParseGetObjectRange is not applied to the request's Range")
	// section reader
	n := 0
	for _, sc := range sectionCallsIn(f) {
		n++
		c := sc.call
		a := []ssa.Value{nil, sc.off, sc.length}
		ok1, d1 := onlyParserOrConst(a[1], 0)
		ok2, d2 := onlyParserOrConst(a[2], 1)
		r.Check(ok1 && fromResult(a[1], 0), "R-C13-1", fnName(f)+"/section#"+itoa(n)+".offset", p.Pos(c.Pos()), "offset <- parser result #0", "the body window's offset does not come from ParseGetObjectRange: "+d1)
		r.Check(ok2 && fromResult(a[2], 1), "R-C13-1", fnName(f)+"/section#"+itoa(n)+".length", p.Pos(c.Pos()), "length <- parser result #1", "the body window's length does not come from ParseGetObjectRange: "+d2)
	}
	if n == 0 {
		r.Viol("R-C13-1", fnName(f)+"/section", p.Pos(f.Pos()), "no io.NewSectionReader: ranged reads are not windowed")
	}
	// returned literals: ContentLength, ContentRange
	nl := 0
	var crCells []ssa.Value
	for _, ret := range returnsOf(f) {
		fs, _ := litFields(ret.Results[0])
		if fs == nil || len(fs["ContentLength"]) == 0 {
			continue
		}
		nl++
		k := fnName(f) + "/result#" + itoa(nl)
		ok, d := onlyParserOrConst(fs["ContentLength"][0], 1)
		r.Check(ok && fromResult(fs["ContentLength"][0], 1), "R-C13-1", k+".ContentLength", p.Pos(ret.Pos()), "ContentLength <- parser result #1", "Content-Length does not come from ParseGetObjectRange's length: "+d)
		if cr := fs["ContentRange"]; len(cr) == 1 {
			crCells = append(crCells, cr[0])
			// numbers in the Sprintf
			okN := fromResult(cr[0], 0) && fromResult(cr[0], 1)
			r.Check(okN, "R-C13-1", k+".ContentRange", p.Pos(ret.Pos()), "Content-Range formatted from parser results", "Content-Range is not formatted from ParseGetObjectRange's offset and length")
		} else {
			r.Viol("R-C13-1", k+".ContentRange", p.Pos(ret.Pos()), "ContentRange not set in the result")
		}
	}
	if nl < 1 {
		r.Viol("R-C13-1", fnName(f)+"/result", p.Pos(f.Pos()), "no GetObjectOutput literal with ContentLength found")
	}
	// ContentRange becomes non-empty only on the isValid edge: every store of a non-constant string into the
	// contentRange cell is reachable only through the true edge of parser result #2
	var validE []edge
	for _, ce := range condEdgesOf(f) {
		if !ce.isEqNeq && fromResult(ce.cond, 2) {
			validE = append(validE, ce.holds)
		}
	}
	okV := len(validE) > 0
	for _, cell := range crCells {
		a, isAlloc := cell.(*ssa.Alloc)
		if !isAlloc {
			continue
		}
		for _, st := range storesTo(a) {
			// the stored value may be the merged result of a helper: look at what flows in on each edge
			for _, lf := range valueLeaves(st.Val, st.Block()) {
				if _, isConst := lf.val.(*ssa.Const); isConst {
					continue
				}
				if reachable(f, nil, validE)[lf.from] {
					okV = false
				}
			}
		}
	}
	r.Check(okV, "R-C13-1", fnName(f)+"/ContentRange-only-if-valid", p.Pos(pr.Pos()), "ContentRange set only when the parser honored the range", "Content-Range can be set although the parser did not honor the range (isValid false)")

	// R-C13-3
	for i, c := range callsTo(f, "os.Open") {
		r.Check(guardedBy(f, c, []ssa.CallInstruction{pr}), "R-C13-3", fnName(f)+"/os.Open#"+itoa(i+1), p.Pos(c.Pos()), "object opened only after the range was accepted", "the object is opened although ParseGetObjectRange may have failed (416)")
	}
	ok, why := failsClosed(f, pr)
	r.Check(ok, "R-C13-3", fnName(f)+"/parser-error-returned", p.Pos(pr.Pos()), why, "a range error from the parser is swallowed: "+why)

	c13Controller(p, r)
}

func c13Controller(p *Program, r *Report) {
	h := p.Func("(" + ctrlPkg + ".S3ApiController).GetActions")
	var goc ssa.CallInstruction
	for _, c := range callsIn(h) {
		if isBackendCall(c) && c.Common().Method.Name() == "GetObject" {
			goc = c
		}
	}
	if goc == nil {
		broken("R-C13-2: be.GetObject call not found in GetActions")
	}
	// find where the constant 206 flows
	var sites []*ssa.BasicBlock
	var merge *ssa.BasicBlock
	for _, b := range h.Blocks {
		for _, in := range b.Instrs {
			phi, ok := in.(*ssa.Phi)
			if !ok {
				continue
			}
			for i, e := range phi.Edges {
				if v, isI := constInt(e); isI && v == 206 {
					sites = append(sites, b.Preds[i])
					merge = b
				}
			}
		}
	}
	key := fnName(h) + "/status-206"
	if len(sites) == 0 {
		r.Viol("R-C13-2", key, p.Pos(h.Pos()), "cannot find where 206 is chosen (anchor drift)")
		return
	}
	reachM := func(cut []edge, b *ssa.BasicBlock) bool {
		if !reachable(h, nil, cut)[b] {
			return false
		}
		if b == merge {
			return true
		}
		// a site is the edge site -> merge: it is passable when one of its copies is not cut
		for i, su := range b.Succs {
			if su != merge {
				continue
			}
			isCut := false
			for _, e := range cut {
				if e.from == b && e.succ == i {
					isCut = true
				}
			}
			if !isCut {
				return true
			}
		}
		return false
	}
	fromBackend, fromRequest := false, ""
	ncond := 0
	for _, ce := range condEdgesOf(h) {
		for _, s := range sites {
			needH := !reachM([]edge{ce.holds}, s) && reachM([]edge{ce.holds}, merge)
			needF := !reachM([]edge{ce.fails}, s) && reachM([]edge{ce.fails}, merge)
			if !needH && !needF {
				continue
			}
			ncond++
			for _, rt := range Origins(ce.cond, nil) {
				if rt.Kind == "call" && rt.Call == goc {
					for _, x := range Origins(ce.cond, nil) {
						if x.Kind == "field" && x.Desc == "ContentRange" {
							fromBackend = true
						}
					}
				}
				if rt.Kind == "call" && strings.HasPrefix(rt.Desc, fiberCtx+".") && rt.Call != nil {
					m := strings.TrimPrefix(rt.Desc, fiberCtx+".")
					if m == "Get" || m == "Query" || m == "Params" || m == "GetReqHeaders" {
						fromRequest = m
					}
				}
			}
		}
	}
	r.Check(fromBackend, "R-C13-2", key+":from-backend", p.Pos(goc.Pos()), "206 is chosen from the backend result's ContentRange", "the 206 status is not derived from the backend result's ContentRange")
	r.Check(fromRequest == "" && ncond > 0, "R-C13-2", key+":not-from-request", p.Pos(goc.Pos()), "no request accessor decides 206", "the 206 status depends on the request header (ctx."+fromRequest+"): it disagrees with the body whenever the backend does not honor the range")
	// R-C13-4: streamed body and headers from the backend result
	for _, c := range callsTo(h, utilsPkg+".StreamResponseBody") {
		a := callArgs(c)
		okB, okL := false, false
		for _, rt := range Origins(a[1], nil) {
			if rt.Kind == "field" && rt.Desc == "Body" {
				okB = true
			}
		}
		for _, rt := range Origins(a[2], nil) {
			if rt.Kind == "field" && rt.Desc == "ContentLength" {
				okL = true
			}
		}
		r.Check(okB, "R-C13-4", fnName(h)+"/stream.body", p.Pos(c.Pos()), "streams res.Body", "the streamed body is not the backend result's Body")
		if v, isC := constInt(a[2]); isC && v == -1 && !okL {
			// "until EOF": only where the backend result carries no ContentLength
			var cut []edge
			for _, ce := range condEdgesOf(h) {
				if ce.isEqNeq && ce.atoms["field:ContentLength"] && ce.atoms["const:nil"] {
					cut = append(cut, ce.holds)
				}
			}
			okL = len(cut) > 0 && !reachable(h, nil, cut)[c.Block()]
		}
		r.Check(okL, "R-C13-4", fnName(h)+"/stream.length", p.Pos(c.Pos()), "length from res.ContentLength", "the streamed length is not the backend result's ContentLength")
	}
	// Content-Range header value from res.ContentRange
	found := false
	for _, b := range h.Blocks {
		for _, in := range b.Instrs {
			st, ok := in.(*ssa.Store)
			if !ok {
				continue
			}
			if s, isS := constString(st.Val); isS && s == "Content-Range" {
				// sibling store of Value in the same struct
				fa, isFA := st.Addr.(*ssa.FieldAddr)
				if !isFA {
					continue
				}
				for _, ref := range *fa.X.Referrers() {
					fb, isFB := ref.(*ssa.FieldAddr)
					if !isFB || fieldName(fb.X.Type(), fb.Field) != "Value" {
						continue
					}
					for _, vs := range storesTo(fb) {
						for _, rt := range Origins(vs.Val, nil) {
							if rt.Kind == "field" && rt.Desc == "ContentRange" {
								found = true
							}
						}
					}
				}
			}
		}
	}
	r.Check(found, "R-C13-4", fnName(h)+"/Content-Range-header", p.Pos(goc.Pos()), "Content-Range header <- res.ContentRange", "the Content-Range response header is not taken from the backend result")
}

func controlsC13() []Control {
	return []Control{
		{Name: "posix.GetObject: ContentLength from the object size", Rule: "R-C13-1", File: "backend/posix/posix.go",
			Old: "\t\tAcceptRanges:       backend.GetPtrFromString(\"bytes\"),\n\t\tContentLength:      &length,\n\t\tContentEncoding:    objMeta.ContentEncoding,\n\t\tContentType:        objMeta.ContentType,\n\t\tContentDisposition:", New: "\t\tAcceptRanges:       backend.GetPtrFromString(\"bytes\"),\n\t\tContentLength:      &objSize,\n\t\tContentEncoding:    objMeta.ContentEncoding,\n\t\tContentType:        objMeta.ContentType,\n\t\tContentDisposition:", Expect: "ContentLength"},
		{Name: "revert fix 31425f3: 206 from the Range header", Rule: "R-C13-2", File: "s3api/controllers/base.go",
			Old: "if getstring(res.ContentRange) != \"\" {\n\t\tstatus = http.StatusPartialContent", New: "if acceptRange != \"\" {\n\t\tstatus = http.StatusPartialContent", Expect: "status-206"},
		{Name: "posix.GetObject: range error ignored", Rule: "R-C13-3", File: "backend/posix/posix.go",
			Old: "startOffset, length, isValid, err := backend.ParseGetObjectRange(objSize, *input.Range)\n\tif err != nil {\n\t\treturn nil, err\n\t}", New: "startOffset, length, isValid, err := backend.ParseGetObjectRange(objSize, *input.Range)\n\tif err != nil && objSize < 0 {\n\t\treturn nil, err\n\t}", Expect: "os.Open"},
		{Name: "posix.GetObject: Content-Range also for ignored ranges", Rule: "R-C13-1", File: "backend/posix/posix.go",
			Old: "\tvar contentRange string\n\tif isValid {", New: "\tvar contentRange string\n\tif isValid || *input.Range != \"\" {", Expect: "ContentRange-only-if-valid"},
	}
}
