package main

import (
	"fmt"
	"go/token"
	"go/types"
	"os"
	"sort"
	"strings"

	"golang.org/x/tools/go/ssa"
)

func init() {
	register(&propCheck{id: "C06", run: runC06, controls: controlsC06})
	register(&propCheck{id: "C12", run: runC12, controls: controlsC12})
}

const posixP = "(*backend/posix.Posix)."

// tmpfileOrigin: v (a writer or receiver) originates from an openTmpFile call result.
func fromOpenTmp(v ssa.Value) bool {
	for _, rt := range Origins(v, nil) {
		if rt.Kind == "call" && strings.HasSuffix(rt.Desc, ".openTmpFile") {
			return true
		}
		if rt.Kind == "call" && strings.HasSuffix(rt.Desc, ".tmpfile).File") && rt.Call != nil {
			if rv := callRecv(rt.Call); rv != nil && rv != v && fromOpenTmp(rv) {
				return true
			}
		}
	}
	return false
}

// constComparisons: constant strings that a value derived from a parameter is compared (==) with anywhere in f.
func constComparisons(f *ssa.Function) map[string]bool {
	out := map[string]bool{}
	for _, b := range f.Blocks {
		for _, in := range b.Instrs {
			// membership in a constant table counts as a comparison with each of its entries
			if c, isCall := in.(*ssa.Call); isCall {
				if pp := programOf(f); pp != nil {
					if names, _, subj, isT := tableMembershipTest(pp, c); isT && subj != nil {
						for _, nm := range names {
							out[nm] = true
						}
					}
				}
				continue
			}
			bo, ok := in.(*ssa.BinOp)
			if !ok || bo.Op != token.EQL {
				continue
			}
			for _, side := range []ssa.Value{bo.X, bo.Y} {
				if s, isS := constString(side); isS {
					out[s] = true
				}
			}
		}
	}
	return out
}

func runC06(p *Program, r *Report) {
	r.Rule("R-C06-1", "publish only after a clean copy: in every posix function that publishes a temp file, (*tmpfile).link is reachable only through the success edge of an io.Copy into that temp file", 5)
	r.Rule("R-C06-2", "every verifying reader fails closed: HashReader accepts exactly the hash types it can verify (constructor, Read and Sum tables agree), a digest mismatch edge returns an error, and the inner reader's error is returned only past the end-of-stream comparison (or when no expected sum / no EOF)", 10)
	r.Rule("R-C06-3", "the MD5 / SHA-256 assertions are installed on both branches: VerifyMD5Body lets a request with Content-MD5 through only behind the in-memory comparison or the deferred md5 HashReader; NewAuthReader hashes the body with sha256 unless the payload type is special, and the auth reader compares it", 5)
	r.Rule("R-C06-4", "declared length is enforced both ways: in posix PutObject/UploadPart the byte count returned by io.Copy is compared with the declared length and link() is reachable only through the equal edge; (*tmpfile).Write refuses excess", 3)
	r.Rule("R-C06-5", "checksum headers reach a verifying reader: every Checksum* field of the PutObject/UploadPart input is wrapped into a HashReader with its own hash type in posix, and the controller passes each parsed checksum header into its field", 10)

	// R-C06-1
	n := 0
	for _, f := range p.FuncsIn("backend/posix") {
		if f.Parent() != nil {
			continue
		}
		var links, copies []ssa.CallInstruction
		for _, c := range callsIn(f) {
			switch calleeName(c) {
			case "(*backend/posix.tmpfile).link":
				if _, isCall := c.(*ssa.Call); isCall {
					links = append(links, c)
				}
			case "io.Copy":
				if fromOpenTmp(callArgs(c)[0]) {
					copies = append(copies, c)
				}
			}
		}
		keys := siteKeys(f, links)
		for _, l := range links {
			n++
			if fnName(f) == "(*backend/scoutfs.ScoutFS).CompleteMultipartUpload" {
				continue
			}
			ok := len(copies) > 0
			for _, c := range copies {
				inLoop := false
				for _, su := range c.Block().Succs {
					if reachable(f, su, nil)[c.Block()] {
						inLoop = true
					}
				}
				if inLoop {
					// a copy per part: its failure must not reach the link
					_, nonNil := nilTestEdgesCall(c)
					if len(nonNil) == 0 {
						ok = false
					}
					for _, e := range nonNil {
						if reachableFromEdge(f, e, nil)[l.Block()] {
							ok = false
						}
					}
				} else if !guardedBy(f, l, []ssa.CallInstruction{c}) {
					ok = false
				}
			}
			r.Check(ok, "R-C06-1", keys[l], p.Pos(l.Pos()), "link only after the copy into the temp file succeeded", "the temp file is published although copying the data into it may have failed (or nothing was copied): a rejected or truncated upload becomes the object")
		}
	}
	if n < 5 {
		broken("R-C06-1: only %d link() sites found in backend/posix", n)
	}

	// the integrity verdicts (Content-MD5, checksums, chunk signatures, length) are delivered by the reader
	// chain with the final io.EOF: the copy must read the body to its end through EOF-transparent wrappers
	for _, name := range []string{"PutObject", "UploadPart"} {
		f := p.Func(posixP + name)
		good, bad := drainCalls(f)
		for i, b := range bad {
			r.Viol("R-C06-1", fnName(f)+"/bounded-read#"+itoa(i+1), p.Pos(f.Pos()), b+": the end-of-stream integrity checks of the reader chain are never reached")
		}
		r.Check(len(good) > 0, "R-C06-1", fnName(f)+"/reads-body-to-EOF", p.Pos(f.Pos()), "body read to its end", "no io.Copy/io.ReadAll reads the request body to its end: the end-of-stream integrity checks never run")
	}

	c06HashReader(p, r)
	c06Installed(p, r)
	c06Length(p, r)
	c06Checksums(p, r)
}

func hashTypeConsts(p *Program) map[string]string {
	return pkgConstsOfType(p, utilsPkg, "HashType")
}

// casesOn: the constant strings compared (==) with a value whose atoms include field `field` in f.
func casesOn(f *ssa.Function, field string) map[string]condEdge {
	out := map[string]condEdge{}
	for _, ce := range condEdgesOf(f) {
		if !ce.isEqNeq || ce.binop == nil {
			continue
		}
		var other ssa.Value
		if s, ok := constString(ce.binop.Y); ok {
			_ = s
			other = ce.binop.X
		} else if _, ok := constString(ce.binop.X); ok {
			other = ce.binop.Y
		} else {
			continue
		}
		isField := false
		if field == "<param>" {
			for _, rt := range terminalRoots(Origins(other, nil)) {
				if rt.Kind == "param" {
					isField = true
				}
			}
		} else {
			for _, rt := range Origins(other, nil) {
				if rt.Kind == "field" && rt.Desc == field {
					isField = true
				}
			}
		}
		if !isField {
			continue
		}
		for a := range ce.atoms {
			if strings.HasPrefix(a, `const:"`) {
				out[strings.Trim(strings.TrimPrefix(a, "const:"), `"`)] = ce
			}
		}
	}
	return out
}

func c06HashReader(p *Program, r *Report) {
	all := hashTypeConsts(p)
	nf := p.Func(utilsPkg + ".NewHashReader")
	rf := p.Func("(*" + utilsPkg + ".HashReader).Read")
	sf := p.Func("(*" + utilsPkg + ".HashReader).Sum")
	accepted := casesOn(nf, "<param>")
	verified := casesOn(rf, "hashType")
	summed := casesOn(sf, "hashType")
	names := []string{}
	for _, v := range all {
		names = append(names, v)
	}
	sort.Strings(names)
	for _, v := range names {
		_, acc := accepted[v]
		_, ver := verified[v]
		_, sum := summed[v]
		if v == "" || !acc {
			continue
		}
		noneLike := false
		for nme, val := range all {
			if val == v && nme == "HashTypeNone" {
				noneLike = true
			}
		}
		if noneLike {
			continue
		}
		_ = ver
		r.Check(sum, "R-C06-2", "HashReader/sums:"+v, p.Pos(sf.Pos()), "accepted type has a Sum encoding", "NewHashReader accepts hash type "+v+" but Sum() does not encode it (returns \"\")")
	}
	// constructor: unknown type -> error
	okDefault := false
	for _, s := range errReturnSites(nf) {
		if !isNilConst(s.val) {
			okDefault = true
		}
	}
	r.Check(okDefault, "R-C06-2", "NewHashReader/default-refuses", p.Pos(nf.Pos()), "unknown hash types are refused", "NewHashReader no longer refuses unknown hash types")
	// mismatch edges: conditions comparing a Sum() result with field sum; the unequal edge reaches only non-nil error returns
	nm := 0
	var equalEdges []edge
	innerSite := func(s retSite) bool {
		for _, rt := range Origins(s.val, nil) {
			if rt.Kind == "call" && strings.HasSuffix(rt.Desc, ".Read") {
				return true
			}
		}
		return false
	}
	for _, ce := range condEdgesOf(rf) {
		if !ce.isEqNeq || ce.binop == nil {
			continue
		}
		isSumCmp := false
		for _, side := range [][2]ssa.Value{{ce.binop.X, ce.binop.Y}, {ce.binop.Y, ce.binop.X}} {
			a, b := false, false
			for _, rt := range Origins(side[0], nil) {
				if rt.Kind == "call" && strings.HasSuffix(rt.Desc, ".Sum") {
					a = true
				}
			}
			for _, rt := range Origins(side[1], nil) {
				if rt.Kind == "field" && rt.Desc == "sum" {
					b = true
				}
			}
			if a && b {
				isSumCmp = true
			}
		}
		if !isSumCmp {
			continue
		}
		nm++
		equalEdges = append(equalEdges, ce.holds)
		reach := reachableFromEdge(rf, ce.fails, nil)
		bad := false
		for _, s := range errReturnSites(rf) {
			if !s.reachedIn(reach) {
				continue
			}
			// a nil return, or returning the inner (EOF) error, on a mismatch is a swallow
			if isNilConst(s.val) || innerSite(s) {
				bad = true
			}
		}
		r.Check(!bad, "R-C06-2", fnName(rf)+"/mismatch#"+itoa(nm), p.Pos(ce.pos()), "digest mismatch returns an error", "a digest mismatch does not fail the read (returns nil or the inner io.EOF): the corrupted upload completes")
	}
	if nm < 1 {
		r.Viol("R-C06-2", fnName(rf)+"/mismatch", p.Pos(rf.Pos()), "HashReader.Read compares no digest with the expected sum")
	}
	// Per accepted hash type T: with the type tests decided for T, the inner reader's error (its io.EOF) is returned
	// only when it is not EOF, when no sum is expected, or past the equal edge of a digest comparison. This is
	// indifferent to whether the comparison is written once per case or once after the switch.
	var passBase []edge
	for _, ce := range condEdgesOf(rf) {
		if isEOFCond(ce) {
			passBase = append(passBase, ce.fails)
		}
		if ce.isEqNeq && ce.atoms["field:sum"] && ce.atoms[`const:""`] && !ce.atoms["call:(*"+utilsPkg+".HashReader).Sum"] {
			passBase = append(passBase, ce.holds) // sum == ""
		}
	}
	var inner []retSite
	for _, s := range errReturnSites(rf) {
		if innerSite(s) {
			inner = append(inner, s)
		}
	}
	if len(inner) == 0 {
		r.Viol("R-C06-2", fnName(rf)+"/inner-error-return", p.Pos(rf.Pos()), "no return of the inner reader's error found (anchor drift)")
	}
	for _, v := range names {
		if _, acc := accepted[v]; !acc || v == "" {
			continue
		}
		noneLike := false
		for nme, val := range all {
			if val == v && nme == "HashTypeNone" {
				noneLike = true
			}
		}
		if noneLike {
			continue
		}
		cut := append(append([]edge{}, passBase...), equalEdges...)
		for _, ce := range condEdgesOf(rf) {
			if !ce.isEqNeq || !ce.atoms["field:hashType"] {
				continue
			}
			for a := range ce.atoms {
				if strings.HasPrefix(a, `const:"`) {
					if strings.Trim(strings.TrimPrefix(a, "const:"), `"`) == v {
						cut = append(cut, ce.fails)
					} else {
						cut = append(cut, ce.holds)
					}
				}
			}
		}
		bad := false
		for _, s := range inner {
			if siteReachable(rf, s, cut) {
				bad = true
			}
		}
		r.Check(!bad, "R-C06-2", "HashReader/verifies:"+v, p.Pos(rf.Pos()), "end of stream reported only past an equal digest comparison", "for hash type "+v+" HashReader.Read can return the inner reader's io.EOF with an expected sum set and no digest comparison passed: a wrong "+v+" value is silently accepted")
	}
}

func c06Installed(p *Program, r *Report) {
	f := p.Func(mwPkg + ".VerifyMD5Body$1")
	nexts := callsTo(f, fiberCtx+".Next")
	keys := siteKeys(f, nexts)
	var cut []edge
	for _, ce := range condEdgesOf(f) {
		if ce.isEqNeq && ce.atoms["arg:Content-Md5"] && ce.atoms[`const:""`] && !ce.atoms["call:crypto/md5.Sum"] {
			cut = append(cut, ce.holds) // no Content-MD5 header: nothing asserted
		}
		if ce.isEqNeq && ce.atoms["call:crypto/md5.Sum"] && ce.atoms["arg:Content-Md5"] {
			cut = append(cut, ce.holds) // in-memory comparison equal
		}
	}
	bigs := bigCalls(f)
	wr := wrapCallsWith(f, utilsPkg+".NewHashReader")
	for _, b := range bigs {
		cut = append(cut, b.holds)
	}
	for _, nx := range nexts {
		r.Check(!reachable(f, nil, cut)[nx.Block()], "R-C06-3", keys[nx]+":md5", p.Pos(nx.Pos()), "Next() only without Content-MD5, after the comparison matched, or on the deferred branch", "a request with a Content-MD5 header reaches the handler without the digest having been compared or a verifying reader installed")
	}
	for i, b := range bigs {
		avoid := map[*ssa.BasicBlock]bool{}
		for _, w := range wr {
			avoid[w.Block()] = true
		}
		reach := reachableAvoiding(f, b.holds.from.Succs[b.holds.succ], nil, avoid)
		bad := len(wr) == 0
		for _, nx := range nexts {
			if reach[nx.Block()] {
				bad = true
			}
		}
		r.Check(!bad, "R-C06-3", fnName(f)+"/deferred#"+itoa(i+1)+":installs-md5-reader", p.Pos(b.pos()), "deferred branch installs NewHashReader(md5)", "the deferred branch reaches Next() without installing the md5 HashReader")
	}
	// the installed reader is an md5 reader with the header value as expected sum
	for _, cl := range f.AnonFuncs {
		for _, c := range callsTo(cl, utilsPkg+".NewHashReader") {
			a := callArgs(c)
			ht, _ := constString(a[2])
			exp := hasCallRoot(Origins(a[1], nil), fiberCtx+".Get", "Content-Md5")
			r.Check(ht == "md5" && exp, "R-C06-3", fnName(f)+"/md5-reader-args", p.Pos(c.Pos()), "NewHashReader(r, Content-Md5, md5)", "the deferred MD5 reader is not built with the Content-MD5 header value and hash type md5")
		}
	}
	// NewAuthReader: sha256-hex unless special payload
	af := p.Func(utilsPkg + ".NewAuthReader")
	okSha := false
	{
		// every hash type other than sha256-hex reaches NewHashReader only behind the IsSpecialPayload edge
		var special []edge
		for _, ce := range condEdgesOf(af) {
			if cc, ok := ce.cond.(*ssa.Call); ok && calleeName(cc) == utilsPkg+".IsSpecialPayload" {
				special = append(special, ce.holds)
			}
		}
		sha, other := 0, 0
		for _, c := range callsTo(af, utilsPkg+".NewHashReader") {
			for _, lf := range valueLeaves(callArgs(c)[2], c.Block()) {
				if ht, isC := constString(lf.val); isC && ht == "sha256-hex" {
					if !leafOnlyBehind(af, lf, special) {
						sha++ // the ordinary path gets sha256
					}
					continue
				}
				if !leafOnlyBehind(af, lf, special) {
					other++
				}
			}
		}
		okSha = len(special) > 0 && sha > 0 && other == 0
	}
	r.Check(okSha, "R-C06-3", fnName(af)+"/sha256-reader", p.Pos(af.Pos()), "non-special payloads are hashed with sha256", "NewAuthReader no longer hashes ordinary payloads with sha256: X-Amz-Content-Sha256 is not verified for streamed uploads")
	// validateSignature compares the hash on the non-special edge and the mismatch edge returns an error
	vf := p.Func("(*" + utilsPkg + ".AuthReader).validateSignature")
	okCmp := false
	for _, ce := range condEdgesOf(vf) {
		if ce.isEqNeq && ce.atoms["arg:X-Amz-Content-Sha256"] && ce.atoms["call:(*"+utilsPkg+".HashReader).Sum"] {
			reach := reachableFromEdge(vf, ce.fails, nil)
			bad := false
			for _, s := range errReturnSites(vf) {
				if s.reachedIn(reach) && isNilConst(s.val) {
					bad = true
				}
				// also must not reach the signature check result as the only verdict
				for _, rt := range Origins(s.val, nil) {
					if rt.Kind == "call" && rt.Desc == utilsPkg+".CheckValidSignature" && s.reachedIn(reach) {
						bad = true
					}
				}
			}
			if !bad {
				okCmp = true
			}
		}
	}
	r.Check(okCmp, "R-C06-3", fnName(vf)+"/sha256-compare", p.Pos(vf.Pos()), "payload hash compared; mismatch is an error", "the deferred auth reader does not fail on an X-Amz-Content-Sha256 mismatch")
}

func c06Length(p *Program, r *Report) {
	for _, name := range []string{"PutObject", "UploadPart"} {
		f := p.Func(posixP + name)
		var copies []ssa.CallInstruction
		for _, c := range callsTo(f, "io.Copy") {
			if fromOpenTmp(callArgs(c)[0]) {
				copies = append(copies, c)
			}
		}
		var eq []edge
		for _, ce := range condEdgesOf(f) {
			if !ce.isEqNeq || ce.binop == nil {
				continue
			}
			cnt, decl := false, false
			for _, side := range []ssa.Value{ce.binop.X, ce.binop.Y} {
				for _, rt := range Origins(side, nil) {
					if rt.Kind == "call" && rt.Desc == "io.Copy" && rt.Idx == 0 {
						cnt = true
					}
					if rt.Kind == "field" && rt.Desc == "ContentLength" {
						decl = true
					}
				}
			}
			if cnt && decl {
				eq = append(eq, ce.holds)
			}
		}
		for i, l := range callsTo(f, "(*backend/posix.tmpfile).link") {
			if _, isCall := l.(*ssa.Call); !isCall {
				continue
			}
			ok := len(eq) > 0 && !reachable(f, nil, eq)[l.Block()]
			r.Check(ok, "R-C06-4", fnName(f)+"/link#"+itoa(i+1)+":length-checked", p.Pos(l.Pos()), "link only when copied bytes == declared length", "the object is published without comparing the number of bytes received with the declared content length: a short upload is stored padded to the declared (preallocated) length")
		}
		_ = copies
	}
	// tmpfile.Write refuses excess
	wf := p.Func("(*backend/posix.tmpfile).Write")
	ok := false
	for _, ce := range condEdgesOf(wf) {
		if ce.atoms["field:size"] && ce.atoms["call:len"] && ce.binop != nil && (ce.binop.Op == token.GTR || ce.binop.Op == token.LSS || ce.binop.Op == token.GEQ || ce.binop.Op == token.LEQ) {
			ok = true
		}
	}
	r.Check(ok, "R-C06-4", fnName(wf)+"/refuses-excess", p.Pos(wf.Pos()), "write beyond the declared length is refused", "(*tmpfile).Write no longer compares the write size with the remaining declared length: excess bytes are stored")
}

func c06Checksums(p *Program, r *Report) {
	// posix.PutObject: every Checksum* *string field of PutObjectInput is read and wrapped
	pk := p.Pkg("s3response")
	in, _ := pk.Types.Scope().Lookup("PutObjectInput").Type().Underlying().(*types.Struct)
	if in == nil {
		broken("s3response.PutObjectInput not a struct")
	}
	var fields []string
	for i := 0; i < in.NumFields(); i++ {
		n := in.Field(i).Name()
		if strings.HasPrefix(n, "Checksum") && typeStr(in.Field(i).Type()) == "*string" {
			fields = append(fields, n)
		}
	}
	if len(fields) < 5 {
		broken("R-C06-5: only %d Checksum* fields in PutObjectInput", len(fields))
	}
	f := p.Func(posixP + "PutObject")
	read := map[string]bool{}
	for _, b := range f.Blocks {
		for _, ins := range b.Instrs {
			switch x := ins.(type) {
			case *ssa.FieldAddr:
				read[fieldName(x.X.Type(), x.Field)] = true
			case *ssa.Field:
				read[fieldName(x.X.Type(), x.Field)] = true
			}
		}
	}
	for _, fl := range fields {
		r.Check(read[fl], "R-C06-5", fnName(f)+"/wraps:"+fl, p.Pos(f.Pos()), "checksum field consumed", "posix.PutObject never reads input."+fl+": a wrong "+fl+" header is not verified")
	}
	// each hashConfig pairs a field with its own hash type: literal {po.ChecksumX, HashTypeX}
	pairs := map[string]string{"ChecksumCRC32": "crc32", "ChecksumCRC32C": "crc32c", "ChecksumSHA1": "sha1", "ChecksumSHA256": "sha256", "ChecksumCRC64NVME": "crc64nvme"}
	got := map[string]string{}
	for _, b := range f.Blocks {
		for _, ins := range b.Instrs {
			st, ok := ins.(*ssa.Store)
			if !ok {
				continue
			}
			fa, ok := st.Addr.(*ssa.FieldAddr)
			if !ok || fieldName(fa.X.Type(), fa.Field) != "value" {
				continue
			}
			fld := ""
			for _, rt := range Origins(st.Val, nil) {
				if rt.Kind == "field" && strings.HasPrefix(rt.Desc, "Checksum") {
					fld = rt.Desc
				}
			}
			// sibling hashType store
			for _, ref := range *fa.X.Referrers() {
				fb, ok := ref.(*ssa.FieldAddr)
				if !ok || fieldName(fb.X.Type(), fb.Field) != "hashType" {
					continue
				}
				for _, s2 := range storesTo(fb) {
					if ht, ok := constString(s2.Val); ok && fld != "" {
						got[fld] = ht
					}
				}
			}
		}
	}
	for _, fl := range fields {
		want := pairs[fl]
		r.Check(got[fl] == want, "R-C06-5", fnName(f)+"/pairs:"+fl, p.Pos(f.Pos()), fl+" verified as "+want, "input."+fl+" is verified with hash type \""+got[fl]+"\" instead of \""+want+"\"")
	}
	// controller: PutObject literal sets every Checksum* field from the parsed headers
	h := p.Func("(" + ctrlPkg + ".S3ApiController).PutActions")
	for _, c := range callsIn(h) {
		if !isBackendCall(c) || c.Common().Method.Name() != "PutObject" {
			continue
		}
		for _, a := range callArgs(c) {
			fs, _ := litFields(a)
			if fs == nil {
				continue
			}
			for _, fl := range fields {
				ok := false
				for _, v := range fs[fl] {
					for _, rt := range Origins(v, &originOpts{extra: map[string][]int{"backend.GetPtrFromString": {0}}}) {
						if rt.Kind == "call" && rt.Desc == utilsPkg+".ParseChecksumHeaders" {
							ok = true
						}
					}
				}
				r.Check(ok, "R-C06-5", fnName(h)+"/PutObject."+fl, p.Pos(c.Pos()), "field <- ParseChecksumHeaders", "the controller does not pass the parsed "+fl+" header to the backend: it is never verified")
			}
		}
	}
}

func controlsC06() []Control {
	return []Control{
		{Name: "PutObject: io.Copy error ignored", Rule: "R-C06-1", File: "backend/posix/posix.go",
			Old: "\twritten, err := io.Copy(f, rdr)\n\tif err != nil {\n\t\tif errors.Is(err, syscall.EDQUOT) {\n\t\t\treturn s3response.PutObjectOutput{}, s3err.GetAPIError(s3err.ErrQuotaExceeded)\n\t\t}\n\t\treturn s3response.PutObjectOutput{}, fmt.Errorf(\"write object data: %w\", err)\n\t}", New: "\twritten, err := io.Copy(f, rdr)\n\tif errors.Is(err, syscall.EDQUOT) {\n\t\treturn s3response.PutObjectOutput{}, s3err.GetAPIError(s3err.ErrQuotaExceeded)\n\t}", Expect: "PutObject"},
		{Name: "HashReader: mismatch returns the inner error", Rule: "R-C06-2", File: "s3api/utils/csum-reader.go",
			Old: "\t\tcase HashTypeMd5:\n\t\t\tsum := hr.Sum()\n\t\t\tif sum != hr.sum {\n\t\t\t\treturn n, s3err.GetAPIError(s3err.ErrInvalidDigest)\n\t\t\t}", New: "\t\tcase HashTypeMd5:\n\t\t\tsum := hr.Sum()\n\t\t\tif sum != hr.sum {\n\t\t\t\treturn n, readerr\n\t\t\t}", Expect: "mismatch"},
		{Name: "NewHashReader accepts a type Read cannot verify", Rule: "R-C06-2", File: "s3api/utils/csum-reader.go",
			Old: "\t\tcase HashTypeSha1:\n\t\t\tsum := hr.Sum()\n\t\t\tif sum != hr.sum {\n\t\t\t\treturn n, s3err.GetChecksumBadDigestErr(types.ChecksumAlgorithmSha1)\n\t\t\t}\n", New: "", More: []Edit{{"s3api/utils/csum-reader.go", "\t\tdefault:\n\t\t\treturn n, errInvalidHashType\n\t\t}\n\t}\n\treturn n, readerr", "\t\t}\n\t}\n\treturn n, readerr"}}, Expect: "verifies:sha1"},
		{Name: "HashReader: early return for empty reads", Rule: "R-C06-2", File: "s3api/utils/csum-reader.go",
			Old: "\tn, readerr := hr.r.Read(p)\n", New: "\tn, readerr := hr.r.Read(p)\n\tif n == 0 {\n\t\treturn 0, readerr\n\t}\n", Expect: "verifies:"},
		{Name: "VerifyMD5Body: mismatch falls through", Rule: "R-C06-3", File: "s3api/middlewares/md5.go",
			Old: "\t\tif incomingSum != calculatedSum {", New: "\t\tif incomingSum != calculatedSum && len(calculatedSum) == 0 {", Expect: "md5"},
		{Name: "revert fix 5fbcbe5: byte count ignored", Rule: "R-C06-4", File: "backend/posix/posix.go",
			Old: "\tif written != contentLength {\n\t\t// fewer bytes than declared were received: the preallocated\n\t\t// file would otherwise be stored padded to the declared length\n\t\treturn s3response.PutObjectOutput{}, s3err.GetAPIError(s3err.ErrInvalidRequest)\n\t}\n", New: "\t_ = written\n", Expect: "PutObject"},
		{Name: "posix.PutObject: sha1 header verified as sha256", Rule: "R-C06-5", File: "backend/posix/posix.go",
			Old: "\t\t{po.ChecksumSHA1, utils.HashTypeSha1},\n\t\t{po.ChecksumSHA256, utils.HashTypeSha256},\n\t\t{po.ChecksumCRC64NVME, utils.HashTypeCRC64NVME},\n\t}\n\tvar hashRdr *utils.HashReader\n\n\tfor _, config := range hashConfigs {\n\t\tif config.value != nil {\n\t\t\thashRdr, err = utils.NewHashReader(rdr, *config.value, config.hashType)\n\t\t\tif err != nil {\n\t\t\t\treturn s3response.PutObjectOutput{}, fmt.Errorf(", New: "\t\t{po.ChecksumSHA1, utils.HashTypeSha256},\n\t\t{po.ChecksumSHA256, utils.HashTypeSha256},\n\t\t{po.ChecksumCRC64NVME, utils.HashTypeCRC64NVME},\n\t}\n\tvar hashRdr *utils.HashReader\n\n\tfor _, config := range hashConfigs {\n\t\tif config.value != nil {\n\t\t\thashRdr, err = utils.NewHashReader(rdr, *config.value, config.hashType)\n\t\t\tif err != nil {\n\t\t\t\treturn s3response.PutObjectOutput{}, fmt.Errorf(", Expect: "ChecksumSHA1"},
	}
}

// ================================ C12 ================================

func runC12(p *Program, r *Report) {
	r.Rule("R-C12-1", "end-of-stream only in state Verified: the signed reader returns its literal io.EOF only through the success edges of checkSignature (final chunk) and, when a trailer is expected, of verifyChecksum and verifyTrailerSignature; the unsigned reader only behind the accepting edge of the comparison of the computed (hash.Hash.Sum) with the announced trailing checksum, wherever Read and its helpers make it; an early end of the inner stream (inner io.EOF while chunk data or the final chunk is missing) is never passed on as a clean io.EOF", 8)
	r.Rule("R-C12-2", "no synthetic EOF that hides the inner verdict (literal io.EOF only after the inner reader reached its end): shared with R-C02-5", 2)
	r.Rule("R-C12-3", "reader selection is total: NewChunkReader's switch covers every payload type for which IsStreamingPayload is true, its default arm returns an error, every streaming payload type is a special payload, and chunk sizes are parsed as non-negative", 6)
	r.Rule("R-C12-4", "decoding state never aliases the caller's buffer: no method of the chunk readers stores a slice of a caller-provided []byte into a field of the reader (the caller reuses its buffer between reads)", 4)
	r.Rule("R-C12-5", "every chunk is verified: an empty chunk signature is refused (the reader uses a non-empty parsedSig as 'verification pending'), and a chunk signature mismatch fails the read", 3)

	signed := "(*" + utilsPkg + ".ChunkReader)."
	unsigned := "(*" + utilsPkg + ".UnsignedChunkReader)."
	// R-C12-1 signed
	pf := p.Func(signed + "parseAndRemoveChunkInfo")
	var trailerSkip []edge
	for _, ce := range condEdgesOf(pf) {
		if ce.isEqNeq && ce.atoms["field:trailer"] && ce.atoms[`const:""`] && len(ce.atoms) <= 5 {
			trailerSkip = append(trailerSkip, ce.holds) // trailer == "": no trailer checks apply
		}
	}
	lit := literalEOFSites(pf)
	if len(lit) == 0 {
		r.Viol("R-C12-1", fnName(pf)+"/literal-EOF", p.Pos(pf.Pos()), "no literal io.EOF return in parseAndRemoveChunkInfo (anchor drift)")
	}
	for _, g := range []struct {
		callee      string
		conditional bool
	}{{signed + "checkSignature", false}, {signed + "verifyChecksum", true}, {signed + "verifyTrailerSignature", true}} {
		cs := callsTo(pf, g.callee)
		if len(cs) == 0 {
			r.Viol("R-C12-1", fnName(pf)+"/"+g.callee, p.Pos(pf.Pos()), "verification step "+g.callee+" is no longer called before the end of the stream is reported")
			continue
		}
		var cut []edge
		for _, c := range cs {
			cut = append(cut, successEdges(c)...)
		}
		// checkSignature is also called for non-final chunks; only calls that can precede the EOF return matter: cutting all success edges is sound (over-cut only on paths that pass a check)
		if g.conditional {
			cut = append(cut, trailerSkip...)
		}
		for i, s := range lit {
			r.Check(len(cut) > 0 && !siteReachable(pf, s, cut), "R-C12-1", fnName(pf)+"/EOF#"+itoa(i+1)+"<-"+g.callee[len(signed):], p.Pos(s.ret.Pos()), "io.EOF only after "+g.callee[len(signed):]+" succeeded", "the signed chunk reader can report a clean end of stream without "+g.callee+" having succeeded: a stream with a wrong final-chunk signature / trailing checksum / trailer signature is accepted")
		}
	}
	// the final-chunk checkSignature must not be the pending-check at the top only: require a checkSignature call dominated by the chunkSize == 0 edge
	{
		var zero []edge
		for _, ce := range condEdgesOf(pf) {
			if ce.isEqNeq && ce.atoms["const:0"] && ce.atoms["call:"+signed+"parseChunkHeaderBytes"] {
				zero = append(zero, ce.holds)
			}
		}
		ok := false
		for _, c := range callsTo(pf, signed+"checkSignature") {
			if len(zero) > 0 && !reachable(pf, nil, zero)[c.Block()] && len(successEdges(c)) > 0 {
				ok = true
			}
		}
		r.Check(ok, "R-C12-1", fnName(pf)+"/final-chunk-signature", p.Pos(pf.Pos()), "final chunk's own signature is checked", "the final (zero sized) chunk's signature is not verified")
	}
	// R-C12-1 unsigned. Name-free: the trailer verdict is the comparison of the sum of the bytes seen
	// (hash.Hash.Sum) with a string, wherever Read and its helpers make it; Read's literal io.EOF lies behind its
	// accepting edge (directly or through helpers that succeed only through it), and its refusing edge reaches no
	// successful return.
	uf := p.Func(unsigned + "Read")
	isTrailerVerdict := func(_ *ssa.Function, ce condEdge) bool {
		if !ce.isEqNeq || ce.binop == nil || !ce.atoms["call:(hash.Hash).Sum"] {
			return false
		}
		bt, ok := ce.binop.X.Type().Underlying().(*types.Basic)
		return ok && bt.Info()&types.IsString != 0
	}
	inUnit := staticCallees(p, uf)
	var unit []*ssa.Function
	for _, g := range p.FuncsIn(utilsPkg) {
		if inUnit[fnName(g)] {
			unit = append(unit, g)
		}
	}
	vsU := verdictClosure(unit, isTrailerVerdict)
	cutU, _ := vsU.cutsIn(uf, isTrailerVerdict)
	ulit := literalEOFSites(uf)
	for i, s := range ulit {
		r.Check(len(cutU) > 0 && !siteReachable(uf, s, cutU), "R-C12-1", fnName(uf)+"/EOF#"+itoa(i+1)+"<-trailer-verdict", p.Pos(s.ret.Pos()), "io.EOF only after the trailing checksum compared equal", "the unsigned chunk reader can report a clean end of stream without a successfully validated trailer (no path condition ties io.EOF to the comparison of the computed with the announced checksum)")
	}
	if len(ulit) == 0 {
		r.Viol("R-C12-1", fnName(uf)+"/literal-EOF", p.Pos(uf.Pos()), "no literal io.EOF return in UnsignedChunkReader.Read (anchor drift)")
	}
	nCmp := 0
	for _, g := range unit {
		for _, ce := range condEdgesOf(g) {
			if !isTrailerVerdict(g, ce) {
				continue
			}
			nCmp++
			reach := reachableFromEdge(g, ce.fails, nil)
			bad := false
			for _, s := range errReturnSites(g) {
				if s.reachedIn(reach) && isNilConst(s.val) {
					bad = true
				}
			}
			for _, s := range literalEOFSites(g) {
				if s.reachedIn(reach) {
					bad = true
				}
			}
			r.Check(!bad, "R-C12-1", "utils.UnsignedChunkReader/trailer-checksum#"+itoa(nCmp)+":mismatch-fails", p.Pos(ce.pos()), "trailing checksum mismatch is an error", "a trailing checksum mismatch does not fail the stream")
		}
	}
	if nCmp == 0 {
		r.Viol("R-C12-1", "utils.UnsignedChunkReader/trailer-checksum", p.Pos(uf.Pos()), "the unsigned chunk reader never compares the computed checksum (hash.Hash.Sum) with the announced one")
	}
	// early end of the inner stream is not a clean EOF
	c12InnerEOF(p, r, p.Func(signed+"Read"), "r")
	c12InnerEOF(p, r, uf, "reader")
	// helpers: whatever the two Read methods call (transitively, inside the package) may hand a raw
	// inner io.EOF up only if the Read method itself maps it; decided with a per-function summary
	c12RawEOFBoundary(p, r, p.Func(signed+"Read"))
	c12RawEOFBoundary(p, r, uf)
	// handleRdrErr: header cut by the real end of stream is an error
	hf := p.Func(signed + "handleRdrErr")
	okH := false
	for _, ce := range condEdgesOf(hf) {
		if ce.atoms["field:isEOF"] && !ce.isEqNeq {
			reach := reachableFromEdge(hf, ce.holds, nil)
			bad := false
			for _, s := range errReturnSites(hf) {
				if !s.reachedIn(reach) {
					continue
				}
				if isNilConst(s.val) {
					bad = true
				}
				for _, o := range Origins(s.val, nil) {
					if o.Kind == "call" && strings.HasSuffix(o.Desc, "stashAndSkipHeader") {
						bad = true
					}
				}
			}
			okH = !bad
		}
	}
	r.Check(okH, "R-C12-1", fnName(hf)+"/header-cut-at-end-of-stream", p.Pos(hf.Pos()), "a header cut by the real end of the stream is an error", "a chunk header truncated by the end of the stream is stashed/ignored instead of failing the read")

	// R-C12-2
	c02LiteralEOF(p, r, "ChunkReader", "R-C12-2")
	c02LiteralEOF(p, r, "UnsignedChunkReader", "R-C12-2")

	// R-C12-3
	nf := p.Func(utilsPkg + ".NewChunkReader")
	isf := p.Func(utilsPkg + ".IsStreamingPayload")
	stream := constComparisons(isf)
	// the dispatching comparisons: equality tests of the payload type whose holds edge leads to a reader
	// constructor (validity pre-checks compare the same value against the same constants and lead nowhere)
	ctors := callsTo(nf, utilsPkg+".NewUnsignedChunkReader", utilsPkg+".NewSignedChunkReader")
	sw := map[string]condEdge{}
	for _, ce := range condEdgesOf(nf) {
		if ce.isEqNeq && ce.atoms["arg:X-Amz-Content-Sha256"] {
			reach := reachableFromEdge(nf, ce.holds, []edge{ce.fails})
			toCtor := false
			// the constructor must not be reachable from the other edge as well (then the test does not dispatch)
			other := reachableFromEdge(nf, ce.fails, nil)
			for _, c := range ctors {
				if reach[c.Block()] && !other[c.Block()] {
					toCtor = true
				}
			}
			for a := range ce.atoms {
				if strings.HasPrefix(a, `const:"`) {
					k := strings.Trim(strings.TrimPrefix(a, "const:"), `"`)
					if toCtor {
						sw[k] = ce
					}
				}
			}
		}
	}
	special := mapLiteralKeys(p, utilsPkg, "specialValues")
	sts := []string{}
	for s := range stream {
		sts = append(sts, s)
	}
	sort.Strings(sts)
	if len(sts) < 3 {
		r.Viol("R-C12-3", "utils.IsStreamingPayload/cases", p.Pos(isf.Pos()), "expected at least 3 streaming payload types")
	}
	for _, s := range sts {
		ce, ok := sw[s]
		okCtor := false
		if ok {
			// the case edge reaches a chunk-reader constructor
			reach := reachableFromEdge(nf, ce.holds, nil)
			for _, c := range callsTo(nf, utilsPkg+".NewUnsignedChunkReader", utilsPkg+".NewSignedChunkReader") {
				if reach[c.Block()] {
					okCtor = true
				}
			}
		}
		r.Check(ok && okCtor, "R-C12-3", "utils.NewChunkReader/covers:"+s, p.Pos(nf.Pos()), "streaming payload type has a reader", "payload type "+s+" is treated as streaming by the middleware but NewChunkReader has no reader for it")
		r.Check(special[s], "R-C12-3", "utils.specialValues∋"+s, p.Pos(isf.Pos()), "streaming payload type is special", "streaming payload type "+s+" is not in specialValues: the middleware would sha256 the encoded body")
	}
	// default arm: when every case edge fails, only error returns are reachable
	{
		var cut []edge
		for _, ce := range sw {
			cut = append(cut, ce.holds)
		}
		bad := false
		for _, s := range errReturnSites(nf) {
			if isNilConst(s.val) && siteReachable(nf, s, cut) {
				bad = true
			}
			for _, o := range Origins(s.val, nil) {
				if o.Kind == "call" && (strings.HasSuffix(o.Desc, "NewUnsignedChunkReader") || strings.HasSuffix(o.Desc, "NewSignedChunkReader")) && siteReachable(nf, s, cut) {
					bad = true
				}
			}
		}
		r.Check(!bad && len(cut) > 0, "R-C12-3", "utils.NewChunkReader/default-refuses", p.Pos(nf.Pos()), "unknown payload types are refused", "NewChunkReader returns a reader (or nil error) for a payload type it has no case for")
	}
	// non-negative chunk sizes
	for _, fn := range []string{signed + "parseChunkHeaderBytes", unsigned + "extractChunkSize"} {
		f := p.Func(fn)
		ok := false
		for _, ce := range condEdgesOf(f) {
			if ce.binop != nil && (ce.binop.Op == token.LSS || ce.binop.Op == token.GEQ || ce.binop.Op == token.GTR || ce.binop.Op == token.LEQ) && ce.atoms["call:strconv.ParseInt"] && ce.atoms["const:0"] {
				ok = true
			}
		}
		r.Check(ok, "R-C12-3", fn+"/non-negative-size", p.Pos(f.Pos()), "negative chunk sizes are refused", "the parsed chunk size is not tested for being negative")
	}

	// R-C12-4
	for _, typ := range []string{"ChunkReader", "UnsignedChunkReader"} {
		n := 0
		for _, m := range p.Methods(utilsPkg, typ) {
			for _, b := range m.Blocks {
				for _, in := range b.Instrs {
					st, ok := in.(*ssa.Store)
					if !ok {
						continue
					}
					fa, ok := st.Addr.(*ssa.FieldAddr)
					if !ok {
						continue
					}
					if _, isSlice := st.Val.Type().Underlying().(*types.Slice); !isSlice {
						continue
					}
					if !isReceiverField(m, fa) {
						continue
					}
					n++
					bad := ""
					for _, o := range terminalRoots(Origins(st.Val, nil)) {
						if o.Kind == "param" {
							if _, isS := o.Val.Type().Underlying().(*types.Slice); isS {
								bad = o.Desc
							}
						}
					}
					r.Check(bad == "", "R-C12-4", fnName(m)+"/store:"+fieldName(fa.X.Type(), fa.Field)+"#"+itoa(n), p.Pos(st.Pos()), "own memory", "the reader keeps a slice of the caller's buffer ("+bad+") in field "+fieldName(fa.X.Type(), fa.Field)+": the caller reuses that buffer for the next Read and the stashed header bytes are overwritten")
				}
			}
		}
		if n == 0 {
			r.Viol("R-C12-4", "(*"+utilsPkg+"."+typ+")/slice-field-stores", "-", "no slice field stores found (anchor drift)")
		}
	}

	// R-C12-5
	hb := p.Func(signed + "parseChunkHeaderBytes")
	okEmpty := false
	for _, ce := range condEdgesOf(hb) {
		if ce.isEqNeq && ce.atoms[`const:""`] && ce.binop != nil {
			isSig := false
			for _, side := range []ssa.Value{ce.binop.X, ce.binop.Y} {
				for _, o := range Origins(side, nil) {
					if o.Kind == "call" && o.Desc == utilsPkg+".readAndTrim" && hasRuneArg(o.Call, '\r') {
						isSig = true
					}
				}
			}
			if !isSig {
				continue
			}
			reach := reachableFromEdge(hb, ce.holds, nil)
			bad := false
			for _, s := range errReturnSites(hb) {
				if s.reachedIn(reach) && isNilConst(s.val) {
					bad = true
				}
			}
			if !bad {
				okEmpty = true
			}
		}
	}
	r.Check(okEmpty, "R-C12-5", fnName(hb)+"/empty-signature-refused", p.Pos(hb.Pos()), "empty chunk signature refused", "a chunk header with an empty chunk-signature is accepted: that chunk is never verified (empty parsedSig means 'nothing pending')")
	cf := p.Func(signed + "checkSignature")
	okMis := false
	for _, ce := range condEdgesOf(cf) {
		// the computed signature (kept in prevSig for the next chunk) against the one parsed from the header
		computed := ce.atoms["field:prevSig"]
		if ce.binop != nil && !computed {
			computed = storedToField(cf, ce.binop.X, "prevSig") || storedToField(cf, ce.binop.Y, "prevSig")
		}
		if ce.isEqNeq && computed && ce.atoms["field:parsedSig"] {
			reach := reachableFromEdge(cf, ce.fails, nil)
			bad := false
			for _, s := range errReturnSites(cf) {
				if s.reachedIn(reach) && isNilConst(s.val) {
					bad = true
				}
			}
			okMis = !bad
		}
	}
	r.Check(okMis, "R-C12-5", fnName(cf)+"/mismatch-fails", p.Pos(cf.Pos()), "chunk signature mismatch is an error", "a chunk signature mismatch does not fail the read")
	// pending verification happens before the next header is parsed
	{
		ok := false
		hdr := callsTo(pf, signed+"parseChunkHeaderBytes")
		for _, c := range callsTo(pf, signed+"checkSignature") {
			for _, h := range hdr {
				if mayPrecede(c, h) && !mayPrecede(h, c) {
					if ok2, _ := failsClosed4(pf, c); ok2 {
						ok = true
					}
				}
			}
		}
		r.Check(ok, "R-C12-5", fnName(pf)+"/pending-chunk-verified-first", p.Pos(pf.Pos()), "the previous chunk is verified before the next header is parsed", "the previous chunk's signature is not verified (fail-closed) before the next chunk header is processed")
	}
}

func failsClosed4(f *ssa.Function, c ssa.CallInstruction) (bool, string) { return failsClosed(f, c) }

func hasRuneArg(c ssa.CallInstruction, r rune) bool {
	for _, a := range callArgs(c) {
		if v, ok := constInt(a); ok && v == int64(r) {
			return true
		}
	}
	return false
}

func isReceiverField(m *ssa.Function, fa *ssa.FieldAddr) bool {
	if len(m.Params) == 0 {
		return false
	}
	for _, o := range terminalRoots(Origins(fa.X, nil)) {
		if o.Kind == "param" && o.Val == m.Params[0] {
			return true
		}
	}
	return fa.X == m.Params[0]
}

func literalEOFSites(f *ssa.Function) []retSite {
	var out []retSite
	for _, s := range errReturnSites(f) {
		if u, ok := s.val.(*ssa.UnOp); ok && u.Op == token.MUL {
			if g, ok := u.X.(*ssa.Global); ok && g.Name() == "EOF" && g.Pkg.Pkg.Path() == "io" {
				out = append(out, s)
			}
		}
	}
	return out
}

// mayEOFCalls: library reads whose error can be io.EOF.
var mayEOFCalls = map[string]bool{
	"(io.Reader).Read": true, "io.ReadFull": true, "io.CopyN": true, "io.ReadAtLeast": true,
	"(*bufio.Reader).ReadByte": true, "(*bufio.Reader).ReadString": true, "(*bufio.Reader).Read": true, "(*bufio.Reader).Peek": true, "(*bufio.Reader).ReadBytes": true,
}

// c12InnerEOF: in f, every return whose error value is the (possibly io.EOF) error of a read on the inner
// stream is reachable only through an edge on which that error is known not to be io.EOF.
func c12InnerEOF(p *Program, r *Report, f *ssa.Function, innerField string) {
	var notEOF []edge
	for _, ce := range condEdgesOf(f) {
		if isEOFCond(ce) {
			notEOF = append(notEOF, ce.fails)
		}
	}
	n := 0
	for _, s := range errReturnSites(f) {
		if isNilConst(s.val) {
			continue
		}
		may := ""
		for _, o := range terminalRoots(Origins(s.val, nil)) {
			if o.Kind != "call" || !mayEOFCalls[o.Desc] || !rootIsErrorResult(o) {
				continue
			}
			// on the inner stream?
			onInner := false
			var src ssa.Value
			if rv := callRecv(o.Call); rv != nil {
				src = rv
			} else if a := callArgs(o.Call); len(a) > 0 {
				src = a[0]
				if o.Desc == "io.CopyN" {
					src = a[1]
				}
			}
			for _, x := range Origins(src, &originOpts{extra: map[string][]int{"io.TeeReader": {0}}}) {
				if x.Kind == "field" && x.Desc == innerField {
					onInner = true
				}
			}
			if onInner {
				may = o.Desc
			}
		}
		if may == "" {
			continue
		}
		n++
		r.Check(!siteReachable(f, s, notEOF), "R-C12-1", fnName(f)+"/inner-eof-passed#"+itoa(n), p.Pos(s.ret.Pos()), "inner read error returned only when it is not io.EOF", "the error of "+may+" on the inner stream is returned without excluding io.EOF: a stream that ends early (inside a chunk, before the final chunk or the trailer) ends cleanly and a truncated object is stored")
	}
}

// rawEOFSummary: f may return, as its error, the unmapped error of a read that can be io.EOF (directly or
// through another such function of the repository), on a path that does not exclude io.EOF.
func rawEOFSummary(f *ssa.Function, memo map[*ssa.Function]int) bool {
	switch memo[f] {
	case 1:
		return true
	case 2, 3: // 3 = in progress (recursion: assume not raw)
		return false
	}
	memo[f] = 3
	if len(f.Blocks) == 0 {
		memo[f] = 2
		return false
	}
	var notEOF []edge
	for _, ce := range condEdgesOf(f) {
		if isEOFCond(ce) {
			notEOF = append(notEOF, ce.fails)
		}
	}
	raw := false
	for _, s := range errReturnSites(f) {
		if isNilConst(s.val) {
			continue
		}
		for _, o := range terminalRoots(Origins(s.val, nil)) {
			if o.Kind != "call" || o.Call == nil || !rootIsErrorResult(o) {
				continue
			}
			src := mayEOFCalls[o.Desc]
			if !src {
				if cal := o.Call.Common().StaticCallee(); cal != nil && cal.Pkg != nil && strings.HasPrefix(cal.Pkg.Pkg.Path(), modPath) {
					src = rawEOFSummary(cal, memo)
				}
			}
			if src && siteReachable(f, s, notEOF) {
				raw = true
				if os.Getenv("VGW_DEBUG") != "" {
					fmt.Fprintf(os.Stderr, "rawEOF: %s returns error of %s at %v val=%T %v roots=%v\n", fnName(f), o.Desc, f.Prog.Fset.Position(s.ret.Pos()), s.val, s.val, Origins(s.val, nil))
				}
			}
		}
	}
	if raw {
		memo[f] = 1
	} else {
		memo[f] = 2
	}
	return raw
}

// c12RawEOFBoundary: a Read method never returns the error of a helper that may carry a raw inner io.EOF
// without excluding io.EOF first.
func c12RawEOFBoundary(p *Program, r *Report, f *ssa.Function) {
	memo := map[*ssa.Function]int{}
	var notEOF []edge
	for _, ce := range condEdgesOf(f) {
		if isEOFCond(ce) {
			notEOF = append(notEOF, ce.fails)
		}
	}
	seen := map[string]bool{}
	nHelpers := 0
	for _, c := range callsIn(f) {
		cal := c.Common().StaticCallee()
		if cal == nil || cal.Pkg == nil || !strings.HasPrefix(cal.Pkg.Pkg.Path(), modPath) {
			continue
		}
		nHelpers++
		if !rawEOFSummary(cal, memo) {
			continue
		}
		// this helper can hand up a raw EOF: every return of its error must exclude io.EOF
		for _, s := range errReturnSites(f) {
			if isNilConst(s.val) {
				continue
			}
			for _, o := range terminalRoots(Origins(s.val, nil)) {
				if o.Kind == "call" && o.Call == c && rootIsErrorResult(o) {
					short := fnName(cal)
					k := fnName(f) + "/inner-eof-passed-by:" + short[strings.LastIndex(short, ".")+1:]
					if seen[k] {
						continue
					}
					seen[k] = true
					r.Check(!siteReachable(f, s, notEOF), "R-C12-1", k, p.Pos(s.ret.Pos()), "helper's possibly-EOF error excluded before it is returned", "the error of "+short+" is returned as it is, and that helper can return the inner stream's io.EOF unmapped: a stream that ends early at that point ends cleanly and a truncated object is stored")
				}
			}
		}
	}
	r.Ok("R-C12-1", fnName(f)+"/helpers-summarised", p.Pos(f.Pos()), itoa(nHelpers)+" calls into the repository summarised for raw io.EOF")
}

func controlsC12() []Control {
	return []Control{
		{Name: "parseAndRemoveChunkInfo: trailer signature check removed", Rule: "R-C12-1", File: "s3api/utils/signed-chunk-reader.go",
			Old: "\t\t\terr = cr.verifyTrailerSignature()\n\t\t\tif err != nil {\n\t\t\t\treturn 0, err\n\t\t\t}\n", New: "", Expect: "verifyTrailerSignature"},
		{Name: "revert fix a257669 (signed): inner EOF passed through", Rule: "R-C12-1", File: "s3api/utils/signed-chunk-reader.go",
			Old: "\tif err == io.EOF {\n\t\t// the stream ended before the final (zero sized) chunk\n\t\treturn n, io.ErrUnexpectedEOF\n\t}\n", New: "", Expect: "inner-eof-passed"},
		{Name: "unsigned reader: trailing checksum mismatch only logged", Rule: "R-C12-1", File: "s3api/utils/unsigned-chunk-reader.go",
			Old: "\tif checksum != ucr.expectedChecksum {\n\t\treturn fmt.Errorf(", New: "\tif checksum != ucr.expectedChecksum && ucr.expectedChecksum != \"\" {\n\t\treturn fmt.Errorf(", Expect: "mismatch-fails"},
		{Name: "unsigned reader: trailer verdict dropped", Rule: "R-C12-1", File: "s3api/utils/unsigned-chunk-reader.go",
			Old: "\treturn ucr.validateChecksum()\n", New: "\t_ = ucr.validateChecksum()\n\treturn nil\n", Expect: "trailer-verdict"},
		{Name: "revert fix a257669 (unsigned): CopyN EOF unmapped", Rule: "R-C12-1", File: "s3api/utils/unsigned-chunk-reader.go",
			Old: "\t\t\tif err == io.EOF {\n\t\t\t\t// the stream ended inside the chunk\n\t\t\t\treturn 0, io.ErrUnexpectedEOF\n\t\t\t}\n", New: "", Expect: "inner-eof-passed"},
		{Name: "revert fix a257669 (signed): EOF without draining the inner reader", Rule: "R-C12-2", File: "s3api/utils/signed-chunk-reader.go",
			Old: "\t\tif !cr.isEOF {\n\t\t\tif _, err := io.Copy(io.Discard, cr.r); err != nil {\n\t\t\t\treturn 0, err\n\t\t\t}\n\t\t\tcr.isEOF = true\n\t\t}\n", New: "", Expect: "ChunkReader"},
		{Name: "NewChunkReader loses the signed-trailer case", Rule: "R-C12-3", File: "s3api/utils/chunk-reader.go",
			Old: "\tcase payloadTypeStreamingSignedTrailer:\n\t\treturn NewSignedChunkReader(r, authdata, region, secret, date, checksumType, debug)\n", New: "", Expect: "covers"},
		{Name: "revert fix 603c54e (signed): negative chunk size accepted", Rule: "R-C12-3", File: "s3api/utils/signed-chunk-reader.go",
			Old: "chunkSize, err := strconv.ParseInt(chunkSizeStr, 16, 64)\n\tif err != nil || chunkSize < 0 {", New: "chunkSize, err := strconv.ParseInt(chunkSizeStr, 16, 64)\n\tif err != nil {", Expect: "non-negative"},
		{Name: "stash keeps the caller's buffer", Rule: "R-C12-4", File: "s3api/utils/signed-chunk-reader.go",
			Old: "\tcr.stash = make([]byte, len(header))\n\tcopy(cr.stash, header)\n", New: "\tcr.stash = header\n", Expect: "stash"},
		{Name: "revert fix c7a63d2: empty chunk signature accepted", Rule: "R-C12-5", File: "s3api/utils/signed-chunk-reader.go",
			Old: "\tif sig == \"\" {\n\t\t// an empty signature would be taken for \"no chunk pending\n\t\t// verification\" and the chunk would never be verified\n\t\treturn 0, \"\", 0, errInvalidChunkFormat\n\t}\n", New: "", Expect: "empty-signature"},
	}
}

// rootIsErrorResult: the root is the error result of its call (not one of the data results).
func rootIsErrorResult(o Root) bool {
	if o.Call == nil {
		return false
	}
	res := o.Call.Common().Signature().Results()
	if res.Len() == 0 {
		return false
	}
	last := res.At(res.Len() - 1).Type()
	return o.Idx == res.Len()-1 && types.Identical(last, types.Universe.Lookup("error").Type())
}
