package main

// Rules added after the seventh (unseen) batch of seeded changes (DESIGN.md §5.7).

import (
	"fmt"
	"go/token"
	"go/types"
	"os"
	"strings"

	"golang.org/x/tools/go/ssa"
)

func init() {
	extraRules["C17"] = append(extraRules["C17"], more5CacheHoldsConfirmedOnly, more5LocksNotCopied)
	extraRules["C02"] = append(extraRules["C02"], more5CacheHoldsConfirmedOnly, more5BodyNeverDropped)
	extraRules["C01"] = append(extraRules["C01"], more5TrimCutsets, more5SidecarBelowMeta)
	extraRules["C04"] = append(extraRules["C04"], more5PruneHasNoOtherEffect, more5SidecarBelowMeta)
	extraRules["C01"] = append(extraRules["C01"], more5PruneHasNoOtherEffect)
	extraRules["C10"] = append(extraRules["C10"], more5PruneHasNoOtherEffect)
	extraRules["C11"] = append(extraRules["C11"], more5ConstructorsRemoveNothing, more5TempFilesOnlyInTmpDir)
	extraRules["C05"] = append(extraRules["C05"], more5ConstructorsRemoveNothing)
	extraRules["C09"] = append(extraRules["C09"], more5VersionIdsMonotonic, more5MarkerSavesCurrent)
	extraControls["C09"] = append(extraControls["C09"],
		Control{Name: "delete marker replaces an unsaved null version in an Enabled bucket", Rule: "R-C09-9", File: "backend/posix/posix.go",
			Old: "\t\t\tif p.isBucketVersioningEnabled(vStatus) || string(vId) != nullVersionId {\n\t\t\t\t_, err = p.createObjVersion(bucket, object, fi.Size(), acct)", New: "\t\t\tif string(vId) != nullVersionId {\n\t\t\t\t_, err = p.createObjVersion(bucket, object, fi.Size(), acct)", Expect: "marker"},
	)
	extraControls["C20"] = append(extraControls["C20"],
		Control{Name: "default retention period read without testing Days", Rule: "R-C20-14", File: "auth/object_lock.go",
			Old: "\t\tif bucketLockConfig.DefaultRetention.Days != nil {\n\t\t\texpirationDate = expirationDate.AddDate(0, 0, int(*bucketLockConfig.DefaultRetention.Days))\n\t\t}\n\t\tif bucketLockConfig.DefaultRetention.Years != nil {",
			New: "\t\tif bucketLockConfig.DefaultRetention.Years == nil {\n\t\t\texpirationDate = expirationDate.AddDate(0, 0, int(*bucketLockConfig.DefaultRetention.Days))\n\t\t}\n\t\tif bucketLockConfig.DefaultRetention.Years != nil {", Expect: "Days"},
	)
	extraControls["C19"] = append(extraControls["C19"],
		Control{Name: "copy event carries the source's version id", Rule: "R-C19-12", File: "s3api/controllers/base.go",
			Old: "\t\t\t\t\tVersionId:   res.VersionId,\n\t\t\t\t\tEventName:   s3event.EventObjectCreatedCopy,", New: "\t\t\t\t\tVersionId:   res.CopySourceVersionId,\n\t\t\t\t\tEventName:   s3event.EventObjectCreatedCopy,", Expect: "event-version"},
	)
	extraRules["C13"] = append(extraRules["C13"], more5BodyStreamedWhole)
	extraRules["C03"] = append(extraRules["C03"], more5SettingsReplacedAtomically)
	extraRules["C14"] = append(extraRules["C14"], more5SettingsReplacedAtomically)
	extraRules["C16"] = append(extraRules["C16"], more5BucketSeenBeforeCreate, more5AdminIsRoleAdmin)
	extraRules["C18"] = append(extraRules["C18"], more5StatusRelayed, more5OwnOperationFirst)
	extraRules["C20"] = append(extraRules["C20"], more5OptionalNumbersTested)
	extraRules["C19"] = append(extraRules["C19"], more5EventVersionIsResultVersion)
	extraControls["C18"] = append(extraControls["C18"],
		Control{Name: "proxy relays only 4xx statuses", Rule: "R-C18-13", File: "backend/s3proxy/s3.go",
			Old: "\t\t\tapiErr.HTTPStatusCode = re.Response.StatusCode\n", New: "\t\t\tif st := re.Response.StatusCode; st >= 400 && st < 500 {\n\t\t\t\tapiErr.HTTPStatusCode = st\n\t\t\t} else {\n\t\t\t\tapiErr.HTTPStatusCode = 500\n\t\t\t}\n", Expect: "status"},
		Control{Name: "proxy removes the ACL tag before it forwards DeleteBucket", Rule: "R-C18-14", File: "backend/s3proxy/s3.go",
			Old: "\t_, err := s.client.DeleteBucket(ctx, &s3.DeleteBucketInput{", New: "\tif _, terr := s.client.DeleteBucketTagging(ctx, &s3.DeleteBucketTaggingInput{Bucket: &bucket}); terr != nil {\n\t\treturn handleError(terr)\n\t}\n\t_, err := s.client.DeleteBucket(ctx, &s3.DeleteBucketInput{", Expect: "own-operation-first"},
	)
	extraControls["C19"] = append(extraControls["C19"],
		Control{Name: "event key taken from fasthttp's URI().Path() (decoded twice)", Rule: "R-C19-9", File: "s3event/event.go",
			Old: "strings.Clone(ctx.Path())", New: "string(ctx.Request().URI().Path())", Expect: "key-verbatim"},
	)
	extraControls["C16"] = append(extraControls["C16"],
		Control{Name: "CreateMultipartUpload relies on MkdirAll to find a missing bucket", Rule: "R-C16-9", File: "backend/posix/posix.go",
			Old: "\tbucket := *mpu.Bucket\n\tobject := *mpu.Key\n\n\t_, err := os.Stat(bucket)\n\tif errors.Is(err, fs.ErrNotExist) {\n\t\treturn s3response.InitiateMultipartUploadResult{}, s3err.GetAPIError(s3err.ErrNoSuchBucket)\n\t}\n\tif err != nil {\n\t\treturn s3response.InitiateMultipartUploadResult{}, fmt.Errorf(\"stat bucket: %w\", err)\n\t}\n",
			New: "\tbucket := *mpu.Bucket\n\tobject := *mpu.Key\n\tvar err error\n", Expect: "CreateMultipartUpload"},
		Control{Name: "ListBuckets treats every role but user as admin", Rule: "R-C16-8", File: "s3api/controllers/base.go",
			Old: "\t\t\tIsAdmin:           acct.Role == auth.RoleAdmin,\n", New: "\t\t\tIsAdmin:           acct.Role != auth.RoleUser,\n", Expect: "IsAdmin"},
	)
	extraControls["C15"] = append(extraControls["C15"],
		Control{Name: "VerifyAccess hands back the policy verdict before the read-only test", Rule: "R-C15-3", File: "auth/acl.go",
			Old: "func VerifyAccess(ctx context.Context, be backend.Backend, opts AccessOptions) error {\n\tif opts.Readonly {\n\t\tif opts.AclPermission == PermissionWrite || opts.AclPermission == PermissionWriteAcp {\n\t\t\treturn s3err.GetAPIError(s3err.ErrAccessDenied)\n\t\t}\n\t}\n",
			New: "func VerifyAccess(ctx context.Context, be backend.Backend, opts AccessOptions) error {\n\tif pol, perr := be.GetBucketPolicy(ctx, opts.Bucket); perr == nil && !opts.IsRoot {\n\t\treturn VerifyBucketPolicy(pol, opts.Acc.Access, opts.Bucket, opts.Object, opts.Action)\n\t}\n\tif opts.Readonly {\n\t\tif opts.AclPermission == PermissionWrite || opts.AclPermission == PermissionWriteAcp {\n\t\t\treturn s3err.GetAPIError(s3err.ErrAccessDenied)\n\t\t}\n\t}\n", Expect: "nil-return"},
	)

	extraControls["C17"] = append(extraControls["C17"],
		Control{Name: "IAM cache remembers unknown access keys", Rule: "R-C17-16", File: "auth/iam_cache.go",
			Old: "\ta, err := c.service.GetUserAccount(access)\n\tif err != nil {\n\t\treturn Account{}, err\n\t}\n",
			New: "\ta, err := c.service.GetUserAccount(access)\n\tif err == ErrNoSuchUser {\n\t\tc.iamcache.set(access, Account{})\n\t}\n\tif err != nil {\n\t\treturn Account{}, err\n\t}\n", Expect: "GetUserAccount"},
		Control{Name: "IAM store method with a value receiver copies the mutex", Rule: "R-C17-17", File: "auth/iam_internal.go",
			Old: "func (s *IAMServiceInternal) DeleteUserAccount(access string) error {", New: "func (s IAMServiceInternal) DeleteUserAccount(access string) error {", Expect: "IAMServiceInternal"},
	)
	extraControls["C01"] = append(extraControls["C01"],
		Control{Name: "user metadata key cut with TrimLeft and the prefix as cut set", Rule: "R-C01-10", File: "backend/posix/posix.go",
			Old: "\t\t\tm[strings.TrimPrefix(e, fmt.Sprintf(\"%v.\", metaHdr))] = string(b)\n", New: "\t\t\tm[strings.TrimLeft(e, metaHdr+\".\")] = string(b)\n", Expect: "TrimLeft"},
		Control{Name: "sidecar DeleteAttributes removes the object's directory, not its meta directory", Rule: "R-C01-11", File: "backend/meta/sidecar.go",
			Old: "func (s SideCar) DeleteAttributes(bucket, object string) error {\n\tmetadir := filepath.Join(s.dir, bucket, object, sidecarmeta)", New: "func (s SideCar) DeleteAttributes(bucket, object string) error {\n\tmetadir := filepath.Join(s.dir, bucket, object)", Expect: "DeleteAttributes"},
	)
	extraControls["C04"] = append(extraControls["C04"],
		Control{Name: "pruning drops the metadata store's state of the directory first", Rule: "R-C04-8", File: "backend/posix/posix.go",
			Old: "\t\terr = os.Remove(filepath.Join(bucket, parent))\n", New: "\t\t_ = p.meta.DeleteAttributes(bucket, parent)\n\t\terr = os.Remove(filepath.Join(bucket, parent))\n", Expect: "removeParents"},
	)
	extraControls["C11"] = append(extraControls["C11"],
		Control{Name: "backend start-up sweeps the temp directories", Rule: "R-C11-10", File: "backend/posix/posix.go",
			Old: "\tf, err := os.Open(rootdir)\n", New: "\tif ents, derr := os.ReadDir(rootdir); derr == nil {\n\t\tfor _, e := range ents {\n\t\t\tos.RemoveAll(filepath.Join(rootdir, e.Name(), metaTmpDir))\n\t\t}\n\t}\n\tf, err := os.Open(rootdir)\n", Expect: "New"},
		Control{Name: "sidecar attribute written through a temp file in the attribute directory", Rule: "R-C11-11", File: "backend/meta/sidecar.go",
			Old: "\terr = os.WriteFile(attr, value, 0666)\n", New: "\ttf, terr := os.CreateTemp(metadir, attribute+\".\")\n\tif terr != nil {\n\t\treturn terr\n\t}\n\ttf.Write(value)\n\ttf.Close()\n\terr = os.Rename(tf.Name(), attr)\n", Expect: "CreateTemp"},
	)
	extraControls["C09"] = append(extraControls["C09"],
		Control{Name: "version ids from a non-monotonic entropy source", Rule: "R-C09-8", File: "backend/posix/posix.go",
			Old: "\tif p.versioningEnabled() && vEnabled {\n\t\tversionID = ulid.Make().String()\n\t}\n\n\t// Before finaliazing the object creation remove", New: "\tif p.versioningEnabled() && vEnabled {\n\t\tversionID = ulid.MustNew(ulid.Now(), rand.Reader).String()\n\t}\n\n\t// Before finaliazing the object creation remove",
			More: []Edit{{"backend/posix/posix.go", "import (\n", "import (\n\t\"crypto/rand\"\n"}}, Expect: "ulid"},
	)
	extraControls["C13"] = append(extraControls["C13"],
		Control{Name: "small bodies sent from one Read", Rule: "R-C13-9", File: "s3api/utils/utils.go",
			Old: "\tctx.Context().SetBodyStream(rdr, bodysize)\n", New: "\tif bodysize >= 0 && bodysize <= 32*1024 {\n\t\tbuf := make([]byte, bodysize)\n\t\tn, _ := rdr.Read(buf)\n\t\trdr.Close()\n\t\tctx.Context().SetBody(buf[:n])\n\t\treturn\n\t}\n\tctx.Context().SetBodyStream(rdr, bodysize)\n", Expect: "StreamResponseBody"},
	)
	extraControls["C02"] = append(extraControls["C02"],
		Control{Name: "controller drops the body of an empty directory PUT", Rule: "R-C02-11", File: "s3api/controllers/base.go",
			Old: "\tres, err := c.be.PutObject(ctx.Context(),\n\t\ts3response.PutObjectInput{", New: "\tif contentLength == 0 && strings.HasSuffix(keyStart, \"/\") {\n\t\tbody = nil\n\t}\n\tres, err := c.be.PutObject(ctx.Context(),\n\t\ts3response.PutObjectInput{", Expect: "Body"},
	)
	extraControls["C03"] = append(extraControls["C03"],
		Control{Name: "PutBucketPolicy removes the old policy before storing the new one", Rule: "R-C03-9", File: "backend/posix/posix.go",
			Old: "\terr = p.meta.StoreAttribute(nil, bucket, \"\", policykey, policy)\n", New: "\t_ = p.meta.DeleteAttribute(bucket, \"\", policykey)\n\terr = p.meta.StoreAttribute(nil, bucket, \"\", policykey, policy)\n", Expect: "PutBucketPolicy"},
	)
}

// ---- R-C17-16 / R-C02-10: the account cache holds, and answers with, only what the service confirmed -------------------

func more5CacheHoldsConfirmedOnly(p *Program, r *Report) {
	rule := "R-C17-16"
	if r.Prop == "C02" {
		rule = "R-C02-10"
	}
	r.Rule(rule, "no verdict from memory about accounts the service did not confirm: in IAMCache.GetUserAccount nothing is put into the cache unless the service lookup succeeded, and every error it returns is the error of that very lookup (an access key the service refused is neither cached as an account nor remembered as unknown)", 2)
	f := p.Func("(*auth.IAMCache).GetUserAccount")
	var svc []ssa.CallInstruction
	for _, c := range callsIn(f) {
		cc := c.Common()
		if cc.IsInvoke() && cc.Method.Name() == "GetUserAccount" {
			svc = append(svc, c)
		}
	}
	if len(svc) == 0 {
		broken("%s: the service lookup is not found in IAMCache.GetUserAccount", rule)
	}
	// (i) stores into the cache only behind the lookup's success
	n := 0
	for _, c := range callsIn(f) {
		g := c.Common().StaticCallee()
		if !isCacheStoreMethod(g, f) || !writesReceiverState(g) {
			continue
		}
		n++
		ok, why := mustSucceedBefore(f, svc, nil, []*ssa.BasicBlock{c.Block()})
		r.Check(ok, rule, fnName(f)+"/"+g.Name()+"#"+itoa(n)+":only-after-service-success", p.Pos(c.Pos()), "cache written only after the service confirmed the account",
			"the cache is written although the service lookup did not succeed ("+why+"): an access key the service does not know is cached (as an empty account it then authenticates with an empty secret; as 'unknown' it stays refused after the account is created)")
	}
	// the insert written out in place (a helper that was inlined): a map update in this function
	for _, b := range f.Blocks {
		for _, in := range b.Instrs {
			mu, isMU := in.(*ssa.MapUpdate)
			if !isMU {
				continue
			}
			n++
			ok, why := mustSucceedBefore(f, svc, nil, []*ssa.BasicBlock{mu.Block()})
			r.Check(ok, rule, fnName(f)+"/map-update#"+itoa(n)+":only-after-service-success", p.Pos(mu.Pos()), "cache written only after the service confirmed the account",
				"the cache is written although the service lookup did not succeed ("+why+"): an access key the service does not know is cached")
		}
	}
	if n == 0 {
		// the insert may sit in a helper of this type (fetch-and-cache): then that helper is the unit
		for _, c := range callsIn(f) {
			g := c.Common().StaticCallee()
			if g == nil || g.Signature.Recv() == nil || !strings.Contains(typeStr(g.Signature.Recv().Type()), "IAMCache") || len(g.Blocks) == 0 {
				continue
			}
			var inner []ssa.CallInstruction
			for _, c2 := range callsIn(g) {
				if cc := c2.Common(); cc.IsInvoke() && cc.Method.Name() == "GetUserAccount" {
					inner = append(inner, c2)
				}
			}
			for _, c2 := range callsIn(g) {
				h := c2.Common().StaticCallee()
				if !isCacheStoreMethod(h, f) || !writesReceiverState(h) {
					continue
				}
				n++
				ok, why := mustSucceedBefore(g, inner, nil, []*ssa.BasicBlock{c2.Block()})
				r.Check(len(inner) > 0 && ok, rule, fnName(g)+"/"+h.Name()+"#"+itoa(n)+":only-after-service-success", p.Pos(c2.Pos()), "cache written only after the service confirmed the account",
					"the cache is written although the service lookup did not succeed ("+why+")")
			}
		}
	}
	if n == 0 {
		r.Viol(rule, fnName(f)+"/cache-insert", p.Pos(f.Pos()), "GetUserAccount never stores into the cache (anchor drift)")
	}
	// (ii) errors come from the service
	var svcErr = map[ssa.Value]bool{}
	for _, c := range svc {
		for _, ev := range errValues(c) {
			for _, a := range aliasesOf(ev) {
				svcErr[a] = true
			}
			svcErr[ev] = true
		}
	}
	k := 0
	for _, s := range errReturnSites(f) {
		if isNilConst(s.val) {
			continue
		}
		k++
		ok := svcErr[s.val]
		if !ok {
			for _, rt := range Origins(s.val, nil) {
				if rt.Kind == "call" && rt.Call != nil {
					for _, c := range svc {
						if rt.Call == c {
							ok = true
						}
					}
				}
			}
		}
		r.Check(ok, rule, fnName(f)+"/error#"+itoa(k)+":from-service", p.Pos(s.ret.Pos()), "the error returned is the service's",
			"GetUserAccount answers with an error that does not come from the service lookup (a remembered 'unknown key' verdict): an account created after a failed lookup of its key stays refused until the memory expires")
	}
}

// isCacheStoreMethod: a method of another type of package auth than f's own receiver type (the cache's store,
// whatever it is called).
func isCacheStoreMethod(g, f *ssa.Function) bool {
	if g == nil || g.Signature.Recv() == nil || g.Pkg == nil || g.Pkg.Pkg.Path() != modPath+"/auth" || len(g.Blocks) == 0 {
		return false
	}
	if f.Signature.Recv() != nil && types.Identical(derefType(g.Signature.Recv().Type()), derefType(f.Signature.Recv().Type())) {
		return false
	}
	return true
}

// writesReceiverState: the method stores into a map or field reachable from its receiver.
func writesReceiverState(g *ssa.Function) bool {
	if len(g.Blocks) == 0 || len(g.Params) == 0 {
		return false
	}
	recv := g.Params[0]
	fromRecv := func(v ssa.Value) bool {
		for _, rt := range terminalRoots(Origins(v, nil)) {
			if rt.Kind == "param" && rt.Val == ssa.Value(recv) {
				return true
			}
			if rt.Kind == "field" {
				return true
			}
		}
		return false
	}
	for _, b := range g.Blocks {
		for _, in := range b.Instrs {
			switch x := in.(type) {
			case *ssa.MapUpdate:
				if fromRecv(x.Map) {
					return true
				}
			case *ssa.Store:
				if fa, ok := x.Addr.(*ssa.FieldAddr); ok && fromRecv(fa.X) {
					return true
				}
			}
		}
	}
	return false
}

// ---- R-C17-17: a lock that is copied excludes nobody --------------------------------------------------------------------

func more5LocksNotCopied(p *Program, r *Report) {
	r.Rule("R-C17-17", "mutators of the account store exclude each other: no method of a type of package auth that contains a sync.Mutex / sync.RWMutex by value has a value receiver (each call would lock a private copy)", 3)
	hasLock := func(t types.Type) bool {
		seen := map[types.Type]bool{}
		var rec func(t types.Type) bool
		rec = func(t types.Type) bool {
			if seen[t] {
				return false
			}
			seen[t] = true
			if nt, ok := types.Unalias(t).(*types.Named); ok && nt.Obj().Pkg() != nil && nt.Obj().Pkg().Path() == "sync" && (nt.Obj().Name() == "Mutex" || nt.Obj().Name() == "RWMutex") {
				return true
			}
			if st, ok := t.Underlying().(*types.Struct); ok {
				for i := 0; i < st.NumFields(); i++ {
					if rec(st.Field(i).Type()) {
						return true
					}
				}
			}
			return false
		}
		return rec(t)
	}
	n := 0
	for _, f := range p.FuncsIn("auth") {
		recv := f.Signature.Recv()
		if recv == nil || f.Parent() != nil || f.Synthetic != "" {
			continue
		}
		t := recv.Type()
		ptr := false
		if pt, ok := t.Underlying().(*types.Pointer); ok {
			t = pt.Elem()
			ptr = true
		}
		if !hasLock(t) {
			continue
		}
		n++
		r.Check(ptr, "R-C17-17", fnName(f)+"/pointer-receiver", p.Pos(f.Pos()), "pointer receiver", "the method has a value receiver although its type holds a mutex: every call works on a copy of the lock, concurrent account mutations interleave and the account file can be written from a torn read")
	}
	if n < 3 {
		broken("R-C17-17: only %d methods on lock-holding types found in auth", n)
	}
}

// ---- R-C01-10: a prefix is cut off as a prefix -----------------------------------------------------------------------------

func more5TrimCutsets(p *Program, r *Report) {
	r.Rule("R-C01-10", "stored names come back unchanged: where the storage back ends strip a prefix or suffix from an attribute or key name they do not use strings.Trim / TrimLeft / TrimRight with a word as cut set (a cut set with a repeated character, or one that is not a constant); those remove every leading character of the set, e.g. 'a', 'm', 't' of a metadata key after the prefix X-Amz-Meta.", 1)
	n := 0
	for _, f := range p.FuncsIn("backend", "backend/posix", "backend/scoutfs", "backend/meta", "backend/s3proxy", "auth", utilsPkg, ctrlPkg, mwPkg) {
		cs := callsTo(f, "strings.Trim", "strings.TrimLeft", "strings.TrimRight")
		keys := siteKeys(f, cs)
		for _, c := range cs {
			n++
			cut, isC := constString(callArgs(c)[1])
			bad := !isC
			if isC {
				seen := map[rune]bool{}
				for _, ch := range cut {
					if seen[ch] {
						bad = true
					}
					seen[ch] = true
				}
			}
			r.Check(!bad, "R-C01-10", keys[c], p.Pos(c.Pos()), "cut set is a set", "the cut set of "+calleeName(c)+" is a word (repeated characters or not a constant): it removes every leading/trailing character that occurs in it, not the prefix/suffix; names that begin with such a character come back mangled")
		}
	}
	if n == 0 {
		r.Ok("R-C01-10", "no-trim-cutsets", "backend", "no strings.Trim* with a cut set in the request path")
	}
}

// ---- R-C01-11 / R-C04-9: the sidecar store works below its reserved directory --------------------------------------------------

func more5SidecarBelowMeta(p *Program, r *Report) {
	rule := "R-C01-11"
	if r.Prop == "C04" {
		rule = "R-C04-9"
	}
	r.Rule(rule, "an object's attributes live below <object>/meta in the sidecar tree: every SideCar method builds the path it reads, writes, lists or removes with the reserved name (sidecarmeta) as an element; a method that addresses <object> itself removes the attribute directories of every key below that name", 5)
	reserved, ok := pkgConstString(p, "backend/meta", "sidecarmeta")
	if !ok {
		broken("%s: backend/meta.sidecarmeta not found", rule)
	}
	n := 0
	for _, f := range p.FuncsIn("backend/meta") {
		recv := f.Signature.Recv()
		if recv == nil || !strings.HasSuffix(typeStr(recv.Type()), "SideCar") || f.Parent() != nil || f.Synthetic != "" {
			continue
		}
		for _, c := range callsIn(f) {
			cn := calleeName(c)
			if !strings.HasPrefix(cn, "os.") || len(callArgs(c)) == 0 {
				continue
			}
			switch cn {
			case "os.MkdirAll", "os.WriteFile", "os.ReadFile", "os.Remove", "os.RemoveAll", "os.ReadDir", "os.Open", "os.OpenFile", "os.Rename", "os.Stat", "os.Lstat":
			default:
				continue
			}
			if typeStr(callArgs(c)[0].Type()) != "string" {
				continue
			}
			n++
			// on every path: each value that can arrive as the path is built with the reserved name
			has := true
			for _, lf := range valueLeaves(callArgs(c)[0], c.Block()) {
				one := false
				for _, rt := range Origins(lf.val, nil) {
					if rt.Kind == "const" && strings.Trim(rt.Desc, "\"") == reserved {
						one = true
					}
				}
				if !one {
					has = false
				}
			}
			r.Check(has, rule, fnName(f)+"/"+cn+"#"+itoa(n), p.Pos(c.Pos()), "path below the reserved directory", "the path this SideCar method hands to "+cn+" is not built with the reserved directory name: it addresses the object's own directory, i.e. the attributes of every key stored below that name (or of the bucket)")
		}
	}
	if n < 5 {
		broken("%s: only %d file-system calls found in the SideCar methods", rule, n)
	}
}

// ---- R-C04-8 / R-C10-13: pruning removes empty directories and nothing else ------------------------------------------------------

func more5PruneHasNoOtherEffect(p *Program, r *Report) {
	rule := "R-C04-8"
	if r.Prop == "C10" {
		rule = "R-C10-13"
	}
	if r.Prop == "C01" {
		rule = "R-C01-12"
	}
	r.Rule(rule, "the clean-up after a delete touches nothing that was stored: posix.removeParents has no persistent effect other than removing the directory whose 'explicitly uploaded' marker it looked up (no attribute removal, no recursive removal); an explicit directory object, its metadata and any hold on it survive the deletion of a key below it", 1)
	f := p.Func(posixP + "removeParents")
	eff := effectFuncs(p)
	etagKey, _ := pkgConstString(p, "backend/posix", "etagkey")
	var probed []ssa.Value
	for _, mc := range metaCallsIn(f) {
		if mc.method == "RetrieveAttribute" && mc.keyArg == etagKey && len(mc.call.Common().Args) >= 3 {
			probed = append(probed, mc.call.Common().Args[2])
		}
	}
	n := 0
	for _, c := range callsIn(f) {
		cc := c.Common()
		isMetaWrite := cc.IsInvoke() && typeStr(cc.Value.Type()) == "backend/meta.MetadataStorer" && (strings.HasPrefix(cc.Method.Name(), "Delete") || strings.HasPrefix(cc.Method.Name(), "Store"))
		if !isEffectCall(c, eff) && !isMetaWrite {
			continue
		}
		n++
		ok := false
		if calleeName(c) == "os.Remove" {
			if jc, isC := callArgs(c)[0].(*ssa.Call); isC && calleeName(jc) == "path/filepath.Join" {
				for _, e := range variadicInts(jc.Call.Args[len(jc.Call.Args)-1]) {
					for _, pv := range probed {
						if e == pv {
							ok = true
						}
					}
				}
			}
		}
		name := calleeName(c)
		if cc.IsInvoke() {
			name = cc.Method.Name()
		}
		r.Check(ok, rule, fnName(f)+"/effect#"+itoa(n), p.Pos(c.Pos()), "removes the probed, empty directory", "pruning performs "+name+" on something other than the empty directory it examined: stored state of another key (an explicit directory object, its attributes, the attributes of keys below a name the metadata store reserves) is destroyed by deleting a different key")
	}
	if n == 0 {
		broken("%s: removeParents removes nothing (anchor drift)", rule)
	}
}

// ---- R-C11-10 / R-C05-8: starting a gateway removes nothing ------------------------------------------------------------------------

func more5ConstructorsRemoveNothing(p *Program, r *Report) {
	rule := "R-C11-10"
	if r.Prop == "C05" {
		rule = "R-C05-8"
	}
	r.Rule(rule, "a start-up cannot undo what was acknowledged or is in flight elsewhere: the constructors of the storage back ends (posix.New, scoutfs.New) reach no removal, rename or truncation of files (parts of unfinished multipart uploads are acknowledged state; another gateway on the same storage may be writing its temp files)", 1)
	removal := map[string]bool{"os.Remove": true, "os.RemoveAll": true, "os.Rename": true, "os.Truncate": true, "syscall.Unlink": true, "syscall.Rename": true, "golang.org/x/sys/unix.Unlink": true, "golang.org/x/sys/unix.Renameat": true}
	n := 0
	for _, name := range []string{"backend/posix.New", "backend/scoutfs.New"} {
		f := p.Func(name)
		if f == nil {
			continue
		}
		n++
		bad := ""
		seen := map[*ssa.Function]bool{}
		var walk func(g *ssa.Function, depth int)
		walk = func(g *ssa.Function, depth int) {
			if g == nil || seen[g] || depth > 4 || len(g.Blocks) == 0 {
				return
			}
			seen[g] = true
			for _, fn := range withAnon(g) {
				for _, c := range callsIn(fn) {
					if os.Getenv("VGW_DEBUG") != "" {
						fmt.Fprintf(os.Stderr, "R-C11-10 %s depth %d: %s\n", fnName(fn), depth, calleeName(c))
					}
					if removal[calleeName(c)] {
						bad = calleeName(c) + " at " + p.Pos(c.Pos())
					}
					if h := c.Common().StaticCallee(); h != nil && h.Pkg != nil && strings.HasPrefix(h.Pkg.Pkg.Path(), modPath) {
						walk(h, depth+1)
					}
					for _, a := range c.Common().Args {
						for {
							if ct, ok := a.(*ssa.ChangeType); ok {
								a = ct.X
								continue
							}
							if mi, ok := a.(*ssa.MakeInterface); ok {
								a = mi.X
								continue
							}
							break
						}
						if af, isF := a.(*ssa.Function); isF {
							walk(af, depth+1) // a function literal without free variables
						}
						if mc, isMC := a.(*ssa.MakeClosure); isMC {
							if cf, isF := mc.Fn.(*ssa.Function); isF {
								walk(cf, depth+1)
							}
						}
					}
				}
				// function literals handed to library iterators (filepath.WalkDir), also those that came in
				// with an inlined helper
				for _, b := range fn.Blocks {
					for _, in := range b.Instrs {
						if mc, ok := in.(*ssa.MakeClosure); ok {
							if cf, isF := mc.Fn.(*ssa.Function); isF {
								walk(cf, depth+1)
							}
						}
					}
				}
			}
		}
		walk(f, 0)
		r.Check(bad == "", rule, fnName(f)+"/removes-nothing", p.Pos(f.Pos()), "no removal reachable from the constructor", "the constructor reaches "+bad+": a restart (or a second gateway starting on the same storage) deletes acknowledged multipart parts or another process's in-flight temp file")
	}
	if n == 0 {
		broken("%s: no backend constructor found", rule)
	}
}

// ---- R-C11-11: temp files are made in the temp directory only ------------------------------------------------------------------------

func more5TempFilesOnlyInTmpDir(p *Program, r *Report) {
	r.Rule("R-C11-11", "unfinished files are never where a listing looks: os.CreateTemp / os.MkdirTemp in the storage back ends and the metadata stores is called only by the temp-file openers of posix/scoutfs (whose directory is the pruned temp directory, R-C05-6); a metadata store that stages values in its attribute directory leaves half-written 'attributes' after a crash", 1)
	n := 0
	for _, f := range p.FuncsIn("backend", "backend/posix", "backend/scoutfs", "backend/meta") {
		for _, c := range callsTo(f, "os.CreateTemp", "os.MkdirTemp") {
			n++
			top := f
			for top.Parent() != nil {
				top = top.Parent()
			}
			nm := fnName(top)
			ok := strings.HasSuffix(nm, ".openMkTemp") || strings.HasSuffix(nm, ".openTmpFile")
			r.Check(ok, "R-C11-11", fnName(f)+"/"+calleeName(c), p.Pos(c.Pos()), "temp file made by the temp-file opener", "a temp file is created outside the back end's temp-file opener (in a directory that listings or attribute enumeration read): after a crash it is visible through the API")
		}
	}
	if n < 1 {
		// no temp file is made with os.CreateTemp at all: where the openers get their file from is R-C05-4's subject
		r.Ok("R-C11-11", "no-createtemp-sites", "backend", "no os.CreateTemp / os.MkdirTemp call in the back ends")
	}
}

// ---- R-C09-8: version ids sort in the order they were made ----------------------------------------------------------------------------

func more5VersionIdsMonotonic(p *Program, r *Report) {
	r.Rule("R-C09-8", "history is ordered by id: every version id the posix back end makes comes from ulid.Make() (process-wide monotonic entropy: ids made within one millisecond still sort in creation order); no other ulid constructor is used", 3)
	n := 0
	for _, f := range p.FuncsIn("backend/posix", "backend/scoutfs", "backend") {
		for _, c := range callsIn(f) {
			cn := calleeName(c)
			if !strings.Contains(cn, "oklog/ulid") {
				continue
			}
			short := cn[strings.LastIndex(cn, ".")+1:]
			switch short {
			case "Make":
				n++
				r.Ok("R-C09-8", fnName(f)+"/ulid.Make#"+itoa(n), p.Pos(c.Pos()), "monotonic id")
			case "New", "MustNew", "MustNewDefault", "Monotonic":
				n++
				r.Viol("R-C09-8", fnName(f)+"/ulid."+short+"#"+itoa(n), p.Pos(c.Pos()), "a version id is made by ulid."+short+" with its own entropy source: two writes of one key within a millisecond get ids in random order, the listing and the promotion after a delete-by-id follow the ids, so the history is misordered and the wrong version is re-exposed")
			}
		}
	}
	if n < 1 {
		broken("R-C09-8: no version id constructor found in the posix back end")
	}
}

// ---- R-C13-9: the response body is streamed whole --------------------------------------------------------------------------------------

func more5BodyStreamedWhole(p *Program, r *Report) {
	r.Rule("R-C13-9", "the body sent is the body the backend returned: utils.StreamResponseBody hands the backend's reader to the HTTP layer as a stream of the announced size and never reads from it itself (one Read may return fewer bytes than asked for; a body taken from a single Read is cut short while Content-Range still names the whole interval)", 1)
	f := p.Func(utilsPkg + ".StreamResponseBody")
	streamed := false
	bad := ""
	for _, fn := range withAnon(f) {
		for _, c := range callsIn(fn) {
			cc := c.Common()
			if cc.IsInvoke() && cc.Method.Name() == "Read" {
				bad = "Read at " + p.Pos(c.Pos())
			}
			if strings.HasSuffix(calleeName(c), ".SetBodyStream") {
				for _, a := range callArgs(c) {
					for _, rt := range terminalRoots(Origins(a, nil)) {
						if rt.Kind == "param" {
							streamed = true
						}
					}
				}
			}
		}
	}
	r.Check(streamed && bad == "", "R-C13-9", fnName(f)+"/streams-the-reader", p.Pos(f.Pos()), "reader handed to SetBodyStream, never read here", "StreamResponseBody reads the backend's body itself ("+bad+") or does not hand it to SetBodyStream: a short read truncates the response body under unchanged 206 / Content-Range headers")
}

// ---- R-C02-11: the deferred verdict is always collected ---------------------------------------------------------------------------------

func more5BodyNeverDropped(p *Program, r *Report) {
	r.Rule("R-C02-11", "the reader that carries the deferred signature verdict always reaches the backend: the Body the PutObject / UploadPart controllers hand to the backend is never nil on any path (a nil Body is 'nothing to drain' for the backend, the installed reader is then never read to its end and the request is never authenticated)", 2)
	n := 0
	for _, bc := range backendCalls(s3Handlers(p)) {
		if bc.method != "PutObject" && bc.method != "UploadPart" {
			continue
		}
		for _, a := range callArgs(bc.call) {
			m, _ := litFieldsAt(a, bc.call)
			if m == nil || len(m["Body"]) == 0 {
				continue
			}
			n++
			bad := false
			for _, bv := range m["Body"] {
				vals := []ssa.Value{bv}
				if ld, ok := bv.(*ssa.UnOp); ok && ld.Op == token.MUL {
					if al, isAl := ld.X.(*ssa.Alloc); isAl {
						for _, st := range storesTo(al) {
							vals = append(vals, st.Val)
						}
					}
				}
				for _, v := range vals {
					for _, lf := range valueLeaves(v, bc.call.Block()) {
						if isNilConst(lf.val) {
							bad = true
						}
					}
				}
			}
			r.Check(!bad, "R-C02-11", bc.key+".Body", p.Pos(bc.call.Pos()), "Body is never nil", "on some path the controller hands a nil Body to "+bc.method+": the backend then has nothing to drain, the installed deferred-authentication reader is never read to its end and a request with a wrong signature takes effect")
		}
	}
	if n < 1 {
		broken("R-C02-11: no PutObject/UploadPart input with a Body found in the controllers")
	}
}

// ---- R-C03-9 / R-C14-8: a stored policy is replaced, never removed and re-added ------------------------------------------------------------

func more5SettingsReplacedAtomically(p *Program, r *Report) {
	rule := "R-C03-9"
	if r.Prop == "C14" {
		rule = "R-C14-8"
	}
	r.Rule(rule, "a policy update never passes through 'no policy': in posix.PutBucketPolicy the store of the policy attribute is not preceded by its removal (between the two, and for good if the store fails, the bucket has no policy and access falls back to the ACL: an explicit Deny is lifted)", 1)
	f := p.Func(posixP + "PutBucketPolicy")
	key, _ := pkgConstString(p, "backend/posix", "policykey")
	var stores, dels []ssa.CallInstruction
	for _, mc := range metaCallsIn(f) {
		if mc.keyArg != key {
			continue
		}
		switch mc.method {
		case "StoreAttribute":
			stores = append(stores, mc.call)
		case "DeleteAttribute", "DeleteAttributes":
			dels = append(dels, mc.call)
		}
	}
	if len(stores) == 0 {
		broken("%s: PutBucketPolicy does not store the policy attribute (anchor drift)", rule)
	}
	for i, st := range stores {
		bad := ""
		for _, d := range dels {
			if mayPrecede(d, st) {
				bad = p.Pos(d.Pos())
			}
		}
		r.Check(bad == "", rule, fnName(f)+"/store#"+itoa(i+1)+":no-removal-first", p.Pos(st.Pos()), "the attribute is overwritten in place", "the policy attribute is removed (at "+bad+") before the new value is stored: a failed or interrupted update leaves the bucket without its policy and requests the policy denied are decided by the ACL")
	}
}

// ---- R-C16-9: nothing is created below a bucket that was not seen to exist ------------------------------------------------------------

func more5BucketSeenBeforeCreate(p *Program, r *Report) {
	r.Rule("R-C16-9", "a deleted bucket is not brought back by an upload: every posix method that creates directories below a bucket (os.MkdirAll / backend.MkdirAll on a path built from the bucket name, directly or by opening a temp file) first stats the bucket itself and goes on only if it exists (MkdirAll creates missing ancestors silently: without the test a request racing DeleteBucket re-creates the bucket directory, without its ACL)", 3)
	creates := func(c ssa.CallInstruction) bool {
		switch calleeName(c) {
		case "os.MkdirAll", "backend.MkdirAll", "(*backend/posix.Posix).openTmpFile":
			return true
		}
		return false
	}
	n := 0
	for _, f := range p.FuncsIn("backend/posix") {
		recv := f.Signature.Recv()
		if recv == nil || f.Parent() != nil || !strings.HasSuffix(typeStr(recv.Type()), "Posix") || !ast_IsExported(f.Name()) || f.Name() == "CreateBucket" {
			continue
		}
		var cs []ssa.CallInstruction
		for _, c := range callsIn(f) {
			if _, isCall := c.(*ssa.Call); isCall && creates(c) {
				cs = append(cs, c)
			}
		}
		if len(cs) == 0 {
			continue
		}
		// the bucket existence tests: os.Stat / os.Lstat of a plain bucket name
		var stats []ssa.CallInstruction
		for _, c := range callsTo(f, "os.Stat", "os.Lstat") {
			a := callArgs(c)[0]
			if _, isJoin := a.(*ssa.Call); isJoin {
				continue
			}
			isBucket := false
			for _, rt := range Origins(a, nil) {
				if (rt.Kind == "field" && strings.HasSuffix(rt.Desc, "Bucket")) || (rt.Kind == "param" && strings.Contains(strings.ToLower(rt.Desc), "bucket")) {
					isBucket = true
				}
			}
			if isBucket {
				stats = append(stats, c)
			}
		}
		keys := siteKeys(f, cs)
		for _, c := range cs {
			n++
			ok := len(stats) > 0 && guardedBy(f, c, stats)
			r.Check(ok, "R-C16-9", keys[c]+":bucket-seen", p.Pos(c.Pos()), "behind a successful stat of the bucket", "directories are created below the bucket without the bucket itself having been seen to exist in this method: a request that races (or follows) DeleteBucket re-creates the bucket directory with no ACL or owner and is acknowledged")
		}
	}
	if n < 3 {
		broken("R-C16-9: only %d directory-creating calls found in the posix methods", n)
	}
}

func ast_IsExported(name string) bool { return name != "" && name[0] >= 'A' && name[0] <= 'Z' }

// ---- R-C16-8: only admins see everybody's buckets --------------------------------------------------------------------------------------

func more5AdminIsRoleAdmin(p *Program, r *Report) {
	r.Rule("R-C16-8", "a non-admin's ListBuckets shows its own buckets: the IsAdmin flag the ListBuckets handler hands to the backend is the comparison role == RoleAdmin of the request's account (not 'any role but user')", 1)
	admin, ok := pkgConstString(p, "auth", "RoleAdmin")
	if !ok {
		broken("R-C16-8: auth.RoleAdmin not found")
	}
	n := 0
	for _, bc := range backendCalls(s3Handlers(p)) {
		if bc.method != "ListBuckets" {
			continue
		}
		for _, a := range callArgs(bc.call) {
			m, _ := litFieldsAt(a, bc.call)
			if m == nil || len(m["IsAdmin"]) == 0 {
				continue
			}
			n++
			good := true
			for _, v := range m["IsAdmin"] {
				bo, isBo := v.(*ssa.BinOp)
				if !isBo || bo.Op != token.EQL {
					good = false
					continue
				}
				cx, okx := constString(bo.X)
				cy, oky := constString(bo.Y)
				other := bo.X
				c := cy
				if okx {
					other, c = bo.Y, cx
				}
				if (!okx && !oky) || c != admin {
					good = false
				}
				role := false
				for _, rt := range Origins(other, nil) {
					if rt.Kind == "field" && rt.Desc == "Role" {
						role = true
					}
				}
				if !role || !hasCallRoot(Origins(other, nil), fiberCtx+".Locals", "account") {
					good = false
				}
			}
			r.Check(good, "R-C16-8", bc.key+".IsAdmin", p.Pos(bc.call.Pos()), "IsAdmin <- account.Role == RoleAdmin", "the IsAdmin flag of the ListBuckets input is not the test role == admin of the request's account: accounts of another role (userplus) are shown every owner's buckets")
		}
	}
	if n < 1 {
		broken("R-C16-8: no ListBuckets input with an IsAdmin field found in the handlers")
	}
}

// ---- R-C18-13: the endpoint's status is relayed as it is ----------------------------------------------------------------------------------

func more5StatusRelayed(p *Program, r *Report) {
	r.Rule("R-C18-13", "the proxy answers what the endpoint answered: every value handleError stores into the relayed error's HTTPStatusCode is the StatusCode of the endpoint's response (no class of statuses is replaced by a constant)", 1)
	f := p.Func("backend/s3proxy.handleError")
	n := 0
	for _, b := range f.Blocks {
		for _, in := range b.Instrs {
			st, ok := in.(*ssa.Store)
			if !ok {
				continue
			}
			fa, ok := st.Addr.(*ssa.FieldAddr)
			if !ok || fieldName(fa.X.Type(), fa.Field) != "HTTPStatusCode" {
				continue
			}
			n++
			good := false
			if _, isC := st.Val.(*ssa.Const); !isC {
				for _, rt := range Origins(st.Val, nil) {
					if rt.Kind == "field" && rt.Desc == "StatusCode" {
						good = true
					}
				}
			}
			// the status must not be chosen by a test of its own value
			if good && !reachable(f, nil, nil)[st.Block()] {
				good = false
			}
			r.Check(good, "R-C18-13", fnName(f)+"/status#"+itoa(n), p.Pos(st.Pos()), "HTTPStatusCode <- Response.StatusCode", "handleError stores a status of its own choosing instead of the endpoint's: answers such as 501, 503 or 3xx reach the client as another status than a direct request gets")
		}
	}
	// and the only store is unconditional with respect to the status value
	for _, ce := range condEdgesOf(f) {
		if ce.atoms["field:StatusCode"] {
			r.Viol("R-C18-13", fnName(f)+"/status-classified", p.Pos(ce.pos()), "handleError branches on the endpoint's status: some statuses are relayed differently from others")
		}
	}
	if n < 1 {
		broken("R-C18-13: handleError stores no HTTPStatusCode (anchor drift)")
	}
}

// ---- R-C18-14: the proxy forwards the operation it was asked for, first ---------------------------------------------------------------------

func more5OwnOperationFirst(p *Program, r *Report) {
	r.Rule("R-C18-14", "a request the endpoint refuses changes nothing through the proxy either: in an S3Proxy method that forwards the operation of its own name, no other mutating call to the endpoint (Put*/Delete*/Create*/Complete*/Abort*/Upload*/Copy*) can execute before that call (the follow-ups the proxy adds, e.g. the ACL tag after CreateBucket, come after it and only on its success)", 15)
	mut := func(n string) bool {
		for _, pre := range []string{"Put", "Delete", "Create", "Complete", "Abort", "Upload", "Copy", "Restore"} {
			if strings.HasPrefix(n, pre) {
				return true
			}
		}
		return false
	}
	n := 0
	for _, f := range p.FuncsIn("backend/s3proxy") {
		recv := f.Signature.Recv()
		if recv == nil || f.Parent() != nil || !strings.HasSuffix(typeStr(recv.Type()), "S3Proxy") {
			continue
		}
		var own, foreign []ssa.CallInstruction
		for _, fn := range withAnon(f) {
			for _, c := range callsIn(fn) {
				cn := calleeName(c)
				if !strings.Contains(cn, "aws-sdk-go-v2/service/s3.Client).") {
					continue
				}
				op := cn[strings.LastIndex(cn, ".")+1:]
				if op == f.Name() {
					own = append(own, c)
				} else if mut(op) {
					foreign = append(foreign, c)
				}
			}
		}
		if len(own) == 0 {
			continue
		}
		n++
		bad := ""
		for _, fc := range foreign {
			for _, oc := range own {
				if fc.Parent() == oc.Parent() && mayPrecede(fc, oc) {
					bad = calleeName(fc)[strings.LastIndex(calleeName(fc), ".")+1:] + " at " + p.Pos(fc.Pos())
				}
			}
			if ok, _ := mustSucceedBefore(f, own, nil, []*ssa.BasicBlock{fc.Block()}); fc.Parent() == f && !ok {
				bad = calleeName(fc)[strings.LastIndex(calleeName(fc), ".")+1:] + " at " + p.Pos(fc.Pos()) + " (not behind the success of " + f.Name() + ")"
			}
		}
		r.Check(bad == "", "R-C18-14", fnName(f)+"/own-operation-first", p.Pos(f.Pos()), "the forwarded operation comes first", "the proxy performs "+bad+" before (or regardless of) the "+f.Name()+" it was asked for: when the endpoint refuses that operation the direct request changes nothing, the proxied one has already changed the endpoint's state (e.g. removed the bucket's ACL tag)")
	}
	if n < 15 {
		broken("R-C18-14: only %d S3Proxy methods forwarding their own operation found", n)
	}
}

// ---- R-C20-14: optional numbers of stored configurations are tested before they are used -------------------------------------------------

func more5OptionalNumbersTested(p *Program, r *Report) {
	r.Rule("R-C20-14", "no crash on a configuration the gateway accepted: in package auth every dereference of an optional numeric field (*int32 / *int64 of a decoded structure, e.g. DefaultRetention.Days / Years) lies behind the non-nil edge of a test of that very field (the parsers accept documents that leave such fields out)", 2)
	n := 0
	for _, f := range p.FuncsIn("auth") {
		for _, b := range f.Blocks {
			for _, in := range b.Instrs {
				u, ok := in.(*ssa.UnOp)
				if !ok || u.Op != token.MUL {
					continue
				}
				bt, isB := u.Type().Underlying().(*types.Basic)
				if !isB || bt.Info()&types.IsInteger == 0 {
					continue
				}
				ld, ok := u.X.(*ssa.UnOp)
				if !ok || ld.Op != token.MUL {
					continue
				}
				fa, ok := ld.X.(*ssa.FieldAddr)
				if !ok {
					continue
				}
				fld := fieldName(fa.X.Type(), fa.Field)
				n++
				var nonNil []edge
				for _, ce := range condEdgesOf(f) {
					if !ce.isEqNeq || ce.binop == nil || (ce.viaPhi && ce.exact != ce.fails.succ) {
						continue
					}
					other := ce.binop.X
					if isNilConst(other) {
						other = ce.binop.Y
					} else if !isNilConst(ce.binop.Y) {
						continue
					}
					l2, isLd := other.(*ssa.UnOp)
					if !isLd || l2.Op != token.MUL {
						continue
					}
					fa2, isFA := l2.X.(*ssa.FieldAddr)
					if !isFA || fieldName(fa2.X.Type(), fa2.Field) != fld || !types.Identical(fa2.X.Type(), fa.X.Type()) {
						continue
					}
					nonNil = append(nonNil, ce.fails) // holds: field == nil
				}
				ok2 := len(nonNil) > 0 && !reachable(f, nil, nonNil)[b]
				r.Check(ok2, "R-C20-14", fnName(f)+"/*"+fld+"@"+itoa(n), p.Pos(u.Pos()), "behind a nil test of "+fld, "the optional field "+fld+" is dereferenced without a nil test of that field on the way: a stored configuration that leaves it out (the parser accepts it) makes every later request on that path dereference nil and the process exits")
			}
		}
	}
	if n < 2 {
		broken("R-C20-14: only %d dereferences of optional numeric fields found in auth", n)
	}
}

// ---- R-C19-12: the notification names the version the operation created ------------------------------------------------------------------

func more5EventVersionIsResultVersion(p *Program, r *Report) {
	r.Rule("R-C19-12", "the notification names the version that was written: where a success response that carries an event sets VersionId from the backend's result, every origin of that value is the result's VersionId field (not another version id the result also carries, e.g. the copy source's)", 1)
	n := 0
	for _, h := range s3Handlers(p) {
		for _, f := range withAnon(h) {
			for _, rc := range responseCalls(f) {
				if rc.fields == nil || len(rc.fields["EvSender"]) == 0 || len(rc.fields["VersionId"]) == 0 {
					continue
				}
				bad := ""
				fromResult := false
				for _, v := range rc.fields["VersionId"] {
					for _, lf := range valueLeaves(v, rc.call.Block()) {
						for _, rt := range Origins(lf.val, nil) {
							if rt.Kind == "field" && strings.HasSuffix(rt.Desc, "VersionId") {
								fromResult = true
								if rt.Desc != "VersionId" {
									bad = rt.Desc
								}
							}
						}
					}
				}
				if !fromResult {
					continue
				}
				n++
				r.Check(bad == "", "R-C19-12", fnName(f)+"/event-version#"+itoa(n), p.Pos(rc.call.Pos()), "VersionId <- result.VersionId", "the event's VersionId can be the result's "+bad+" instead of the version the operation created: the notification names a version of another object")
			}
		}
	}
	if n < 1 {
		broken("R-C19-12: no event response taking its VersionId from a backend result found")
	}
}

// ---- R-C09-9: in an Enabled bucket a delete marker never takes the place of an unsaved object ----------------------------------------------

func more5MarkerSavesCurrent(p *Program, r *Report) {
	r.Rule("R-C09-9", "a delete without an id never loses data while versioning is Enabled: in posix.DeleteObject the store of the delete-marker attribute can be reached without passing createObjVersion only through an edge on which isBucketVersioningEnabled is false (the null version of an Enabled bucket is saved like any other before the marker replaces it)", 1)
	f := p.Func(posixP + "DeleteObject")
	dmKey, _ := pkgConstString(p, "backend/posix", "deleteMarkerKey")
	var marks []ssa.CallInstruction
	for _, mc := range metaCallsIn(f) {
		if mc.method == "StoreAttribute" && mc.keyArg == dmKey {
			marks = append(marks, mc.call)
		}
	}
	saves := callsTo(f, posixP+"createObjVersion")
	if len(marks) == 0 || len(saves) == 0 {
		broken("R-C09-9: delete-marker store or createObjVersion not found in DeleteObject")
	}
	var notEnabled []edge
	for _, ce := range condEdgesOf(f) {
		if ce.viaPhi && ce.exact != ce.fails.succ {
			continue
		}
		if c, ok := ce.cond.(*ssa.Call); ok && strings.HasSuffix(calleeName(c), ".isBucketVersioningEnabled") {
			notEnabled = append(notEnabled, ce.fails)
			continue
		}
		// the same test written out: status == Enabled
		if ce.isEqNeq && ce.binop != nil {
			for _, v := range []ssa.Value{ce.binop.X, ce.binop.Y} {
				if cs, ok := constString(v); ok && cs == "Enabled" {
					notEnabled = append(notEnabled, ce.fails)
				}
			}
		}
	}
	avoid := map[*ssa.BasicBlock]bool{}
	for _, s := range saves {
		avoid[s.Block()] = true
	}
	for i, m := range marks {
		ok := len(notEnabled) > 0 && !reachableAvoiding(f, nil, notEnabled, avoid)[m.Block()]
		r.Check(ok, "R-C09-9", fnName(f)+"/marker#"+itoa(i+1)+":current-saved-when-enabled", p.Pos(m.Pos()), "marker only after the current object was saved, or versioning not Enabled",
			"the current object can be turned into a delete marker without having been saved although versioning is Enabled (the save is skipped for the null version): the pre-versioning object disappears from the history and is lost when the marker is removed")
	}
}
