package main

import "golang.org/x/tools/go/ssa"

func c03Literals(p *Program, r *Report, hs []*ssa.Function, ds []decision, bcs []beCall) {}
func c03Batch(p *Program, r *Report)  {}
func c03Copy(p *Program, r *Report)   {}
func c03Single(p *Program, r *Report) {}
func c03Roles(p *Program, r *Report)  {}
