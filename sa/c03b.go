package main

import (
	"fmt"
	"go/ast"
	"go/types"
	"os"
	"sort"
	"strconv"
	"strings"

	"golang.org/x/tools/go/ssa"
)

const fiberCtx = "(*github.com/gofiber/fiber/v2.Ctx)"

// pkgLitVars: the package-level variables initialised with a composite literal: name -> (type, constant keys or
// elements as strings).
type litVar struct {
	typ  string
	keys map[string]bool
}

func pkgLitVars(p *Program, pkg string) map[string]litVar {
	pk := p.Pkg(pkg)
	out := map[string]litVar{}
	for _, f := range pk.Syntax {
		for _, d := range f.Decls {
			gd, ok := d.(*ast.GenDecl)
			if !ok {
				continue
			}
			for _, sp := range gd.Specs {
				vs, ok := sp.(*ast.ValueSpec)
				if !ok {
					continue
				}
				for i, n := range vs.Names {
					if i >= len(vs.Values) {
						continue
					}
					cl, ok := vs.Values[i].(*ast.CompositeLit)
					if !ok {
						continue
					}
					lv := litVar{keys: map[string]bool{}}
					if tv, ok := pk.TypesInfo.Types[cl]; ok && tv.Type != nil {
						lv.typ = shortType(tv.Type)
					}
					for _, el := range cl.Elts {
						var ke ast.Expr = el
						if kv, ok := el.(*ast.KeyValueExpr); ok {
							ke = kv.Key
						}
						if tv, ok := pk.TypesInfo.Types[ke]; ok && tv.Value != nil {
							lv.keys[strings.Trim(tv.Value.ExactString(), `"`)] = true
						}
					}
					out[n.Name] = lv
				}
			}
		}
	}
	return out
}

// mapLiteralKeys reads the keys of a package-level map/slice composite literal
// whose keys (or elements) are named constants; returns the constants' string values. A table that no longer
// exists under its reference name is looked for among the tables that are new, by type and content.
func mapLiteralKeys(p *Program, pkg, varName string) map[string]bool {
	vars := pkgLitVars(p, pkg)
	if lv, ok := vars[varName]; ok {
		return lv.keys
	}
	if ref, ok := theRefTable().Vars[pkg][varName]; ok && os.Getenv("VGW_NORENAME") == "" {
		refKeys := map[string]bool{}
		for _, k := range ref.Keys {
			refKeys[k] = true
		}
		best, bestS, second := "", 0.0, 0.0
		for n, lv := range vars {
			if _, known := theRefTable().Vars[pkg][n]; known {
				continue
			}
			inter, union := 0, len(refKeys)
			for k := range lv.keys {
				if refKeys[k] {
					inter++
				} else {
					union++
				}
			}
			sc := 0.0
			if union > 0 {
				sc = float64(inter) / float64(union)
			}
			if lv.typ == ref.Type {
				sc += 0.5
			}
			if sc > bestS {
				best, second, bestS = n, bestS, sc
			} else if sc > second {
				second = sc
			}
		}
		if best != "" && bestS >= 0.8 && bestS-second >= 0.3 {
			fmt.Fprintf(os.Stderr, "note: anchor relocated: table %s.%s is taken to be %s of the reference tree (similarity %.2f, next %.2f)\n", pkg, best, varName, bestS, second)
			return vars[best].keys
		}
	}
	broken("anchor %s.%s (composite literal) does not resolve", pkg, varName)
	return nil
}

// argRoots: all origin roots of the arguments of a call, looking into struct
// literals passed by value or by address (one level of nesting).
func argRoots(c ssa.CallInstruction) []Root {
	var out []Root
	var addVal func(v ssa.Value, depth int)
	addVal = func(v ssa.Value, depth int) {
		out = append(out, Origins(v, nil)...)
		if depth > 1 {
			return
		}
		if fs, _ := litFields(v); fs != nil {
			for _, vs := range fs {
				for _, x := range vs {
					addVal(x, depth+1)
				}
			}
		}
	}
	for _, a := range callArgs(c) {
		addVal(a, 0)
	}
	return out
}

func callRootInstrs(rs []Root, callee, arg string) map[ssa.CallInstruction]bool {
	out := map[ssa.CallInstruction]bool{}
	for _, r := range rs {
		if r.Kind == "call" && r.Desc == callee && r.Call != nil {
			if arg == "" {
				out[r.Call] = true
				continue
			}
			for _, a := range callArgs(r.Call) {
				if s, ok := constString(a); ok && s == arg {
					out[r.Call] = true
				}
			}
		}
	}
	return out
}

// onlyFrom: every terminal root of v is a call to callee(arg).
func onlyFrom(v ssa.Value, callee, arg string) (bool, string) {
	rs := terminalRoots(Origins(v, nil))
	if len(rs) == 0 {
		return false, "no origin"
	}
	for _, r := range rs {
		ok := false
		if r.Kind == "call" && r.Desc == callee && r.Call != nil {
			for _, a := range callArgs(r.Call) {
				if s, isS := constString(a); isS && s == arg {
					ok = true
				}
			}
		}
		if !ok {
			return false, rootsDesc(rs)
		}
	}
	return true, rootsDesc(rs)
}

func c03Literals(p *Program, r *Report, hs []*ssa.Function, ds []decision, bcs []beCall) {
	objActions := mapLiteralKeys(p, "auth", "supportedObjectActionList")
	// innermost guarding decision of each backend call
	guarded := map[string][]beCall{} // decision key -> backend calls it is the innermost guard of
	for _, bc := range bcs {
		gs := guardsOf(bc.call, ds)
		if len(gs) == 0 {
			continue
		}
		inner := gs[0]
		for _, g := range gs[1:] {
			// g is deeper if inner guards g
			if guardedBy(g.fn, g.call, []ssa.CallInstruction{inner.call}) {
				inner = g
			}
		}
		guarded[inner.key] = append(guarded[inner.key], bc)
	}
	for _, d := range ds {
		pos := p.Pos(d.call.Pos())
		if d.fields == nil {
			r.Undecided("R-C03-2", d.key, pos, "AccessOptions argument is not a literal built in place")
			continue
		}
		// request-bound fields
		for _, fa := range [][3]string{{"Acl", fiberCtx + ".Locals", "parsedAcl"}, {"IsRoot", fiberCtx + ".Locals", "isRoot"}, {"Acc", fiberCtx + ".Locals", "account"}, {"Bucket", fiberCtx + ".Params", "bucket"}} {
			vs := d.fields[fa[0]]
			if len(vs) != 1 {
				r.Viol("R-C03-2", d.key+"."+fa[0], pos, "field "+fa[0]+" not set exactly once in the AccessOptions literal")
				continue
			}
			ok, desc := onlyFrom(vs[0], fa[1], fa[2])
			r.Check(ok, "R-C03-2", d.key+"."+fa[0], pos, "origin "+desc, "field "+fa[0]+" must originate only from ctx."+fa[1][len(fiberCtx)+1:]+"(\""+fa[2]+"\"), got: "+desc)
		}
		// Action / Object / AclPermission
		acts, aok := constNames(p, first(d.fields["Action"]))
		if !aok || len(acts) == 0 {
			r.Viol("R-C03-2", d.key+".Action", pos, "Action is not a (set of) auth.Action constant(s)")
			continue
		}
		perms, pok := constNames(p, first(d.fields["AclPermission"]))
		isObj := false
		for _, a := range acts {
			if objActions[a] {
				isObj = true
			}
		}
		objVals, hasObj := d.fields["Object"]
		perKey := isPerKeyDecision(d)
		switch {
		case isObj && !hasObj && hasPerKeySibling(d, ds, acts):
			r.Ok("R-C03-2", d.key+".Object", pos, "bucket-level pre-check; the per-object decision is taken by a per-key VerifyAccess loop in the same handler (R-C03-3)")
		case isObj && !hasObj:
			r.Viol("R-C03-2", d.key+".Object", pos, "object-level action "+strings.Join(acts, "|")+" decided without naming the object (decision is per bucket)")
		case hasObj && perKey != nil:
			r.Ok("R-C03-2", d.key+".Object", pos, "Object is an element of the request list decoded by "+calleeName(perKey))
		case !isObj && hasObj:
			r.Viol("R-C03-2", d.key+".Object", pos, "bucket-level action "+strings.Join(acts, "|")+" decided with an Object (policy resource kind mismatch)")
		case hasObj:
			rs := Origins(objVals[0], nil)
			keyCalls := callRootInstrs(rs, fiberCtx+".Params", "key")
			r.Check(len(keyCalls) > 0, "R-C03-2", d.key+".Object", pos, "Object originates from ctx.Params(\"key\")", "Object does not originate from ctx.Params(\"key\"): "+rootsDesc(terminalRoots(rs)))
		default:
			r.Ok("R-C03-2", d.key+".Object", pos, "bucket-level action without Object")
		}
		gbs := guarded[d.key]
		if perKey != nil {
			// a decision inside a loop cannot dominate by its success edge; it is
			// tied to the backend calls that receive the same decoded list
			for _, bc := range bcs {
				if bc.fn != d.fn || !mayPrecede(d.call, bc.call) {
					continue
				}
				for _, rt := range argRoots(bc.call) {
					if rt.Kind == "call" && rt.Call == ssa.CallInstruction(perKey) {
						gbs = append(gbs, bc)
						break
					}
				}
			}
		}
		if len(gbs) == 0 {
			r.Viol("R-C03-2", d.key+".guards", pos, "this access decision is not the guard of any backend call (dead or misplaced decision)")
			continue
		}
		for _, bc := range gbs {
			ex := handlerShort(bc.fn) + "/" + bc.method
			if _, aux := c03Aux[ex]; aux {
				continue // auxiliary read behind a stricter decision on the same bucket
			}
			row, ok := tAction[bc.method]
			k := d.key + "->" + bc.method
			if !ok || row.actions == nil {
				r.Undecided("R-C03-2", k, p.Pos(bc.call.Pos()), "backend method "+bc.method+" has no T-ACTION row")
				continue
			}
			bad := []string{}
			for _, a := range acts {
				if !contains(row.actions, a) {
					bad = append(bad, a)
				}
			}
			if len(bad) > 0 {
				r.Viol("R-C03-2", k+".Action", p.Pos(bc.call.Pos()), "decision uses action "+strings.Join(bad, "|")+" but "+bc.method+" admits only "+strings.Join(row.actions, "|")+" ("+row.why+")")
			} else {
				r.Ok("R-C03-2", k+".Action", p.Pos(bc.call.Pos()), strings.Join(acts, "|"))
			}
			if !pok || len(perms) != 1 || perms[0] != row.perm {
				r.Viol("R-C03-2", k+".AclPermission", p.Pos(bc.call.Pos()), "decision uses AclPermission "+strings.Join(perms, "|")+" but "+bc.method+" requires "+row.perm)
			} else {
				r.Ok("R-C03-2", k+".AclPermission", p.Pos(bc.call.Pos()), row.perm)
			}
			// same bucket / same key reach the backend call
			ar := argRoots(bc.call)
			bcalls := callRootInstrs(Origins(first(d.fields["Bucket"]), nil), fiberCtx+".Params", "bucket")
			same := false
			for c := range callRootInstrs(ar, fiberCtx+".Params", "bucket") {
				if bcalls[c] {
					same = true
				}
			}
			if bc.method == "PutBucketCors" {
				// the interface method takes no bucket (always answers NotImplemented)
				same = true
			}
			r.Check(same, "R-C03-2", k+".sameBucket", p.Pos(bc.call.Pos()), "decision and backend call name the same ctx.Params(\"bucket\")", "the backend call's arguments do not originate from the ctx.Params(\"bucket\") the decision was taken for")
			if d.kind == fnVerifyCopyAccess && (bc.method == "CopyObject" || bc.method == "UploadPartCopy") {
				// the source the decision was taken for is the source the backend copies from:
				// both must be the very same value chain (same header read, same decoding steps)
				da := callArgs(d.call)
				dset := chainSet(Origins(da[2], nil))
				bset := map[string]bool{}
				for _, a := range callArgs(bc.call) {
					if fs, _ := litFields(a); fs != nil {
						for _, v := range fs["CopySource"] {
							for k := range chainSet(Origins(v, nil)) {
								bset[k] = true
							}
						}
					}
				}
				same := len(dset) > 0 && len(dset) == len(bset)
				for k := range dset {
					if !bset[k] {
						same = false
					}
				}
				r.Check(same, "R-C03-2", k+".sameCopySource", p.Pos(bc.call.Pos()), "decision and backend call receive the same (equally decoded) copy source",
					"the copy source checked by VerifyObjectCopyAccess is not the value handed to the backend (different decoding/origin): decision="+setStr(dset)+" backend="+setStr(bset))
			}
			if row.object && hasObj && perKey != nil {
				r.Ok("R-C03-2", k+".sameKey", p.Pos(bc.call.Pos()), "decision and backend call take their keys from the same decoded request list")
			} else if row.object && hasObj {
				kc := callRootInstrs(Origins(objVals[0], nil), fiberCtx+".Params", "key")
				same := false
				for c := range callRootInstrs(ar, fiberCtx+".Params", "key") {
					if kc[c] {
						same = true
					}
				}
				r.Check(same, "R-C03-2", k+".sameKey", p.Pos(bc.call.Pos()), "decision and backend call name the same ctx.Params(\"key\")", "the backend call's key does not originate from the ctx.Params(\"key\") the decision was taken for")
			}
		}
	}
}

// chainSet: the identity of a value's origin chain: every call it passes through or ends in.
func chainSet(rs []Root) map[string]bool {
	out := map[string]bool{}
	for _, r := range rs {
		if (r.Kind == "via" || r.Kind == "call") && r.Call != nil {
			out[r.Desc+"@"+itoa(int(r.Call.Pos()))] = true
		}
	}
	return out
}

func setStr(m map[string]bool) string {
	var ks []string
	for k := range m {
		ks = append(ks, k[:strings.LastIndex(k, "@")])
	}
	sort.Strings(ks)
	return "{" + strings.Join(ks, ", ") + "}"
}

// isPerKeyDecision: the decision sits in a loop and its Object is an element of a
// list filled by a decoder call (xml.Unmarshal(body, &cell)); returns that call.
func isPerKeyDecision(d decision) *ssa.Call {
	ov, has := d.fields["Object"]
	if !has {
		return nil
	}
	inLoop := false
	for _, s := range d.call.Block().Succs {
		if reachable(d.fn, s, nil)[d.call.Block()] {
			inLoop = true
		}
	}
	if !inLoop {
		return nil
	}
	elem := false
	var dec *ssa.Call
	for _, rt := range Origins(ov[0], nil) {
		if rt.Kind == "elem" {
			elem = true
		}
		if rt.Kind == "call" && strings.HasSuffix(rt.Desc, "(&cell)") {
			if c, ok := rt.Call.(*ssa.Call); ok {
				dec = c
			}
		}
	}
	if !elem {
		return nil
	}
	return dec
}

func hasPerKeySibling(d decision, ds []decision, acts []string) bool {
	for _, o := range ds {
		if o.fn != d.fn || o.call == d.call || isPerKeyDecision(o) == nil {
			continue
		}
		oa, _ := constNames(nil, first(o.fields["Action"]))
		if strings.Join(oa, "|") == strings.Join(acts, "|") && mayPrecede(d.call, o.call) {
			return true
		}
	}
	return false
}

// R-C03-3: batch delete decided per key.
func c03Batch(p *Program, r *Report) {
	f := p.Func("(" + ctrlPkg + ".S3ApiController).DeleteObjects")
	var target ssa.CallInstruction
	for _, c := range callsIn(f) {
		if isBackendCall(c) && c.Common().Method.Name() == "DeleteObjects" {
			target = c
		}
	}
	if target == nil {
		broken("anchor be.DeleteObjects call not found in DeleteObjects handler")
	}
	key := fnName(f) + "/(backend.Backend).DeleteObjects#1:per-key-decision"
	// a VerifyAccess whose Object originates from an element of a ranged slice
	// (Index/Range/IndexAddr root) and whose success edge guards... a loop
	// decision cannot dominate by its success edge alone, so require: the call
	// sits in a loop (its block can reach itself), its failure edge leads only
	// to returns, and it may precede the target.
	ok := false
	for _, d := range decisions([]*ssa.Function{f}) {
		ov, has := d.fields["Object"]
		if !has {
			continue
		}
		elem := false
		for _, rt := range Origins(ov[0], nil) {
			if rt.Kind == "elem" {
				elem = true
			}
		}
		inLoop := false
		for _, s := range d.call.Block().Succs {
			if reachable(f, s, nil)[d.call.Block()] {
				inLoop = true
			}
		}
		if elem && inLoop && mayPrecede(d.call, target) && len(successEdges(d.call)) > 0 {
			ok = true
		}
	}
	r.Check(ok, "R-C03-3", key, p.Pos(target.Pos()), "per-key VerifyAccess loop precedes the batch delete",
		"be.DeleteObjects is authorised once per bucket: no VerifyAccess whose Object comes from an element of the request's key list precedes it")
}

// R-C03-4: VerifyObjectCopyAccess checks destination and source.
func c03Copy(p *Program, r *Report) {
	f := p.Func(fnVerifyCopyAccess)
	vas := callsTo(f, fnVerifyAccess)
	keys := siteKeys(f, vas)
	var dst, src ssa.CallInstruction
	optsParam := f.Params[len(f.Params)-1]
	for _, c := range vas {
		// the options: the argument (or receiver) of type AccessOptions
		var opt ssa.Value
		for _, a := range c.Common().Args {
			if nt, ok := types.Unalias(derefType(a.Type())).(*types.Named); ok && nt.Obj().Name() == "AccessOptions" {
				opt = a
			}
		}
		if opt == nil {
			continue
		}
		isParam := false
		lf, _ := litFields(opt)
		for _, rt := range terminalRoots(Origins(opt, nil)) {
			if len(lf) > 0 {
				break
			}
			if rt.Kind == "param" && rt.Val == optsParam {
				isParam = true
			}
		}
		if isParam {
			dst = c
			continue
		}
		fs, _ := litFields(opt)
		if fs == nil {
			continue
		}
		acts, _ := constNames(p, first(fs["Action"]))
		br := Origins(first(fs["Bucket"]), nil)
		or := Origins(first(fs["Object"]), nil)
		fromSrc := func(rs []Root) bool {
			for _, rt := range rs {
				if rt.Kind == "param" && rt.Desc == "copySource" {
					return true
				}
			}
			return false
		}
		if len(acts) == 1 && acts[0] == "s3:GetObject" && fromSrc(br) && fromSrc(or) {
			src = c
			// the source decision consults the SOURCE bucket's ACL and this caller
			aclOK := false
			aclDesc := "not set in the literal (inherits the destination's)"
			// the ACL may be decoded straight into the options' field: json.Unmarshal(bytes, &srcOpts.Acl)
			if _, al := litFields(opt); al != nil && len(fs["Acl"]) == 0 && al.Referrers() != nil {
				for _, ref := range *al.Referrers() {
					fa, ok := ref.(*ssa.FieldAddr)
					if !ok || fieldName(al.Type(), fa.Field) != "Acl" || fa.Referrers() == nil {
						continue
					}
					for _, use := range *fa.Referrers() {
						var call ssa.CallInstruction
						switch u := use.(type) {
						case ssa.CallInstruction:
							call = u
						case *ssa.MakeInterface:
							if u.Referrers() != nil {
								for _, u2 := range *u.Referrers() {
									if c2, ok := u2.(ssa.CallInstruction); ok {
										call = c2
									}
								}
							}
						}
						if call == nil {
							continue
						}
						aclDesc = "decoded in place by " + calleeName(call)
						for _, a := range callArgs(call) {
							for _, x := range Origins(a, nil) {
								if x.Kind == "call" && x.Desc == "(backend.Backend).GetBucketAcl" {
									for _, y := range argRoots(x.Call) {
										if y.Kind == "param" && y.Desc == "copySource" {
											aclOK = true
										}
									}
								}
							}
						}
					}
				}
			}
			if av := fs["Acl"]; len(av) == 1 {
				ars := Origins(av[0], nil)
				aclDesc = rootsDesc(terminalRoots(ars))
				for _, rt := range ars {
					if rt.Kind == "call" && strings.HasSuffix(rt.Desc, "(&cell)") {
						for _, a := range callArgs(rt.Call) {
							for _, x := range Origins(a, nil) {
								if x.Kind == "call" && x.Desc == "(backend.Backend).GetBucketAcl" {
									// looked up for the source bucket
									for _, y := range argRoots(x.Call) {
										if y.Kind == "param" && y.Desc == "copySource" {
											aclOK = true
										}
									}
								}
							}
						}
					}
				}
			}
			r.Check(aclOK, "R-C03-4", fnName(f)+"/source.Acl", p.Pos(c.Pos()), "source check uses the source bucket's ACL", "the source-side VerifyAccess does not use the ACL loaded for the source bucket: "+aclDesc)
			inheritsOpts := false
			if _, al := litFields(opt); al != nil {
				for _, st := range storesTo(al) {
					for _, rt := range terminalRoots(Origins(st.Val, nil)) {
						if rt.Kind == "param" && rt.Val == optsParam {
							inheritsOpts = true
						}
					}
				}
			}
			for _, fld := range []string{"IsRoot", "Acc"} {
				okF := false
				if fv := fs[fld]; len(fv) == 0 && inheritsOpts {
					okF = true // copied from opts as a whole
				} else if len(fv) == 1 {
					for _, rt := range Origins(fv[0], nil) {
						if rt.Kind == "field" && rt.Desc == fld {
							okF = true
						}
					}
				}
				r.Check(okF, "R-C03-4", fnName(f)+"/source."+fld, p.Pos(c.Pos()), "source check is for the same caller", "the source-side VerifyAccess does not carry opts."+fld)
			}
			pm, _ := constNames(p, first(fs["AclPermission"]))
			r.Check(len(pm) == 1 && pm[0] == "READ", "R-C03-4", fnName(f)+"/source.AclPermission", p.Pos(c.Pos()), "READ", "the source-side VerifyAccess must ask for READ")
		}
	}
	k := fnName(f)
	if dst == nil {
		r.Viol("R-C03-4", k+"/destination", p.Pos(f.Pos()), "no VerifyAccess(ctx, be, opts) call on the destination options")
	}
	if src == nil {
		r.Viol("R-C03-4", k+"/source", p.Pos(f.Pos()), "no VerifyAccess call for the copy source (Bucket/Object from copySource, Action GetObject)")
	}
	if dst == nil || src == nil {
		return
	}
	// every nil return that is not behind the root/admin shortcut passes both success edges
	ces := condEdgesOf(f)
	var shortcut []edge
	for _, ce := range ces {
		if ce.atoms["field:IsRoot"] || (ce.atoms["field:Role"] && ce.atoms[`const:"admin"`]) {
			shortcut = append(shortcut, ce.holds)
		}
	}
	for name, g := range map[string]ssa.CallInstruction{"destination": dst, "source": src} {
		cut := append(append([]edge{}, shortcut...), successEdges(g)...)
		bad := false
		for _, s := range errReturnSites(f) {
			if isNilConst(s.val) && siteReachable(f, s, cut) {
				bad = true
				if os.Getenv("VGW_DEBUG") != "" {
					pb, hb := -1, -1
					if s.pred != nil {
						pb = s.pred.Index
					}
					if s.phiB != nil {
						hb = s.phiB.Index
					}
					fmt.Fprintf(os.Stderr, "R-C03-4 %s: nil site ret@%s block %d pred %d phiB %d\n", name, p.Pos(s.ret.Pos()), s.ret.Block().Index, pb, hb)
				}
			}
		}
		r.Check(!bad, "R-C03-4", keys[g]+":"+name, p.Pos(g.Pos()), "nil return only through this check's success edge (or the root/admin shortcut)",
			"VerifyObjectCopyAccess can return nil for a non-root, non-admin caller without passing the "+name+" access check")
	}
}

// R-C03-5: VerifyAccess has no unconditional allow.
func c03Single(p *Program, r *Report) {
	f := p.Func(fnVerifyAccess)
	var cut []edge
	for _, ce := range condEdgesOf(f) {
		if ce.atoms["field:IsRoot"] && !ce.atoms["field:Readonly"] {
			cut = append(cut, ce.holds)
		}
		if ce.atoms["field:Role"] && ce.atoms[`const:"admin"`] && ce.isEqNeq {
			cut = append(cut, ce.holds)
		}
	}
	_, grant := aclVerdicts(f)
	cut = append(cut, grant...)
	n := 0
	for _, s := range errReturnSites(f) {
		k := fnName(f) + "/return#" + itoa(n)
		n++
		if isNilConst(s.val) {
			r.Check(!siteReachable(f, s, cut), "R-C03-5", k, p.Pos(s.ret.Pos()), "nil return only via root, admin or verifyACL success",
				"VerifyAccess returns nil on a path that passes none of: opts.IsRoot, Role==admin, verifyACL success (unconditional allow)")
			continue
		}
		// non-nil-constant returns must be results of calls (policy verdict, ACL verdict, errors)
		bad := ""
		for _, rt := range terminalRoots(Origins(s.val, nil)) {
			if rt.Kind != "call" {
				bad = rt.String()
			}
		}
		r.Check(bad == "", "R-C03-5", k, p.Pos(s.ret.Pos()), "returns a callee's verdict", "VerifyAccess returns a value that is not a callee's verdict: "+bad)
	}
	// the policy verdict must be computed for this request's caller/bucket/object/action
	for _, c := range callsTo(f, fnVerifyBucketPol) {
		want := []string{"", "Access", "Bucket", "Object", "Action"}
		args := callArgs(c)
		for i := 1; i < len(args) && i < len(want); i++ {
			ok := false
			for _, rt := range Origins(args[i], nil) {
				if rt.Kind == "field" && rt.Desc == want[i] {
					ok = true
				}
			}
			r.Check(ok, "R-C03-5", fnName(f)+"/VerifyBucketPolicy.arg"+itoa(i), p.Pos(c.Pos()), "argument is opts."+want[i], "VerifyBucketPolicy argument #"+itoa(i)+" is not opts."+want[i])
		}
	}
}

func itoa(i int) string { return strconv.Itoa(i) }

// R-C03-6: role gates.
func c03Roles(p *Program, r *Report) {
	tab := routeTable(p)
	const isAdmin = "s3api/middlewares.IsAdmin"
	for _, srv := range []string{"s3api.New", "s3api.NewAdminServer"} {
		flat := flattenRoutes(tab, srv)
		adminUsed := false
		n := 0
		for _, e := range flat {
			if e.Kind == "use" && contains(e.Handlers, isAdmin) && e.Pattern == "" && e.Cond == "" {
				adminUsed = true
			}
			if e.Kind != "route" {
				continue
			}
			for i, h := range e.Handlers {
				if !strings.HasPrefix(h, "("+ctrlPkg+".AdminController).") {
					continue
				}
				n++
				ok := adminUsed
				for _, prev := range e.Handlers[:i] {
					if prev == isAdmin {
						ok = true
					}
				}
				r.Check(ok, "R-C03-6", srv+":"+e.Method+" "+e.Pattern+"->"+h, p.Pos(e.Pos), "behind IsAdmin", "admin handler registered without the IsAdmin middleware ahead of it")
			}
		}
		if n < 6 {
			broken("R-C03-6: only %d admin routes found under %s (expected 6)", n, srv)
		}
	}
	// IsAdmin itself: Next() only through the Role == admin edge
	if f := p.Func("s3api/middlewares.IsAdmin$1"); f != nil {
		var cut []edge
		for _, ce := range condEdgesOf(f) {
			if ce.atoms["field:Role"] && ce.atoms[`const:"admin"`] && ce.isEqNeq {
				cut = append(cut, ce.holds)
			}
		}
		for _, c := range callsTo(f, fiberCtx+".Next") {
			r.Check(len(cut) > 0 && !reachable(f, nil, cut)[c.Block()], "R-C03-6", fnName(f)+"/Next", p.Pos(c.Pos()), "Next() only on Role == admin", "IsAdmin calls Next() on a path where the account role was not tested equal to admin")
		}
	}
	// AclParser: create-bucket Next() behind MayCreateBucket success
	acl := p.Func("s3api/middlewares.AclParser$1")
	mcb := callsTo(acl, "auth.MayCreateBucket")
	gba := []ssa.CallInstruction{}
	for _, c := range callsIn(acl) {
		if isBackendCall(c) && c.Common().Method.Name() == "GetBucketAcl" {
			gba = append(gba, c)
		}
	}
	// Next() calls: each must be (a) behind MayCreateBucket success, or (b) behind GetBucketAcl success
	// (ACL loaded for the handlers' decisions), or (c) on the frozen pass-through
	// edges: ListBuckets (GET /) and PATCH (admin API, gated by IsAdmin).
	var pass []edge
	for _, ce := range condEdgesOf(acl) {
		if ce.atoms["call:"+fiberCtx+".Method"] && (ce.atoms[`const:"PATCH"`] || ce.atoms[`const:"GET"`]) && ce.isEqNeq {
			pass = append(pass, ce.holds)
		}
	}
	nx := callsTo(acl, fiberCtx+".Next")
	keys := siteKeys(acl, nx)
	for _, c := range nx {
		var cut []edge
		cut = append(cut, pass...)
		for _, g := range append(append([]ssa.CallInstruction{}, mcb...), gba...) {
			cut = append(cut, successEdges(g)...)
		}
		ok := len(mcb) > 0 && !reachable(acl, nil, cut)[c.Block()]
		r.Check(ok, "R-C03-6", keys[c], p.Pos(c.Pos()), "Next() behind MayCreateBucket / loaded ACL / frozen pass-through", "AclParser reaches Next() without MayCreateBucket success, a loaded bucket ACL, or the GET-/ and PATCH pass-through")
	}
	// the create-bucket Next(): the one not guarded by GetBucketAcl must be guarded by MayCreateBucket alone (plus pass-through)
	for _, c := range nx {
		var cutA []edge
		cutA = append(cutA, pass...)
		for _, g := range gba {
			cutA = append(cutA, successEdges(g)...)
		}
		if !reachable(acl, nil, cutA)[c.Block()] {
			continue // behind ACL load or pass-through
		}
		var cutM []edge
		cutM = append(cutM, pass...)
		for _, g := range mcb {
			cutM = append(cutM, successEdges(g)...)
		}
		r.Check(len(mcb) > 0 && !reachable(acl, nil, cutM)[c.Block()], "R-C03-6", keys[c]+":create", p.Pos(c.Pos()), "create-bucket Next() behind MayCreateBucket", "create-bucket path reaches Next() without MayCreateBucket success")
	}
	// MayCreateBucket: nil for isRoot, otherwise only when Role != user
	mf := p.Func("auth.MayCreateBucket")
	{
		var cut []edge
		for _, ce := range condEdgesOf(mf) {
			if ce.atoms["param:isRoot"] {
				cut = append(cut, ce.holds)
			}
			if ce.atoms["field:Role"] && ce.atoms[`const:"user"`] && ce.isEqNeq {
				cut = append(cut, ce.fails)
			}
		}
		for i, s := range errReturnSites(mf) {
			if isNilConst(s.val) {
				r.Check(!siteReachable(mf, s, cut), "R-C03-6", fnName(mf)+"/return#"+itoa(i), p.Pos(s.ret.Pos()), "nil only for root or role != user", "MayCreateBucket returns nil without testing isRoot or Role != user")
			}
		}
	}
	// posix.ListBuckets: appends only behind IsAdmin or owner equality
	for _, name := range []string{"(*backend/posix.Posix).ListBuckets"} {
		f := p.Func(name)
		var cut []edge
		for _, ce := range condEdgesOf(f) {
			if ce.atoms["field:IsAdmin"] {
				cut = append(cut, ce.holds)
			}
			if ce.isEqNeq && ce.atoms["field:Owner"] && ce.binop != nil {
				xa, ya := atomsOf(ce.binop.X), atomsOf(ce.binop.Y)
				if xa["field:Owner"] && ya["field:Owner"] && (xa["param:input"] != ya["param:input"]) {
					cut = append(cut, ce.holds)
				}
			}
		}
		n := 0
		for _, c := range callsIn(f) {
			if !isBuiltinCall(c, "append") {
				continue
			}
			if !strings.Contains(typeStr(c.Value().Type()), "ListAllMyBucketsEntry") {
				continue
			}
			n++
			r.Check(len(cut) > 0 && !reachable(f, nil, cut)[c.Block()], "R-C03-6", name+"/append#"+itoa(n), p.Pos(c.Pos()), "append behind IsAdmin or acl.Owner == input.Owner", "a bucket is added to the ListBuckets result without the IsAdmin or owner-equality test")
		}
		if n == 0 {
			broken("R-C03-6: no result append found in %s", name)
		}
	}
}

var _ = sort.Strings

// isACLCheckFn: the ACL verdict, by role: a function of package auth that is given a value of type auth.ACL
// (parameter or receiver) and answers with one error or one bool (verifyACL, or whatever it is renamed or moved to).
func isACLCheckFn(g *ssa.Function) bool {
	if g == nil || g.Pkg == nil || g.Pkg.Pkg.Path() != modPath+"/auth" || g.Parent() != nil || len(g.Blocks) == 0 {
		return false
	}
	res := g.Signature.Results()
	if res.Len() != 1 {
		return false
	}
	if bt, isB := res.At(0).Type().Underlying().(*types.Basic); !isErrorType(res.At(0).Type()) && !(isB && bt.Kind() == types.Bool) {
		return false
	}
	for _, prm := range g.Params {
		if nt, ok := types.Unalias(derefType(prm.Type())).(*types.Named); ok && nt.Obj().Name() == "ACL" && nt.Obj().Pkg() == g.Pkg.Pkg {
			return true
		}
	}
	return false
}

// aclVerdicts: the calls of f to the ACL verdict and the edges on which it grants.
func aclVerdicts(f *ssa.Function) (calls []ssa.CallInstruction, grant []edge) {
	for _, c := range callsIn(f) {
		if !isACLCheckFn(c.Common().StaticCallee()) {
			continue
		}
		if _, isCall := c.(*ssa.Call); !isCall {
			continue
		}
		calls = append(calls, c)
		if isErrorType(c.Value().Type()) {
			grant = append(grant, successEdges(c)...)
		} else {
			for _, cb := range condBranches(c.Value()) {
				if cb.whenTrue {
					grant = append(grant, cb.e)
				}
			}
		}
	}
	return
}
