package main

import (
	"bufio"
	"encoding/json"
	"fmt"
	"os"
	"path/filepath"
	"sort"
	"strings"
	"time"
)

func verifDir() string {
	if d := os.Getenv("VERIF_DIR"); d != "" {
		return d
	}
	return "/verif"
}

// Oblig is one (rule, construct) obligation and its verdict.
type Oblig struct {
	Rule   string `json:"rule"`
	Key    string `json:"key"`
	Pos    string `json:"pos,omitempty"`
	Status string `json:"status"` // ok | violation | undecided | known-finding
	Detail string `json:"detail,omitempty"`
	Config string `json:"config,omitempty"`
}

type ruleInfo struct {
	id, text string
	floor    int
}

// Report collects the obligations of one property run.
type Report struct {
	Prop        string
	Tier        string
	Obligs      []Oblig
	seen        map[string]int
	rules       []*ruleInfo
	ruleIdx     map[string]*ruleInfo
	Assumptions []string
	Configs     []string
	Packages    int
	Functions   int
	Controls    []ControlResult
	start       time.Time
	cur         string // current config
}

type ControlResult struct {
	Name     string `json:"name"`
	Rule     string `json:"rule"`
	Expected string `json:"expected_key_substring"`
	Result   string `json:"result"` // fired | silent | skipped | broken
	Detail   string `json:"detail,omitempty"`
}

func NewReport(prop, tier string) *Report {
	return &Report{Prop: prop, Tier: tier, seen: map[string]int{}, ruleIdx: map[string]*ruleInfo{}, start: time.Now()}
}

// Rule declares a rule with its text and the minimum number of instances that
// must be enumerated (a rule matching fewer constructs than confirmed by hand
// fails the run instead of passing vacuously).
func (r *Report) Rule(id, text string, floor int) {
	// The floor guards against a rule that silently lost its subjects (zero or a few instances where dozens were
	// confirmed). It is set to a third of the count confirmed on the reference tree, not to the count itself:
	// merging duplicated blocks into one helper (three copies of a lock/store/parse frame into one) legitimately
	// lowers the number of sites a rule sees, and that must not fail the check.
	if floor > 1 {
		floor = (floor + 2) / 3
	}
	if ri, ok := r.ruleIdx[id]; ok {
		ri.floor = floor
		return
	}
	ri := &ruleInfo{id, text, floor}
	r.rules = append(r.rules, ri)
	r.ruleIdx[id] = ri
}

func (r *Report) add(rule, key, pos, status, detail string) {
	if _, ok := r.ruleIdx[rule]; !ok {
		broken("rule %s used without declaration", rule)
	}
	k := rule + "\x00" + key
	if i, ok := r.seen[k]; ok {
		// same construct seen in another build configuration: keep the worst verdict
		o := &r.Obligs[i]
		if rank(status) > rank(o.Status) {
			o.Status, o.Detail, o.Pos, o.Config = status, detail, pos, r.cur
		}
		return
	}
	r.seen[k] = len(r.Obligs)
	r.Obligs = append(r.Obligs, Oblig{Rule: rule, Key: key, Pos: pos, Status: status, Detail: detail, Config: r.cur})
}

func rank(s string) int {
	switch s {
	case "ok":
		return 0
	case "violation":
		return 2
	case "undecided":
		return 3
	}
	return 1
}

func (r *Report) Ok(rule, key, pos, detail string)        { r.add(rule, key, pos, "ok", detail) }
func (r *Report) Viol(rule, key, pos, detail string)      { r.add(rule, key, pos, "violation", detail) }
func (r *Report) Undecided(rule, key, pos, detail string) { r.add(rule, key, pos, "undecided", detail) }
func (r *Report) Check(cond bool, rule, key, pos, okDetail, violDetail string) {
	if cond {
		r.Ok(rule, key, pos, okDetail)
	} else {
		r.Viol(rule, key, pos, violDetail)
	}
}
func (r *Report) Assume(s string) {
	for _, a := range r.Assumptions {
		if a == s {
			return
		}
	}
	r.Assumptions = append(r.Assumptions, s)
}

type knownFinding struct {
	Property string `json:"property"`
	Rule     string `json:"rule"`
	Key      string `json:"key"`
	What     string `json:"what"`
	Evidence string `json:"evidence,omitempty"`
}

// loadKnown reads /verif/known_findings.txt: one entry per line, either
//
//	fixed: property=<id> <commit> <what failed>      (repaired defect; suppresses nothing)
//	finding: {"property":..,"rule":..,"key":..,"what":..,"evidence":..}
//
// The file is committed and never written at run time.
func loadKnown() []knownFinding {
	f, err := os.Open(filepath.Join(verifDir(), "known_findings.txt"))
	if err != nil {
		return nil
	}
	defer f.Close()
	var out []knownFinding
	sc := bufio.NewScanner(f)
	sc.Buffer(make([]byte, 1<<20), 1<<20)
	for sc.Scan() {
		line := strings.TrimSpace(sc.Text())
		if line == "" || strings.HasPrefix(line, "#") || strings.HasPrefix(line, "fixed:") {
			continue
		}
		if !strings.HasPrefix(line, "finding:") {
			broken("known_findings.txt: unrecognised line: %s", line)
		}
		var k knownFinding
		if err := json.Unmarshal([]byte(strings.TrimSpace(strings.TrimPrefix(line, "finding:"))), &k); err != nil {
			broken("known_findings.txt: %v: %s", err, line)
		}
		out = append(out, k)
	}
	return out
}

// Finish applies floors and known findings, writes evidence and returns the exit code.
func (r *Report) Finish(writeEvidence bool) int {
	// floors
	count := map[string]int{}
	for _, o := range r.Obligs {
		count[o.Rule]++
	}
	var brokenMsgs []string
	for _, ri := range r.rules {
		if count[ri.id] < ri.floor {
			brokenMsgs = append(brokenMsgs, fmt.Sprintf("rule %s enumerated %d instances, floor %d (rule would pass vacuously)", ri.id, count[ri.id], ri.floor))
		}
	}
	known := map[string]knownFinding{}
	for _, k := range loadKnown() {
		if k.Property != r.Prop {
			continue
		}
		known[k.Rule+"\x00"+k.Key] = k
	}
	nOK, nKnown, nViol, nUndec := 0, 0, 0, 0
	var viols []Oblig
	for i := range r.Obligs {
		o := &r.Obligs[i]
		switch o.Status {
		case "ok":
			nOK++
		case "violation":
			if k, ok := known[o.Rule+"\x00"+o.Key]; ok {
				o.Status = "known-finding"
				nKnown++
				fmt.Printf("KNOWN-FINDING: property=%s rule=%s key=%s at %s: %s\n", r.Prop, o.Rule, o.Key, o.Pos, k.What)
			} else {
				nViol++
				viols = append(viols, *o)
			}
		case "undecided":
			nUndec++
			brokenMsgs = append(brokenMsgs, fmt.Sprintf("undecided obligation %s %s at %s: %s", o.Rule, o.Key, o.Pos, o.Detail))
		}
	}
	wall := time.Since(r.start).Seconds()
	evdir := filepath.Join(verifDir(), "evidence")
	os.MkdirAll(evdir, 0o755)
	replay := filepath.Join(evdir, r.Prop+".violations.json")
	if writeEvidence {
		os.Remove(replay)
	}
	if nViol > 0 && writeEvidence {
		b, _ := json.MarshalIndent(map[string]any{"property": r.Prop, "violations": viols}, "", " ")
		os.WriteFile(replay, b, 0o644)
	}
	for _, v := range viols {
		fmt.Printf("violation: property=%s rule=%s key=%s at %s: %s\n", r.Prop, v.Rule, v.Key, v.Pos, v.Detail)
	}
	if writeEvidence {
		r.writeEvidence(count, nOK, nKnown, nViol, nUndec, wall, brokenMsgs)
	}
	fmt.Printf("summary: property=%s tier=%s configs=%v obligations=%d discharged=%d known_findings=%d violations=%d undecided=%d wall=%.1fs\n",
		r.Prop, r.Tier, r.Configs, len(r.Obligs), nOK, nKnown, nViol, nUndec, wall)
	if nViol > 0 {
		fmt.Printf("VIOLATION property=%s replay=%s\n", r.Prop, replay)
		return 1
	}
	if len(brokenMsgs) > 0 {
		for _, m := range brokenMsgs {
			fmt.Fprintf(os.Stderr, "BROKEN: property=%s %s\n", r.Prop, m)
		}
		return 2
	}
	for _, c := range r.Controls {
		if c.Result == "silent" || c.Result == "broken" {
			fmt.Fprintf(os.Stderr, "BROKEN: property=%s negative control %q (%s) result=%s %s\n", r.Prop, c.Name, c.Rule, c.Result, c.Detail)
			return 2
		}
	}
	return 0
}

func (r *Report) writeEvidence(count map[string]int, nOK, nKnown, nViol, nUndec int, wall float64, brokenMsgs []string) {
	type ruleOut struct {
		Rule      string `json:"rule"`
		Text      string `json:"text"`
		Instances int    `json:"instances"`
		Floor     int    `json:"floor"`
		OK        int    `json:"ok"`
		Known     int    `json:"known_findings"`
		Viol      int    `json:"violations"`
	}
	per := []ruleOut{}
	for _, ri := range r.rules {
		ro := ruleOut{Rule: ri.id, Text: ri.text, Instances: count[ri.id], Floor: ri.floor}
		for _, o := range r.Obligs {
			if o.Rule != ri.id {
				continue
			}
			switch o.Status {
			case "ok":
				ro.OK++
			case "known-finding":
				ro.Known++
			case "violation":
				ro.Viol++
			}
		}
		per = append(per, ro)
	}
	// samples: up to 3 obligations per rule, written out, plus every non-ok one
	var samples []Oblig
	perRule := map[string]int{}
	for _, o := range r.Obligs {
		if o.Status != "ok" || perRule[o.Rule] < 3 {
			samples = append(samples, o)
			perRule[o.Rule]++
		}
		if len(samples) >= 80 {
			break
		}
	}
	distinct := map[string]bool{}
	for _, o := range r.Obligs {
		distinct[o.Rule+"|"+o.Key] = true
	}
	seed := 0
	fmt.Sscan(os.Getenv("VERIF_SEED"), &seed)
	sort.Strings(r.Configs)
	expl := fmt.Sprintf("Static analysis of /repo's working tree (go/packages type-checked AST + go/ssa, no execution). "+
		"%d rules evaluated over %d packages / %d functions in build configurations %v; every construct matching a rule's scope was enumerated as an obligation (rule x construct). "+
		"Decides structural necessary conditions of %s only (see rules[].text and DESIGN.md); the behaviour over runtime inputs/schedules is not decided.",
		len(r.rules), r.Packages, r.Functions, r.Configs, r.Prop)
	ev := map[string]any{
		"property_id": r.Prop,
		"tier":        r.Tier,
		"seed":        seed,
		"level":       "other",
		"coverage": map[string]any{
			"explanation":         expl,
			"obligations":         len(r.Obligs),
			"discharged":          nOK,
			"known_findings":      nKnown,
			"violations":          nViol,
			"undecided":           nUndec,
			"evaluations":         len(r.Obligs),
			"distinct_nontrivial": len(distinct),
			"rule":                "one obligation per (rule, construct): call site, function, literal or table row found in the resolved program; distinct = distinct (rule,key) pairs; all are non-trivial in that each is a place where an edit can break the rule",
			"exhaustive":          true,
			"rules":               per,
			"samples":             samples,
			"packages":            r.Packages,
			"functions":           r.Functions,
			"configs":             r.Configs,
			"negative_controls":   r.Controls,
			"machinery_failures":  brokenMsgs,
			"checker_cmd":         strings.Join(os.Args, " "),
		},
		"assumptions": append([]string{"go/types and go/ssa (x/tools v0.29.0) represent the program faithfully", "dependencies (fiber, fasthttp, SDKs, stdlib) behave as documented"}, r.Assumptions...),
		"wall_s":      wall,
		"violations":  nViol,
	}
	b, _ := json.MarshalIndent(ev, "", " ")
	if err := os.WriteFile(filepath.Join(verifDir(), "evidence", r.Prop+".json"), b, 0o644); err != nil {
		broken("write evidence: %v", err)
	}
}
