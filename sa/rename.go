package main

// Rename tracking. The rules name functions of the gateway. When a name the rules use no longer resolves, the
// function may have been renamed, moved between a method and a plain function, or had its receiver type renamed —
// edits that change no behaviour. Before anything else is analysed, each missing anchor is looked for among the
// functions of the same package that did not exist on the reference tree, by what the function is made of:
// its result and parameter types and the set of functions it calls (fingerprints of the reference tree are in
// anchors_ref.json, produced by `vgwsa anchors -ref`). A unique, sufficiently similar candidate takes the
// anchor's place: fnName reports it under the reference name, so every rule, key and call-site match works
// unchanged. The table is only ever used to locate a subject, never to report; an anchor that cannot be located
// remains a machinery failure.

import (
	_ "embed"
	"encoding/json"
	"fmt"
	"go/types"
	"os"
	"sort"
	"strings"
	"sync"

	"golang.org/x/tools/go/ssa"
)

//go:embed anchors_ref.json
var anchorsRefJSON []byte

type refFn struct {
	Name    string   `json:"name"`
	Pkg     string   `json:"pkg"`
	Recv    string   `json:"recv"`
	Params  []string `json:"params"`
	Results []string `json:"results"`
	Callees []string `json:"callees"`
	PNames  []string `json:"pnames"` // names of the SSA parameters (receiver first)
	PTypes  []string `json:"ptypes"`
	Forward bool     `json:"forward,omitempty"` // a thin forwarder on the reference tree already
}

type refVar struct {
	Type string   `json:"type"`
	Keys []string `json:"keys"`
}

type refField struct {
	Name string `json:"name"`
	Type string `json:"type"`
}

type refTable struct {
	Anchors []refFn                      `json:"anchors"`
	All     map[string][]string          `json:"all"`     // package -> names of its top-level functions and methods
	Structs map[string][]refField        `json:"structs"` // "pkg.Type" -> fields in order
	Consts  map[string]map[string]string `json:"consts"`  // package -> string constant -> value
	Vars    map[string]map[string]refVar `json:"vars"`    // package -> table variable -> type and constant keys
	byName  map[string]*refFn
}

var (
	refTabOnce sync.Once
	refTab     refTable
)

func theRefTable() *refTable {
	refTabOnce.Do(func() {
		if len(anchorsRefJSON) > 0 {
			if err := json.Unmarshal(anchorsRefJSON, &refTab); err != nil {
				broken("anchors_ref.json: %v", err)
			}
		}
		refTab.byName = map[string]*refFn{}
		for i := range refTab.Anchors {
			refTab.byName[refTab.Anchors[i].Name] = &refTab.Anchors[i]
		}
	})
	return &refTab
}

func shortType(t types.Type) string {
	return strings.ReplaceAll(types.TypeString(t, nil), modPath+"/", "")
}

// refParamName: the name a parameter had on the reference tree, when its function is known there with the same
// parameter types in the same order (a renamed parameter is the same parameter); otherwise its own name.
func refParamName(prm *ssa.Parameter) string {
	f := prm.Parent()
	if f == nil || os.Getenv("VGW_NORENAME") != "" {
		return prm.Name()
	}
	ref := theRefTable().byName[fnName(f)]
	if ref == nil || len(ref.PNames) != len(f.Params) {
		return prm.Name()
	}
	idx := -1
	for i, q := range f.Params {
		if shortType(q.Type()) != ref.PTypes[i] {
			return prm.Name()
		}
		if q == prm {
			idx = i
		}
	}
	if idx < 0 {
		return prm.Name()
	}
	return ref.PNames[idx]
}

// refFieldName: the name field i of a struct type had on the reference tree, when the type is known there with
// the same field types in the same order; a field whose type is unique in both versions is also recognised when
// fields were added or reordered. Otherwise its own name.
func refFieldName(named *types.Named, st *types.Struct, i int) string {
	own := st.Field(i).Name()
	if os.Getenv("VGW_NORENAME") != "" || named.Obj().Pkg() == nil || !strings.HasPrefix(named.Obj().Pkg().Path(), modPath) {
		return own
	}
	ref, ok := theRefTable().Structs[short(named.Obj().Pkg().Path())+"."+named.Obj().Name()]
	if !ok {
		return own
	}
	if len(ref) == st.NumFields() {
		same := true
		for j := range ref {
			if shortType(st.Field(j).Type()) != ref[j].Type {
				same = false
			}
		}
		if same {
			return ref[i].Name
		}
	}
	for _, rf := range ref {
		if rf.Name == own {
			return own // still there under its name
		}
	}
	// a new name: the reference field of the same type, if that type is unique on both sides and the reference
	// name is gone
	ft := shortType(st.Field(i).Type())
	nCur, nRef, refName := 0, 0, ""
	for j := 0; j < st.NumFields(); j++ {
		if shortType(st.Field(j).Type()) == ft {
			nCur++
		}
	}
	for _, rf := range ref {
		if rf.Type == ft {
			nRef++
			refName = rf.Name
		}
	}
	if nCur == 1 && nRef == 1 {
		for j := 0; j < st.NumFields(); j++ {
			if st.Field(j).Name() == refName {
				return own
			}
		}
		return refName
	}
	return own
}

var renamedFns sync.Map // *ssa.Function -> reference name

func typeStrings(tup *types.Tuple) []string {
	var out []string
	for i := 0; i < tup.Len(); i++ {
		out = append(out, strings.ReplaceAll(types.TypeString(tup.At(i).Type(), nil), modPath+"/", ""))
	}
	return out
}

func fingerprint(f *ssa.Function, pkg string) refFn {
	r := refFn{Name: fnName(f), Pkg: pkg}
	if rv := f.Signature.Recv(); rv != nil {
		r.Recv = strings.ReplaceAll(types.TypeString(rv.Type(), nil), modPath+"/", "")
	}
	for _, q := range f.Params {
		r.PNames = append(r.PNames, q.Name())
		r.PTypes = append(r.PTypes, shortType(q.Type()))
	}
	r.Forward = thinForwardTarget(f) != nil
	r.Params = typeStrings(f.Signature.Params())
	r.Results = typeStrings(f.Signature.Results())
	// the functions it calls, looking through helpers of its own package (their names come and go with
	// extract/inline refactorings; what they call does not)
	seen := map[string]bool{}
	visited := map[*ssa.Function]bool{}
	var visit func(g *ssa.Function, depth int)
	visit = func(g *ssa.Function, depth int) {
		if visited[g] {
			return
		}
		visited[g] = true
		for _, b := range g.Blocks {
			for _, in := range b.Instrs {
				c, ok := in.(ssa.CallInstruction)
				if !ok {
					continue
				}
				if _, isB := c.Common().Value.(*ssa.Builtin); isB {
					continue
				}
				if h := c.Common().StaticCallee(); h != nil && h.Pkg != nil && h.Pkg == f.Pkg && len(h.Blocks) > 0 && depth < 3 {
					visit(h, depth+1)
					continue
				}
				n := calleeName(c)
				if n != "" && !seen[n] {
					seen[n] = true
					r.Callees = append(r.Callees, n)
				}
			}
		}
		for _, a := range g.AnonFuncs {
			visit(a, depth)
		}
	}
	visit(f, 0)
	sort.Strings(r.Callees)
	return r
}

func bareName(n string) string {
	if i := strings.LastIndex(n, "."); i >= 0 {
		return n[i+1:]
	}
	return n
}

func sameStrings(a, b []string) bool {
	if len(a) != len(b) {
		return false
	}
	for i := range a {
		if a[i] != b[i] {
			return false
		}
	}
	return true
}

func subMultiset(a, b []string) bool { // a within b
	cnt := map[string]int{}
	for _, x := range b {
		cnt[x]++
	}
	for _, x := range a {
		cnt[x]--
		if cnt[x] < 0 {
			return false
		}
	}
	return true
}

func similarity(ref, c refFn) float64 {
	s := 0.0
	if bareName(ref.Name) == bareName(c.Name) {
		s += 3
	}
	if ref.Recv != "" && ref.Recv == c.Recv {
		s += 3
	}
	if sameStrings(ref.Results, c.Results) {
		s += 1
	}
	if sameStrings(ref.Params, c.Params) {
		s += 1
	} else if subMultiset(ref.Params, c.Params) {
		s += 0.5
	}
	inter, union := 0, map[string]bool{}
	rs := map[string]bool{}
	for _, x := range ref.Callees {
		rs[x] = true
		union[x] = true
	}
	for _, x := range c.Callees {
		if rs[x] {
			inter++
		}
		union[x] = true
	}
	jac := 0.0
	if len(union) > 0 {
		jac = float64(inter) / float64(len(union))
		s += 4 * jac
	} else {
		s += 2 // both call nothing
	}
	// a different name needs evidence in what the function does, not only in its shape
	if bareName(ref.Name) != bareName(c.Name) && len(union) > 0 && jac < 0.4 {
		return 0
	}
	return s
}

// resolveRenames runs before normalisation (a renamed helper must not be inlined away as "nobody names it").
func resolveRenames(p *Program) {
	if os.Getenv("VGW_NORENAME") != "" || len(anchorsRefJSON) == 0 {
		return
	}
	tab := theRefTable()
	// all (missing anchor, new function) pairs, best first: an anchor takes the candidate most similar to it that
	// no better-matching anchor has taken, if it is clearly better than that anchor's next free choice
	type pair struct {
		ref *refFn
		fn  *ssa.Function
		sc  float64
	}
	var pairs []pair
	for i := range tab.Anchors {
		ref := &tab.Anchors[i]
		if p.fnIndex[ref.Name] != nil {
			continue
		}
		sp := p.SSAPkg[ref.Pkg]
		if sp == nil {
			continue
		}
		known := map[string]bool{}
		for _, n := range tab.All[ref.Pkg] {
			known[n] = true
		}
		for _, f := range pkgFuncs(p.SSA, sp) {
			if f.Parent() != nil || f.Synthetic != "" || known[fnName(f)] {
				continue // closures; or it was there under this name already: not the missing one
			}
			sc := similarity(*ref, fingerprint(f, ref.Pkg))
			if sc >= 3.0 {
				pairs = append(pairs, pair{ref, f, sc})
			} else if sc >= 1.5 && os.Getenv("VGW_DEBUG") != "" {
				fmt.Fprintf(os.Stderr, "rename: %s ~ %s only %.1f\n", ref.Name, fnName(f), sc)
			}
		}
	}
	sort.SliceStable(pairs, func(i, j int) bool {
		if pairs[i].sc != pairs[j].sc {
			return pairs[i].sc > pairs[j].sc
		}
		if pairs[i].ref.Name != pairs[j].ref.Name {
			return pairs[i].ref.Name < pairs[j].ref.Name
		}
		return fnName(pairs[i].fn) < fnName(pairs[j].fn)
	})
	taken := map[*ssa.Function]bool{}
	done := map[*refFn]bool{}
	for i, pr := range pairs {
		if done[pr.ref] || taken[pr.fn] {
			continue
		}
		// the anchor's next free choice
		next := 0.0
		for _, q := range pairs[i+1:] {
			if q.ref == pr.ref && !taken[q.fn] {
				next = q.sc
				break
			}
		}
		done[pr.ref] = true
		if pr.sc-next < 1.0 {
			if os.Getenv("VGW_DEBUG") != "" {
				fmt.Fprintf(os.Stderr, "rename: %s ambiguous (%.1f vs %.1f)\n", pr.ref.Name, pr.sc, next)
			}
			continue
		}
		best, ref := pr.fn, pr.ref
		taken[best] = true
		was := fnName(best)
		renamedFns.Store(best, ref.Name)
		p.renamed = append(p.renamed, best)
		p.Renames = append(p.Renames, fmt.Sprintf("%s is taken to be %s of the reference tree (similarity %.1f, next %.1f)", was, ref.Name, pr.sc, next))
		var reindex func(g *ssa.Function)
		reindex = func(g *ssa.Function) {
			p.fnIndex[fnName(g)] = g
			for _, a := range g.AnonFuncs {
				reindex(a)
			}
		}
		reindex(best)
	}
	resolveForwarders(p)
	for _, n := range p.Renames {
		fmt.Fprintln(os.Stderr, "note: anchor relocated: "+n)
	}
}

// thinForwardTarget: f does nothing but hand (some of) its parameters to one function of its own package and
// return what that returns: the function that does the work.
func thinForwardTarget(f *ssa.Function) *ssa.Function {
	if f == nil || len(f.Blocks) != 1 || f.Parent() != nil {
		return nil
	}
	var call *ssa.Call
	for _, in := range f.Blocks[0].Instrs {
		switch x := in.(type) {
		case *ssa.Call:
			if call != nil {
				return nil
			}
			call = x
		case *ssa.Return:
			if call == nil {
				return nil
			}
			for _, rv := range x.Results {
				if rv == ssa.Value(call) {
					continue
				}
				if ex, ok := rv.(*ssa.Extract); ok && ex.Tuple == ssa.Value(call) {
					continue
				}
				return nil
			}
		case *ssa.Extract, *ssa.UnOp, *ssa.FieldAddr, *ssa.Field, *ssa.Alloc, *ssa.Store, *ssa.DebugRef, *ssa.MakeInterface, *ssa.ChangeType:
		default:
			return nil
		}
	}
	if call == nil {
		return nil
	}
	g := call.Call.StaticCallee()
	if g == nil || g.Pkg != f.Pkg || len(g.Blocks) == 0 || g == f || g.Synthetic != "" {
		return nil
	}
	return g
}

// resolveForwarders: a function the rules name that has become a thin forwarder (the body moved into a method or
// a helper that the old entry point now just calls) is represented by the function that does the work: it
// answers to the entry point's name (so calls to either are calls to "it"), and p.Func of the name yields it.
func resolveForwarders(p *Program) {
	tab := theRefTable()
	for i := range tab.Anchors {
		name := tab.Anchors[i].Name
		f := p.fnIndex[name]
		if f == nil {
			continue
		}
		if _, moved := renamedFns.Load(f); moved {
			continue
		}
		g := thinForwardTarget(f)
		if g == nil {
			continue
		}
		// only when the reference function was not a forwarder itself
		if tab.Anchors[i].Forward {
			continue
		}
		if _, taken := renamedFns.Load(g); taken || tab.byName[fnName(g)] != nil {
			continue
		}
		was := fnName(g)
		renamedFns.Store(g, name)
		p.renamed = append(p.renamed, g)
		p.fnIndex[name] = g
		p.forwarders = append(p.forwarders, f)
		p.Renames = append(p.Renames, fmt.Sprintf("%s only forwards to %s, which is taken to be %s of the reference tree", name, was, name))
	}
}

// releaseProgram drops the registries' references to a program that is no longer needed.
func releaseProgram(p *Program) {
	programs.Delete(p.SSA)
	for _, f := range p.renamed {
		renamedFns.Delete(f)
	}
}

// writeAnchorRef prints the reference table for the loaded (reference) tree.
func writeAnchorRef(p *Program) {
	tab := refTable{All: map[string][]string{}, Structs: map[string][]refField{}, Consts: map[string]map[string]string{}, Vars: map[string]map[string]refVar{}}
	for pk, pkg := range p.ByPath {
		if strings.Contains(pk, "tests") {
			continue
		}
		tab.Consts[pk] = map[string]string{}
		sc := pkg.Types.Scope()
		for _, n := range sc.Names() {
			if c, ok := sc.Lookup(n).(*types.Const); ok {
				if bt, isB := c.Type().Underlying().(*types.Basic); isB && bt.Info()&types.IsString != 0 {
					tab.Consts[pk][n] = strings.Trim(c.Val().ExactString(), `"`)
				}
			}
		}
		tab.Vars[pk] = map[string]refVar{}
		for n, lv := range pkgLitVars(p, pk) {
			var ks []string
			for k := range lv.keys {
				ks = append(ks, k)
			}
			sort.Strings(ks)
			tab.Vars[pk][n] = refVar{lv.typ, ks}
		}
	}
	for pk, sp := range p.SSAPkg {
		if strings.Contains(pk, "tests") {
			continue
		}
		for _, m := range sp.Members {
			if tn, ok := m.(*ssa.Type); ok {
				if st, ok := tn.Type().Underlying().(*types.Struct); ok {
					var fs []refField
					for i := 0; i < st.NumFields(); i++ {
						fs = append(fs, refField{st.Field(i).Name(), shortType(st.Field(i).Type())})
					}
					tab.Structs[pk+"."+tn.Name()] = fs
				}
			}
		}
		for _, f := range pkgFuncs(p.SSA, sp) {
			if f.Parent() != nil || f.Synthetic != "" {
				continue
			}
			tab.All[pk] = append(tab.All[pk], fnName(f))
			if isAnchored(f) {
				tab.Anchors = append(tab.Anchors, fingerprint(f, pk))
			}
		}
		sort.Strings(tab.All[pk])
	}
	sort.Slice(tab.Anchors, func(i, j int) bool { return tab.Anchors[i].Name < tab.Anchors[j].Name })
	b, _ := json.MarshalIndent(tab, "", " ")
	os.Stdout.Write(b)
	os.Stdout.WriteString("\n")
}

// refFreeVarName: a captured parameter of an enclosing function answers to that parameter's reference name.
func refFreeVarName(fv *ssa.FreeVar) string {
	for par := fv.Parent(); par != nil; par = par.Parent() {
		if par == fv.Parent() {
			continue
		}
		for _, q := range par.Params {
			if q.Name() == fv.Name() {
				return refParamName(q)
			}
		}
	}
	return fv.Name()
}
