// vgwsa: repository-specific static checks for versitygw (see /verif/DESIGN.md).
package main

import (
	"flag"
	"fmt"
	"go/token"
	"os"
	"runtime/debug"
	"sort"
	"strings"
)

// A propCheck evaluates all rules of one property on one loaded configuration.
type propCheck struct {
	id string
	// configs for the thorough tier in addition to linux/amd64
	extraConfigs [][2]string
	run          func(p *Program, r *Report)
	controls     func() []Control
}

var registry = map[string]*propCheck{}

func register(pc *propCheck) { registry[pc.id] = pc }

func main() {
	if len(os.Args) < 2 {
		usage()
	}
	switch os.Args[1] {
	case "check":
		fs := flag.NewFlagSet("check", flag.ExitOnError)
		prop := fs.String("prop", "", "property id (C01..C20)")
		tier := fs.String("tier", "", "quick|thorough")
		noev := fs.Bool("no-evidence", false, "do not write evidence files")
		fs.Parse(os.Args[2:])
		if *tier == "" {
			*tier = os.Getenv("VERIF_TIER")
		}
		if *tier != "thorough" {
			*tier = "quick"
		}
		props := strings.Split(*prop, ",")
		if *prop == "all" {
			props = nil
			for id := range registry {
				props = append(props, id)
			}
			sort.Strings(props)
		}
		os.Exit(runChecks(props, *tier, !*noev))
	case "selftest":
		fs := flag.NewFlagSet("selftest", flag.ExitOnError)
		prop := fs.String("prop", "all", "property id")
		fs.Parse(os.Args[2:])
		os.Exit(runSelftest(*prop))
	case "anchors":
		// list the functions of the module that the rules refer to by name (never inlined)
		p := LoadProgram(repoDir(), nil, "linux", "amd64")
		if len(os.Args) > 2 && os.Args[2] == "-ref" {
			writeAnchorRef(p)
			return
		}
		var names []string
		for pk, sp := range p.SSAPkg {
			if strings.Contains(pk, "/tests/") || strings.HasSuffix(pk, "/tests") {
				continue
			}
			for _, f := range pkgFuncs(p.SSA, sp) {
				if f.Parent() == nil && f.Synthetic == "" && isAnchored(f) {
					ex := "exported"
					if !token.IsExported(f.Name()) {
						ex = "unexported"
					}
					names = append(names, ex+" "+fnName(f))
				}
			}
		}
		sort.Strings(names)
		for _, n := range names {
			fmt.Println(n)
		}
	case "replay":
		// re-run a property and print the violations file it produces
		fs := flag.NewFlagSet("replay", flag.ExitOnError)
		prop := fs.String("prop", "", "property id")
		fs.Parse(os.Args[2:])
		code := runChecks([]string{*prop}, "quick", false)
		os.Exit(code)
	default:
		usage()
	}
}

func usage() {
	fmt.Fprintln(os.Stderr, "usage: vgwsa check -prop Cxx[,Cyy|all] [-tier quick|thorough] | selftest [-prop Cxx] | replay -prop Cxx")
	os.Exit(2)
}

// extraRules: rules added after the first pass, evaluated together with the property's own run.
var extraRules = map[string][]func(p *Program, r *Report){}

func runProp(id string, p *Program, r *Report) {
	registry[id].run(p, r)
	for _, f := range extraRules[id] {
		f(p, r)
	}
}

func runChecks(props []string, tier string, writeEv bool) (code int) {
	for _, id := range props {
		if registry[id] == nil {
			fmt.Fprintf(os.Stderr, "BROKEN: unknown property %q\n", id)
			return 2
		}
	}
	reports := map[string]*Report{}
	for _, id := range props {
		reports[id] = NewReport(id, tier)
	}
	defer func() {
		if e := recover(); e != nil {
			if be, ok := e.(brokenError); ok {
				fmt.Fprintf(os.Stderr, "BROKEN: %s\n", be.msg)
			} else {
				fmt.Fprintf(os.Stderr, "BROKEN: checker panic: %v\n%s\n", e, debug.Stack())
			}
			code = 2
		}
	}()
	// configurations: quick = linux/amd64; thorough adds per-property extras
	cfgs := [][2]string{{"linux", "amd64"}}
	if tier == "thorough" {
		seen := map[[2]string]bool{cfgs[0]: true}
		for _, id := range props {
			for _, c := range registry[id].extraConfigs {
				if !seen[c] {
					seen[c] = true
					cfgs = append(cfgs, c)
				}
			}
		}
	}
	for _, c := range cfgs {
		p := LoadProgram(repoDir(), nil, c[0], c[1])
		for _, id := range props {
			pc := registry[id]
			if c != cfgs[0] {
				want := false
				for _, e := range pc.extraConfigs {
					if e == c {
						want = true
					}
				}
				if !want {
					continue
				}
			}
			r := reports[id]
			r.cur = p.Config
			r.Configs = append(r.Configs, p.Config)
			r.Packages = len(p.Pkgs)
			r.Functions = p.NFuncs
			runProp(id, p, r)
		}
		releaseProgram(p)
		p = nil
		debug.FreeOSMemory()
	}
	if tier == "thorough" {
		for _, id := range props {
			if len(controlsOf(id)) > 0 {
				reports[id].Controls = runControls(id, controlsOf(id))
			}
		}
	}
	worst := 0
	for _, id := range props {
		c := reports[id].Finish(writeEv)
		// a violation outranks a machinery failure in the exit code only for that
		// property; across properties report 1 if any violated, else 2 if any broken
		if c == 1 {
			worst = 1
		} else if c == 2 && worst == 0 {
			worst = 2
		}
	}
	return worst
}
